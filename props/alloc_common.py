"""shared by C01, C02, C07, C11: allocator harness TestVerifAlloc + Model/Alloc.v"""
import json

CLOSURE = ["Model/Net.v", "Model/Alloc.v", "Proofs/NetP.v"]
COQ_FILES = ["Corr/Run_Alloc.v"]


PROBE, NOPROBE = "zz_verif_alloc_probe_test.go", "zz_verif_alloc_noprobe_test.go"


def go_alloc_harness(ctx, files, run, **kw):
    """ctx.go_harness for internal/allocator.  The reservation probe (PROBE) is the only harness file that
    names unexported identifiers (checkSharing, key); when exactly that file does not build against the tree
    under test, the run is repeated with the stand-in NOPROBE: no white-box probes, everything else unchanged."""
    nb = len(ctx.corr_broken)
    recs, ok, log = ctx.go_harness("internal/allocator", list(files) + [PROBE], run, **kw)
    if not ok and "[build failed]" in log and PROBE in log and not any(
            f in log for f in files if f.endswith(".go")):
        del ctx.corr_broken[nb:]
        recs, ok, log = ctx.go_harness("internal/allocator", list(files) + [NOPROBE], run, **kw)
        ctx.cov.setdefault("whitebox_skipped", [])
        if "checkSharing" not in ctx.cov["whitebox_skipped"]:
            ctx.cov["whitebox_skipped"].append("checkSharing")
    return recs, ok, log


def run_alloc(ctx, sigs, n_quick=100, n_thorough=2500):
    """runs the allocator harness + correspondence; returns (cases, stats, mism)"""
    n = n_quick if ctx.tier == "quick" else n_thorough
    state = {"stats": {}}

    def harness(n, seed, tag):
        recs, ok, log = go_alloc_harness(ctx, ["zz_verif_alloc_test.go"], "TestVerifAlloc$", n=n, seed=seed, tag=tag)
        cases = [r for r in recs if r.get("t") == "case"]
        for r in recs:
            if r.get("t") == "fail" and (sigs is None or r.get("sig") in sigs):
                ctx.oracle_fail(r["sig"], r.get("what", ""), r.get("replay"))
            elif r.get("t") == "stat":
                state["stats"][r["k"]] = state["stats"].get(r["k"], 0) + r["v"]
        if not ok and not any("does not build" in c for c in ctx.corr_broken):
            ctx.corr_broken.append("harness TestVerifAlloc failed: " + log[-1500:])
        return cases

    cases = harness(n, ctx.seed, "alloc")
    mism = []
    if cases:
        mism = ctx.coq_cases("Run_Alloc", "acase", [c["coq"] for c in cases], shard=max(8, len(cases) // 16 + 1))
        byid = {c["id"]: c for c in cases}
        for m in mism[:3]:
            ctx.corr_broken.append("model Alloc.step and the real Allocator disagree on history %d (%s): %s" %
                                   (m, byid.get(m, {}).get("kind"), json.dumps(byid.get(m, {}).get("in"))[:1500]))
    st = state["stats"]
    for k in ("op_allocate", "op_assign", "op_setpools", "res_error", "res_ok", "shared_address_pairs", "allocate_failed", "released_addresses"):
        if cases and st.get(k, 0) == 0:
            raise Exception("generator degenerate: counter %s is zero: %r" % (k, st))

    def search():
        for k in range(3):
            harness(n * 4, ctx.seed * 1000 + k + 11, "s%d" % k)
            if ctx.violations:
                return

    return cases, st, mism, search
