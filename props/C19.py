"""C19 FRR reload delivery: Model/Debounce.v + trace validation of the two real debouncers."""
import json

CLOSURE = ["Model/Debounce.v", "Proofs/DebounceP.v", "Model/FrrMgr.v", "Proofs/FrrMgrP.v", "Proofs/FrrMgrDebP.v"]
COQ_FILES = ["Corr/Run_Debounce.v"]
FRR_PKG = "internal/bgp/frr"
# the package's own tests have a TestMain that needs Docker: deleted in the overlay
FRR_OWN_TESTS = ["debounce_test.go", "docker_test.go", "frr_bfd_test.go", "frr_test.go", "frr_vrf_test.go", "parse_test.go"]


def frr_overlay(ctx):
    import os, glob
    ov = {}
    for f in glob.glob(os.path.join(ctx.repo, FRR_PKG, "*_test.go")):
        b = os.path.basename(f)
        if not b.startswith("zz_verif"):
            ov[FRR_PKG + "/" + b] = ""
    return ov


def run(ctx):
    propfile = "Properties/C19.v"
    ok = ctx.coq_build([propfile] + COQ_FILES)
    ctx.coq_theorems(propfile, CLOSURE)
    quick = ctx.tier == "quick"
    n_frr = 48 if quick else 600
    n_k8s = 40 if quick else 500
    state = {"stats": {}}

    def take(recs, okrun, log, what):
        cases = [r for r in recs if r.get("t") == "case"]
        for r in recs:
            if r.get("t") == "fail":
                ctx.oracle_fail(r.get("sig", "?"), r.get("what", ""), r.get("replay"))
            elif r.get("t") == "stat":
                state["stats"][r["k"]] = state["stats"].get(r["k"], 0) + r["v"]
        if not okrun and not any("does not build" in c for c in ctx.corr_broken):
            ctx.corr_broken.append("harness %s failed: %s" % (what, log[-1500:]))
        return cases

    def harness(nf, nk, seed, tag):
        recs, okrun, log = ctx.go_harness(FRR_PKG, ["zz_verif_deb_test.go"], "TestVerifDeb$", n=nf, seed=seed,
                                          tag=tag + "f", extra_overlay=frr_overlay(ctx))
        cs = take(recs, okrun, log, "TestVerifDeb")
        # real sessionManager -> real debouncer -> real generateAndReloadConfigFile -> scripted reload signal
        recs, okrun, log = ctx.go_harness(FRR_PKG, ["zz_verif_debmgr_test.go", "zz_verif_debmgrreal_test.go", "zz_verif_debreloader_test.go", "zz_verif_deb_test.go", "zz_verif_gen_test.go"],
                                          "TestVerifDeb(Mgr|MgrReal|Reloader)$",
                                          n=(10 if quick else 80), seed=seed, tag=tag + "m", extra_overlay=frr_overlay(ctx))
        take(recs, okrun, log, "TestVerifDebMgr/TestVerifDebReloader")
        recs, okrun, log = ctx.go_harness("internal/k8s/controllers", ["zz_verif_deb_test.go"], "TestVerifKDeb$", n=nk,
                                          seed=seed, tag=tag + "k")
        cs += take(recs, okrun, log, "TestVerifKDeb")
        # UpdateConfig -> debouncer -> late / busy consumer -> real Reconcile against a fake API server
        # ... and the same path fed by the REAL frr-k8s session manager (info and debug level, plain-text passwords, a
        # steady stream of Sets): harness/internal/k8s/controllers/zz_verif_k8srec_test.go TestVerifK8sRecDeliver, which
        # needs the shared session generator and projection (package clause rewritten, as in props/C15.py)
        import os
        ov = {}
        gdir = os.path.join(os.path.dirname(os.path.abspath(__file__)), "..", "harness", "internal", "bgp")
        for src, name in ((os.path.join(gdir, "frr", "zz_verif_gen_test.go"), "zz_verif_gen_test.go"),
                          (os.path.join(gdir, "frrk8s", "zz_verif_kproj_test.go"), "zz_verif_kproj_test.go")):
            txt = open(src).read().replace("\npackage frr\n", "\npackage controllers\n", 1)
            dst = os.path.join(ctx.work, "ctl19_" + name)
            open(dst, "w").write(txt)
            ov["internal/k8s/controllers/" + name] = dst
        recs, okrun, log = ctx.go_harness("internal/k8s/controllers", ["zz_verif_deb_test.go", "zz_verif_k8srec_test.go"],
                                          "TestVerif(KDeliver|K8sRecDeliver)$",
                                          n=(24 if quick else 200), seed=seed, tag=tag + "d", extra_overlay=ov)
        take(recs, okrun, log, "TestVerifKDeliver/TestVerifK8sRecDeliver")
        return cs

    cases = harness(n_frr, n_k8s, ctx.seed, "h")
    mism = []
    if cases and ok:
        mism = ctx.coq_cases("Run_Debounce", "dcase", [c["coq"] for c in cases], shard=100)
        byid = {c["id"]: c for c in cases}
        for m in mism[:5]:
            c = byid.get(m, {})
            ctx.corr_broken.append("observed trace is not a trace of Model/Debounce.v (case %d, %s): %s" %
                                   (m, c.get("kind"), json.dumps((c.get("in") or {}).get("trace", c.get("in")))[:900]))
    st = state["stats"]
    if cases and not ctx.corr_broken and not ctx.violations:
        for k in ("failed_calls", "reapply_events", "traces_with_coalescing", "burst_checked", "ktraces_with_coalescing",
                  "real_body_scenarios", "real_reload_signal_failures",
                  "deliver_schedules", "deliver_ends_with_shrink", "deliver_consumer_starts_after_first_timer", "deliver_applied_config_resubmitted_while_other_pending", "stream_scenarios", "stream_submissions_while_retry_pending", "kstream_scenarios", "mgrreal_rounds", "mgrreal_reload_in_progress_failed", "deliver_runs", "deliver_stream_runs", "deliver_debug_level_with_password", "deliver_extra_reconciles", "reloader_rounds", "mgr_histories", "mgr_stepwise_histories", "mgr_bfd_syncs_same_size", "mgr_reload_signal_failures"):
            if st.get(k, 0) == 0:
                raise Exception("generator degenerate: counter %s is zero: %r" % (k, st))

    def search():
        for k in range(3):
            harness(n_frr * 3, n_k8s * 3, ctx.seed * 1000 + k + 7, "s%d" % k)
            if ctx.violations:
                return

    def shape(c):
        tr = (c.get("in") or {}).get("trace")
        if tr is None:
            return json.dumps(c.get("in"), sort_keys=True)
        return " ".join("%s%s%s" % (x["k"], x.get("c", ""), "" if x.get("ok", True) or x["k"] != "TB" else "!") for x in tr)

    def nontrivial(c):
        tr = (c.get("in") or {}).get("trace")
        if tr is None:
            return (c.get("in") or {}).get("file") not in (None, "<missing>")
        return sum(1 for x in tr if x["k"] in ("TB", "KO")) >= 2

    distinct = len({shape(c) for c in cases if nontrivial(c)})
    ctx.cov["correspondence"] = {"cases": len(cases), "mismatches": len(mism), "generator_counters": st,
                                 "technique": "trace validation (angelic linearisation of submissions between start and return of the channel send)"}
    ctx.level = "proof"
    ctx.trusted += [
        "model covers internal/bgp/frr/config.go debouncer (loop body = one atomic step), frr.go validateReload (decision only), "
        "internal/k8s/controllers/frrk8s_config_controller.go debouncer",
        "Go channel semantics: an unbuffered send returns after the receive; the loop goroutine owns its variables",
        "trace logging in the harness (one mutex; submitters serialised) is a faithful order of the events it records",
    ]
    ctx.assumptions += [
        "PARTIAL: wall-clock is outside the model - that an armed timer fires (goroutine not starved) and the debounce/retry "
        "durations themselves are observed on the real code (quiet-period checks), not proved",
        "the reload action terminates (C19_submit_never_blocks) and the failure pattern eventually stops (premise of C19_eventually)",
    ]
    ctx.finish(len(cases), distinct,
               "real debouncers with 3-8 ms windows, 2-9 ms retry, 1-3 concurrent scripted submitters (0-6 ops each: new / identical / "
               "small-alphabet configs, re-apply requests), scripted failure patterns (0-6 failing calls), identical resubmission and "
               "burst phases; validateReload on generated status files; non-trivial = at least two reload calls (events) in the trace / "
               "a readable status file; distinct by the event sequence of the trace",
               [dict(kind=c.get("kind"), trace=shape(c)[:300]) for c in cases[:3]],
               extra={"level_note": "partial: real time (debounce and retry durations, goroutine scheduling) is observed, not proved"},
               search=search)
