"""C17 native BGP session convergence: Model/Session.v + trace validation of REAL sessions against a scripted peer"""
import json

CLOSURE = ["Model/Session.v", "Proofs/SessionP.v", "Proofs/SessionWireP.v", "Model/Wire.v", "Proofs/WireP.v"]
PKG = "internal/bgp/native"
FILES = ["zz_verif_wire_test.go", "zz_verif_sess_test.go"]


def run(ctx):
    propfile = "Properties/C17.v"
    ok = ctx.coq_build([propfile, "Corr/Run_Session.v"])
    ctx.coq_theorems(propfile, CLOSURE)
    thorough = ctx.tier != "quick"
    n = 500 if thorough else 30
    stats = {}

    def harness(n, seed, tag, race):
        recs, hok, log = ctx.go_harness(PKG, FILES, "TestVerifSess$", n=n, seed=seed, tag=tag, race=race,
                                        env={"VERIF_PAR": "8" if thorough else "4"}, timeout=900 if thorough else 240)
        cases, st = ctx.handle_records(recs)
        for k, v in st.items():
            stats[k] = stats.get(k, 0) + v
        if "WARNING: DATA RACE" in log:
            ctx.oracle_fail("session-data-race", "race detector report while driving the native session:\n" +
                            log[log.index("WARNING: DATA RACE"):][:3000], {"log": log[-6000:]})
        elif not hok and not any("does not build" in c for c in ctx.corr_broken):
            ctx.corr_broken.append("harness TestVerifSess failed: " + log[-1500:])
        return cases

    cases = harness(n, ctx.seed, "h", thorough)
    mism = []
    if cases and ok:
        mism = ctx.coq_cases("Run_Session", "scase", [c["coq"] for c in cases], shard=40,
                             header="Local Open Scope N_scope.")
        byid = {c["id"]: c for c in cases}
        for m in mism[:5]:
            c = byid.get(m, {})
            ctx.corr_broken.append("observed trace of schedule %d (%s) is not a trace of Model/Session.v: %s" %
                                   (m, c.get("kind"), json.dumps(c.get("in"))[:1500]))
    need = ["sess:set", "sess:set-empty", "sess:set-rejected", "sess:duplicate-prefix-in-set", "sess:drop-idle",
            "sess:drop-after-k", "sess:drop-mid-message", "sess:reconnected", "sess:stable", "sess:closed", "sess:messages",
            "sess:close-in-backoff-refusals", "sess:set-right-after-drop", "sess:cap-flip-on-off", "sess:cap-flip-off-on",
            "sess:capflip-ebgp-updates-after-flip", "sess:ebgp-updates-with-connection-width",
            "sess:hold=0", "sess:hold=nil", "sess:asn-field-and-capability-disagree", "sess:pipe-fault-reconnect", "sess:write-failure-at-the-withdraw", "sess:set-of-advertised-after-other-request", "sess:invalid-set-while-request-pending", "sess:open-after-reconnect-checked", "step:Set-of-advertised-while-pending", "sess:mass-withdraw", "sess:source-address-16-byte-form", "sess:source-address-4-byte-form", "sess:router-id-derived", "sess:keepalive-schedule-keepalives", "sess:failed-attempt-after-a-success", "step:backoff", "step:readerdrop", "step:keepalive", "sess:close-in-handshake", "sess:set-during-write", "sess:set-during-write-messages", "step:abort", "step:abort-with-pending", "step:Set", "step:Set(invalid)", "step:Close"]
    if not thorough:
        need = [k for k in need if k not in ("sess:closed",)] + []
    # white-box comparisons are skipped (not failed) when the session's unexported
    # representation is not the one the accessor layer knows; black-box oracles still ran
    skipped = {k: v for k, v in stats.items() if k.startswith("whitebox_skipped:")}
    if skipped:
        hard = any(not k.endswith("(pipe-idle-check-by-timing)") for k in skipped)
        need = [k for k in need if not k.startswith("step:") or k == "step:backoff"]
        if hard and any(k.split(":", 1)[1] in ("advertised", "conn", "mu", "nextHop", "peerFBASNSupport") for k in skipped):
            pipe_counters = ("sess:set-during-write", "sess:pipe-fault-reconnect", "sess:write-failure-at-the-withdraw",
                             "sess:set-of-advertised-after-other-request", "sess:invalid-set-while-request-pending")
            need = [k for k in need if not k.startswith(pipe_counters)]
        ctx.cov["whitebox_skipped"] = skipped
        ctx.assumptions.append("white-box step comparisons skipped on this tree (session fields not in the known representation): %s" % sorted(skipped))
    # a counter that is zero BECAUSE the implementation misbehaves must not mask the finding:
    # the generator is judged only when nothing else was found
    if cases and any(stats.get(k, 0) == 0 for k in need) and not ctx.violations and not ctx.corr_broken and not mism:
        raise Exception("generator degenerate: %r" % sorted(k for k in need if stats.get(k, 0) == 0))

    def search():
        for k in range(3):
            harness(max(n, 60), ctx.seed * 1000 + k + 17, "s%d" % k, False)
            if ctx.violations:
                return

    distinct = len({json.dumps(c["in"]["trace"]) for c in cases if len(c["in"]["trace"]) >= 6 or c["kind"].startswith("step:")})
    kinds = {}
    for c in cases:
        kinds[c["kind"]] = kinds.get(c["kind"], 0) + 1
    ctx.cov["correspondence"] = {"cases": len(cases), "schedules": sum(1 for c in cases if c["kind"].startswith("schedule")), "white_box_steps": sum(1 for c in cases if c["kind"].startswith("step")), "mismatches": len(mism), "generator_counters": stats, "final": kinds,
                                 "trace_events": sum(len(c["in"]["trace"]) for c in cases), "race_detector": thorough}
    ctx.trusted += [
        "model covers internal/bgp/native/native.go run/connect(handshake verdict)/sendUpdates/Set/validate/abort/sendKeepalive(failure)/consumeBGP(defer)/Close; "
        "each model step is one critical section of s.mu",
        "white-box step cases compare abort/Set/Close/consumeBGP-return/sendKeepalive on session values and backoff.Duration/Reset sequences with the model's step functions (state-level correspondence)",
        "trace validation is a necessary condition: the replay (Corr/Run_Session.v) checks handshake verdicts against hs_accept, per-message justification "
        "(theorem C17_emitted_justified) with monotone Set index, silence after Close, and final table = last Set; it does not reconstruct the session's internal steps",
        "the scripted peer (harness) and its RFC 4271 decoder vDecode; Linux loopback TCP",
    ]
    ctx.assumptions += ["PARTIAL: liveness/fairness of the sender goroutine, TCP timing, hold timer expiry and keepalive cadence, TCP-MD5 are outside the model; "
                        "convergence is proved for states 'connection up and sender idle' and observed (6 s timeout) on sampled schedules",
                        "prefixes are distinct IPv4 prefixes; attrs = (local-pref, legacy communities); Advertisement.Peers unused"]
    ctx.finish(len(cases), distinct,
               "real sessions against a scripted loopback peer: 4-12 actions per schedule from {Set (random subset, empty, attribute-only change, duplicate prefix), "
               "invalid Set, peer drop idle / after k UPDATEs / mid-message / during handshake, wrong AS number, sleeps 0-30ms}, iBGP/eBGP, 2- and 4-octet AS numbers, "
               "the peer's 4-octet-AS capability is drawn anew for every connection (on->off and off->on flips inside one session); "
               "then either Close or leave the connection alone and wait for convergence; plus fixed schedules: MyASN=65536 vs 2-octet peer, Close during backoff, "
               "capability flip on->off / off->on x eBGP / iBGP, configured hold time 0 / nil (every schedule draws the hold time from {nil,0,3,30,90,7,4.5,65535 s} and the peer checks the session's OPEN field by field), "
               "optional session parameters as the configuration layer produces them (SourceAddress 127.0.0.1 in 16- and 4-byte form, unset RouterID, CurrentNode, ignored knobs), "
               "mass withdraw (Set of 900-1300 host routes, then a handful: one change withdrawing > 814 /32 routes), "
               "Close() landing inside a connection attempt (peer delays its OPEN: after accept, after the peer's OPEN, during the reconnect after a flap), "
               "hold time 3 s with 2.3 s idle (keepalive cadence), timed events (TAt) for the backoff / keepalive lower bounds, "
               "pipe connections with a write failure at a chosen message index (incl. exactly the withdraw), requests made while the session is down (a request followed by the request for what is advertised; a request followed by a rejected one), hand-made reconnect and a later change; the peer proposes a different hold time on every connection; "
               "Set() calls inside the sender's write window (real sendUpdates/Set on a net.Pipe connection whose peer stops reading mid-flush); "
               "plus white-box step cases (abort / Set / invalid Set / Close on hand-built session values, state before/after compared with the model step); "
               "non-trivial = trace of at least 6 events or a white-box step; distinct by content",
               [c["in"] for c in cases[1:3]], search=search)
