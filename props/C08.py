import json, os, sys
sys.path.insert(0, os.path.dirname(__file__))
import cfg_common as cc
import reconciler_part

PKG = "internal/config"


def run(ctx):
    ok = ctx.coq_build(["Properties/C08.v", "Corr/Run_Cfg.v"])
    ctx.coq_theorems("Properties/C08.v", cc.closure_existing())
    n = 110 if ctx.tier == "quick" else 2500
    state = {"stats": {}}

    def harness(n, seed, tag):
        return cc.run_harness(ctx, state, PKG, ["zz_verif_cfg_test.go"], "TestVerifCfg$", n, seed, tag)

    cases = harness(n, ctx.seed, "h")
    mism = []
    if cases and ok:
        mism = cc.coq_compare(ctx, cases, "config.For/ParseCIDR/cidrsOverlap")
    st = state["stats"]
    need = ["accepted", "rejected", "rejected: overlaps with already", "rejected: invalid aggregation length",
            "rejected: invalid local preference", "accepted_addr_kind_0", "accepted_addr_kind_1", "accepted_addr_kind_2",
            "bgp_adv_attached", "l2_adv_attached", "localpref_pairs", "aggregate_probes", "parse_multi_cidr_range",
            "parse_range_over_40_cidrs", "overlap_true", "membership_probes",
            "dualclash_lengths_differ_in_none_rejected", "dualclash_lengths_differ_in_ipv4_only_rejected",
            "dualclash_lengths_differ_in_ipv6_only_rejected", "dualclash_lengths_differ_in_both_accepted",
            "localpref_pairs_on_dualstack_pool", "route_probes_ipv4", "route_probes_ipv6",
            "overlap_equal_blocks", "overlap_net_from_range", "directed_accepted", "directed_rejected",
            "directed_rejected: address entries share addresses", "directed_rejected: an aggregate leaves the address entry",
            "directed_rejected: aggregation length beyond the address width", "directed_aggsweep_loose", "directed_aggsweep_tight", "directed_mixednode_inside", "directed_mixednode_outside", "directed_selgroup", "directed_l2nested"] + \
           ["directed_notation_x%d_y%d" % (x, y) for x in range(4) for y in range(9)] + ["directed_peerclash_one_sided", "directed_peerclash_disjoint", "directed_peerclash_overlapping", "overlap_one_shared_address"]
    if cases and not ctx.replay_in and not ctx.violations and not ctx.corr_broken and any(st.get(k, 0) == 0 for k in need):
        raise Exception("generator degenerate: %r" % st)

    def search():
        for k in range(3):
            harness(n * 4, ctx.seed * 1000 + k + 17, "s%d" % k)
            if ctx.violations:
                return

    fc = [c for c in cases if c.get("kind") == "for"]
    distinct = len({json.dumps(c["in"]["snap"], sort_keys=True) for c in fc if c["in"].get("accepted")})
    distinct += len({json.dumps(c["in"], sort_keys=True) for c in cases if c.get("kind") == "parse" and c["in"].get("ok")})
    ctx.cov["correspondence"] = {"cases": len(cases), "for_cases": len(fc),
                                 "parse_cases": sum(1 for c in cases if c.get("kind") == "parse"),
                                 "overlap_cases": sum(1 for c in cases if c.get("kind") == "overlap"),
                                 "mismatches": len(mism), "generator_counters": st,
                                 "oracle_evaluations": sum(st.get(k, 0) for k in ("membership_probes", "disjointness_pairs", "attach_checks", "aggregate_probes", "localpref_pairs", "tiling_checks", "overlap_checks"))}
    # the reconciler glue: real ConfigReconciler / PoolReconciler over edit histories vs Model/Reconciler.v
    n_rec, st_rec = reconciler_part.run_reconciler(ctx, None)
    ctx.trusted += [
        "net.ParseIP / the address and length read by net.ParseCIDR, strings.SplitN/TrimSpace, k8s label selectors (matchLabels only; matchExpressions outside the model) are modelled by their documented behaviour",
        "ipaddr.Summarize is modelled from its source (Model/Cfg.v grow/summ) with fuel 2*width+2, proved sufficient (C08_summarize_fuel_ok); uint32/uint64-pair arithmetic of the Go code is modelled in N (the EOR test that prevents the wrap-around is mirrored)",
        "model covers config.go ParseCIDR, addressPoolFromCR, addressPoolServiceAllocationsFromCR, poolsFor, cidrsOverlap, cidrContainsCIDR, lowestMask, set{L2,BGP}AdvertisementsToPools, {l2,bgp}AdvertisementFromCR, containsAdvertisement, selectedNodes, selectedPools, validateBGPAdvPerPool, advertisementsAreCompatible, isAggrLengthDifferent, validateDuplicate, nodes.go NodeIPsForFamily; community strings arrive resolved; validateDuplicateBGPAdvertisements cannot fire for distinct names",
        "an IPv6 number inside ::ffff:0:0/96 is an IPv4 address for Go; the generator never uses such IPv6 addresses",
    ]
    ctx.assumptions += ["CRD admission (OpenAPI validation, webhooks) is not modelled: the theorems are about config.For on any resource set"]
    ctx.finish(len(cases), distinct,
               "snapshots with 1-5 pools (single-family and dual-stack; every 8th snapshot is a dual-stack pool with two advertisements of different local preference whose aggregation lengths differ in no / IPv4 only / IPv6 only / both families, with and without peer lists; CIDR, non-aligned CIDR, IPv4-mapped CIDR, ranges with spaces / mapped ends / crossing alignment boundaries, /31 /32, IPv6, top and bottom of the address space), namespace pinning, 1-5 L2/BGP advertisements (pool names, pool selectors, node selectors, aggregation lengths 0..33/0..129, local preferences, peers), nodes with internal IPs; "
               "96 directed notation layouts (CIDR / block-as-range / ragged ranges in one pool against an equal summarised block, a sub-CIDR, an overlapping range, an adjacent entry, a containing CIDR in the other pool, both orders, IPv4 and IPv6); 260 aggregation-sweep snapshots (aggregationLength 0..33 and aggregationLengthV6 0..129, each against entries at most / longer than the aggregation length, CIDR, mapped and block-as-range notation, dual-stack or two pools) with the converse oracle that a refused directed snapshot has a reason in the property; 3n ParseCIDR strings over the whole address space; 2n cidrsOverlap pairs; non-trivial = accepted snapshot or successfully parsed address; distinct by JSON",
               [c["in"] for c in fc[:3]], search=search)
