import os, sys, json
sys.path.insert(0, os.path.dirname(__file__))
import alloc_common as ac
import reconciler_part
import ctrl_common as cc

ALLOC_SIGS = {'alloc-not-in-exactly-one-pool','alloc-pool-name-wrong','alloc-pool-not-compatible','alloc-from-non-autoassign-pool','alloc-wrong-families','alloc-frompool-other-pool','alloc-assign-not-exact','alloc-unpinned-before-pinned','alloc-priority-order'}
CTRL_SIGS = {'status-not-in-exactly-one-pool','status-annotation-not-owning-pool','status-pool-not-compatible','status-not-from-requested-pool','status-not-the-requested-addresses','status-wrong-families','status-on-non-loadbalancer','prefer-dual-on-single-stack-cluster-gets-two','stale-annotation-with-invalid-address-request','preferdual-gain-despite-single-requested-address'}

def run(ctx):
    ctx.coq_build(["Properties/C02.v"] + ac.COQ_FILES + cc.COQ_FILES)
    ctx.coq_theorems("Properties/C02.v", sorted(set(ac.CLOSURE + ["Proofs/AllocP.v", "Proofs/AllocPolicyP.v", "Proofs/AllocSortP.v", "Proofs/AllocRefP.v", "Proofs/AllocMonoP.v", "Proofs/CtrlStarveP.v", "Proofs/CtrlPostP.v"] + cc.CLOSURE)))
    acases, ast, amism, asearch = ac.run_alloc(ctx, ALLOC_SIGS, n_quick=100)
    ccases, cst, cmism, csearch = cc.run_ctrl(ctx, CTRL_SIGS, n_quick=120)
    def search():
        asearch()
        if not ctx.violations:
            csearch()
    nsteps = sum(len(c["in"]) for c in acases) + sum(len(c["in"]) for c in ccases)
    distinct = len({json.dumps(c["in"], sort_keys=True) for c in acases if len(c["in"]) >= 3}) + \
               len({json.dumps([{k: v for k, v in e.items() if k != "obs"} for e in c["in"]], sort_keys=True) for c in ccases if len(c["in"]) >= 5})
    ctx.cov["correspondence"] = {"allocator_histories": len(acases), "controller_histories": len(ccases), "operations_and_events": nsteps,
                                 "mismatches": len(amism) + len(cmism), "allocator_counters": ast, "controller_counters": cst}
    # PoolReconciler / ConfigReconciler glue (cfg group): what the allocator is handed is config.For of the current cluster state
    n_rec, st_rec = reconciler_part.run_reconciler(ctx, None)
    ctx.trusted += ["model covers internal/allocator/allocator.go: Assign, Unassign, Allocate, AllocateFromPool, AllocateFromPoolForAdditionalFamily, SetPools, checkSharing, sharingOK, poolFor, isPoolCompatibleWithService, pinnedPoolsForService, findBestPoolForService, getFreeIPsFromPool/getIPFromCIDR, poolCount, updatePoolStats, CountersForPool; allocation.go selectIPsForFamilyAndPolicy",
                    "the allocator's derived maps (sharingKeyForIP, portsInUse, servicesOnIP, poolIP*InUse) are modelled as functions of the service->allocation map; their agreement with the Go maps is checked after every operation by checkSharing probes and counters (correspondence), not proved",
                    "checked nondeterminism: allocation results are taken from the implementation and validated by allocate_spec/from_pool_spec/additional_spec; sort.Slice in sortPools and map iteration order are not modelled",
                    "domain: services have >= 1 port (API server rule); pools pairwise disjoint (C08)"]
    ctx.trusted += cc.TRUST
    ctx.finish(len(acases) + len(ccases), distinct,
               "allocator level: random operation histories on a real Allocator (results, holdings, counters and checkSharing probes compared after every operation); "
               "controller level: random event histories through the real ServiceReconciler/controller against a fake API server with failing writes and restarts, compared event by event; "
               "property oracles on the implementation after every operation / at every quiescent point; non-trivial = >= 3 operations resp. >= 5 events; distinct by content",
               [c["in"][:3] for c in acases[:1]] + [[{k: v for k, v in e.items() if k != "obs"} for e in c["in"][:4]] for c in ccases[:1]], search=search)
