"""C16 native BGP wire format: Model/Wire.v + harness internal/bgp/native TestVerifWire"""
import json

CLOSURE = ["Model/Wire.v", "Proofs/WireP.v", "Proofs/WireReadP.v", "Proofs/WireDecP.v", "Proofs/WireSizeP.v", "Proofs/WireAcceptP.v", "Proofs/WireP_prefix.v"]
PKG = "internal/bgp/native"


def run(ctx):
    propfile = "Properties/C16.v"
    ok = ctx.coq_build([propfile, "Corr/Run_Wire.v"])
    ctx.coq_theorems(propfile, CLOSURE)
    n = 450 if ctx.tier == "quick" else 9000
    stats = {}
    allcases = []

    def harness(n, seed, tag):
        recs, hok, log = ctx.go_harness(PKG, ["zz_verif_wire_test.go"], "TestVerifWire$", n=n, seed=seed, tag=tag)
        cases, st = ctx.handle_records(recs)
        for k, v in st.items():
            stats[k] = stats.get(k, 0) + v
        if not hok and not any("does not build" in c for c in ctx.corr_broken):
            ctx.corr_broken.append("harness TestVerifWire failed: " + log[-1500:])
        return cases

    cases = harness(n, ctx.seed, "h")
    allcases += cases

    # bytes written by a REAL session after a reconnect to a peer with other capabilities
    # (4-octet AS on->off, off->on; eBGP, iBGP) must decode with the width of the current connection
    def capflip(k, seed, tag):
        recs, hok, log = ctx.go_harness(PKG, ["zz_verif_wire_test.go", "zz_verif_sess_test.go"], "TestVerifCapFlip$",
                                        n=k, seed=seed, tag=tag, timeout=300)
        _, st = ctx.handle_records(recs)
        for kk, v in st.items():
            stats[kk] = stats.get(kk, 0) + v
        if not hok and not any("does not build" in c for c in ctx.corr_broken):
            ctx.corr_broken.append("harness TestVerifCapFlip failed: " + log[-1500:])
    capflip(2 if ctx.tier == "quick" else 25, ctx.seed, "f")
    mism = []
    if cases and ok:
        mism = ctx.coq_cases("Run_Wire", "wcase", [c["coq"] for c in cases], shard=150,
                             header="Local Open Scope N_scope.")
        byid = {c["id"]: c for c in cases}
        for m in mism[:5]:
            c = byid.get(m, {})
            ctx.corr_broken.append("model Wire and messages.go disagree on case %d (%s): %s" %
                                   (m, c.get("kind"), json.dumps(c.get("in"))[:700]))
    need = ["read:ok", "read:eof", "read:unexpected-eof", "read:other", "read:wellformed-caps-only",
            "read:wellformed-shorter-than-37", "update:error", "update:nh16", "withdraw:815-prefix-case", "read:asn-field-vs-capability", "open", "keepalive",
            "sess:cap-flip-on-off", "sess:cap-flip-off-on", "sess:capflip-ebgp-updates-after-flip", "sess:hold=0", "sess:hold=nil", "sess:source-address-16-byte-form", "sess:source-address-4-byte-form", "sess:open-after-reconnect-checked"] + \
           ["update:len%%8=%d" % k for k in range(8)]
    # a counter that is zero BECAUSE the implementation misbehaves must not mask the finding:
    # the generator is judged only when nothing else was found
    if cases and any(stats.get(k, 0) == 0 for k in need) and not ctx.violations and not ctx.corr_broken and not mism:
        raise Exception("generator degenerate: %r" % sorted(k for k in need if stats.get(k, 0) == 0))

    def search():
        for k in range(3):
            harness(n * 4, ctx.seed * 1000 + k + 11, "s%d" % k)
            capflip(10, ctx.seed * 1000 + k + 11, "sf%d" % k)
            if ctx.violations:
                return

    def nontrivial(c):
        i = c["in"]
        return len(i.get("bytes", "x" * 40)) >= 38 or i.get("n", 0) > 0   # at least a header's worth of bytes
    distinct = len({json.dumps(c["in"], sort_keys=True) for c in cases if nontrivial(c)})
    kinds = {}
    for c in cases:
        kinds[c["kind"]] = kinds.get(c["kind"], 0) + 1
    ctx.cov["correspondence"] = {"cases": len(cases), "mismatches": len(mism), "generator_counters": stats, "case_kinds": kinds}
    ctx.trusted += [
        "model covers internal/bgp/native/messages.go sendOpen/readOpen/readOptions/readCapabilities/readNotification/sendUpdate/"
        "encodePathAttrs/encodePrefixes/bytesForBits/sendWithdraw/sendKeepalive, community.BGPCommunityLegacy.ToUint32, safeconvert",
        "Go encoding/binary, io.ReadFull and io.LimitedReader are modelled by their documented behaviour (big-endian fixed width, "
        "ReadFull = EOF on 0 bytes / ErrUnexpectedEOF on a short read, LimitedReader budget)",
        "dec_msg (Coq) and vDecode (Go harness) are two readings of RFC 4271/4760/6793/1997/5492 written independently of the encoders",
        "parameter well-formedness (asn, local-pref < 2^32; community halves < 2^16; 4-byte addresses; prefix length <= 32; "
        "hold time < 65536 whole seconds) is what the Go types uint32/uint16/net.IP.To4()/CIDRMask guarantee",
    ]
    ctx.assumptions += ["prefixes are IPv4 with a 4-byte mask (validate() admits only To4() prefixes; 16-byte masks are C08's subject)",
                        "an MP capability whose reserved octet is non-zero is not reported as mp4/mp6 by readOpen (RFC 4760 says the "
                        "octet SHOULD be ignored); the two flags are not used by the session; counted in read:mp-capability-with-reserved-octet"]
    ctx.finish(len(cases), distinct,
               "real encoders on boundary ASNs x every prefix length 0..32 x iBGP/eBGP x 4-byte capability, 0/1/2/62/63/64/65/100 and large communities, "
               "4- and 16-byte next hops, withdraw lists up to 815 prefixes; real sessions: the OPEN on the wire compared field by field with the configuration (hold time nil/0/3/30/90/odd), and reconnects to a peer whose 4-octet-AS capability flipped (UPDATE bytes decoded with the width of the current connection); readOpen on generated OPENs (random capability lists) and their "
               "bit-flipped/truncated/extended/wrong-length variants, notifications and random bytes, delivered in random chunk sizes; "
               "non-trivial = input/output of at least 19 bytes or a non-empty prefix list; distinct by JSON of the case",
               [c["in"] for c in cases[:3]], search=search)
