"""Reconciler glue (internal/k8s/controllers config_controller.go, pool_controller.go), shared by
C08, C18, C02, C11 (and usable by C09 / C10): harness TestVerifReconciler drives the real
ConfigReconciler and PoolReconciler on a fake API server through random edit histories, compares
every Reconcile call with Model/Reconciler.v and checks on the implementation that what the
handler holds at quiescence is config.For of the current cluster state.

    import reconciler_part
    n_eval, stats = reconciler_part.run_reconciler(ctx, sigs)      # sigs=None: every signature
"""
import json, os, sys
sys.path.insert(0, os.path.dirname(__file__))
import cfg_common as cc

PKG = "internal/k8s/controllers"
COQ_FILES = ["Corr/Run_Reconciler.v"]
CLOSURE = ["Model/Reconciler.v", "Proofs/ReconcilerP.v"]
SIGS = {"reconciler-handler-given-stale-config", "reconciler-handler-config-stale", "reconciler-handler-called-without-change",
        "reconciler-requeue-not-iff-handler-error", "reconciler-reload-not-iff-reprocessall",
        "reconciler-node-address-change-not-observed"}
NEED = ["edit_pool_addresses", "edit_pool_allocation", "edit_pool_status_only", "edit_pool_delete", "edit_pool_recreate_other_spec", "edit_pool_replace_same_name", "burst_edits",
        "edit_node_labels", "edit_node_address", "edit_node_annotation", "edit_namespace_labels", "edit_namespace_annotation",
        "edit_secret_create", "edit_secret_delete", "edit_peer_create", "edit_l2adv_create", "edit_bgpadv_create", "edit_community_create",
        "edit_bfdprofile_create"]   # generator-side counters only: nothing here may depend on the code under test


def run_reconciler(ctx, sigs=None, n_quick=40, n_thorough=800):
    """returns (n_evaluations, stats); oracle failures -> ctx.oracle_fail, model/code disagreement or a
    harness that does not build -> ctx.corr_broken"""
    ok = ctx.coq_build(COQ_FILES)
    n = n_quick if ctx.tier == "quick" else n_thorough
    recs, hok, log = ctx.go_harness(PKG, ["zz_verif_order_test.go", "zz_verif_reconciler_test.go"], "TestVerifReconciler$", n=n, tag="reconciler",
                                    extra_overlay=cc.gen_overlay(ctx, PKG))
    stats, cases, nfail = {}, [], 0
    for r in recs:
        if r.get("t") == "fail" and (sigs is None or r.get("sig") in sigs):
            nfail += 1
            ctx.oracle_fail(r["sig"], r.get("what", ""), r.get("replay"))
        elif r.get("t") == "stat":
            stats[r["k"]] = stats.get(r["k"], 0) + r["v"]
        elif r.get("t") == "case":
            cases.append(r)
    if not hok and not any("does not build" in c for c in ctx.corr_broken):
        tail = "\n".join(l for l in log.splitlines() if "zz_verif" in l or "panic" in l or "FAIL" in l)[-1500:]
        ctx.corr_broken.append("harness TestVerifReconciler failed: " + (tail or log[-1500:]))
    mism = []
    if cases and ok:
        mism = ctx.coq_cases("Run_Reconciler", "rcase", [c["coq"] for c in cases], shard=max(10, (len(cases) + 7) // 8))
        byid = {c["id"]: c for c in cases}
        for m in mism[:3]:
            c = byid.get(m, {})
            ctx.corr_broken.append("model Reconciler.v and the real %s disagree on history %s: %s" %
                                   ("PoolReconciler" if c.get("in", {}).get("pool") else "ConfigReconciler", c.get("in", {}).get("history"),
                                    json.dumps(c.get("in", {}).get("steps"))[:900]))
    known = set(getattr(ctx, "known", {}).keys())
    real_fail = any(r.get("t") == "fail" and r.get("sig") not in known for r in recs)
    if hok and not real_fail and not mism and not getattr(ctx, "replay_in", None):
        for k in NEED:
            if stats.get(k, 0) == 0:
                raise Exception("reconciler generator degenerate: counter %s is zero: %r" % (k, stats))
    if isinstance(ctx.cov.get("correspondence"), dict):
        ctx.cov["correspondence"]["reconciler_counters"] = stats
        ctx.cov["correspondence"]["reconciler_histories"] = len(cases)
        ctx.cov["correspondence"]["reconciler_mismatches"] = len(mism)
    ctx.trusted.append("reconcilers: Model/Reconciler.v covers requestHandler (ConfigReconciler) and PoolReconciler.Reconcile after the listing: memo, handler call, requeue, ForceReload; "
                       "which requests are enqueued (the update predicates, called as composed in SetupWithManager) and the listing itself are exercised on the real code over the fake client and checked by the oracle "
                       "(handler holds config.For of a direct listing), not modelled; API List failures are not injected")
    return stats.get("reconcile_calls", 0), stats
