import os, sys, json
sys.path.insert(0, os.path.dirname(__file__))
import ctrl_common as cc

SIGS = {'status-changed-spontaneously','converged-service-rewritten','restart-changed-admissible-status','restart-preferdual-additional-steals','restart-recorded-service-reallocates-before-victim','preferdual-gain-despite-single-requested-address','prefer-dual-on-single-stack-cluster-gets-two'}

def run(ctx):
    ctx.coq_build(["Properties/C03.v"] + cc.COQ_FILES)
    ctx.coq_theorems("Properties/C03.v", cc.CLOSURE + ["Proofs/AllocMonoP.v", "Proofs/CtrlStarveP.v", "Proofs/CtrlRestartP.v", "Proofs/CtrlStableP.v", "Proofs/CtrlPostP.v", "Proofs/CtrlTotalP.v", "Proofs/CtrlProgressP.v", "Proofs/CtrlExactP.v"])
    cases, st, mism, search = cc.run_ctrl(ctx, SIGS)
    nev = sum(len(c["in"]) for c in cases)
    distinct = len({json.dumps([{k: v for k, v in e.items() if k != "obs"} for e in c["in"]], sort_keys=True) for c in cases if len(c["in"]) >= 5})
    ctx.cov["correspondence"] = {"histories": len(cases), "events": nev, "mismatches": len(mism), "generator_counters": st}
    ctx.trusted += cc.TRUST
    ctx.finish(len(cases), distinct,
               "random histories (12-40 events + drains: Service create/edit/delete, pool changes incl. rename/regroup, single reconciles with failing writes, full passes with failing writes, restarts with early events, "
               "one in eight starting with the directed restart scenario) through the real ServiceReconciler/controller/allocator; every event's statuses, annotations, allocator holdings and handler results are compared with the model; "
               "the properties are evaluated at every quiescent point; non-trivial = history with >= 5 events; distinct by content",
               [[{k: v for k, v in e.items() if k != "obs"} for e in c["in"][:5]] for c in cases[:2]], search=search)
