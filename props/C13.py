"""C13 — layer-2 responder: Model/Announcer.v + internal/layer2 harness on the real Announce."""
import json, os, re, shutil
import vlib

CLOSURE = ["Model/Announcer.v", "Proofs/AnnouncerP.v", "Proofs/AnnouncerNdpP.v", "Proofs/AnnouncerTop.v",
           "Model/AnnouncerExt.v", "Proofs/AnnouncerExtP.v", "Proofs/AnnouncerLockP.v",
           "Model/AnnouncerJoin.v", "Proofs/AnnouncerJoinP.v"]
COQ_FILES = ["Properties/C13.v", "Corr/Run_Announcer.v", "Model/AnnouncerSkel.v"]
PKG = "internal/layer2"
FILES = ["zz_verif.go", "zz_verif_ann_test.go"]


def sections(ctx, ok):
    """the assumption of C13_rw_serial_by_definition, decided on lock facts regenerated from announcer.go"""
    tooldir = os.path.join(vlib.VERIF, "tools", "lockfacts")
    exe = os.path.join(ctx.work, "lockfacts")
    rc, out, _ = vlib.sh(["go", "build", "-o", exe, "."], cwd=tooldir,
                         env={"GOWORK": "off", "GOFLAGS": "-mod=mod", "GOPROXY": "off"}, timeout=300)
    if rc != 0:
        raise vlib.Broken("tools/lockfacts does not build: " + out[-1500:])
    rc, out, _ = vlib.sh([exe, ctx.repo, os.path.join(ctx.work, "LockFacts.v")], timeout=120)
    if rc != 0:
        raise vlib.Broken("lockfacts failed: " + out[-1500:])
    for f in ("AnnSections.v", "AnnSkeleton.v"):
        shutil.copy(os.path.join(tooldir, f), os.path.join(ctx.work, f))
    if not ok:
        return
    ctx.obligations += 2
    coqc = ["timeout", "300", "coqc", "-Q", vlib.COQ, "Verif", "-Q", ctx.work, "C13gen"]
    rc, out, _ = vlib.sh(coqc + ["LockFacts.v"], cwd=ctx.work)
    if rc != 0:
        raise vlib.Broken("generated LockFacts.v does not compile: " + out[-1500:])
    rc, out, _ = vlib.sh(coqc + ["AnnSections.v"], cwd=ctx.work)
    ctx.checker_cmds.append("tools/lockfacts $REPO .work/C13/LockFacts.v && coqc .work/C13/AnnSections.v .work/C13/AnnSkeleton.v  "
                            "(announcer methods are single critical sections; their loops are the transcribed ones)")
    if rc != 0:
        m = re.search(r'D_bad =\s*(.*?)\n\s+: ', out, re.S)
        bad = " ".join(m.group(1).split()) if m else "?"
        ctx.proof_broken = ("announcer_methods_are_critical_sections fails on the lock facts generated from %s/internal/layer2/announcer.go: "
                            "not a single critical section of Announce.RWMutex: %s" % (ctx.repo, bad if m else out[-600:]))
    elif out.count("Closed under the global context") != 1:
        raise vlib.Broken("AnnSections.v: not closed: " + out[-800:])
    else:
        ctx.discharged += 1
        ctx.theorems += ["announcer_methods_are_critical_sections"]
    # the structural tie of the transcription: decided at the END of run() (skeleton_verdict), together with the
    # behavioural correspondence of this run
    rc, out, _ = vlib.sh(coqc + ["AnnSkeleton.v"], cwd=ctx.work)
    if rc != 0:
        k = re.search(r'D_skeleton_diffs =\s*(.*?)\n\s+: ', out, re.S)
        diffs = re.findall(r'"([^"]+)"', k.group(1)) if k else []
        if not diffs:
            raise vlib.Broken("AnnSkeleton.v does not compile: " + out[-1200:])
        skel["diffs"] = diffs
    elif out.count("Closed under the global context") != 1:
        raise vlib.Broken("AnnSkeleton.v: not closed: " + out[-800:])
    else:
        ctx.discharged += 1
        ctx.theorems += ["announcer_skeleton_matches"]


# functions of announcer.go -> theorems of Properties/C13.v that speak about their TRANSCRIPTION (control structure);
# the C13_x_* / C13_j_* theorems run the extended machines built from all of them
TRANSCRIPTION_THEOREMS = {
    "Announce.SetBalancer": ["C13_j_groups", "C13_j_same_services", "C13_j_prefix_refuted"],
    "Announce.DeleteBalancer": ["C13_delete_transcription", "C13_delete_return_refuted", "C13_j_groups", "C13_j_same_services"],
    "Announce.gratuitous": ["C13_gratuitous_transcription", "C13_gratuitous_return_refuted"],
    "Announce.shouldAnnounce": ["C13_answer_iff", "C13_drop_reason"],
    "Announce.spamLoop": ["C13_x_sent_counts_repetitions"],
}
X_THEOREMS = ["C13_x_state", "C13_x_unsolicited_sound", "C13_x_withdraw_last", "C13_x_sent_counts_repetitions",
              "C13_x_ndp_groups_balanced", "C13_x_ndp_groups_balanced_prefix_refuted", "C13_x_late_responder_joined"]
skel = {"diffs": []}


def run(ctx):
    skel["diffs"] = []
    ok = ctx.coq_build(COQ_FILES)
    ctx.coq_theorems("Properties/C13.v", CLOSURE)
    thorough = ctx.tier == "thorough"
    sections(ctx, ok)
    st = {}
    allcases = {"history": [], "concurrent": []}

    def absorb(recs, okrun, log, what, race=False):
        for r in recs:
            if r.get("t") == "fail":
                ctx.oracle_fail(r.get("sig", "?"), r.get("what", ""), r.get("replay"))
            elif r.get("t") == "stat":
                st[r["k"]] = st.get(r["k"], 0) + r["v"]
            elif r.get("t") == "case":
                allcases[r["kind"]].append(r)
        if "WARNING: DATA RACE" in log:
            m = re.search(r"WARNING: DATA RACE.*?={18}", log, re.S)
            ctx.oracle_fail("l2-data-race", "the race detector reports a data race between announcer updates and concurrent requests",
                            {"race_report": (m.group(0) if m else log[-4000:])[:6000], "harness": what,
                             "how": "./check C13 --tier thorough (go test -race -run %s ./internal/layer2 with the overlay)" % what})
        elif not okrun and not any(r.get("t") == "fail" for r in recs) and not any("does not build" in c for c in ctx.corr_broken):
            ctx.corr_broken.append("harness %s failed: %s" % (what, log[-1500:]))

    def sequential(n, seed, tag):
        recs, okrun, log = ctx.go_harness(PKG, FILES, "TestVerifAnn$", n=n, seed=seed, tag=tag)
        absorb(recs, okrun, log, "TestVerifAnn")

    def concurrent(n, seed, tag, race):
        recs, okrun, log = ctx.go_harness(PKG, FILES, "TestVerifAnnConc$", n=n, seed=seed, tag=tag, race=race)
        absorb(recs, okrun, log, "TestVerifAnnConc", race)

    sequential(40 if not thorough else 400, ctx.seed, "h")
    concurrent(2 if not thorough else 6, ctx.seed, "c", race=False)
    if thorough:
        concurrent(6, ctx.seed + 1, "r", race=True)

    hist, conc = allcases["history"], allcases["concurrent"]
    mism = []
    if ok and hist:
        mism = ctx.coq_cases("Run_Announcer", "acase", [c["coq"] for c in hist], shard=4 if not thorough else 8)
        byid = {c["id"]: c for c in hist}
        for m in mism[:5]:
            ctx.corr_broken.append("model Announcer and the real Announce disagree on history %d: %s" %
                                   (m, json.dumps(byid.get(m, {}).get("in"))[:900]))
    tm = []
    if ok and conc:
        # ids may repeat between the plain and the -race run: renumber
        terms = [re.sub(r"^\(mk_tcase \d+%N", "(mk_tcase %d%%N" % i, c["coq"]) for i, c in enumerate(conc)]
        tm = ctx.coq_cases("Run_Announcer", "tcase", terms, shard=1, fn="tmismatches")
        for m in tm[:5]:
            ctx.corr_broken.append("concurrent run %d: an answer of the real announcer is not explained by the model on any prefix of the update log in its window" % m)

    if hist:
        need = ["op_set", "op_del", "reannounce_same_address", "announce_shared_address", "withdraw_last",
                "withdraw_one_of_many", "withdraw_unknown", "answers", "refused_interface", "refcnt>=2",
                "gratuitous_refused", "gratuitous_sent", "arp_replies"]
        zero = [k for k in need if st.get(k, 0) == 0]
        if zero and not ctx.violations and not ctx.replay_in:
            raise vlib.Broken("generator degenerate, zero counters: %r (all: %r)" % (zero, st))
    if conc and st.get("conc_requests_overlapping_an_update", 0) == 0 and not ctx.violations:
        raise vlib.Broken("concurrent harness degenerate: no request overlapped an update: %r" % st)

    def spam_queue():
        # the announcer built as New() with a small queue and the real spamLoop: responders must keep answering
        recs, okrun, log = ctx.go_harness(PKG, FILES, "TestVerifSpamQueue$", seed=ctx.seed, tag="q", timeout=300)
        for r in recs:
            if r.get("t") == "fail" and r.get("sig", "").startswith("l2-"):
                ctx.oracle_fail(r["sig"], r.get("what", ""), r.get("replay"))

    spam_queue()

    # ---- (group spk) the controller's translation of the L2Advertisements into the entry's interface set:
    # speaker harness TestVerifSpk (real controller + real layer2Controller + real Announce), histories with several
    # advertisements per pool with different node selections and interface lists; oracle: the interfaces of every
    # announcer entry are those of the advertisements selecting THIS node.  Only that signature is taken here.
    spk_ov = {"internal/layer2/zz_verif_spk.go": os.path.join(vlib.VERIF, "harness", "internal", "layer2", "zz_verif_spk.go")}
    recs, okrun, log = ctx.go_harness("speaker", ["zz_verif_bgp_test.go", "zz_verif_spk_test.go"], "TestVerifSpk$",
                                      n=30 if not thorough else 400, seed=ctx.seed, tag="spk", extra_overlay=spk_ov)
    for r in recs:
        if r.get("t") == "fail" and r.get("sig") == "l2-entry-interfaces-differ-from-advertisements":
            ctx.oracle_fail(r["sig"], r.get("what", ""), r.get("replay"))
        elif r.get("t") == "stat" and r["k"].startswith("l2_interface_checks"):
            st["spk:" + r["k"]] = st.get("spk:" + r["k"], 0) + r["v"]
    if not okrun and not any("does not build" in c for c in ctx.corr_broken):
        ctx.corr_broken.append("harness TestVerifSpk (controller part of C13) failed: " + log[-1500:])
    if st.get("spk:l2_interface_checks_with_lists", 0) == 0 and not ctx.violations and not ctx.replay_in:
        raise vlib.Broken("speaker harness degenerate: no layer-2 entry with an interface list was checked: %r" % st)
    # ---- end of the group spk block

    # the REAL spam loop (1.1 s ticker): repeats on the responders the latest advertisement covers, silent after the last withdraw
    recs, okrun, log = ctx.go_harness(PKG, FILES, "TestVerifSpamLoop$", seed=ctx.seed, tag="sl", timeout=300)
    for r in recs:
        if r.get("t") == "fail":
            ctx.oracle_fail(r.get("sig", "?"), r.get("what", ""), r.get("replay"))
        elif r.get("t") == "stat":
            st[r["k"]] = st.get(r["k"], 0) + r["v"]
    if not okrun and not any(r.get("t") == "fail" for r in recs) and not any("does not build" in c for c in ctx.corr_broken):
        ctx.corr_broken.append("harness TestVerifSpamLoop failed: " + log[-1500:])

    # the REAL interface rescan on a veth pair (needs CAP_NET_ADMIN; counted as skipped otherwise)
    xcases = []
    xm, jm = [], []

    def rescan(seed, tag):
        recs, okrun, log = ctx.go_harness(PKG, FILES, "TestVerifRescan$", seed=seed, tag=tag, timeout=300)
        for r in recs:
            if r.get("t") == "fail":
                ctx.oracle_fail(r.get("sig", "?"), r.get("what", ""), r.get("replay"))
            elif r.get("t") == "stat":
                st[r["k"]] = st.get(r["k"], 0) + r["v"]
            elif r.get("t") == "case":
                xcases.append(r)
        if not okrun and not any(r.get("t") == "fail" for r in recs) and not any("does not build" in c for c in ctx.corr_broken):
            ctx.corr_broken.append("harness TestVerifRescan failed: " + log[-1500:])

    for k in range(2 if not thorough else 12):
        rescan(ctx.seed + k, "x%d" % k)
    if ok and xcases:
        terms = [re.sub(r"^\(mk_xcase \d+%N", "(mk_xcase %d%%N" % i, c["coq"]) for i, c in enumerate(xcases)]
        xm = ctx.coq_cases("Run_Announcer", "xcase", terms, shard=4, fn="xmismatches")
        for m in xm[:5]:
            ctx.corr_broken.append("rescan history %d: the real updateInterfaces / kernel membership and Model/AnnouncerExt.rescan disagree: %s" %
                                   (m, json.dumps(xcases[m]["in"])[:900]))

    # long-running speakers through controller.SetBalancer + the real Announce, dual-stack status edits (order, second
    # address with the first kept): every speaker answers exactly for the CURRENT addresses of what it announces
    l2ov = {"internal/layer2/zz_verif.go": os.path.join(vlib.VERIF, "harness/internal/layer2/zz_verif.go")}
    recs, okrun, log = ctx.go_harness("speaker", ["zz_verif_l2_test.go", "zz_verif_l2multi_test.go"], "TestVerifL2Multi$",
                                      seed=ctx.seed, n=15 if not thorough else 300, tag="l2m", extra_overlay=l2ov, timeout=600)
    for r in recs:
        if r.get("t") == "fail" and r.get("sig") in ("l2m-answers-unheld-address", "l2m-no-answer-for-held-address"):
            ctx.oracle_fail(r.get("sig", "?"), r.get("what", ""), r.get("replay"))
        elif r.get("t") == "stat":
            st[r["k"]] = st.get(r["k"], 0) + r["v"]
    if not okrun and not any("does not build" in c for c in ctx.corr_broken):
        ctx.corr_broken.append("harness TestVerifL2Multi failed: " + log[-1500:])

    # multicast joins that fail: real responders in a private network namespace (needs the privilege to unshare)
    jcases = []
    recs, okrun, log = ctx.go_harness(PKG, FILES, "TestVerifJoinFailure$", seed=ctx.seed, n=3 if not thorough else 12, tag="jf", timeout=300)
    for r in recs:
        if r.get("t") == "fail":
            ctx.oracle_fail(r.get("sig", "?"), r.get("what", ""), r.get("replay"))
        elif r.get("t") == "stat":
            st[r["k"]] = st.get(r["k"], 0) + r["v"]
        elif r.get("t") == "case":
            jcases.append(r)
    if not okrun and not any(r.get("t") == "fail" for r in recs) and not any("does not build" in c for c in ctx.corr_broken):
        ctx.corr_broken.append("harness TestVerifJoinFailure failed: " + log[-1500:])
    if ok and jcases:
        jm = ctx.coq_cases("Run_Announcer", "jcase", [c["coq"] for c in jcases], shard=4, fn="jmismatches")
        for m in jm[:5]:
            ctx.corr_broken.append("join-failure history %d: kernel membership and Model/AnnouncerJoin disagree: %s" % (m, json.dumps(jcases[m]["in"])[:900]))

    def search():
        for k in range(4):
            sequential(400, ctx.seed * 1000 + 7 + k, "s%d" % k)
            if ctx.violations:
                return
        concurrent(6, ctx.seed * 1000 + 3, "sc", race=True)

    # ---- verdict on the structural tie (announcer_skeleton_matches).  The loops of a transcribed method differ from
    # the ones the model was transcribed from.  That alone is "a tie broke, no failing input".  When the BEHAVIOURAL
    # correspondence of this run (every announcer history against Model/Announcer*.v incl. refcounts and group
    # membership, the concurrent runs, rescan and join-failure histories, plus an extra batch of histories run now)
    # passes completely, the code still behaves as the model and the state-machine theorems still decide C13: the stale
    # transcription is reported in the evidence.  It stays a violation when the behavioural part fails or could not run.
    stale_note = None
    if skel["diffs"]:
        extra_mism = []
        if ok and not ctx.violations and not ctx.corr_broken and not ctx.proof_broken and not ctx.replay_in:
            before = len(allcases["history"])
            for k in range(2):
                sequential(100, ctx.seed * 1000 + 71 + k, "k%d" % k)
            extra = allcases["history"][before:]
            if extra and not ctx.violations:
                terms = [re.sub(r"^\(mk_acase \d+%N", "(mk_acase %d%%N" % i, c["coq"]) for i, c in enumerate(extra)]
                extra_mism = ctx.coq_cases("Run_Announcer", "acase", terms, shard=40)
        groups_seen = st.get("kernel_membership_checked", 0) > 0 and st.get("whitebox_skipped:solicitedNodeGroups", 0) == 0
        behavioural_ok = (ok and hist and conc and not mism and not tm and not xm and not jm and not extra_mism
                          and not ctx.violations and not ctx.corr_broken and not ctx.proof_broken
                          and st.get("whitebox_skipped:ipRefcnt", 0) == 0 and groups_seen)
        untied = sorted({t for f in skel["diffs"] for t in TRANSCRIPTION_THEOREMS.get(f, [])} | set(X_THEOREMS))
        if behavioural_ok:
            stale_note = ("stale transcription: the loops of %s in internal/layer2/announcer.go are no longer the ones Model/Announcer*.v was transcribed from "
                          "(Model/AnnouncerSkel.v; announcer_skeleton_matches NOT discharged), while the behavioural correspondence of this run passes completely "
                          "(%d histories incl. refcount / group-membership observables, %d concurrent runs, %d rescan and %d join-failure histories, 0 mismatches). "
                          "Theorems whose link to the code now rests on that correspondence alone, no longer on the structural tie: %s"
                          % (skel["diffs"], len(allcases["history"]), len(conc), len(xcases), len(jcases), ", ".join(untied)))
        elif not ctx.proof_broken:
            ctx.proof_broken = ("announcer_skeleton_matches fails: the loops of %s in %s/internal/layer2/announcer.go (which loops there are, whether they are left by "
                                "return / break / continue, the calls the model gives them) are no longer the ones Model/Announcer*.v was transcribed from "
                                "(Model/AnnouncerSkel.v), and the behavioural correspondence of this run does not pass completely or could not run "
                                "(theorems concerned: %s)" % (skel["diffs"], ctx.repo, ", ".join(untied)))

    distinct = len({json.dumps(c["in"], sort_keys=True) for c in hist if
                    any(o["kind"] == "set" for o in c["in"]["ops"]) and any(o["kind"] == "del" for o in c["in"]["ops"])})
    ndp = st.get("ndp_responders", 0) > 0
    ctx.cov["correspondence"] = {"histories": len(hist), "history_mismatches": len(mism), "rescan_histories": len(xcases), "join_failure_histories": len(jcases),
                                 "concurrent_runs": len(conc), "concurrent_mismatches": len(tm),
                                 "generator_counters": st, "ndp_sockets_available": ndp}
    if stale_note:
        ctx.cov["correspondence"]["stale_transcription"] = stale_note
        ctx.assumptions += [stale_note]
    ctx.trusted += [
        "model covers internal/layer2: Announce.SetBalancer/DeleteBalancer/shouldAnnounce/gratuitous/AnnounceName, IPAdvertisement.matchInterface, "
        "arpResponder.processRequest (decision after a successful read), ndpResponder.Watch/Unwatch and the processRequest decision; "
        "updateInterfaces (responders appearing/disappearing), the spam loop's timing and real sockets are outside the model",
        "the ARP responder is driven over an in-process net.PacketConn through mdlayher/arp's real parser; NDP responders (when an ICMPv6 socket "
        "on a link-local interface is available: %s) are driven for Watch/Unwatch only, ndpResponder.processRequest is not driven" % ndp,
        "C13_rw_serial_by_definition assumes every announcer method is one critical section of Announce.RWMutex; decided on every run on lock facts regenerated from announcer.go "
        "(announcer_methods_are_critical_sections, tools/lockfacts, syntactic); that sections of one RWMutex are atomic for readers (answers come from a prefix of the complete writer sections) is C20_rw_sections_atomic (Model/Lock.v semantics); "
        "the -race run of the thorough tier samples schedules",
    ]
    ctx.assumptions += ["JoinGroup/LeaveGroup succeed; the set of responders is fixed during a history; NoDup of the NDP responder list (Go map keys)"]
    evaluations = len(hist) + len(conc)
    ctx.finish(evaluations, distinct,
               "random histories (6-15 ops quick, 10-39 thorough) over 4 services x 7 addresses (2 IPv6 addresses in one solicited-node group) x 5 interface names; "
               "after every op: 9x5 answer matrix, refcounts, group counters, gratuitous on fresh/stale/foreign advertisements, ARP frames on 3 responders through the real processRequest: requests with every Ethernet destination x every ARP target hardware address (4 x 4, chosen independently) x 5 targets, non-requests 4 ops x 4 destinations x 2 targets; the drop label is accepted when it is one of the applicable reasons (C13_arp_label_free), answered / not answered and the reply frames are exact; "
               "non-trivial = history with at least one announce and one withdraw; distinct by JSON of the op list; "
               "concurrent runs: 4 requester goroutines during 150/600 updates, each answer explained by a prefix in its window",
               [c["in"] for c in hist[:3]], search=search)
