"""C15 FRR-K8s mode: Model/FrrK8s.v (updateConfig, passwordForSession) vs the real functions; the
observed FRRConfiguration is read per neighbor and compared with what the sessions intend and, in
Coq, with the FRR-mode model's configuration for the same sessions."""
import json, os, sys

sys.path.insert(0, os.path.join(os.path.dirname(os.path.dirname(os.path.abspath(__file__))), "tools"))
import frrparse as fp

CLOSURE = ["Model/FrrAst.v", "Model/FrrRender.v", "Model/FrrSem.v", "Model/FrrSpec.v", "Model/FrrK8s.v", "Proofs/FrrSortP.v", "Proofs/FrrK8sP.v",
           "Proofs/FrrP.v", "Proofs/FrrListsP.v", "Proofs/FrrShapeP.v", "Proofs/FrrSemP.v", "Proofs/FrrOutP.v", "Proofs/FrrExactP.v",
           "Proofs/FrrK8sEqP.v", "Model/FrrMgr.v", "Proofs/FrrMgrP.v", "Proofs/FrrWfP.v", "Proofs/FrrAdvPermP.v", "Proofs/FrrK8sAdvP.v"]
COQ_FILES = ["Corr/Run_FrrK8s.v", "Corr/Run_FrrMgr.v"]
PKG = "internal/bgp/frrk8s"
EXTRA_ROUTES = ["203.0.113.0/24", "2001:db8:ffff::/48"]
F15 = "k8s-unnumbered-disablemp-no-activation"
F24 = "k8s-source-address-dropped"

KINDS = {1: "Model/FrrK8s.k8s_render differs from the FRRConfiguration produced by updateConfig",
         2: "k8s_render of the permuted session set differs",
         3: "reading of the observed FRRConfiguration differs from intended",
         4: "reading of the observed FRRConfiguration differs from the FRR-mode model's configuration (k8s_eq_frr)",
         5: "password and secret reference both set on a neighbor",
         6: "passwordForSession differs from the model"}


def split_pair(t):
    depth, instr = 0, False
    for i, ch in enumerate(t):
        if ch == '"':
            instr = not instr
        if instr:
            continue
        if ch in "([{":
            depth += 1
        elif ch in ")]}":
            depth -= 1
        elif ch == "," and depth == 1:
            return t[1:i], t[i + 1:-1].strip()
    raise ValueError("no top-level comma")


def cdur(ns):
    return "None" if ns < 0 else "(Some %d%%N)" % ns


def ckcfg(c):
    def nbr(n):
        return "(mk_kneighbor %s %s %d%%N %s %s %d%%N %s %s %s %s %s %s %s %s %s %s (%s, %s) %s)" % (
            fp.cstr(n["address"]), fp.cstr(n["interface"]), n["asn"], fp.cstr(n["dynasn"]), fp.cstr(n["source"]), max(n["port"], 0),
            cdur(n["hold"]), cdur(n["keep"]), cdur(n["connect"]), fp.cstr(n["bfd"]), fp.cbool(n["gr"]), fp.cbool(n["multihop"]),
            fp.clist([fp.cpfx(p) for p in n["allowed"]]),
            fp.clist(["(%s, %s)" % (fp.cstr(x["community"]), fp.clist([fp.cpfx(p) for p in x["prefixes"]])) for x in n["with_comm"]]),
            fp.clist(["(%d%%N, %s)" % (x["lp"], fp.clist([fp.cpfx(p) for p in x["prefixes"]])) for x in n["with_lp"]]),
            fp.cstr(n["password"]), fp.cstr(n["secret_name"]), fp.cstr(n["secret_ns"]), fp.cbool(n["disable_mp"]))

    def rtr(r):
        return "(mk_krouter %d%%N %s %s %s %s)" % (r["asn"], fp.cstr(r["id"]), fp.cstr(r["vrf"]), fp.clist([nbr(n) for n in r["nbrs"]]),
                                                  fp.clist([fp.cpfx(p) for p in r["prefixes"]]))
    sel = fp.clist(["(%s, %s)" % (fp.cstr(k), fp.cstr(v)) for k, v in sorted((c["selector"] or {}).items())])
    return "(mk_kconfig %s %s %s)" % (fp.cstr(c["name"]), sel, fp.clist([rtr(r) for r in c["routers"]]))


def k_find(cfg, s):
    for r in cfg["routers"]:
        if r["vrf"] == s["vrf"]:
            for n in r["nbrs"]:
                if n["address"] == s["addr"] and n["interface"] == s["iface"]:
                    return r, n
            return None
    return None


def k_activated(n, s, afi):
    if not n["disable_mp"]:
        return True
    fam = "dual" if n["interface"] else ("ipv4" if fp.own_afi(s) == "A4" else "ipv6")
    return fam == ("ipv4" if afi == "A4" else "ipv6")


def sem_k8s(cfg, s, route):
    x = k_find(cfg, s)
    if x is None:
        return None
    n = x[1]
    if not (k_activated(n, s, fp.pfx_afi(route)) and route in n["allowed"]):
        return None
    lps = [x["lp"] for x in n["with_lp"] if route in x["prefixes"]]
    cs = [x["community"] for x in n["with_comm"] if route in x["prefixes"]]
    return {"lp": lps[0] if lps else None, "comm": [c for c in cs if not c.startswith("large:")],
            "lcomm": [c[6:] for c in cs if c.startswith("large:")], "_lps": lps}


def oracle(ctx, case):
    S, cfg, node = case["in"]["sessions"], case["in"]["cfg"], case["in"]["node"]
    rep = {"sessions": S, "node": node, "cfg": cfg}
    n_eval = 0
    if cfg["selector"] != {"kubernetes.io/hostname": node} or cfg["selector_exprs"] != 0 or cfg["name"] != "metallb-" + node:
        ctx.oracle_fail("k8s-node-selector", "configuration %r selects %r (+%d expressions), node is %r" % (cfg["name"], cfg["selector"], cfg["selector_exprs"], node), rep)
    if cfg["raw_len"] != 0:
        ctx.oracle_fail("k8s-raw-config", "raw configuration present", rep)
    routes = sorted({a["prefix"] for s in S for a in s["advs"]}) + EXTRA_ROUTES
    for s in S:
        x = k_find(cfg, s)
        if x is None:
            ctx.oracle_fail("k8s-params-mismatch", "no neighbor for session %s/%s vrf %r" % (s["addr"], s["iface"], s["vrf"]), rep)
            continue
        r, n = x
        want = sorted({a["prefix"] for a in s["advs"]})
        if n["allowed"] != want:
            ctx.oracle_fail("k8s-allowed-mismatch", "neighbor %s vrf %r: allowed %r, requested (sorted, no duplicates) %r" % (fp.peer_tok(s), s["vrf"], n["allowed"], want), rep)
        if n["mode"] not in ("", "filtered"):
            ctx.oracle_fail("k8s-allowed-mismatch", "neighbor %s: allow mode %r" % (fp.peer_tok(s), n["mode"]), rep)
        wc = {}
        wl = {}
        for a in s["advs"]:
            for c in a["comms"]:
                wc.setdefault(c, set()).add(a["prefix"])
            if a["lp"]:
                wl.setdefault(a["lp"], set()).add(a["prefix"])
        gc = [(x["community"], x["prefixes"]) for x in n["with_comm"]]
        if gc != [(c, sorted(wc[c])) for c in sorted(wc)]:
            ctx.oracle_fail("k8s-community-mismatch", "neighbor %s vrf %r: prefixes with community %r, requested %r" % (fp.peer_tok(s), s["vrf"], gc, {c: sorted(v) for c, v in wc.items()}), rep)
        gl = [(x["lp"], x["prefixes"]) for x in n["with_lp"]]
        if gl != [(l, sorted(wl[l])) for l in sorted(wl)]:
            ctx.oracle_fail("k8s-localpref-mismatch", "neighbor %s vrf %r: prefixes with local preference %r, requested %r" % (fp.peer_tok(s), s["vrf"], gl, {l: sorted(v) for l, v in wl.items()}), rep)
        e = {"asn": s["peerasn"], "dynasn": s["dynasn"], "port": s["port"], "hold": s["hold"], "keep": s["keep"], "connect": s["connect"],
             "bfd": s["bfd"], "gr": s["gr"], "multihop": s["multihop"], "disable_mp": s["disable_mp"],
             "password": s["password"], "secret_name": s["secret_name"], "secret_ns": s["secret_ns"]}
        bad = [k for k in e if n[k] != e[k]]
        if r["asn"] != s["myasn"] or r["id"] != s["rid"]:
            bad.append("router")
        if bad:
            ctx.oracle_fail("k8s-params-mismatch", "neighbor %s vrf %r: %s differ: configuration %r, session %r" % (fp.peer_tok(s), s["vrf"], bad, {k: n[k] for k in e}, e), rep)
        if n["source"] != s["src"]:
            sig = F24 if (s["src"] and not n["source"]) else "k8s-params-mismatch"
            ctx.oracle_fail(sig, "neighbor %s vrf %r: source address %r, session has %r" % (fp.peer_tok(s), s["vrf"], n["source"], s["src"]), rep)
        if n["password"] and (n["secret_name"] or n["secret_ns"]):
            ctx.oracle_fail("k8s-password-and-secret", "neighbor %s carries a password and a secret reference" % fp.peer_tok(s), rep)
        for rt in routes:
            n_eval += 1
            got, wanted = sem_k8s(cfg, s, rt), fp.intended(s, rt)
            lps = {a["lp"] for a in s["advs"] if a["prefix"] == rt}
            if len(lps) > 1 and got is not None and wanted is not None:
                # same prefix requested with two local preferences: no single intended value; every non-zero one must be listed
                if set(got["_lps"]) != lps - {0}:
                    ctx.oracle_fail("k8s-localpref-mismatch", "neighbor %s route %s: local preferences %r, requested %r" % (fp.peer_tok(s), rt, got["_lps"], sorted(lps)), rep)
                got = dict(got, lp=wanted["lp"])
            if s["iface"] and s["disable_mp"]:
                continue   # which families frr-k8s activates for an unnumbered neighbor with DisableMP is decided outside this repository (cf. F15)
            if not fp.attrs_equiv(got, wanted):
                sig = "k8s-out-mismatch"
                ctx.oracle_fail(sig, "neighbor %s vrf %r route %s: configuration offers %r, requested %r" % (fp.peer_tok(s), s["vrf"], rt, got, wanted), rep)
    for vrf in sorted({s["vrf"] for s in S}):
        want = sorted({a["prefix"] for s in S if s["vrf"] == vrf for a in s["advs"]})
        got = [r["prefixes"] for r in cfg["routers"] if r["vrf"] == vrf]
        if got != [want]:
            ctx.oracle_fail("k8s-router-prefixes-mismatch", "vrf %r: router prefixes %r, requested %r" % (vrf, got, want), rep)
    if sum(len(r["nbrs"]) for r in cfg["routers"]) != len(S):
        ctx.oracle_fail("k8s-params-mismatch", "%d neighbors for %d sessions" % (sum(len(r["nbrs"]) for r in cfg["routers"]), len(S)), rep)
    return n_eval


def run(ctx):
    propfile = "Properties/C15.v"
    ok = ctx.coq_build([propfile] + COQ_FILES)
    ctx.coq_theorems(propfile, CLOSURE)
    n = 150 if ctx.tier == "quick" else 3000
    state = {"stats": {}, "evals": 0}
    gen = os.path.join(os.path.dirname(os.path.dirname(os.path.abspath(__file__))), "harness", "internal", "bgp", "frr", "zz_verif_gen_test.go")

    def records(recs, okrun, log, what):
        cases = [r for r in recs if r.get("t") == "case"]
        for r in recs:
            if r.get("t") == "fail":
                ctx.oracle_fail(r.get("sig", "?"), r.get("what", ""), r.get("replay"))
            elif r.get("t") == "stat":
                state["stats"][r["k"]] = state["stats"].get(r["k"], 0) + r["v"]
        if not okrun and not any("does not build" in c for c in ctx.corr_broken):
            ctx.corr_broken.append("harness %s failed: %s" % (what, log[-1500:]))
        return cases

    def harness(n, seed, tag, check_coq):
        recs, okrun, log = ctx.go_harness(PKG, ["zz_verif_k8s_test.go", "zz_verif_kproj_test.go"], "TestVerifK8s$", n=n, seed=seed, tag=tag,
                                          extra_overlay={PKG + "/zz_verif_gen_test.go": gen})
        cases = records(recs, okrun, log, "TestVerifK8s")
        # histories through the real NewSession / Set / refused Set / Close / SyncBFDProfiles
        recs, okrun, log = ctx.go_harness(PKG, ["zz_verif_k8s_test.go", "zz_verif_kproj_test.go"], "TestVerifK8sHist$", n=max(30, (n * 2) // 5),
                                          seed=seed, tag=tag + "hist", extra_overlay={PKG + "/zz_verif_gen_test.go": gen})
        cases += records(recs, okrun, log, "TestVerifK8sHist")
        # the real FRRK8sReconciler fed by the real session manager (fake API server): generator and projection
        # are shared source files with the package clause rewritten
        ov = {}
        for src, name in ((gen, "zz_verif_gen_test.go"), (os.path.join(os.path.dirname(gen), "..", "frrk8s", "zz_verif_kproj_test.go"), "zz_verif_kproj_test.go")):
            txt = open(src).read().replace("\npackage frr\n", "\npackage controllers\n", 1)
            dst = os.path.join(ctx.work, "ctl_" + name)
            open(dst, "w").write(txt)
            ov["internal/k8s/controllers/" + name] = dst
        recs, okrun, log = ctx.go_harness("internal/k8s/controllers", ["zz_verif_k8srec_test.go"], "TestVerifK8sRec(Deliver)?$",
                                          n=max(20, n // 4), seed=seed, tag=tag + "rec", extra_overlay=ov)
        cases += records(recs, okrun, log, "TestVerifK8sRec")
        terms = []
        mterms = []
        for c in cases:
            for s in c["in"]["sessions"]:
                s["advs"] = s.get("advs") or []
                for a in s["advs"]:
                    a["comms"] = a.get("comms") or []
            S = c["in"]["sessions"]
            if any(s["password"] and (s["secret_name"] or s["secret_ns"]) for s in S):
                state["stats"]["input_with_password_and_secret"] = state["stats"].get("input_with_password_and_secret", 0) + 1
            routes = sorted({a["prefix"] for s in S for a in s["advs"]}) + EXTRA_ROUTES
            s_term, p_term = split_pair(c["coq"])
            obs = "None"
            if c["in"]["ok"]:
                state["evals"] += oracle(ctx, c)
                obs = "(Some %s)" % ckcfg(c["in"]["cfg"])
            elif not any(s["password"] and (s["secret_name"] or s["secret_ns"]) for s in S):
                ctx.oracle_fail("k8s-unexpected-error", "updateConfig failed on a session set without password+secret conflicts", {"sessions": S})
            if c.get("kind") == "frrk8s-history" and c["in"].get("ops_coq"):
                # replayed through the model of the session manager (Model/FrrMgr.v) instead
                mterms.append("(MK8s %d%%N %s %s %s %s)" % (c["id"], fp.cstr(c["in"]["node"]), c["in"]["ops_coq"], c["in"]["oks_coq"], obs))
            else:
                terms.append("(KCfg %d%%N %s %s %s %s %s)" % (c["id"], fp.cstr(c["in"]["node"]), s_term, p_term, obs,
                                                            fp.clist([fp.cpfx(r) for r in routes])))
        pwcases = []
        if check_coq:
            recs, okrun, log = ctx.go_harness("speaker", ["zz_verif_pw_test.go", "zz_verif_k8sflap_test.go"], "TestVerif(Pw|K8sFlap)$",
                                              n=40 if ctx.tier == "quick" else 400, seed=seed, tag=tag + "pw")
            pwcases = records(recs, okrun, log, "TestVerifPw / TestVerifK8sFlap")
            terms += [c["coq"] for c in pwcases]
        mism = []
        if check_coq and terms and ok:
            import concurrent.futures
            with concurrent.futures.ThreadPoolExecutor(max_workers=2) as ex:
                f1 = ex.submit(ctx.coq_cases, "Run_FrrK8s", "kcase", terms, None, 40, "Open Scope string_scope.")
                f2 = ex.submit(ctx.coq_cases, "Run_FrrMgr", "mcase", mterms, None, 20, "Open Scope string_scope.") if mterms else None
                mism = f1.result()
                mm = f2.result() if f2 else []
            state["replayed"] = state.get("replayed", 0) + len(mterms)
            byid = {c["id"]: c for c in cases + pwcases}
            for m in mm[:3]:
                c = byid.get(m // 10, {})
                ctx.corr_broken.append("history %d replayed through Model/FrrMgr.v: %s\nhistory: %s" % (
                    m // 10, {1: "per-operation results differ", 2: "the last FRRConfiguration handed on differs from the model's"}.get(m % 10, "?"),
                    json.dumps((c.get("in") or {}).get("history"))[:1500]))
            mism = mism + mm
            seen = set()
            outside = [m for m in mism if m % 10 == 9]
            state["outside_wf"] = state.get("outside_wf", 0) + len(outside)
            mism = [m for m in mism if m % 10 != 9]
            for m in mism:
                cid, k = m // 10, m % 10
                if k in seen:
                    continue
                seen.add(k)
                c = byid.get(cid, {})
                ctx.corr_broken.append("case %d: %s\n%s" % (cid, KINDS.get(k, "?"), json.dumps(c.get("in"))[:2500]))
        return cases + pwcases, mism

    cases, mism = harness(n, ctx.seed, "h", True)
    # group spk, harness/speaker/zz_verif_bgp_test.go TestVerifBgpSessParams: SetConfig sequences changing one peer field at a
    # time (incl. only the secret reference) in native / frr / frr-k8s pass-through / frr-k8s convert mode; every selected peer
    # has exactly one live session whose NewSession arguments (incl. password / secret reference) equal the current configuration
    recs, okrun, log = ctx.go_harness("speaker", ["zz_verif_bgp_test.go"], "TestVerifBgpSessParams$", n=6 if ctx.tier == "quick" else 100,
                                      seed=ctx.seed, tag="sp")
    records(recs, okrun, log, "TestVerifBgpSessParams")
    st = state["stats"]
    if cases and not ctx.corr_broken and not ctx.violations:
        for k in ("input_with_password_and_secret", "secret_ref", "password", "unnumbered", "repeated_prefix", "repeated_prefix_other_localpref",
                  "adv_with_localpref", "communities", "neighbor_without_advertisement", "multi_neighbor", "pw_cases", "flap_histories", "flap_node_label_changes",
                  "deliver_runs", "deliver_consumer_started_late", "deliver_stream_runs", "deliver_debug_level_with_password", "deliver_extra_reconciles", "reconciled_single_field_changes", "reconciled_shrink_to_empty", "reconciled_cases", "reconciled_at_debug", "reconciled_with_password", "reconciled_with_secret_ref",
                  "k8s_histories", "k8s_hist_rejected_set", "k8s_hist_resync", "k8s_hist_close", "k8s_hist_set"):
            if k.startswith("flap_") and st.get("whitebox_skipped:speaker-bgp-handler", 0):
                continue    # the speaker's protocol-handler map was not found by type: that harness skipped itself
            if st.get(k, 0) == 0:
                raise Exception("generator degenerate: counter %s is zero: %r" % (k, st))

    def search():
        for k in range(3):
            harness(n * 4, ctx.seed * 1000 + k + 7, "s%d" % k, False)
            if ctx.violations:
                return

    distinct = len({json.dumps(c["in"].get("sessions", c["in"]), sort_keys=True) for c in cases
                    if "sessions" not in c["in"] or any(s["advs"] for s in c["in"]["sessions"])})
    ctx.cov["correspondence"] = {"cases": len(cases), "mismatches": len(mism), "oracle_evaluations(neighbor x route)": state["evals"],
                                 "cases_outside_premises_of_C15_k8s_eq_frr(decided in Coq)": state.get("outside_wf", 0),
                                 "histories_replayed_through_FrrMgr_model": state.get("replayed", 0),
                                 "generator_counters": st}
    ctx.trusted += [
        "H-sort: sort.Strings / sort.Slice on distinct keys return the sorted list (insertion sort in the model)",
        "model covers frrk8s.go updateConfig/toAdvertiseWithCommunity/toAdvertiseWithLocalPref/removeDuplicates/sortMap/sessionName and "
        "speaker/bgp_controller.go passwordForSession; NOT BFD profiles, object metadata, the reconciler's API calls",
        "sem_k8s: the reading of Allowed / PrefixesWithCommunity / PrefixesWithLocalPref / DisableMP assumed of frr-k8s (outside this repository)",
        "k8s_eq_frr relates two MODELS (FrrK8s.k8s_render, FrrRender.render); each is tied to its code by its own correspondence (C15, C14)",
    ]
    ctx.assumptions += ["wf: session names distinct (they are map keys), one router per VRF, one session per peer and VRF"]
    ctx.finish(len(cases), distinct,
               "session sets as in C14 plus password / secret-reference combinations (incl. both set: updateConfig must fail), same prefix with "
               "two local preferences; passwordForSession enumerated exhaustively (64 combinations); non-trivial = at least one advertisement "
               "(resp. any password case); distinct by JSON",
               [c["in"].get("sessions", c["in"]) for c in cases[:2]], search=search)
