"""shared by C04 and C12: speaker harness TestVerifL2 + Model/Elect.v"""
import json

CLOSURE = ["Model/Elect.v", "Proofs/ElectP.v"]
COQ_FILES = ["Base/Sha256.v", "Corr/Run_Elect.v"]

C04_SIGS = {"speakerlist-usable-differs-from-members", "speakerlist-disabled-wrong", "l2-not-exactly-one", "l2-announcer-without-eligible", "l2-winner-not-eligible",
            "l2-depends-on-map-order", "l2-shared-same-first-differs", "l2-elect-shared-nonfirst-address"}
C12_SIGS = {"l2-moved-on-nonowner-loss", "l2-moved-between-survivors",
            "l2-choice-not-function-of-names-and-address", "l2-depends-on-map-order",
            "l2-shared-same-first-differs", "l2-elect-shared-nonfirst-address"}


# several-speakers history part (group spk: harness/speaker/zz_verif_spk_test.go, TestVerifSpkMulti):
# one real controller per node fed the same events, C04 at quiescence
MULTI_SIGS = {"l2-two-announcers-after-node-flip", "l2-announcers-differ-from-election"}
C04_SIGS |= MULTI_SIGS
C12_SIGS |= MULTI_SIGS


# long-running speakers driven through controller.SetBalancer with status ORDER edits, configuration rendered by the
# real config.For in two listing orders (group l2lock: harness/speaker/zz_verif_l2multi_test.go, TestVerifL2Multi)
L2M_C04 = {"l2m-not-exactly-one", "l2m-announcer-without-eligible", "l2m-winner-not-eligible"}
L2M_C12 = {"l2m-depends-on-history-or-listing-order", "l2m-not-exactly-one"}
C04_SIGS |= L2M_C04
C04_SIGS |= {"speakerlist-event-without-sync"}
C12_SIGS |= L2M_C12


def run(ctx, prop, sigs):
    propfile = "Properties/%s.v" % prop
    ok = ctx.coq_build([propfile] + COQ_FILES)
    ctx.coq_theorems(propfile, CLOSURE)
    n = 400 if ctx.tier == "quick" else 6000
    state = {"cases": [], "stats": {}, "evals": 0}

    def harness(n, seed, tag):
        recs, ok, log = ctx.go_harness("speaker", ["zz_verif_l2_test.go"], "TestVerifL2$", n=n, seed=seed, tag=tag)
        cases = [r for r in recs if r.get("t") == "case"]
        for r in recs:
            if r.get("t") == "fail" and r.get("sig") in sigs:
                ctx.oracle_fail(r["sig"], r.get("what", ""), r.get("replay"))
            elif r.get("t") == "stat":
                state["stats"][r["k"]] = state["stats"].get(r["k"], 0) + r["v"]
        if not ok and not any("does not build" in c for c in ctx.corr_broken):
            ctx.corr_broken.append("harness TestVerifL2 failed: " + log[-1500:])
        return cases

    cases = harness(n, ctx.seed, "h")
    if prop == "C04":
        # the candidates of the election come from SpeakerList.UsableSpeakers(): drive the real
        # function over real loopback memberlist instances (1..3 members, members leaving)
        # + (group l2lock) the real memberlistWatchEvents fed through its event channel: every membership event is followed by a sync
        recs, ok2, log2 = ctx.go_harness("internal/speakerlist", ["zz_verif_sl_test.go", "zz_verif_slevents_test.go"], "TestVerifSpeakerList(Events)?$", tag="sl")
        for r in recs:
            if r.get("t") == "fail" and r.get("sig") in sigs:
                ctx.oracle_fail(r["sig"], r.get("what", ""), r.get("replay"))
            elif r.get("t") == "stat":
                state["stats"][r["k"]] = state["stats"].get(r["k"], 0) + r["v"]
        if not ok2 and not any("does not build" in c for c in ctx.corr_broken):
            ctx.corr_broken.append("harness TestVerifSpeakerList failed: " + log2[-1200:])
    # histories on several real speakers (node condition / label flips, ignoreExcludeLB with labelled nodes,
    # service events, speaker-list and advertisement changes): the set of nodes announcing an address over
    # layer 2 must be exactly {the node elected among the currently eligible ones}
    import os
    ov = {"internal/layer2/zz_verif_spk.go": os.path.join(os.path.dirname(os.path.dirname(os.path.abspath(__file__))),
                                                         "harness", "internal", "layer2", "zz_verif_spk.go")}
    # + TestVerifSpkStack (group spk): the REAL Service / Node / Config reconcilers on a fake API server in front of one speaker;
    # its layer-2 oracle (this node answers iff it is the node elected among the eligible ones on the CURRENT objects) reports
    # under l2-announcers-differ-from-election
    recs, ok3, log3 = ctx.go_harness("speaker", ["zz_verif_bgp_test.go", "zz_verif_spk_test.go", "zz_verif_stack_test.go"], "TestVerifSpk(Multi|Stack)$",
                                     n=30 if ctx.tier == "quick" else 600, tag="multi", extra_overlay=ov)
    for r in recs:
        if r.get("t") == "fail" and r.get("sig") in sigs:
            ctx.oracle_fail(r["sig"], r.get("what", ""), r.get("replay"))
        elif r.get("t") == "stat":
            state["stats"][r["k"]] = state["stats"].get(r["k"], 0) + r["v"]
    if not ok3 and not any("does not build" in c for c in ctx.corr_broken):
        ctx.corr_broken.append("harness TestVerifSpkMulti failed: " + log3[-1200:])
    ov2 = {"internal/layer2/zz_verif.go": os.path.join(os.path.dirname(os.path.dirname(os.path.abspath(__file__))),
                                                       "harness", "internal", "layer2", "zz_verif.go")}
    recs, ok4, log4 = ctx.go_harness("speaker", ["zz_verif_l2_test.go", "zz_verif_l2multi_test.go"], "TestVerifL2Multi$",
                                     n=25 if ctx.tier == "quick" else 400, tag="l2m", extra_overlay=ov2)
    l2m_cases = []
    for r in recs:
        if r.get("t") == "fail" and r.get("sig") in sigs:
            ctx.oracle_fail(r["sig"], r.get("what", ""), r.get("replay"))
        elif r.get("t") == "stat":
            state["stats"][r["k"]] = state["stats"].get(r["k"], 0) + r["v"]
        elif r.get("t") == "case":
            l2m_cases.append(r)
    if not ok4 and not any("does not build" in c for c in ctx.corr_broken):
        ctx.corr_broken.append("harness TestVerifL2Multi failed: " + log4[-1200:])
    if l2m_cases and ok:
        mm = ctx.coq_cases("Run_Elect", "ecase", [c["coq"] for c in l2m_cases], shard=200)
        byid2 = {c["id"]: c for c in l2m_cases}
        for m in mm[:3]:
            ctx.corr_broken.append("the speakers announcing after %r differ from Elect.decide on the CURRENT status order (long-running speakers through controller.SetBalancer): %s" %
                                   (byid2.get(m, {}).get("in", {}).get("after"), json.dumps(byid2.get(m, {}).get("in"))[:600]))
    state["cases"] = cases
    mism = []
    if cases and ok:
        mism = ctx.coq_cases("Run_Elect", "ecase", [c["coq"] for c in cases], shard=500)
        byid = {c["id"]: c for c in cases}
        for m in mism[:5]:
            ctx.corr_broken.append("model Elect.decide and ShouldAnnounce disagree on case %d (%s): %s" %
                                   (m, byid.get(m, {}).get("kind"), json.dumps(byid.get(m, {}).get("in"))[:600]))
    st = state["stats"]
    if cases and (st.get("contested(>=2 eligible)", 0) == 0 or st.get("no_eligible", 0) == 0):
        raise Exception("generator degenerate: %r" % st)

    def search():
        for k in range(4):
            harness(n * 5, ctx.seed * 1000 + k + 7, "s%d" % k)
            if ctx.violations:
                return

    distinct = len({json.dumps(c["in"], sort_keys=True) for c in cases if
                    len(c["in"].get("speakers") or []) + (1 if c["in"].get("disabled") else 0) > 0})
    ctx.cov["correspondence"] = {"cases": len(cases), "mismatches": len(mism), "generator_counters": st,
                                 "decisions_compared": sum(len(c["in"]["names"]) for c in cases)}
    ctx.trusted += ["H-sha: SHA-256 has no collision among the <node>#<address> strings of one election (premise inj_on of the theorems)",
                    "Go sort.Slice puts the least element first when the comparator is a strict total order on the slice",
                    "internal/speakerlist UsableSpeakers is not modelled: the real function is driven over real loopback memberlist instances and must return exactly the live members (oracle only); memberlist itself is trusted",
                    "model covers speaker/layer2_controller.go ShouldAnnounce/speakersForPool/nodesWithEndpoint/activeEndpointExists/poolMatchesNodeL2, nodes.go, EndpointCanServe",
                    "Base/Sha256.v (Uint63 primitives) is used in the correspondence only; no theorem depends on it"]
    ctx.assumptions += ["all speakers share one cluster view (the property's premise); memberlist convergence is not modelled"]
    ctx.finish(len(cases), distinct,
               "random cluster views (2-5 nodes, flags, memberlist on/off, 0-3 L2 advertisements, 0-3 slices x 0-3 endpoints, both policies, 1-2 addresses) "
               "plus derived perturbed views; ShouldAnnounce evaluated on every node; non-trivial = at least one candidate speaker; distinct by JSON of the view",
               [c["in"] for c in cases[:3]], search=search)
