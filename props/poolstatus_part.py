"""PoolStatusReconciler part of C11 (internal/k8s/controllers/pool_status_controller.go):
harness TestVerifPoolStatus drives the real reconciler over a fake API server with a scripted
CountersFetcher; oracle: after every reconcile IPAddressPool.status equals the counters, an
unchanged status causes no write.  Called from props/C11.py:

    import poolstatus_part
    n_eval, stats = poolstatus_part.run_poolstatus(ctx, sigs)      # sigs=None: every signature
"""

PKG = "internal/k8s/controllers"
SIGS = {"poolstatus-differs-from-counters", "poolstatus-spurious-write", "poolstatus-wrong-pool-written",
        "poolstatus-write-error-swallowed", "poolstatus-reconcile-error", "poolstatus-missing-pool-mishandled"}
NEED = ["step_only_AssignedIPv4_changes", "step_only_AssignedIPv6_changes", "step_only_AvailableIPv4_changes",
        "step_only_AvailableIPv6_changes", "step_several_counters_change", "step_no_counter_changes",
        "reconcile_status_already_equal", "reconcile_status_stale", "reconcile_of_missing_pool",
        "reconcile_write_refused", "repaired_AssignedIPv4", "repaired_AssignedIPv6", "repaired_AvailableIPv4",
        "repaired_AvailableIPv6"]


def run_poolstatus(ctx, sigs=None, n_quick=40, n_thorough=1500):
    """returns (n_evaluations, stats).  Oracle failures go to ctx.oracle_fail, a harness that
    does not build / crashes goes to ctx.corr_broken."""
    n = n_quick if ctx.tier == "quick" else n_thorough
    recs, ok, log = ctx.go_harness(PKG, ["zz_verif_poolstatus_test.go"], "TestVerifPoolStatus$", n=n, tag="poolstatus")
    stats = {}
    nfail = 0
    for r in recs:
        if r.get("t") == "fail" and (sigs is None or r.get("sig") in sigs):
            nfail += 1
            ctx.oracle_fail(r["sig"], r.get("what", ""), r.get("replay"))
        elif r.get("t") == "stat":
            stats[r["k"]] = stats.get(r["k"], 0) + r["v"]
    if not ok and not any("does not build" in c for c in ctx.corr_broken):
        tail = "\n".join(l for l in log.splitlines() if "zz_verif" in l or "panic" in l or "FAIL" in l)[-1500:]
        ctx.corr_broken.append("harness TestVerifPoolStatus failed: " + (tail or log[-1500:]))
    if ok and not nfail and not getattr(ctx, "replay_in", None):
        for k in NEED:
            if stats.get(k, 0) == 0:
                raise Exception("poolstatus generator degenerate: counter %s is zero: %r" % (k, stats))
    ctx.cov.setdefault("correspondence", {})
    if isinstance(ctx.cov["correspondence"], dict):
        ctx.cov["correspondence"]["poolstatus_counters"] = stats
    ctx.trusted.append("PoolStatusReconciler (pool_status_controller.go) is exercised on the real code over controller-runtime's fake client "
                       "(status subresource, every status write counted) with a scripted CountersFetcher; no Coq model of it")
    return stats.get("reconciles", 0), stats
