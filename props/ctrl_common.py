"""shared by C01 C02 C03 C06 C07: controller harness TestVerifCtrl + Model/Ctrl.v"""
import json

CLOSURE = ["Model/Net.v", "Model/Alloc.v", "Model/Ctrl.v", "Proofs/NetP.v", "Proofs/AllocP.v", "Proofs/AllocPolicyP.v",
           "Proofs/CtrlP.v", "Proofs/CtrlWorldP.v", "Proofs/CtrlThmP.v"]
COQ_FILES = ["Corr/Run_Ctrl.v"]

TRUST = ["model Ctrl.v covers controller/service.go (convergeBalancer, clearServiceState, allocateIPs, getDesiredLbIPs as parsed input, isEqualIPs, serviceFamilyChanged), "
         "controller/main.go (SetBalancer, SetPools), internal/k8s/controllers/service_controller.go + service_controller_reload.go (reconcileService gate, reprocessAll order/retry)",
         "harness drives the real ServiceReconciler + controller + allocator against a controller-runtime fake client (List order shuffled, status writes failing on demand, restarts); "
         "real process death, informer cache staleness and resourceVersion conflicts are not modelled",
         "AllocationKey is modelled as the pair (sharing, backend), not their string concatenation; matchExpressions selectors, loadBalancerClass filtering and events/log text are outside the model",
         "annotation parsing (deprecated spellings, loadBalancerIPs lists) is done by the real code; the model receives the parsed request"]


def run_ctrl(ctx, sigs, n_quick=150, n_thorough=2500):
    n = n_quick if ctx.tier == "quick" else n_thorough
    state = {"stats": {}}

    def harness(n, seed, tag):
        recs, ok, log = ctx.go_harness("controller", ["zz_verif_ctrl_test.go"], "TestVerifCtrl$", n=n, seed=seed, tag=tag)
        cases = [r for r in recs if r.get("t") == "case"]
        for r in recs:
            if r.get("t") == "fail" and (sigs is None or r.get("sig") in sigs):
                ctx.oracle_fail(r["sig"], r.get("what", ""), r.get("replay"))
            elif r.get("t") == "stat":
                state["stats"][r["k"]] = state["stats"].get(r["k"], 0) + r["v"]
        if not ok and not any("does not build" in c for c in ctx.corr_broken):
            ctx.corr_broken.append("harness TestVerifCtrl failed: " + log[-1500:])
        return cases

    cases = harness(n, ctx.seed, "ctrl")
    mism = []
    if cases:
        mism = ctx.coq_cases("Run_Ctrl", "ccase", [c["coq"] for c in cases], shard=max(4, len(cases) // 16 + 1))
        byid = {c["id"]: c for c in cases}
        for m in mism[:3]:
            ctx.corr_broken.append("model Ctrl.wstep and the real reconciler/controller disagree on history %d: %s" %
                                   (m, json.dumps([{k: v for k, v in e.items() if k != "obs"} for e in byid.get(m, {}).get("in", [])])[:1500]))
    st = state["stats"]
    for k in ("ev_put", "ev_svc", "ev_reload", "ev_crash", "ev_pools", "failed_writes", "quiescent_points", "stability_checks",
              "ev_svc_dropped_by_gate", "reload_retry", "pending_services_at_quiescence"):
        if cases and st.get(k, 0) == 0:
            raise Exception("generator degenerate: counter %s is zero: %r" % (k, st))

    def search():
        for k in range(3):
            harness(n * 4, ctx.seed * 1000 + k + 17, "s%d" % k)
            if ctx.violations:
                return

    return cases, st, mism, search
