import json, os, sys
sys.path.insert(0, os.path.dirname(__file__))
import cfg_common as cc
import reconciler_part

PKG = "internal/k8s/controllers"


def run(ctx):
    ok = ctx.coq_build(["Properties/C18.v", "Corr/Run_Cfg.v"])
    ctx.coq_theorems("Properties/C18.v", cc.closure_existing())
    n = 150 if ctx.tier == "quick" else 2500
    state = {"stats": {}}

    def harness(n, seed, tag):
        return cc.run_harness(ctx, state, PKG, ["zz_verif_order_test.go"], "TestVerifOrder$", n, seed, tag)

    cases = harness(n, ctx.seed, "h")
    mism = []
    if cases and ok:
        mism = cc.coq_compare(ctx, cases, "toConfig/sortedCopy")
    st = state["stats"]
    need = ["accepted", "rejected", "namespace_with_two_or_more_pools", "pool_with_three_or_more_bgp_advs",
            "sortedcopy_unsorted_input_3plus", "reconciler_runs", "reconciler_runs_with_two_pools_in_one_namespace",
            "dualclash_lengths_differ_in_ipv4_only_rejected", "dualclash_lengths_differ_in_ipv6_only_rejected",
            "dualclash_lengths_differ_in_both_accepted", "dualclash_lengths_differ_in_none_rejected",
            "echomix_must_be_refused", "echomix_must_be_accepted", "reconciler_allocator_runs",
            "reconciler_allocator_runs_priority_order_differs_from_name_order", "allocator_allocate_ok",
            "allocator_allocate_in_namespace_with_several_pinned_pools", "allocator_allocatefrompool_ok",
            "allocator_unassign", "allocator_assign_ok"] + ["echomix_variant_%d" % v for v in range(1, 9)]
    if cases and not ctx.replay_in and not ctx.violations and not ctx.corr_broken and any(st.get(k, 0) == 0 for k in need):
        raise Exception("generator degenerate: %r" % st)

    def search():
        for k in range(3):
            harness(n * 4, ctx.seed * 1000 + k + 11, "s%d" % k)
            if ctx.violations:
                return

    tc = [c for c in cases if c.get("kind") == "toconfig"]
    distinct = len({json.dumps(c["in"]["snap"], sort_keys=True) for c in tc
                    if len(c["in"]["snap"].get("pools") or []) >= 2})
    ctx.cov["correspondence"] = {"cases": len(cases), "toconfig_cases": len(tc), "mismatches": len(mism),
                                 "generator_counters": st,
                                 "oracle_evaluations": st.get("oracle_evaluations", 0)}
    # the reconciler glue: real ConfigReconciler / PoolReconciler over edit histories vs Model/Reconciler.v
    n_rec, st_rec = reconciler_part.run_reconciler(ctx, None)
    # ... and behind the real speaker: no handler may modify the configuration object the reconciler remembers, and an event that leaves the
    # rendered configuration unchanged must not call SetConfig again (speaker stack harness, group spk)
    import spk_stack_part
    n_stack, st_stack = spk_stack_part.run_stack(ctx, sigs=spk_stack_part.CONFIG_SIGS, n_quick=24)
    if isinstance(ctx.cov.get("correspondence"), dict):
        ctx.cov["correspondence"]["speaker_stack_events"] = n_stack
    ctx.trusted += [
        "H-sort: proved for the exact model of Go's insertionSort_func (what sort.Slice runs for at most 12 elements: C18_go_insertion_sort_satisfies_hsort); for more than 12 objects of one kind (pdqsort) it remains the premise hsort of the C18 theorems",
        "object names within one listed kind are distinct (premise nodup_names; the API server guarantees it per namespace and MetalLB lists one namespace)",
        "model covers config_conversion.go toConfig/sortedCopy, the whole config.For (poolsFor and what it calls: Model/Cfg.v; validators, bfdProfilesFor, peersFor, parseTimers, secrets, communitiesFromCrs/getCommunityValue, bgpExtrasFor, validateConfig: Model/CfgFull.v) and the reconcilers' compare-and-skip; compared field by field with the real toConfig on every generated snapshot; maps are iterated only in existence tests there (written with existsb/find in the model)",
        "reflect.DeepEqual on *config.Config is value equality of the projected observables plus the non-pool part (labels.Selector internals are compared by DeepEqual in Go, by count in the model)",
    ]
    ctx.assumptions += ["the snapshot handed to toConfig is what the API server listed; informer cache consistency is not modelled"]
    ctx.finish(len(cases), distinct,
               "snapshots with 3-6 objects per kind (pools with CIDR/range/mapped notations and namespace pinning, L2/BGP advertisements with pool and node selectors, nodes, namespaces, peers, BFD profiles, communities; 30% with invalid non-pool objects and the native/FRR validators), "
               "each recomputed 50x and under kind-wise shuffles with reflect.DeepEqual; every 10th snapshot a dual-stack pool with two advertisements of different local preference whose aggregation lengths differ in no / one / both families (acceptance must be repeatable); sortedCopy on shuffled pool lists; 7 runs of the real ConfigReconciler and PoolReconciler (two generations each) on a fake API server whose List order is reversed/shuffled between reconciles; "
               "non-trivial = toConfig case with at least 2 pools; distinct by JSON of the snapshot",
               [c["in"] for c in tc[:3]], search=search)
