"""C14 FRR mode: Model/FrrRender.v (createConfig + templates) = parsed text of the real
createConfig+templateConfig; the parsed program is interpreted (tools/frrparse.py, port of
Model/FrrSem.v, cross-checked in Coq) and compared with what the sessions intend."""
import json, os, sys, glob

sys.path.insert(0, os.path.join(os.path.dirname(os.path.dirname(os.path.abspath(__file__))), "tools"))
import frrparse as fp

CLOSURE = ["Model/FrrAst.v", "Model/FrrRender.v", "Model/FrrSem.v", "Model/FrrSpec.v", "Proofs/FrrSortP.v", "Proofs/FrrP.v", "Proofs/FrrListsP.v",
           "Proofs/FrrShapeP.v", "Proofs/FrrSemP.v", "Proofs/FrrOutP.v", "Proofs/FrrExactP.v", "Proofs/FrrWfP.v", "Proofs/FrrAdvPermP.v", "Proofs/FrrSeqP.v",
           "Model/FrrK8s.v", "Model/FrrMgr.v", "Proofs/FrrK8sP.v", "Proofs/FrrMgrP.v"]
COQ_FILES = ["Corr/Run_Frr.v", "Corr/Run_FrrMgr.v"]
PKG = "internal/bgp/frr"
EXTRA_ROUTES = ["203.0.113.0/24", "2001:db8:ffff::/48"]
COMBOS = [(False, False), (False, True), (True, False), (True, True)]
F15 = "frr-unnumbered-disablemp-no-activation"


def frr_overlay(ctx):
    ov = {}
    for f in glob.glob(os.path.join(ctx.repo, PKG, "*_test.go")):
        b = os.path.basename(f)
        if not b.startswith("zz_verif"):
            ov[PKG + "/" + b] = ""
    return ov


def expected_params(s):
    """session parameters as they must appear on the neighbor (read from the property statement)"""
    sec = 1000000000
    e = {"peer": fp.peer_tok(s), "iface": bool(s["iface"]), "asn": s["dynasn"] or str(s["peerasn"]),
         "multihop": s["multihop"], "port": s["port"] or None,
         "timers": (s["keep"] // sec, s["hold"] // sec) if s["keep"] >= 0 and s["hold"] >= 0 else None,
         "connect": (s["connect"] // sec) or None if s["connect"] >= 0 else None,
         "password": s["password"] or None, "src": s["src"] or None, "gr": s["gr"], "bfd": s["bfd"] or None}
    return e


def oracle(ctx, case, ast):
    """the property evaluated on the parsed text of the implementation"""
    S = case["in"]["sessions"]
    routes = sorted({a["prefix"] for s in S for a in s["advs"]}) + EXTRA_ROUTES
    n_eval = 0
    for s in S:
        vrf, peer = s["vrf"], fp.peer_tok(s)
        for r in routes:
            want = fp.intended(s, r)
            for ft, um in COMBOS:
                n_eval += 1
                got = fp.sem_out(ast, ft, um, vrf, peer, r)
                if not fp.attrs_equiv(got, want):
                    sig = "frr-out-mismatch"
                    if s["iface"] and s["disable_mp"] and got is None and want is not None:
                        sig = F15
                    ctx.oracle_fail(sig, "neighbor %s vrf %r route %s (fallthrough_permits=%s undefined_matches=%s): offered %r, requested %r"
                                    % (peer, vrf, r, ft, um, got, want), {"sessions": S, "text": case["in"]["text"]})
                if fp.sem_in(ast, ft, um, vrf, peer, r):
                    ctx.oracle_fail("frr-in-accepted", "neighbor %s vrf %r: inbound route %s accepted" % (peer, vrf, r),
                                    {"sessions": S, "text": case["in"]["text"]})
        x = fp.find_nbr(ast, vrf, peer)
        if x is None:
            ctx.oracle_fail("frr-params-mismatch", "no neighbor %s in the router of vrf %r" % (peer, vrf), {"sessions": S, "text": case["in"]["text"]})
        else:
            rtr, n = x
            e = expected_params(s)
            bad = [k for k in e if n[k] != e[k]]
            if rtr["asn"] != s["myasn"]:
                bad.append("router asn")
            if (rtr["id"] or "") != s["rid"]:
                bad.append("router id")
            if bad:
                ctx.oracle_fail("frr-params-mismatch", "neighbor %s vrf %r: parameters %s differ: text %r, session %r"
                                % (peer, vrf, bad, {k: n.get(k) for k in e}, e), {"sessions": S, "text": case["in"]["text"]})
    for vrf in sorted({s["vrf"] for s in S}):
        for afi in ("A4", "A6"):
            want = {a["prefix"] for s in S if s["vrf"] == vrf for a in s["advs"] if fp.pfx_afi(a["prefix"]) == afi}
            got = fp.sem_networks(ast, vrf, afi)
            if set(got) != want or len(got) != len(set(got)):
                ctx.oracle_fail("frr-networks-mismatch", "vrf %r %s: originated %r, requested %r" % (vrf, afi, got, sorted(want)),
                                {"sessions": S, "text": case["in"]["text"]})
    # each neighbor once, nothing else
    nn = sum(len(r["nbrs"]) for r in ast["routers"])
    if nn != len(S) or len(ast["routers"]) != len({s["vrf"] for s in S}):
        ctx.oracle_fail("frr-params-mismatch", "%d neighbors in %d routers for %d sessions in %d vrfs"
                        % (nn, len(ast["routers"]), len(S), len({s["vrf"] for s in S})), {"sessions": S, "text": case["in"]["text"]})
    return n_eval


def conflict(S):
    for s in S:
        lp = {}
        for a in s["advs"]:
            if lp.setdefault(a["prefix"], a["lp"]) != a["lp"]:
                return True
    return False


def build_term(case, ast):
    S = case["in"]["sessions"]
    routes = sorted({a["prefix"] for s in S for a in s["advs"]}) + EXTRA_ROUTES
    s_term, p_term = split_pair(case["coq"])
    py = []
    if ast is not None:
        for i, s in enumerate(S):
            for r in routes:
                res = [fp.sem_out(ast, ft, um, s["vrf"], fp.peer_tok(s), r) for ft, um in COMBOS]
                py.append("(%d%%N, %s, %s)" % (i, fp.cpfx(r), fp.clist([fp.cattrs(x) for x in res])))
    return "(mk_fcase %d%%N %s %s %s %s %s)" % (case["id"], s_term, p_term,
                                             "None" if ast is None else "(Some %s)" % fp.cfrr(ast),
                                             fp.clist([fp.cpfx(r) for r in routes]), fp.clist(py))


def split_pair(t):
    """the harness ships "(S, Sperm)" with S, Sperm Coq lists: split at the top-level comma"""
    assert t[0] == "(" and t[-1] == ")"
    depth = 0
    instr = False
    for i, ch in enumerate(t):
        if ch == '"':
            instr = not instr
        if instr:
            continue
        if ch in "([{":
            depth += 1
        elif ch in ")]}":
            depth -= 1
        elif ch == "," and depth == 1:
            return t[1:i], t[i + 1:-1].strip()
    raise ValueError("no top-level comma")


KINDS = {1: "Model/FrrRender.render differs from the parsed text of createConfig+templateConfig",
         2: "render of the permuted session set differs",
         3: "Coq's sem_out on the parsed text differs from intended",
         4: "the parsed text references an undefined prefix-list",
         5: "sequence numbers of the parsed text are not increasing",
         6: "Python port of the semantics disagrees with Coq's",
         7: "the parsed text accepts an inbound route",
         8: "originated networks differ from the requested prefixes"}


def run(ctx):
    propfile = "Properties/C14.v"
    ok = ctx.coq_build([propfile] + COQ_FILES)
    ctx.coq_theorems(propfile, CLOSURE)
    n = 150 if ctx.tier == "quick" else 3000
    state = {"stats": {}, "evals": 0, "parsed": 0}

    # parser sanity corpus: the package's golden files
    gold_ok, gold_bad = 0, []
    for f in sorted(glob.glob(os.path.join(ctx.repo, PKG, "testdata", "*.golden"))):
        try:
            fp.parse(open(f).read())
            gold_ok += 1
        except fp.ParseError as e:
            gold_bad.append(os.path.basename(f))
    expected_bad = {"TestDockerTestfails.golden", "TestSingleAdvertisementInvalid.golden",
                    "TestSingleAdvertisementInvalidPrefix.golden", "TestSingleSessionExtras.golden"}
    if set(gold_bad) - expected_bad or gold_ok < 40:
        raise Exception("frrparse.py no longer parses the package's golden files: %r (ok %d)" % (gold_bad, gold_ok))

    def harness(n, seed, tag, check_coq):
        recs, okrun, log = ctx.go_harness(PKG, ["zz_verif_frr_test.go", "zz_verif_gen_test.go"], "TestVerifFrr$", n=n, seed=seed,
                                          tag=tag, extra_overlay=frr_overlay(ctx))
        # histories through the real NewSession / Set / Close (and NewSessionManager + debouncer + file)
        recs2, okrun2, log2 = ctx.go_harness(PKG, ["zz_verif_frr_test.go", "zz_verif_gen_test.go"], "TestVerifFrrHist$",
                                             n=max(20, (n * 2) // 5), seed=seed, tag=tag + "hist", extra_overlay=frr_overlay(ctx))
        if not okrun2 and not any("does not build" in c for c in ctx.corr_broken):
            ctx.corr_broken.append("harness TestVerifFrrHist failed: " + log2[-1500:])
        recs = recs + recs2
        cases = [r for r in recs if r.get("t") == "case"]
        for c in cases:
            for s in c["in"]["sessions"]:
                s["advs"] = s.get("advs") or []
                for a in s["advs"]:
                    a["comms"] = a.get("comms") or []
        for r in recs:
            if r.get("t") == "fail":
                ctx.oracle_fail(r.get("sig", "?"), r.get("what", ""), r.get("replay"))
            elif r.get("t") == "stat":
                state["stats"][r["k"]] = state["stats"].get(r["k"], 0) + r["v"]
        if not okrun and not any("does not build" in c for c in ctx.corr_broken):
            ctx.corr_broken.append("harness TestVerifFrr failed: " + log[-1500:])
        terms = []
        mterms = []
        for c in cases:
            ast = None
            if conflict(c["in"]["sessions"]):
                state["stats"]["input_with_localpref_conflict"] = state["stats"].get("input_with_localpref_conflict", 0) + 1
            if c["in"]["ok"]:
                try:
                    ast = fp.parse(c["in"]["text"])
                    state["parsed"] += 1
                except fp.ParseError as e:
                    if not any("cannot parse" in x for x in ctx.corr_broken):
                        ctx.corr_broken.append("tools/frrparse.py cannot parse the text rendered for case %d: %s\nsessions: %s"
                                               % (c["id"], e, json.dumps(c["in"]["sessions"])[:600]))
                    continue
                state["evals"] += oracle(ctx, c, ast)
            elif not conflict(c["in"]["sessions"]):
                ctx.oracle_fail("frr-unexpected-error", "createConfig/templateConfig failed on a session set without conflicting local preferences: %s"
                                % c["in"]["text"][:200], {"sessions": c["in"]["sessions"]})
            if c.get("kind") == "frr-history" and c["in"].get("ops_coq"):
                # replayed through the model of the session manager (Model/FrrMgr.v) instead
                obs = "None" if not c["in"]["text"] else "(Some %s)" % fp.cfrr(ast)
                mterms.append("(MFrr %d%%N %s %s %s)" % (c["id"], c["in"]["ops_coq"], c["in"]["oks_coq"], obs))
            else:
                terms.append(build_term(c, ast))
        mism = []
        if check_coq and terms and ok:
            import concurrent.futures
            with concurrent.futures.ThreadPoolExecutor(max_workers=2) as ex:
                f1 = ex.submit(ctx.coq_cases, "Run_Frr", "fcase", terms, None, 40, "Open Scope string_scope.")
                f2 = ex.submit(ctx.coq_cases, "Run_FrrMgr", "mcase", mterms, None, 20, "Open Scope string_scope.") if mterms else None
                mism = f1.result()
                mm = f2.result() if f2 else []
            state["replayed"] = state.get("replayed", 0) + len(mterms)
            byid = {c["id"]: c for c in cases}
            for m in mm[:3]:
                c = byid.get(m // 10, {})
                ctx.corr_broken.append("history %d replayed through Model/FrrMgr.v: %s\nhistory: %s" % (
                    m // 10, {1: "per-operation results differ", 2: "the last configuration handed on differs from the model's"}.get(m % 10, "?"),
                    json.dumps((c.get("in") or {}).get("history"))[:1500]))
            mism = mism + mm
            seen = set()
            outside = [m for m in mism if m % 10 == 9]
            state["outside_wf"] = state.get("outside_wf", 0) + len(outside)
            mism = [m for m in mism if m % 10 != 9]
            for m in mism:
                cid, k = m // 10, m % 10
                if k in seen:
                    continue
                seen.add(k)
                c = byid.get(cid, {})
                ctx.corr_broken.append("case %d: %s\nsessions: %s\ntext:\n%s" % (cid, KINDS.get(k, "?"),
                                       json.dumps((c.get("in") or {}).get("sessions"))[:1200], ((c.get("in") or {}).get("text") or "")[:1500]))
        return cases, mism

    cases, mism = harness(n, ctx.seed, "h", True)
    st = state["stats"]
    if cases and not ctx.corr_broken and not ctx.violations:
        for k in ("input_with_localpref_conflict", "unnumbered", "unnumbered_differing_only_in_interface", "shared_advertisement_then_extra_community_on_one_neighbor", "disable_mp", "neighbor_without_advertisement", "repeated_prefix",
                  "adv_with_localpref", "large_community", "community", "neighbor_with_v4_and_v6", "multi_vrf", "multi_neighbor",
                  "histories", "hist_set_ops", "hist_final_repeated_prefix", "histories_through_debouncer_and_file",
                  "hist_rejected_set", "hist_resync"):
            if st.get(k, 0) == 0:
                raise Exception("generator degenerate: counter %s is zero: %r" % (k, st))

    def search():
        for k in range(3):
            harness(n * 4, ctx.seed * 1000 + k + 7, "s%d" % k, False)
            if ctx.violations:
                return

    distinct = len({json.dumps(c["in"]["sessions"], sort_keys=True) for c in cases
                    if any(s["advs"] for s in c["in"]["sessions"])})
    ctx.cov["correspondence"] = {"cases": len(cases), "parsed_texts": state["parsed"], "mismatches": len(mism),
                                 "oracle_evaluations(neighbor x route x semantic parameters)": state["evals"],
                                 "cases_outside_wf_sessions_or_route_ok(premises of C14_frr_out_exact, decided in Coq)": state.get("outside_wf", 0),
                                 "histories_replayed_through_FrrMgr_model": state.get("replayed", 0),
                                 "golden_files_parsed": gold_ok, "golden_files_rejected(expected: invalid/extras)": gold_bad,
                                 "generator_counters": st}
    ctx.trusted += [
        "H-frr: the route-map / prefix-list semantics of Model/FrrSem.v is FRR's (both readings of the two doubtful points are covered: parameters ft, um)",
        "H-sort: sort.Strings / sets.List return the sorted duplicate-free list (insertion sort on String.leb in the model)",
        "tools/frrparse.py (text -> AST; unknown line = broken correspondence) and Go text/template",
        "model covers frr.go createConfig/addToAdvertisements/mergeAdvertisements/mergeCommunities/sortMap, config.go ID/RouterName/NeighborName/asnFor + template functions, "
        "templates frr.tmpl filters.tmpl neighborsession.tmpl neighboripfamily.tmpl; NOT log level, hostname, BFD profile blocks, ExtraConfig",
        "prefix texts are canonical (what net.IPNet.String prints for a masked prefix): text equality = prefix equality",
    ]
    ctx.assumptions += ["wf_sessions: one router per VRF, one session per peer and VRF (what the speaker guarantees), rendered list names pairwise distinct (computable premise names_ok)"]
    ctx.finish(len(cases), distinct,
               "session sets: 1-5 neighbors over 1-3 VRFs, v4/v6/unnumbered peers, i/eBGP/dynamic ASN, 0-6 advertisements with repeated prefixes, "
               "local preference 0/100/300, legacy+large communities, all session parameters, permuted creation/advertisement order; "
               "corpus first (F15, repeated prefix, DisableMP v6); non-trivial = at least one advertisement; distinct by JSON of the session set",
               [c["in"]["sessions"] for c in cases[:2]], search=search)
