"""C20 — handlers are atomic: lock facts regenerated from the Go AST (tools/lockfacts) checked by
the proved lock-set checker (Model/Lock.v, Proofs/LockP.v) + race-detector harnesses with serial replay."""
import json, os, re, shutil, sys
import vlib
sys.path.insert(0, os.path.dirname(os.path.abspath(__file__)))

CLOSURE = ["Model/Lock.v", "Proofs/LockP.v", "Proofs/LockPrefix.v"]
OBLIGATIONS = ["repo_facts_wellformed", "repo_well_locked", "repo_wrappers_registered", "repo_no_escape", "repo_race_free",
               "repo_lock_order_acyclic", "repo_fetchers_confined", "repo_no_blocking_send_under_lock",
               "repo_no_recursive_lock", "repo_declared_guards_inferred", "repo_notify_after_state", "repo_wrappers_unlock_deferred"]
L2_OVERLAY = {"internal/layer2/zz_verif.go": os.path.join(vlib.VERIF, "harness/internal/layer2/zz_verif.go")}


def pairs(text):
    return re.findall(r'\("([^"]*)",\s*"([^"]*)"\)', text)


def run(ctx):
    ok = ctx.coq_build(["Properties/C20.v", "Proofs/LockPrefix.v"])
    ctx.coq_theorems("Properties/C20.v", CLOSURE)

    # ---------------------------------------------------------------- translator + obligations on generated facts
    tooldir = os.path.join(vlib.VERIF, "tools", "lockfacts")
    exe = os.path.join(ctx.work, "lockfacts")
    rc, out, _ = vlib.sh(["go", "build", "-o", exe, "."], cwd=tooldir,
                         env={"GOWORK": "off", "GOFLAGS": "-mod=mod", "GOPROXY": "off"}, timeout=300)
    if rc != 0:
        raise vlib.Broken("tools/lockfacts does not build: " + out[-1500:])
    facts = os.path.join(ctx.work, "LockFacts.v")
    rc, out, _ = vlib.sh([exe, ctx.repo, facts], timeout=120)
    if rc != 0:
        raise vlib.Broken("lockfacts failed: " + out[-1500:])
    ctx.checker_cmds.append("tools/lockfacts $REPO .work/C20/LockFacts.v  (go/ast translation of the 7 anchored files)")
    for f in ("RepoDiag.v", "RepoLock.v"):
        shutil.copy(os.path.join(tooldir, f), os.path.join(ctx.work, f))
    coqc = ["coqc", "-Q", vlib.COQ, "Verif", "-Q", ctx.work, "C20gen"]
    facts_src = open(facts).read()
    diag = {}
    raw_handlers = []
    if ok:
        rc, out, _ = vlib.sh(["timeout", "300"] + coqc + ["LockFacts.v"], cwd=ctx.work)
        if rc != 0:
            raise vlib.Broken("generated LockFacts.v does not compile: " + out[-1500:])
        rc, out, _ = vlib.sh(["timeout", "300"] + coqc + ["RepoDiag.v"], cwd=ctx.work)
        if rc != 0:
            raise vlib.Broken("RepoDiag.v does not compile: " + out[-1500:])
        for name, body in re.findall(r'^(D_\w+) =\s*(.*?)\n\s+: ', out, re.S | re.M):
            diag[name] = " ".join(body.split())
        ctx.checker_cmds.append("coqc -Q coq Verif -Q .work/C20 C20gen .work/C20/{LockFacts,RepoDiag,RepoLock}.v  (vm_compute on the generated facts)")
        ctx.obligations += len(OBLIGATIONS)
        rc, out, _ = vlib.sh(["timeout", "300"] + coqc + ["RepoLock.v"], cwd=ctx.work)
        open(os.path.join(ctx.work, "repolock.log"), "w").write(out)
        broken = []
        if diag.get("D_wellformed") != "true":
            broken.append("repo_facts_wellformed: unstructured=%s may_leak=%s spec_problems=%s" %
                          (diag.get("D_unstructured"), diag.get("D_may_leak"), diag.get("D_spec_problems")))
        if diag.get("D_well_locked") != "true":
            broken.append("repo_well_locked: " + "; ".join("%s %s" % p for p in pairs(diag.get("D_diagnose", ""))))
        if diag.get("D_wrappers") != "true":
            bad = pairs(diag.get("D_bad_registrations", ""))
            broken.append("repo_wrappers_registered: internal/k8s/k8s.go registers %s; callbacks without a registered locking wrapper: %s" %
                          (", ".join("%s.Handler = cfg.%s (not a Listener wrapper taking Listener.Mutex)" % p for p in bad) or "-",
                           diag.get("D_unwrapped_callbacks")))
            cbs = set(re.findall(r'"(\w+)"', re.search(r'listener_callbacks[^\n]*', facts_src).group(0)))
            raw_handlers = sorted({h for _, h in bad if h in cbs})
        if diag.get("D_no_escape") != "true":
            broken.append("repo_no_escape: " + "; ".join("%s returns the guarded %s without copying while it is changed in place elsewhere" % p
                                                         for p in pairs(diag.get("D_escaping", ""))))
        if diag.get("D_lock_order") != "true":
            broken.append("repo_lock_order_acyclic: lock-order edges %s contain a cycle, or %s invoke a callback of unknown target under an inner mutex"
                          % (diag.get("D_lock_edges"), diag.get("D_cb_under_lock")))
        if diag.get("D_no_recursive") != "true":
            broken.append("repo_no_recursive_lock: %s acquire a mutex on a call path on which it is already held (sync.Mutex/RWMutex are not reentrant; "
                          "a nested RLock deadlocks once a writer is queued)" % diag.get("D_reacquirers"))
        if diag.get("D_notify") != "true":
            broken.append("repo_notify_after_state: %s" % "; ".join("%s invokes %s before the last write of the state its consumer fetches (or skips / makes conditional the final notification)" % p
                                                                  for p in pairs(diag.get("D_notify_violations", ""))))
        if diag.get("D_declared_inferred") != "true":
            broken.append("repo_declared_guards_inferred: a declared guarded field is no longer written under its mutex anywhere")
        if diag.get("D_confined") != "true" or diag.get("D_wired") != "true" or diag.get("D_closures_confined") != "true":
            broken.append("repo_fetchers_confined: fetchers touching unguarded receiver fields: %s; wired=%s; function literals used as status fetcher (they run in the status "
                          "reconcilers, outside the Listener mutex) that touch state the handlers own under that mutex (program, stored as, controller fields): %s"
                          % (diag.get("D_unconfined"), diag.get("D_wired"), diag.get("D_bad_closures")))
        if diag.get("D_unlock_deferred") != "true":
            broken.append("repo_wrappers_unlock_deferred: a Listener wrapper releases the Listener mutex by a plain Unlock() after the handler call instead of a deferred one "
                          "(a handler panic, recovered by controller-runtime, leaves the mutex held and every later event blocks), or a registered handler is not such a wrapper: %s"
                          % diag.get("D_wrapper_unlocks"))
        if diag.get("D_send") != "true":
            broken.append("repo_no_blocking_send_under_lock: %s perform a blocking channel send while holding a mutex the channel's consumer acquires "
                          "(defers run LIFO: a defer registered after `defer Unlock()` runs before the unlock)" % diag.get("D_blocking_senders"))
        if rc != 0 and not broken:
            broken.append("RepoLock.v failed: " + out[-800:])
        if broken:
            ctx.proof_broken = "obligations on the lock facts generated from %s fail: %s" % (ctx.repo, " | ".join(broken))
        else:
            closed = out.count("Closed under the global context")
            if closed != len(OBLIGATIONS):
                raise vlib.Broken("repo obligations are not closed under the global context: " + out[-1200:])
            ctx.discharged += len(OBLIGATIONS)
            ctx.theorems += OBLIGATIONS

    # ---------------------------------------------------------------- runtime part: -race harnesses with serial replay
    thorough = ctx.tier == "thorough"
    st = {}
    rounds = {"controller": [], "speaker": [], "layer2": [], "notify": []}
    env = {"VERIF_RAW_HANDLERS": ",".join(raw_handlers)} if raw_handlers else {}

    def harness(pkg, n, seed, tag):
        test = "TestVerifRaceController$" if pkg == "controller" else "TestVerifRaceSpeaker$"
        recs, okrun, log = ctx.go_harness(pkg, ["zz_verif_race_test.go"], test, n=n, seed=seed, tag=tag, race=True, env=env,
                                          extra_overlay=L2_OVERLAY if pkg == "speaker" else None, timeout=600 if thorough else 150)
        failed = False
        for r in recs:
            if r.get("t") == "fail":
                failed = True
                ctx.oracle_fail(r.get("sig", "?"), r.get("what", ""), r.get("replay"))
            elif r.get("t") == "stat":
                st[r["k"]] = st.get(r["k"], 0) + r["v"]
            elif r.get("t") == "case":
                rounds[pkg].append(r)
        how = "./check C20 (go test -race -tags verif -run %s ./%s with the overlay harness, VERIF_SEED=%s%s)" % (
            test, pkg, seed, (" VERIF_RAW_HANDLERS=" + env["VERIF_RAW_HANDLERS"]) if env else "")
        if "WARNING: DATA RACE" in log:
            m = re.search(r"WARNING: DATA RACE.*?={18}", log, re.S)
            ctx.oracle_fail("c20-data-race-" + pkg, "the race detector reports a data race while events are delivered concurrently with status queries (%s)" % pkg,
                            {"race_report": (m.group(0) if m else log[-5000:])[:7000], "how": how, "raw_handlers": raw_handlers})
        elif "fatal error: concurrent map" in log or "panic:" in log and "test timed out" not in log:
            ctx.oracle_fail("c20-crash-" + pkg, "the %s crashed under concurrent delivery" % pkg, {"log": log[-5000:], "how": how})
        elif "test timed out" in log:
            ctx.oracle_fail("c20-deadlock-" + pkg, "concurrent delivery did not terminate (deadlock)", {"log": log[-5000:], "how": how})
        elif not okrun and not failed and not any("does not build" in c for c in ctx.corr_broken):
            ctx.corr_broken.append("race harness for ./%s failed: %s" % (pkg, log[-1500:]))

    def spam_queue(seed, tag):
        recs, okrun, log = ctx.go_harness("internal/layer2", ["zz_verif.go", "zz_verif_ann_test.go"], "TestVerifSpamQueue$", seed=seed, tag=tag,
                                          race=True, timeout=300)
        failed = False
        for r in recs:
            if r.get("t") == "fail":
                failed = True
                if r.get("sig", "").startswith("c20-"):   # "l2-" signatures belong to C13
                    ctx.oracle_fail(r.get("sig", "?"), r.get("what", ""), r.get("replay"))
            elif r.get("t") == "stat":
                st[r["k"]] = st.get(r["k"], 0) + r["v"]
            elif r.get("t") == "case":
                rounds["layer2"].append(r)
        if "WARNING: DATA RACE" in log:
            m = re.search(r"WARNING: DATA RACE.*?={18}", log, re.S)
            ctx.oracle_fail("c20-data-race-layer2", "the race detector reports a data race in the announcer / spam loop",
                            {"race_report": (m.group(0) if m else log[-5000:])[:7000]})
        elif "test timed out" in log:
            ctx.oracle_fail("c20-deadlock-layer2", "the spam-queue schedule did not terminate", {"log": log[-5000:]})
        elif not okrun and not failed and not any("does not build" in c for c in ctx.corr_broken):
            ctx.corr_broken.append("TestVerifSpamQueue failed: %s" % log[-1500:])

    def notify(pkg, seed, tag, n):
        """eager status reconcilers: last published status == state left by the handlers"""
        test = "TestVerifNotifyController$" if pkg == "controller" else "TestVerifNotifySpeaker$"
        recs, okrun, log = ctx.go_harness(pkg, ["zz_verif_race_test.go"], test, n=n, seed=seed, tag=tag, race=True,
                                          extra_overlay=L2_OVERLAY if pkg == "speaker" else None, timeout=600 if thorough else 150)
        failed = False
        for r in recs:
            if r.get("t") == "fail":
                failed = True
                ctx.oracle_fail(r.get("sig", "?"), r.get("what", ""), r.get("replay"))
            elif r.get("t") == "stat":
                st[r["k"]] = st.get(r["k"], 0) + r["v"]
            elif r.get("t") == "case":
                rounds["notify"].append(r)
        if "WARNING: DATA RACE" in log:
            m = re.search(r"WARNING: DATA RACE.*?={18}", log, re.S)
            ctx.oracle_fail("c20-data-race-" + pkg, "the race detector reports a data race between a handler and the eager status consumer (%s)" % pkg,
                            {"race_report": (m.group(0) if m else log[-5000:])[:7000]})
        elif "test timed out" in log:
            ctx.oracle_fail("c20-deadlock-" + pkg, "handler and eager status consumer did not terminate", {"log": log[-5000:]})
        elif not okrun and not failed and not any("does not build" in c for c in ctx.corr_broken):
            ctx.corr_broken.append("%s failed: %s" % (test, log[-1500:]))

    n = 3 if not thorough else 40
    spam_queue(ctx.seed, "spq")
    notify("controller", ctx.seed, "nc", 3 if not thorough else 12)
    notify("speaker", ctx.seed, "ns", 3 if not thorough else 12)
    harness("controller", n, ctx.seed, "ctl")
    harness("speaker", n, ctx.seed, "spk")

    if not ctx.violations:
        for k in ("controller_events", "controller_fetches_consumed", "controller_final_assigned_services",
                  "speaker_events", "speaker_fetches_consumed", "speaker_final_l2_or_bgp_announcements",
                  "spamqueue_handler_released_by_loop", "spamqueue_service_events", "spamqueue_status_fetches",
                  "notify_controller_events", "notify_controller_assigned_checks", "notify_controller_reassign_same_pool",
                  "notify_speaker_events", "notify_speaker_l2_announced_checks", "notify_speaker_bgp_peers_checks"):
            if st.get(k, 0) == 0 and not ctx.corr_broken:
                raise vlib.Broken("race harness degenerate: %s = 0 (%r)" % (k, st))

    def search():
        spam_queue(ctx.seed * 1000 + 5, "sq")
        if ctx.violations:
            return
        notify("controller", ctx.seed * 1000 + 9, "snc", 12)
        notify("speaker", ctx.seed * 1000 + 9, "sns", 12)
        if ctx.violations:
            return
        for k in range(3):
            harness("speaker", 12, ctx.seed * 1000 + 11 + k, "ss%d" % k)
            harness("controller", 12, ctx.seed * 1000 + 11 + k, "sc%d" % k)
            if ctx.violations:
                return

    allrounds = rounds["controller"] + rounds["speaker"]
    nq = len(rounds["layer2"]) + len(rounds["notify"])
    distinct = len({json.dumps(r["in"], sort_keys=True) for r in allrounds
                    if any(("ips=[" in v and "ips=[]" not in v) or (k.startswith(("l2 ", "peers ")) and v)
                           for k, v in r["in"]["state"].items())})
    # declared guarded fields the struct no longer has: a note, not a verdict (the struct is then
    # checked against the inferred lockset discipline, see tools/lockfacts load / inferGuards)
    stale_notes = []
    m = re.search(r'^Definition stale_declarations[^\n]*:= \[(.*)\]\.$', facts_src, re.M)
    for fld, mtx, inferred in re.findall(r'\("([^"]+)", "([^"]+)", \[([^\]]*)\]\)', m.group(1) if m else ""):
        stale_notes.append("declared guard for missing field %s ignored; inferred guard %s for fields [%s]"
                           % (fld, mtx, ", ".join(re.findall(r'"([^"]+)"', inferred))))
    ctx.cov["correspondence"] = {
        "translator": {k: v for k, v in diag.items()},
        "stale_declarations": stale_notes,
        "raw_handlers_from_registration": raw_handlers,
        "race_rounds": {k: len(v) for k, v in rounds.items()}, "harness_counters": st,
    }
    ctx.trusted += [
        "tools/lockfacts (go/ast, no type checker): the guard table (which mutex guards which field, from properties.jsonl anchors) is part of the translator; "
        "a declared field the struct no longer has is dropped (coverage note stale_declarations) and the struct is checked against the inferred lockset discipline alone "
        "(field written under the struct's mutex outside constructors => every access holds it); the notification obligations take their fields from what the status fetcher reads, not from names; "
        "accesses are recognised syntactically as <ident>.<guarded field>; aliases of a guarded container held in local variables are followed only for the escape analysis",
        "the flat instruction sequence over-approximates every path of a function only when lock operations are top-level statements of the function body "
        "(checked: repo_facts_wellformed)",
        "the interleaving semantics of Model/Lock.v (sequentially consistent, sync.RWMutex as exclusive/shared holds); the Go memory model itself is not modelled",
        "unguarded state reached only under the Listener mutex (allocator maps, speaker controller maps, ndpResponder.solicitedNodeGroups) is assumed to be reached only from "
        "the registered handlers: the translator checks the registration sites in internal/k8s/k8s.go, not all callers",
        "race detector schedules are samples (quick: 3+1 rounds per program, thorough: 40+1)",
    ]
    ctx.assumptions += ["handlers are deterministic functions of (state, event) on the generated events (one auto-assignable pool; Allocate ranges over a map of candidate pools otherwise) — "
                        "needed to compare the concurrent final state with the serial replay address by address"]
    # a handler must not modify state shared with another reconciler: the configuration object handed to SetConfig is the
    # ConfigReconciler's memo, read by it without the Listener lock (speaker stack harness, group spk)
    import spk_stack_part
    n_stack, st_stack = spk_stack_part.run_stack(ctx, sigs={"speaker-mutates-shared-configuration"}, n_quick=16)
    if isinstance(ctx.cov.get("correspondence"), dict):
        ctx.cov["correspondence"]["speaker_stack_events"] = n_stack
    ctx.finish(len(allrounds) + nq + len(OBLIGATIONS), distinct + nq,
               "race rounds: 240/300 (thorough 1200/1500) generated events per round delivered by 4-8 goroutines through the real k8s.Listener wrappers, 3 reconciler-like goroutines "
               "consuming CountersForPool / GetStatus / PeersForService (+ the spam loop's gratuitous), under go test -race, final state vs serial replay in recorded acquisition order; "
               "non-trivial = final state holds at least one assignment / announcement; plus the eager-status-consumer runs (200/300 events per round delivered one at a time through the wrappers, a consumer that fetches at once on every status event over an unbuffered hand-over, after every handler last published == state) and the spam-queue schedules (announcer built as New() with a small queue and the REAL spamLoop: "
               "full queue with a waiting handler vs GetStatus/shouldAnnounce, and a re-processing burst across a 1.1 s loop period under a 3 s no-progress watchdog); distinct by seed+state; plus the 12 vm_compute obligations on the facts regenerated from the Go AST",
               [{"seed": r["in"]["seed"], "workers": r["in"]["workers"], "events": r["in"]["events"]} for r in allrounds[:3]], search=search)
