"""C10 — BGP announcement eligibility (Model/BgpAds.v, bgp_decide)."""
import json, os
import vlib

CLOSURE = ["Model/BgpAds.v", "Model/Speaker.v", "Proofs/BgpAdsElig.v", "Proofs/BgpAdsP.v", "Proofs/SpeakerP.v", "Proofs/SpeakerRefuted.v"]
SIGS_KNOWN = "bgp-local-duplicate-address-across-nodes"


def run(ctx):
    propfile = "Properties/C10.v"
    ok = ctx.coq_build([propfile, "Corr/Run_BgpAds.v"])
    ctx.coq_theorems(propfile, CLOSURE)
    n = 400 if ctx.tier == "quick" else 3000
    state = {"stats": {}}

    def harness(n, seed, tag, tier=None):
        env = {"VERIF_TIER": tier} if tier else None
        recs, hok, log = ctx.go_harness("speaker", ["zz_verif_bgp_test.go"], "TestVerifBgpElig$", n=n, seed=seed, tag=tag, env=env)
        cases, stats = ctx.handle_records(recs)
        for k, v in stats.items():
            state["stats"][k] = state["stats"].get(k, 0) + v
        if not hok and not any("does not build" in c for c in ctx.corr_broken):
            ctx.corr_broken.append("harness TestVerifBgpElig failed: " + log[-1500:])
        state["elig_ran"] = state.get("elig_ran", True) and hok
        return cases

    cases = harness(n, ctx.seed, "h")

    # the same iff over HISTORIES: the real speaker controller (TestVerifSpk machinery: handler results
    # honoured as the reconcilers do), after every event the routes on the recording sessions must be
    # those of the Services eligible by the statement.  Only the two C10 signatures are taken from it.
    HIST_SIGS = {"bgp-announced-state-differs-from-eligibility", "bgp-local-duplicate-address-across-nodes"}
    overlay = {"internal/layer2/zz_verif_spk.go": os.path.join(os.path.dirname(os.path.dirname(os.path.abspath(__file__))),
                                                              "harness", "internal", "layer2", "zz_verif_spk.go")}

    def hist(nh, seed, tag):
        # TestVerifSpkStack: the same oracle behind the REAL Service (with endpoint slices, single-service and reprocess-all
        # paths), Node and Config reconcilers on a fake API server: same-named Services in two namespaces, advertisements
        # selecting nodes by labels that change
        recs, hok, log = ctx.go_harness("speaker", ["zz_verif_bgp_test.go", "zz_verif_spk_test.go", "zz_verif_stack_test.go"], "TestVerifSpk(Stack)?$",
                                        n=nh, seed=seed, tag=tag, extra_overlay=overlay)
        for r in recs:
            if r.get("t") == "fail" and r.get("sig") in HIST_SIGS:
                ctx.oracle_fail(r["sig"], r.get("what", ""), r.get("replay"))
            elif r.get("t") == "stat" and r["k"].startswith(("elig_", "ev_node", "histories", "stack_")):
                state["stats"]["hist:" + r["k"]] = state["stats"].get("hist:" + r["k"], 0) + r["v"]
        if not hok and not any("does not build" in c for c in ctx.corr_broken):
            ctx.corr_broken.append("harness TestVerifSpk (history part of C10) failed: " + log[-1500:])
        state["hist_ran"] = state.get("hist_ran", True) and hok

    hist(30 if ctx.tier == "quick" else 600, ctx.seed, "hist")
    mism = []
    if cases and ok:
        mism = ctx.coq_cases("Run_BgpAds", "ecase10", [c["coq"] for c in cases], shard=400 if ctx.tier == "quick" else 1800,
                             fn="mismatches10")
        byid = {c["id"]: c for c in cases}
        for m in mism[:5]:
            ctx.corr_broken.append("model bgp_decide and bgpController.ShouldAnnounce disagree on layout %d (%s): %s" %
                                   (m, byid.get(m, {}).get("kind"), json.dumps(byid.get(m, {}).get("in"))[:600]))
    st = state["stats"]
    # degenerate-generator guard: counters computed from the INPUTS only (which conditions of the statement fail, shapes of
    # the layouts, kinds of events) - never from what the code answered; a part that did not run is reported once above
    # (build failure / harness failure), not as a degenerate generator
    if cases and state.get("elig_ran"):
        for k in ("statement-says-announce", "fails:no-local-endpoint", "fails:no-endpoint", "fails:excluded", "fails:network-unavailable",
                  "fails:not-selected", "conflicting_conditions_for_one_address", "multi_homed_address", "inputs-of-the-duplicate-address-shape"):
            if st.get(k, 0) == 0:
                raise vlib.Broken("generator degenerate: counter %r is zero: %r" % (k, st))
    if state.get("hist_ran"):
        for k in ("hist:elig_services_expected_over_bgp", "hist:ev_node_flag_change",
                  "hist:stack_histories", "hist:stack_steps_with_same_named_services", "hist:stack_services_expected_over_bgp",
                  "hist:stack_gen_condition_appears_true", "hist:stack_gen_true_condition_disappears",
                  "hist:stack_gen_condition_false_to_true", "hist:stack_gen_condition_true_to_false"):
            if st.get(k, 0) == 0:
                raise vlib.Broken("generator degenerate: counter %r is zero: %r" % (k, st))

    def search():
        for k in range(3):
            harness(n * 4, ctx.seed * 1000 + k + 11, "s%d" % k)
            if ctx.violations:
                return
        harness(50, ctx.seed, "sx", tier="thorough")
        if not ctx.violations:
            hist(300, ctx.seed * 1000 + 5, "shist")

    ctx.cov["correspondence"] = {"cases": len(cases), "mismatches": len(mism), "generator_counters": st,
                                 "decisions_compared": st.get("decisions", 0),
                                 "exhaustive": ctx.tier == "thorough"}
    ctx.trusted += [
        "model covers speaker/bgp_controller.go ShouldAnnounce, hasHealthyEndpoint, poolMatchesNodeBGP; epslices.EndpointCanServe; "
        "nodes.IsNetworkUnavailable / IsNodeExcludedFromBalancers as two flags of nodes[myNode] (nil node: no flag)",
        "endpoint addresses, node names are numbered by the harness; Go map iteration over `ready` is modelled as 'some key with value true'",
    ]
    ctx.assumptions += ["the statement's Local clause is read as: some address that is ready under 'every entry carrying it' has an entry on this node "
                        "(C10_bgp_should_announce_partial needs: no endpoint address on two different nodes; otherwise F18, recorded finding)"]
    distinct = st.get("distinct_nonempty_layouts", 0)
    ctx.finish(len(cases), distinct,
               "endpoint layouts (0-3 slices x 0-3 entries, ready/serving in {nil,T,F}, node in {me,b,c,nil}, 0-2 addresses per entry from 3) "
               "x 0-2 advertisements with node maps, each evaluated on 32 combinations (exclude label with four different values) of node state x ignore flag x policy; "
               "thorough adds every layout of <= 3 entries over the (reduced for 3) entry alphabet; non-trivial = at least one entry; distinct by JSON",
               [c["in"] for c in cases[:3]], search=search)
