"""C09 — speaker convergence / history independence (Model/Speaker.v)."""
import json, os
import vlib

CLOSURE = ["Model/BgpAds.v", "Model/Speaker.v", "Proofs/BgpAdsP.v", "Proofs/BgpAdsElig.v", "Proofs/SpeakerP.v", "Proofs/SpeakerRefuted.v"]
OVERLAY = {"internal/layer2/zz_verif_spk.go": os.path.join(os.path.dirname(os.path.dirname(os.path.abspath(__file__))),
                                                          "harness", "internal", "layer2", "zz_verif_spk.go")}


def run(ctx):
    propfile = "Properties/C09.v"
    ok = ctx.coq_build([propfile, "Corr/Run_Speaker.v"])
    ctx.coq_theorems(propfile, CLOSURE)
    n = 40 if ctx.tier == "quick" else 800
    state = {"stats": {}, "header": ""}

    def harness(n, seed, tag):
        # TestVerifSpkStack: real Service / Node / Config / ServiceBGPStatus reconcilers on a fake API server in front of the real controller;
        # TestVerifSpk: one observed speaker (model correspondence + fresh-speaker oracle);
        # TestVerifSpkMulti: one real controller per node, C04 oracle at quiescence
        recs, hok, log = ctx.go_harness("speaker", ["zz_verif_bgp_test.go", "zz_verif_spk_test.go", "zz_verif_stack_test.go"], "TestVerifSpk(Multi|Stack)?$", n=n, seed=seed,
                                        tag=tag, extra_overlay=OVERLAY)
        # F18 belongs to C10 (its signature is reported by the eligibility oracle of the same harness)
        recs = [r for r in recs if not (r.get("t") == "fail" and r.get("sig") == "bgp-local-duplicate-address-across-nodes")]
        cases, stats = ctx.handle_records(recs)
        for r in recs:
            if r.get("t") == "header":
                state["header"] = r["coq"]
        for k, v in stats.items():
            state["stats"][k] = state["stats"].get(k, 0) + v
        if not hok and not any("does not build" in c for c in ctx.corr_broken):
            ctx.corr_broken.append("harness TestVerifSpk failed: " + log[-1500:])
        state["ran"] = state.get("ran", True) and hok
        return cases

    cases = harness(n, ctx.seed, "h")

    # Directed scenarios with FAILING handlers (session-manager errors), retried as the reconcilers do.  Handler failures are
    # outside C09's quantifier (its events are Service / endpoint / node / configuration / membership changes), so a divergence
    # found here is reported as KNOWN-FINDING when its signature is listed for C09 and otherwise only recorded in the evidence.
    FAILURE_SIGS = {"speaker-node-resync-lost-after-handler-error", "bgp-ghost-advertisement-after-failed-set",
                    "bgp-withdrawal-not-published-after-failed-delete", "speaker-config-half-applied-after-errornoretry",
                    "config-reconciler-memo-keeps-unapplied-configuration"}
    outside = []

    def failure_scenarios():
        recs, hok, log = ctx.go_harness("speaker", ["zz_verif_bgp_test.go", "zz_verif_spk_test.go", "zz_verif_fail_test.go"], "TestVerifSpkFailures$",
                                        seed=ctx.seed, tag="fail", extra_overlay=OVERLAY)
        recs2, hok2, log2 = ctx.go_harness("internal/k8s/controllers", ["zz_verif_spk_cfgmemo_test.go"], "TestVerifSpkCfgMemo$", seed=ctx.seed, tag="memo")
        for r in recs + recs2:
            if r.get("t") == "fail":
                if r.get("sig") in FAILURE_SIGS and r["sig"] not in ctx.known:
                    outside.append({"sig": r["sig"], "what": r.get("what", "")[:1200], "steps": (r.get("replay") or {}).get("steps")})
                else:
                    ctx.oracle_fail(r.get("sig", "?"), r.get("what", ""), r.get("replay"))
            elif r.get("t") == "stat":
                state["stats"][r["k"]] = state["stats"].get(r["k"], 0) + r["v"]
        for okx, lg, nm in ((hok, log, "TestVerifSpkFailures"), (hok2, log2, "TestVerifSpkCfgMemo")):
            if not okx and not any("does not build" in c for c in ctx.corr_broken):
                ctx.corr_broken.append("harness %s failed: %s" % (nm, lg[-1500:]))

    failure_scenarios()
    mism = []
    if cases and ok:
        mism = ctx.coq_cases("Run_Speaker", "scase", [c["coq"] for c in cases], shard=4 if ctx.tier == "quick" else 50,
                             header=state["header"], fn="mismatches_spk")
        byid = {c["id"]: c for c in cases}
        for m in mism[:5]:
            ctx.corr_broken.append("model Speaker.sstep and the real speaker controller disagree (announcer contents, sessions' last Set or announced[]) "
                                   "on history %d (%s): %s" % (m, byid.get(m, {}).get("kind"), json.dumps(byid.get(m, {}).get("in"))[:900]))
    st = state["stats"]
    # degenerate-generator guard: only counters computed from the INPUTS and the statement (never from what the code answered);
    # a part that did not run (build failure / harness failure, reported once above) is not "degenerate"
    if cases and state.get("ran"):
        for k in ("ev_svc", "ev_del", "gen_del_of_service_sharing_an_address", "ev_cfg", "gen_cfg_drops_pool_of_existing_service", "ev_node", "ev_node_flag_change", "ev_node_first_with_services_present",
                  "ev_spk", "gen_l2_advertisement_selects_this_node", "gen_l2_advertisement_with_interface_list_selects_this_node",
                  "elig_services_expected_over_bgp", "multi_histories", "multi_contested_elections", "multi_dual_address_services",
                  "stack_histories", "stack_steps_with_same_named_services", "stack_services_expected_over_bgp",
                  "stack_shared_configuration_checks", "stack_events_without_reload",
                  "stack_gen_condition_appears_true", "stack_gen_true_condition_disappears", "stack_gen_condition_false_to_true", "stack_gen_condition_true_to_false",
                  "stack_l2_elections_under_local_policy"):
            if st.get(k, 0) == 0:
                raise vlib.Broken("generator degenerate: counter %r is zero: %r" % (k, st))

    def search():
        for k in range(4):
            harness(n * 4, ctx.seed * 1000 + k + 17, "s%d" % k)
            if ctx.violations:
                return

    distinct = len({json.dumps(c["in"], sort_keys=True) for c in cases
                    if any(e.get("op") == "svc" for e in c["in"]["evs"]) and any(e.get("op") == "cfg" for e in c["in"]["evs"])})
    ctx.cov["handler_failure_scenarios_outside_the_quantifier"] = outside
    ctx.cov["correspondence"] = {"cases": len(cases), "mismatches": len(mism), "generator_counters": st,
                                 "steps_compared": st.get("events", 0), "fresh_comparisons": st.get("oracle_fresh_comparisons", 0)}
    ctx.trusted += [
        "model covers speaker/main.go SetBalancer, handleService, deleteBalancer(Protocol), SetConfig (refusal), SetNode, isNodeAvailableChanged, poolFor, compareIPs; "
        "layer2_controller.go SetBalancer/DeleteBalancer/ipAdvertisementFor (+ Model/Elect.v for ShouldAnnounce); IPAdvertisement.MatchInterfaces; "
        "Announce.SetBalancer/DeleteBalancer/AnnounceName as the map service -> entries; Model/BgpAds.v for the BGP controller",
        "overlay harness/internal/layer2/zz_verif_spk.go: an Announce with a fixed interface list and no interface-scan / gratuitous goroutines",
        "the SHA-256 of '<node>#<address>' is computed by the harness and passed to the model as a table (its format is checked by C04/C12)",
        "protocol handlers and sessions never fail; pools of one configuration do not overlap (config validation)",
    ]
    ctx.assumptions += ["node deletion is not an event (the speaker never forgets a node); the node's interface list is constant during a history",
                        "C09_history_independent_partial: no configuration whose layer-2 advertisements select this node only through interfaces it does not have (F9), "
                        "Services without repeated addresses, and no first event of a node with Services present that is not followed by a full re-sync "
                        "(the first event of a node requests none: recorded finding)"]
    ctx.finish(len(cases), distinct,
               "histories of 5-30 events on the real controller (4 services: LB/not, 0-2 addresses over 2 pools incl. cross-pool and invalid, both policies, 0-2 slices of 1-3 endpoints; "
               "configurations: pools removed/shrunk, 0-3 BGP advertisements, 0-2 layer-2 advertisements with node sets and interface lists, 0-3 peers with selectors; "
               "node events with conditions/labels; speaker lists incl. memberlist disabled); every step compared with the model and with a fresh real controller; "
               "non-trivial = at least one service and one configuration event; distinct by JSON",
               [c["in"] for c in cases[:2]], search=search)
