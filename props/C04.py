import os, sys
sys.path.insert(0, os.path.dirname(__file__))
import elect_common
def run(ctx):
    elect_common.run(ctx, "C04", elect_common.C04_SIGS)
