"""C05 — BGP: each peer is offered exactly the intended routes (Model/BgpAds.v)."""
import json, os
import vlib

CLOSURE = ["Model/BgpAds.v", "Proofs/BgpAdsP.v", "Proofs/BgpAdsPrefix.v"]


def run(ctx):
    propfile = "Properties/C05.v"
    ok = ctx.coq_build([propfile, "Corr/Run_BgpAds.v"])
    ctx.coq_theorems(propfile, CLOSURE)
    n = 60 if ctx.tier == "quick" else 1500
    state = {"stats": {}, "ran": {}}

    def harness(n, seed, tag):
        recs, hok, log = ctx.go_harness("speaker", ["zz_verif_bgp_test.go"], "TestVerifBgpAds$", n=n, seed=seed, tag=tag)
        cases, stats = ctx.handle_records(recs)
        for k, v in stats.items():
            state["stats"][k] = state["stats"].get(k, 0) + v
        if not hok and not any("does not build" in c for c in ctx.corr_broken):
            ctx.corr_broken.append("harness TestVerifBgpAds failed: " + log[-1500:])
        state["ran"]["ads"] = state["ran"].get("ads", True) and hok and bool(cases)
        return cases

    cases = harness(n, ctx.seed, "h")

    # sessions are created from the CURRENT peer configuration: SetConfig sequences changing one peer field at a time
    def sessparams(nsp, seed, tag):
        recs, hok, log = ctx.go_harness("speaker", ["zz_verif_bgp_test.go"], "TestVerifBgpSessParams$", n=nsp, seed=seed, tag=tag)
        _, stats = ctx.handle_records(recs)
        for k, v in stats.items():
            state["stats"][k] = state["stats"].get(k, 0) + v
        if not hok and not any("does not build" in c for c in ctx.corr_broken):
            ctx.corr_broken.append("harness TestVerifBgpSessParams failed: " + log[-1500:])
        state["ran"]["sp"] = state["ran"].get("sp", True) and hok

    sessparams(6 if ctx.tier == "quick" else 100, ctx.seed, "sp")

    # the whole speaker (speaker/main.go decides per protocol what is recorded as announced and therefore what is later
    # withdrawn): histories of TestVerifSpk; only the route-set oracle from the statement is taken here (routes on the
    # sessions == routes of the Services this node must announce)
    def whole_speaker(nh, seed, tag):
        ov = {"internal/layer2/zz_verif_spk.go": os.path.join(os.path.dirname(os.path.dirname(os.path.abspath(__file__))),
                                                             "harness", "internal", "layer2", "zz_verif_spk.go")}
        # + TestVerifSpkStack: real reconcilers (Service with endpoints, Node, Config, ServiceBGPStatus) on a fake API server
        recs, hok, log = ctx.go_harness("speaker", ["zz_verif_bgp_test.go", "zz_verif_spk_test.go", "zz_verif_stack_test.go"], "TestVerifSpk(Stack)?$",
                                        n=nh, seed=seed, tag=tag, extra_overlay=ov)
        for r in recs:
            if r.get("t") == "fail" and r.get("sig") in ("bgp-announced-state-differs-from-eligibility", "bgp-status-differs-from-sessions",
                                                         "speaker-mutates-shared-configuration", "unrelated-event-reloads-configuration"):
                ctx.oracle_fail(r["sig"], r.get("what", ""), r.get("replay"))
            elif r.get("t") == "stat" and r["k"].startswith(("elig_", "stack_")):
                state["stats"]["spk:" + r["k"]] = state["stats"].get("spk:" + r["k"], 0) + r["v"]
        if not hok and not any("does not build" in c for c in ctx.corr_broken):
            ctx.corr_broken.append("harness TestVerifSpk (whole-speaker part of C05) failed: " + log[-1500:])
        state["ran"]["spk"] = state["ran"].get("spk", True) and hok

    whole_speaker(30 if ctx.tier == "quick" else 400, ctx.seed, "spk")
    mism = []
    if cases and ok:
        mism = ctx.coq_cases("Run_BgpAds", "bcase", [c["coq"] for c in cases], shard=8 if ctx.tier == "quick" else 100)
        byid = {c["id"]: c for c in cases}
        for m in mism[:5]:
            ctx.corr_broken.append("model BgpAds.bstep and the real bgpController disagree (sessions' last Set or PeersForService) on history %d (%s): %s" %
                                   (m, byid.get(m, {}).get("kind"), json.dumps(byid.get(m, {}).get("in"))[:900]))
    st = state["stats"]
    # degenerate-generator guards: counters computed from the INPUTS and the statement only (never from the code's answers);
    # a part that did not run (build failure, harness failure: reported once above) is not "degenerate"
    groups = [("ads", ("op_set", "op_del_announced", "op_cfg", "op_node", "gen_selected_peer_with_routes", "gen_service_intended_at_some_peer",
                       "gen_service_intended_at_several_peers", "gen_peer_stops_by_node", "gen_peer_stops_by_cfg", "gen_cfg_keeps_running_peer_unchanged",
                       "gen_cfg_changes_running_peer", "final_prefix_shared_by_services", "whole_cfg", "whole_set", "whole_del", "whole_dual_stack_across_pools", "whole_expected_routes")),
              ("sp", ("gen_sessparams_selected_peers", "sessparams_field:PasswordRef.Name", "sessparams_field:PasswordRef.Namespace", "sessparams_field:NodeSelectors")),
              ("spk", ("spk:stack_histories", "spk:stack_services_expected_over_bgp"))]
    for part, keys in groups:
        if not state["ran"].get(part):
            continue
        for k in keys:
            if st.get(k, 0) == 0:
                raise vlib.Broken("generator degenerate: counter %r is zero: %r" % (k, st))

    def search():
        for k in range(4):
            harness(n * 5, ctx.seed * 1000 + k + 13, "s%d" % k)
            if ctx.violations:
                return

    distinct = len({json.dumps(c["in"], sort_keys=True) for c in cases
                    if any(e.get("op") == "set" for e in c["in"]) and any(e.get("op") == "cfg" and e.get("peers") for e in c["in"])})
    ctx.cov["correspondence"] = {"cases": len(cases), "mismatches": len(mism), "generator_counters": st,
                                 "steps_compared": st.get("events", 0)}
    ctx.trusted += [
        "model covers speaker/bgp_controller.go SetBalancer, updateAds, publishAds, adsForPeer, notifyAdsChanged (activeAds), DeleteBalancer, "
        "syncPeers, SetConfig (peer diffing by reflect.DeepEqual), SetNode, PeersForService; internal/bgp Advertisement.MatchesPeer; "
        "net.IP.Mask(net.CIDRMask(len, width)) as Net.mask_to",
        "NewSession / Session.Set / Close never fail (recording session manager); BFD profiles, BGPExtras, passwords are outside the model",
        "label selectors: matchLabels only (labels.SelectorFromSet); peers of one configuration have distinct names; "
        "aggregation lengths within the family width (config validation)",
    ]
    ctx.assumptions += ["'announced' is taken from the calls made by speaker/main.go (last SetBalancer not followed by DeleteBalancer); which services main.go announces is C09/C10",
                        "a service's prefixes are compared as prefixes (notifyAdsChanged keys on Prefix.String())"]
    ctx.finish(len(cases), distinct,
               "histories of 6-20 events on the real bgpController (SetBalancer with 1-3 advertisements: aggregation lengths, localpref, communities, node map, peer lists incl. an "
               "unknown peer; DeleteBalancer; SetConfig with 0-3 peers, node selectors, changed attributes; SetNode label changes), 4 services, single/dual stack; "
               "every step compared; non-trivial = at least one SetBalancer and one non-empty peer configuration; distinct by JSON of the history",
               [c["in"] for c in cases[:2]], search=search)
