"""group spk: the stack harness (harness/speaker/zz_verif_stack_test.go, TestVerifSpkStack) as a part other checks can call.

The REAL Service (with endpoint slices) / Node / Config / ServiceBGPStatus reconcilers on a controller-runtime fake API server in
front of the REAL speaker controller; random and fixed histories of cluster-object changes incl. events that leave the rendered
configuration unchanged ("touch": an unrelated object of a watched kind; node relabels that select nothing new).  Signatures:
  speaker-mutates-shared-configuration    the *config.Config handed to SetConfig (the ConfigReconciler's memo) was modified in place
                                          by a handler (deep dump before / after every event)
  unrelated-event-reloads-configuration   SetConfig was called again although the configuration the cluster objects denote did not
                                          change since it was accepted (and no refused configuration was waiting in the queue)
  bgp-announced-state-differs-from-eligibility, bgp-status-differs-from-sessions, speaker-announces-differ-from-fresh  (C10 / C05 / C09)

usage (e.g. from props/C18.py or props/C20.py):
    import spk_stack_part
    n, stats = spk_stack_part.run_stack(ctx, sigs=spk_stack_part.CONFIG_SIGS)
"""
import os

CONFIG_SIGS = {"speaker-mutates-shared-configuration", "unrelated-event-reloads-configuration"}
FILES = ["zz_verif_bgp_test.go", "zz_verif_spk_test.go", "zz_verif_stack_test.go"]


def overlay():
    v = os.path.dirname(os.path.dirname(os.path.abspath(__file__)))
    return {"internal/layer2/zz_verif_spk.go": os.path.join(v, "harness", "internal", "layer2", "zz_verif_spk.go")}


def run_stack(ctx, sigs=None, n_quick=36, n_thorough=600, tag="spkstack"):
    """runs TestVerifSpkStack; oracle failures whose signature is in `sigs` (None: all) -> ctx.oracle_fail; a harness that does not
    build / run -> ctx.corr_broken.  Returns (number of stack events checked, stats)."""
    n = n_quick if ctx.tier == "quick" else n_thorough
    recs, hok, log = ctx.go_harness("speaker", FILES, "TestVerifSpkStack$", n=n, tag=tag, extra_overlay=overlay())
    stats = {}
    for r in recs:
        if r.get("t") == "fail" and (sigs is None or r.get("sig") in sigs):
            ctx.oracle_fail(r["sig"], r.get("what", ""), r.get("replay"))
        elif r.get("t") == "stat":
            stats[r["k"]] = stats.get(r["k"], 0) + r["v"]
    if not hok and not any("does not build" in c for c in ctx.corr_broken):
        ctx.corr_broken.append("harness TestVerifSpkStack failed: " + log[-1500:])
    if hok and not ctx.violations and not getattr(ctx, "replay_in", None):
        for k in ("stack_histories", "stack_shared_configuration_checks", "stack_events_without_reload", "stack_ev_touch",
                  "stack_gen_condition_appears_true", "stack_gen_true_condition_disappears", "stack_gen_condition_false_to_true", "stack_gen_condition_true_to_false"):
            if stats.get(k, 0) == 0:
                import vlib
                raise vlib.Broken("stack harness degenerate: counter %r is zero: %r" % (k, stats))
    return stats.get("stack_events", 0), stats
