"""shared by C08 and C18: Model/Cfg.v, the generator file overlaid into both Go packages"""
import json, os, re

VERIF = os.path.dirname(os.path.dirname(os.path.abspath(__file__)))
CLOSURE = ["Model/Net.v", "Proofs/NetP.v", "Model/Cfg.v", "Model/CfgFull.v", "Proofs/CfgFullP.v", "Proofs/CfgIsortP.v", "Proofs/CfgAggP.v", "Proofs/CfgAllocBridgeP.v", "Model/Reconciler.v", "Proofs/ReconcilerP.v", "Proofs/ReconcilerCfgP.v", "Proofs/CfgSortP.v", "Proofs/CfgP.v", "Proofs/CfgSummP.v", "Proofs/CfgFuelP.v", "Proofs/CfgRouteP.v", "Proofs/CfgL2P.v",
           "Proofs/CfgPrefix.v"]
GEN_SRC = os.path.join(VERIF, "harness", "internal", "config", "zz_verif_cfggen_test.go.in")

PKGS = {"internal/config": "config", "internal/k8s/controllers": "controllers"}


def gen_overlay(ctx, pkg):
    """the generator file with its package clause substituted, as an extra overlay entry"""
    src = open(GEN_SRC).read().replace("package PKG", "package " + PKGS[pkg])
    dst = os.path.join(ctx.work, "cfggen_%s.go" % PKGS[pkg])
    open(dst, "w").write(src)
    return {os.path.join(pkg, "zz_verif_cfggen_test.go"): dst}


def closure_existing():
    return [f for f in CLOSURE if os.path.exists(os.path.join(VERIF, "coq", f))]


def run_harness(ctx, state, pkg, files, test, n, seed, tag, env=None):
    recs, ok, log = ctx.go_harness(pkg, files, test, n=n, seed=seed, tag=tag, env=env,
                                   extra_overlay=gen_overlay(ctx, pkg))
    cases = [r for r in recs if r.get("t") == "case"]
    for r in recs:
        if r.get("t") == "fail":
            ctx.oracle_fail(r.get("sig", "?"), r.get("what", ""), r.get("replay"))
        elif r.get("t") == "stat":
            state["stats"][r["k"]] = state["stats"].get(r["k"], 0) + r["v"]
    if not ok and not any("does not build" in c for c in ctx.corr_broken):
        tail = "\n".join(l for l in log.splitlines() if "zz_verif" in l or "panic" in l or "FAIL" in l)[-1500:]
        ctx.corr_broken.append("harness %s failed: %s" % (test, tail or log[-1500:]))
    return cases


def coq_compare(ctx, cases, what):
    # heavy cases (wide IPv6 ranges) come in runs: deal the cases round-robin over 16 shards
    nsh = 16
    order = sorted(range(len(cases)), key=lambda i: (i % nsh, i))
    terms = [cases[i]["coq"] for i in order]
    mism = ctx.coq_cases("Run_Cfg", "ccase", terms, shard=max(20, (len(cases) + nsh - 1) // nsh) if len(cases) < 2400 else 150)
    byid = {c["id"]: c for c in cases}
    for m in mism[:5]:
        c = byid.get(m, {})
        ctx.corr_broken.append("model Cfg.v and %s disagree on case %d (%s): %s" %
                               (what, m, c.get("kind"), json.dumps(c.get("in"))[:700]))
    return mism
