import os, sys, json
sys.path.insert(0, os.path.dirname(__file__))
import alloc_common as ac
import reconciler_part
import poolstatus_part
import allocmaps_part
import ctrl_common as cc

CTRL_SIGS = {'ctrl-memory-differs-from-status', 'status-exclusivity'}
SIGS = {'alloc-checksharing-vs-statement','alloc-ghost-or-lost','alloc-released-not-reusable','counters-assigned-wrong','counters-negative','counters-sum-wrong'}

def run(ctx):
    ctx.coq_build(["Properties/C11.v"] + ac.COQ_FILES + allocmaps_part.COQ_FILES + cc.COQ_FILES)
    ctx.coq_theorems("Properties/C11.v", ac.CLOSURE + ["Proofs/AllocP.v", "Proofs/AllocPolicyP.v", "Proofs/AllocCountP.v", "Proofs/AllocFormulaP.v"] + allocmaps_part.CLOSURE)
    cases, st, mism, search = ac.run_alloc(ctx, SIGS)
    # the IPAddressPool status written by the pool status reconciler equals the allocator's counters
    n_ps, st_ps = poolstatus_part.run_poolstatus(ctx, None)
    # the allocator's derived maps (sharingKeyForIP, portsInUse, servicesOnIP, poolIP*InUse) refine the model: memory = rebuild
    n_am, st_am = allocmaps_part.run_allocmaps(ctx, None)
    nsteps = sum(len(c["in"]) for c in cases)
    distinct = len({json.dumps(c["in"], sort_keys=True) for c in cases if len(c["in"]) >= 3})
    ctx.cov["correspondence"] = {"histories": len(cases), "operations": nsteps, "mismatches": len(mism), "generator_counters": st, "pool_status_reconciles": n_ps, "pool_status_counters": st_ps,
                                 "allocmaps_histories": n_am, "allocmaps_counters": st_am}
    # PoolReconciler / ConfigReconciler glue (cfg group): what the allocator is handed is config.For of the current cluster state
    n_rec, st_rec = reconciler_part.run_reconciler(ctx, None)
    # "memory equals what a fresh controller would rebuild" one level up: the controller (convergeBalancer / SetBalancer behind the real
    # ServiceReconciler) must keep the allocator equal to the Services' statuses across restarts, malformed requests and failed writes
    ccases, cst, cmism, csearch = cc.run_ctrl(ctx, CTRL_SIGS, n_quick=64)
    ctx.cov["correspondence"].update({"controller_histories": len(ccases), "controller_mismatches": len(cmism), "controller_counters": cst})
    search0 = search
    def search():
        search0()
        if not ctx.violations:
            csearch()
    ctx.trusted += ["internal/k8s/controllers/pool_status_controller.go is not modelled: the real PoolStatusReconciler is driven with scripted counters and its written status compared with them (oracle only)",
                    "model covers internal/allocator/allocator.go: Assign, Unassign, Allocate, AllocateFromPool, AllocateFromPoolForAdditionalFamily, SetPools, checkSharing, sharingOK, poolFor, isPoolCompatibleWithService, pinnedPoolsForService, findBestPoolForService, getFreeIPsFromPool/getIPFromCIDR, poolCount, updatePoolStats, CountersForPool; allocation.go selectIPsForFamilyAndPolicy",
                    "the allocator's derived maps (sharingKeyForIP, portsInUse, servicesOnIP, poolIP*InUse) are modelled as functions of the service->allocation map; their agreement with the Go maps is checked after every operation by checkSharing probes and counters (correspondence), not proved",
                    "checked nondeterminism: allocation results are taken from the implementation and validated by allocate_spec/from_pool_spec/additional_spec; sort.Slice in sortPools and map iteration order are not modelled",
                    "domain: services have >= 1 port (API server rule); pools pairwise disjoint (C08)"]
    ctx.trusted += cc.TRUST
    ctx.finish(len(cases) + len(ccases), distinct,
               "random histories (10-35 operations: Assign/Unassign/Allocate/AllocateFromPool/Additional/SetPools incl. rename/regroup) over 1-4 small pools and 2-5 services, "
               "plus pool layouts with large prefixes for the counters; after every operation results, IPs/Pool of all services, counters of all pools and 6 checkSharing probes are compared "
               "with the model and the property oracles are evaluated on the implementation; non-trivial = history with >= 3 operations; distinct by content",
               [c["in"][:4] for c in cases[:2]], search=search)
