"""Derived-maps part of C11 (refinement Model/AllocMaps.v -> Model/Alloc.v):
harness TestVerifAllocMaps drives a real allocator.Allocator through random histories and, after
every operation, (a) dumps the actual contents of allocated / sharingKeyForIP / portsInUse /
servicesOnIP / poolIPsInUse / poolIPV4InUse / poolIPV6InUse + counters + checkSharing probes, which
Corr/Run_AllocMaps.v compares with the maps of the concrete model, (b) evaluates "memory = rebuild"
directly on the Go maps (oracle from the statement, plus a fresh allocator re-assigned the surviving
allocations).  Called from props/C11.py:

    import allocmaps_part
    n_hist, stats = allocmaps_part.run_allocmaps(ctx, None)      # sigs=None: every signature
"""
import json, os, re, subprocess
import vlib
import alloc_common

PKG = "internal/allocator"
FILES = ["zz_verif_alloc_test.go", "zz_verif_allocmaps_test.go"]
COQ_FILES = ["Corr/Run_AllocMaps.v"]
CLOSURE = ["Model/AllocMaps.v", "Proofs/AllocMapsBaseP.v", "Proofs/AllocMapsP.v", "Proofs/AllocMapsCohP.v",
           "Proofs/AllocMapsRefP.v", "Proofs/AllocMapsCongP.v", "Proofs/AllocMapsTopP.v"]
SIGS = {"allocmaps-sharingKeyForIP-differs-from-rebuild", "allocmaps-portsInUse-differs-from-rebuild",
        "allocmaps-servicesOnIP-differs-from-rebuild", "allocmaps-poolIPsInUse-differs-from-rebuild",
        "allocmaps-poolIPV4InUse-differs-from-rebuild", "allocmaps-poolIPV6InUse-differs-from-rebuild",
        "allocmaps-allocated-inconsistent", "allocmaps-fresh-allocator-differs",
        "allocmaps-failed-op-changed-maps", "allocmaps-panic", "allocmaps-allocated-vs-exported"}
# counters that depend on the generated history only, not on the bookkeeping under test
NEED = ["m_op_setpools", "m_op_unassign", "m_op_assign", "m_op_allocate", "m_op_frompool", "m_res_ok", "m_res_error",
        "m_shared_address_states", "m_reassign_same_addresses", "m_unassign_of_holder", "m_rename_with_holders", "m_probes"]
OBSERVABLE = {1: "allocated", 2: "sharingKeyForIP", 3: "portsInUse", 4: "servicesOnIP", 5: "poolIPsInUse",
              6: "poolIPV4InUse", 7: "poolIPV6InUse", 8: "counters", 9: "Pool()/IPs()", 10: "model panic flag",
              11: "operation result"}


def _where(ctx, term):
    """step index and observable of the first disagreement of one case (diagnostic only)"""
    v = os.path.join(ctx.work, "where_allocmaps.v")
    with open(v, "w") as fh:
        fh.write("From Coq Require Import List NArith ZArith.\nImport ListNotations.\nFrom Verif Require Import Corr.Run_AllocMaps.\n")
        fh.write("Definition W := Eval vm_compute in where_bad [\n%s\n].\nPrint W.\n" % term)
    try:
        p = subprocess.run(["timeout", "300", "coqc", "-Q", vlib.COQ, "Verif", v],
                           cwd=ctx.work, stdout=subprocess.PIPE, stderr=subprocess.STDOUT, text=True)
        m = re.search(r'Some\s*\(\s*(\d+)(?:%N)?\s*,\s*(\d+)', p.stdout)
        if m:
            return int(m.group(1)), OBSERVABLE.get(int(m.group(2)), m.group(2))
    except Exception:
        pass
    return None, None


def run_allocmaps(ctx, sigs=None, n_quick=60, n_thorough=1500):
    """returns (n_histories, stats).  Oracle failures go to ctx.oracle_fail; a harness that does not
    build / crashes and a model/implementation disagreement go to ctx.corr_broken."""
    n = n_quick if ctx.tier == "quick" else n_thorough
    stats = {}
    state = {"nfail": 0}

    def harness(n, seed, tag):
        recs, ok, log = alloc_common.go_alloc_harness(ctx, FILES, "TestVerifAllocMaps$", n=n, seed=seed, tag=tag)
        for r in recs:
            if r.get("t") == "fail" and (sigs is None or r.get("sig") in sigs):
                state["nfail"] += 1
                ctx.oracle_fail(r["sig"], r.get("what", ""), r.get("replay"))
            elif r.get("t") == "stat":
                stats[r["k"]] = stats.get(r["k"], 0) + r["v"]
        if not ok and not any("does not build" in c for c in ctx.corr_broken):
            tail = "\n".join(l for l in log.splitlines() if "zz_verif" in l or "panic" in l or "FAIL" in l)[-1500:]
            ctx.corr_broken.append("harness TestVerifAllocMaps failed: " + (tail or log[-1500:]))
        return [r for r in recs if r.get("t") == "case"], ok

    cases, ok = harness(n, ctx.seed, "allocmaps")
    mism = []
    if cases:
        mism = ctx.coq_cases("Run_AllocMaps", "mcase", [c["coq"] for c in cases], shard=max(4, len(cases) // 16 + 1))
        byid = {c["id"]: c for c in cases}
        for m in mism[:3]:
            c = byid.get(m, {})
            step, obs = _where(ctx, c.get("coq", "")) if c else (None, None)
            hist = c.get("in") or []
            ctx.corr_broken.append("model AllocMaps.m_step and the real Allocator's maps disagree on history %d at operation %s (%s): %s" %
                                   (m, step, obs, json.dumps(hist[:(step + 1) if step is not None else 40])[:1800]))
    if (mism or not ok) and not state["nfail"] and not ctx.violations:
        # model and implementation disagree (or the harness crashed) but the oracle saw nothing:
        # intensified search for a concrete failing input with other seeds
        for k in range(3):
            harness(n * 4, ctx.seed * 1000 + k + 17, "allocmaps_s%d" % k)
            if state["nfail"]:
                break
    if ok and not mism and not state["nfail"] and not getattr(ctx, "replay_in", None):
        for k in NEED:
            if stats.get(k, 0) == 0:
                raise Exception("allocmaps generator degenerate: counter %s is zero: %r" % (k, stats))
    stats["m_histories"] = len(cases)
    stats["m_operations"] = sum(len(c["in"]) for c in cases)
    stats["m_mismatches"] = len(mism)
    ctx.trusted.append("the allocator's derived maps are modelled concretely (Model/AllocMaps.v: assign, Unassign, checkSharing, Assign, the re-homing "
                       "loop of SetPools, len-based counters) and PROVED coherent with / to refine Model/Alloc.v (C11_memory_equals_rebuild, "
                       "C11_op_commutes_with_abs, C11_history_refines), poolIPV4InUse/poolIPV6InUse included; poolToCounters is modelled as recomputed from "
                       "the maps (len of the family maps; compared with CountersForPool after every operation, its freshness is not proved); "
                       "a present-but-empty inner map is identified with an absent one")
    ctx.assumptions.append("allocmaps domain: every Service has at least one port and no (protocol, port) pair twice (API server validation); outside it "
                           "the Go bookkeeping is NOT coherent (C11_zero_port_tenant_breaks_coherence, C11_duplicate_port_panics)")
    return len(cases), stats
