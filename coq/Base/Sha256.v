(* Executable SHA-256 over primitive 63-bit integers (used only inside
   correspondence checks C04/C12; no theorem depends on it). *)
From Coq Require Import List Uint63 ZArith.
Import ListNotations.
Local Open Scope uint63_scope.

Definition m32 : int := 4294967295.
Definition add32 (a b : int) : int := (a + b) land m32.
Definition rotr (x : int) (n : int) : int := ((x >> n) lor (x << (32 - n))) land m32.
Definition shr (x n : int) : int := x >> n.

Definition K : list int :=
 [0x428a2f98;0x71374491;0xb5c0fbcf;0xe9b5dba5;0x3956c25b;0x59f111f1;0x923f82a4;0xab1c5ed5;
  0xd807aa98;0x12835b01;0x243185be;0x550c7dc3;0x72be5d74;0x80deb1fe;0x9bdc06a7;0xc19bf174;
  0xe49b69c1;0xefbe4786;0x0fc19dc6;0x240ca1cc;0x2de92c6f;0x4a7484aa;0x5cb0a9dc;0x76f988da;
  0x983e5152;0xa831c66d;0xb00327c8;0xbf597fc7;0xc6e00bf3;0xd5a79147;0x06ca6351;0x14292967;
  0x27b70a85;0x2e1b2138;0x4d2c6dfc;0x53380d13;0x650a7354;0x766a0abb;0x81c2c92e;0x92722c85;
  0xa2bfe8a1;0xa81a664b;0xc24b8b70;0xc76c51a3;0xd192e819;0xd6990624;0xf40e3585;0x106aa070;
  0x19a4c116;0x1e376c08;0x2748774c;0x34b0bcb5;0x391c0cb3;0x4ed8aa4a;0x5b9cca4f;0x682e6ff3;
  0x748f82ee;0x78a5636f;0x84c87814;0x8cc70208;0x90befffa;0xa4506ceb;0xbef9a3f7;0xc67178f2].

Definition H0 : list int :=
 [0x6a09e667;0xbb67ae85;0x3c6ef372;0xa54ff53a;0x510e527f;0x9b05688c;0x1f83d9ab;0x5be0cd19].

Definition s0 x := (rotr x 7) lxor (rotr x 18) lxor (shr x 3).
Definition s1 x := (rotr x 17) lxor (rotr x 19) lxor (shr x 10).
Definition S0 x := (rotr x 2) lxor (rotr x 13) lxor (rotr x 22).
Definition S1 x := (rotr x 6) lxor (rotr x 11) lxor (rotr x 25).
Definition ch x y z := (x land y) lxor ((x lxor m32) land z).
Definition maj x y z := (x land y) lxor (x land z) lxor (y land z).

(* words of a 64-byte block, big endian *)
Fixpoint words (bs : list int) : list int :=
  match bs with
  | a :: b :: c :: d :: r => ((a << 24) lor (b << 16) lor (c << 8) lor d) :: words r
  | _ => []
  end.

(* message schedule: [rev_w] holds w[i-1], w[i-2], ... *)
Fixpoint extend (n : nat) (rev_w : list int) : list int :=
  match n with
  | O => rev_w
  | S n' =>
      let w2 := nth 1 rev_w 0 in let w7 := nth 6 rev_w 0 in
      let w15 := nth 14 rev_w 0 in let w16 := nth 15 rev_w 0 in
      extend n' (add32 (add32 (s1 w2) w7) (add32 (s0 w15) w16) :: rev_w)
  end.

Record regs := R { ra:int; rb:int; rc:int; rd:int; re:int; rf:int; rg:int; rh:int }.

Fixpoint rounds (ks ws : list int) (r : regs) : regs :=
  match ks, ws with
  | k :: ks', w :: ws' =>
      let '(R a b c d e f g h) := r in
      let t1 := add32 (add32 (add32 h (S1 e)) (add32 (ch e f g) k)) w in
      let t2 := add32 (S0 a) (maj a b c) in
      rounds ks' ws' (R (add32 t1 t2) a b c (add32 d t1) e f g)
  | _, _ => r
  end.

Definition compress (h : list int) (block : list int) : list int :=
  match h with
  | [a;b;c;d;e;f;g;hh] =>
      let w := rev (extend 48 (rev (words block))) in
      let '(R a' b' c' d' e' f' g' h') := rounds K w (R a b c d e f g hh) in
      [add32 a a'; add32 b b'; add32 c c'; add32 d d'; add32 e e'; add32 f f'; add32 g g'; add32 hh h']
  | _ => h
  end.

Fixpoint blocks (fuel : nat) (h : list int) (bs : list int) : list int :=
  match fuel with
  | O => h
  | S f => match bs with
           | [] => h
           | _ => blocks f (compress h (firstn 64 bs)) (skipn 64 bs)
           end
  end.

Definition pad (bs : list int) : list int :=
  let l := length bs in
  let zeros := Nat.modulo (64 - Nat.modulo (l + 9) 64) 64 in
  let bitlen := of_Z (Z.of_nat l * 8) in
  bs ++ [128] ++ repeat 0 zeros ++
  [0;0;0;0; (bitlen >> 24) land 255; (bitlen >> 16) land 255; (bitlen >> 8) land 255; bitlen land 255].

(* digest as eight 32-bit words; lexicographic order on this list is
   bytes.Compare on the 32-byte digest *)
Definition sha256 (bs : list int) : list int :=
  let p := pad bs in blocks (S (Nat.div (length p) 64)) H0 p.

Fixpoint lex_ltb (a b : list int) : bool :=
  match a, b with
  | x :: a', y :: b' => if ltb x y then true else if ltb y x then false else lex_ltb a' b'
  | [], _ :: _ => true
  | _, _ => false
  end.

Definition digest_Z (d : list int) : Z := fold_left (fun acc w => (acc * 4294967296 + to_Z w)%Z) d 0%Z.

(* standard test vector: SHA-256("abc") *)
Example sha256_abc : sha256 [97;98;99] =
  [0xba7816bf;0x8f01cfea;0x414140de;0x5dae2223;0xb00361a3;0x96177a9c;0xb410ff61;0xf20015ad].
Proof. vm_compute. reflexivity. Qed.
