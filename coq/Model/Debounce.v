(* Debounce — the two reload debouncers.

   (1) internal/bgp/frr/config.go  `debouncer` (lines 295-336): one goroutine,
       local variables `config`, `timerSet` (+ the channel `timeOut`), a `select`
       over the unbuffered channel `reload` and the timer.  Every iteration of
       the loop is one atomic step of the model (the goroutine owns the state);
       `reloadEvent{config: c}` = [Submit c], `reloadEvent{useOld: true}` (sent by
       frr.go validateReload when the reloader reports a failure) = [ReapplyOld],
       expiry of the timer + the call of `body` = [Fire ok] where [ok] is
       "body returned nil".  Configurations are compared with reflect.DeepEqual
       in Go; here a configuration is its content, a number.
       [applied] and [log] are observation fields (what `body` was called with
       and whether it succeeded); Go has no such variables.
       The model has "timer armed", not durations (C19 is labelled partial).

   (2) internal/k8s/controllers/frrk8s_config_controller.go `debouncer`
       (lines 164-187): no payload — the reconciler reads desiredConfiguration
       under its own lock when the emitted event reaches it.  [KNotify] = a value
       received on `in`, [KFire] = timer expiry + `out <- NewReloadEvent()`.
       [k_pending] is an observation field: a notification arrived after the last
       emitted event.

   (3) a finer-grained variant of (1) with the loop location (at the `select` /
       inside `body`) for "submitters are never blocked indefinitely". *)
From Coq Require Import NArith Bool List.
Import ListNotations.

Definition cfg := N.

Inductive ev := Submit (c : cfg) | ReapplyOld | Fire (ok : bool).

Record st := mk_st { config : option cfg; timer : bool; applied : option cfg;
                     log : list (option cfg * bool) (* newest first *) }.

Definition init : st := mk_st None false None [].

Definition ocfg_eqb (a b : option cfg) : bool :=
  match a, b with
  | None, None => true
  | Some x, Some y => N.eqb x y
  | _, _ => false
  end.

(* None = the event is not enabled (the timer channel is nil / not armed) *)
Definition step (s : st) (e : ev) : option st :=
  match e with
  | Submit c =>
      (* useOld = false: DeepEqual(newCfg.config, config) -> continue *)
      if ocfg_eqb (config s) (Some c) then Some s
      else Some (mk_st (Some c) true (applied s) (log s))       (* arm once: timerSet stays true *)
  | ReapplyOld =>
      match config s with
      | None => Some s                                          (* ignore: nil config *)
      | Some _ => Some (mk_st (config s) true (applied s) (log s))
      end
  | Fire ok =>
      if timer s then
        Some (mk_st (config s) (negb ok)                        (* error: re-armed with the retry interval *)
                    (if ok then config s else applied s)
                    ((config s, ok) :: log s))
      else None
  end.

Fixpoint run (s : st) (l : list ev) : option st :=
  match l with
  | [] => Some s
  | e :: l' => match step s e with Some s' => run s' l' | None => None end
  end.

(* the most recently submitted configuration of an event sequence *)
Fixpoint last_submit_from (d : option cfg) (l : list ev) : option cfg :=
  match l with
  | [] => d
  | Submit c :: l' => last_submit_from (Some c) l'
  | _ :: l' => last_submit_from d l'
  end.
Definition last_submit (l : list ev) : option cfg := last_submit_from None l.

Definition is_submit (e : ev) : bool := match e with Submit _ => true | _ => false end.
Definition is_fire (e : ev) : bool := match e with Fire _ => true | _ => false end.
Definition no_submit (l : list ev) : bool := forallb (fun e => negb (is_submit e)) l.
Definition no_fire (l : list ev) : bool := forallb (fun e => negb (is_fire e)) l.

(* ---------- (3) loop location ---------- *)
Inductive fev := FSubmit (c : cfg) | FReapplyOld | FTimer | FBodyReturn (ok : bool).
Record fst_ := mk_f { f_st : st; f_inbody : bool }.
Definition finit : fst_ := mk_f init false.

Definition fstep (s : fst_) (e : fev) : option fst_ :=
  match e, f_inbody s with
  | FSubmit c, false => match step (f_st s) (Submit c) with Some t => Some (mk_f t false) | None => None end
  | FReapplyOld, false => match step (f_st s) ReapplyOld with Some t => Some (mk_f t false) | None => None end
  | FTimer, false => if timer (f_st s) then Some (mk_f (f_st s) true) else None
  | FBodyReturn ok, true => match step (f_st s) (Fire ok) with Some t => Some (mk_f t false) | None => None end
  | _, _ => None            (* the channel is not being received from while body runs *)
  end.

Fixpoint frun (s : fst_) (l : list fev) : option fst_ :=
  match l with
  | [] => Some s
  | e :: l' => match fstep s e with Some s' => frun s' l' | None => None end
  end.

(* collapse a fine trace to the atomic events *)
Fixpoint collapse (l : list fev) : list ev :=
  match l with
  | [] => []
  | FSubmit c :: l' => Submit c :: collapse l'
  | FReapplyOld :: l' => ReapplyOld :: collapse l'
  | FTimer :: l' => collapse l'
  | FBodyReturn ok :: l' => Fire ok :: collapse l'
  end.

(* ---------- (2) frr-k8s variant ---------- *)
Inductive kev := KNotify | KFire.
Record kst := mk_k { k_timer : bool; k_pending : bool; k_out : N }.
Definition kinit : kst := mk_k false false 0.

Definition kstep (s : kst) (e : kev) : option kst :=
  match e with
  | KNotify => Some (mk_k true true (k_out s))
  | KFire => if k_timer s then Some (mk_k false false (N.succ (k_out s))) else None
  end.

Fixpoint krun (s : kst) (l : list kev) : option kst :=
  match l with
  | [] => Some s
  | e :: l' => match kstep s e with Some s' => krun s' l' | None => None end
  end.

(* ---------- (2b) frr-k8s variant with the emission as a blocking send ----------
   `out <- NewReloadEvent()` blocks until the channel source receives: timer
   expiry ([DExpire]: timerSet = false, the loop is now in the send) and delivery
   ([DDeliver]) are two steps; while the loop is in the send nothing is received
   from `in` ([DNotify] not enabled: the notifier blocks).  [DDrop] is NOT a step
   of the code: it is what a non-blocking send would add when nobody receives. *)
Inductive dkev := DNotify | DExpire | DDeliver | DDrop.
Record dkst := mk_dk { dk_timer : bool; dk_sending : bool; dk_pending : bool; dk_out : N }.
Definition dkinit : dkst := mk_dk false false false 0.

Definition dkstep (allow_drop : bool) (s : dkst) (e : dkev) : option dkst :=
  match e with
  | DNotify => if dk_sending s then None else Some (mk_dk true false true (dk_out s))
  | DExpire => if dk_timer s && negb (dk_sending s) then Some (mk_dk false true (dk_pending s) (dk_out s)) else None
  | DDeliver => if dk_sending s then Some (mk_dk (dk_timer s) false false (N.succ (dk_out s))) else None
  | DDrop => if allow_drop && dk_sending s then Some (mk_dk (dk_timer s) false (dk_pending s) (dk_out s)) else None
  end.

Fixpoint dkrun (allow_drop : bool) (s : dkst) (l : list dkev) : option dkst :=
  match l with
  | [] => Some s
  | e :: l' => match dkstep allow_drop s e with Some s' => dkrun allow_drop s' l' | None => None end
  end.

Definition dk_abs (s : dkst) : kst := mk_k (dk_timer s || dk_sending s) (dk_pending s) (dk_out s).

Fixpoint dk_collapse (l : list dkev) : list kev :=
  match l with
  | [] => []
  | DNotify :: l' => KNotify :: dk_collapse l'
  | DDeliver :: l' => KFire :: dk_collapse l'
  | _ :: l' => dk_collapse l'
  end.

(* ---------- frr.go validateReload (lines 446-490) as a function ----------
   input: the whitespace-separated fields of the status file (None = the file
   cannot be read), the previously seen time stamp; status word 1 = "failure".
   output: new previous time stamp, and whether {useOld: true} is sent. *)
Definition validate_reload (fields : option (list N)) (prev : N) : N * bool :=
  match fields with
  | Some [ts; status] =>
      if N.eqb ts prev then (prev, false)
      else (ts, N.eqb status 1)
  | _ => (prev, false)
  end.

(* ---------- (4) frr-k8s path end to end: UpdateConfig ... Reconcile ----------
   frrk8s_config_controller.go: UpdateConfig takes the reconciler's lock, stores
   desiredConfiguration, then sends on configChangedChan STILL HOLDING THE LOCK
   ([RWrite c]; the send completes in [RNotified], only when the debouncer loop is
   not inside its own send).  The debouncer ((2b) above) emits the event
   ([RExpire], [RDeliver]: the channel source enqueues a reconcile request).
   [RReconcile]: Reconcile takes the lock (not while an UpdateConfig holds it),
   reads desiredConfiguration and writes it to the API (the API calls are assumed
   to succeed; a failing Reconcile is requeued by controller-runtime, not modelled). *)
Inductive rkev := RWrite (c : cfg) | RNotified | RExpire | RDeliver | RReconcile.
Record rkst := mk_rk { rk_d : dkst; rk_desired : option cfg; rk_api : option cfg;
                       rk_locked : bool (* an UpdateConfig holds the lock, blocked in its send *);
                       rk_queue : bool (* a reconcile request is queued *) }.
Definition rkinit : rkst := mk_rk dkinit None None false false.

Definition rkstep (s : rkst) (e : rkev) : option rkst :=
  match e with
  | RWrite c => if rk_locked s then None else Some (mk_rk (rk_d s) (Some c) (rk_api s) true (rk_queue s))
  | RNotified =>
      if rk_locked s then
        match dkstep false (rk_d s) DNotify with
        | Some d => Some (mk_rk d (rk_desired s) (rk_api s) false (rk_queue s))
        | None => None
        end
      else None
  | RExpire => match dkstep false (rk_d s) DExpire with
               | Some d => Some (mk_rk d (rk_desired s) (rk_api s) (rk_locked s) (rk_queue s))
               | None => None
               end
  | RDeliver => match dkstep false (rk_d s) DDeliver with
                | Some d => Some (mk_rk d (rk_desired s) (rk_api s) (rk_locked s) true)
                | None => None
                end
  | RReconcile => if rk_queue s && negb (rk_locked s)
                  then Some (mk_rk (rk_d s) (rk_desired s) (rk_desired s) false false) else None
  end.

Fixpoint rkrun (s : rkst) (l : list rkev) : option rkst :=
  match l with
  | [] => Some s
  | e :: l' => match rkstep s e with Some s' => rkrun s' l' | None => None end
  end.

Fixpoint last_written (d : option cfg) (l : list rkev) : option cfg :=
  match l with
  | [] => d
  | RWrite c :: l' => last_written (Some c) l'
  | _ :: l' => last_written d l'
  end.

Definition rk_quiet (s : rkst) : bool :=
  negb (rk_locked s) && negb (dk_timer (rk_d s)) && negb (dk_sending (rk_d s)) && negb (rk_queue s).

(* ---------- (1t) the FRR debouncer with deadlines ----------
   config.go debouncer: `timeOut = time.After(reloadInterval)` is executed only
   when timerSet is false; after a failing body `timeOut = time.After(failureRetryInterval)`.
   [t_deadline] = the instant at which the pending timer channel becomes ready.
   Events carry the instant at which the loop takes them.  A [Fire] is enabled
   from the deadline on (a Go timer is never early); the other events are enabled
   at any instant (when both channels are ready `select` may take either). *)
Record tst := mk_t { t_st : st; t_deadline : option N }.
Definition tinit : tst := mk_t init None.

Definition tstep (iv rt : N) (s : tst) (x : N * ev) : option tst :=
  let (now, e) := x in
  match step (t_st s) e with
  | None => None
  | Some s' =>
      match e with
      | Fire ok =>
          match t_deadline s with
          | Some d => if N.leb d now then Some (mk_t s' (if ok then None else Some (now + rt)%N)) else None
          | None => None
          end
      | _ => Some (mk_t s' (if timer (t_st s) then t_deadline s                (* if !timerSet { ... } *)
                            else if timer s' then Some (now + iv)%N else None))
      end
  end.

Fixpoint trun (iv rt : N) (s : tst) (l : list (N * ev)) : option tst :=
  match l with
  | [] => Some s
  | x :: l' => match tstep iv rt s x with Some s' => trun iv rt s' l' | None => None end
  end.

(* ---------- (2t) the frr-k8s debouncer with deadlines ----------
   frrk8s_config_controller.go debouncer: `timeOut = time.After(reloadInterval)`
   only when timerSet is false; the timer case emits the event and clears timerSet. *)
Record tkst := mk_tk { tk_st : kst; tk_deadline : option N }.
Definition tkinit : tkst := mk_tk kinit None.

Definition tkstep (iv : N) (s : tkst) (x : N * kev) : option tkst :=
  let (now, e) := x in
  match kstep (tk_st s) e with
  | None => None
  | Some s' =>
      match e with
      | KNotify => Some (mk_tk s' (if k_timer (tk_st s) then tk_deadline s else Some (now + iv)%N))
      | KFire => match tk_deadline s with
                 | Some d => if N.leb d now then Some (mk_tk s' None) else None
                 | None => None
                 end
      end
  end.

Fixpoint tkrun (iv : N) (s : tkst) (l : list (N * kev)) : option tkst :=
  match l with
  | [] => Some s
  | x :: l' => match tkstep iv s x with Some s' => tkrun iv s' l' | None => None end
  end.

Definition k_all_notify (l : list (N * kev)) : bool :=
  forallb (fun x => match snd x with KNotify => true | KFire => false end) l.
