(* Lock structure of the event handlers and status fetchers (property C20).
   The instruction sequences are NOT written by hand: tools/lockfacts
   regenerates them from the Go AST of internal/k8s/listener.go,
   internal/k8s/k8s.go, controller/main.go, speaker/main.go,
   internal/allocator/allocator.go, speaker/bgp_controller.go and
   internal/layer2/announcer.go on every check run (.work/C20/LockFacts.v).
   This file defines the IR, the lock-set checker that is evaluated on the
   generated facts, and the interleaving semantics the checker is proved
   sound for (Proofs/LockP.v). *)
From Coq Require Export List String Bool Arith.
Export ListNotations.
Local Open Scope string_scope.

Inductive instr :=
  | Acq (m : string)      (* m.Lock()    *)
  | AcqR (m : string)     (* m.RLock()   *)
  | Rel (m : string)      (* m.Unlock()  *)
  | RelR (m : string)     (* m.RUnlock() *)
  | Rd (f : string)       (* read of guarded field f *)
  | WrW (f : string)      (* f = ...        (the field is replaced) *)
  | WrE (f : string)      (* f[k] = ..., delete(f,k), f[k]++, ... (changed in place) *)
  | Call (g : string)     (* call of a function of the same file *)
  | CallCb (c : string)   (* call of a func-valued field (callback) *)
  | Send (ch : string)    (* blocking send on a channel field *)
  | Recv (ch : string)    (* receive from a channel field *)
  | CondB | CondE.        (* begin / end of a conditionally executed block (if / loop / case body);
                             only emitted in the program given to the notification analysis *)

Definition program := list (string * list instr).
Definition guard_map := list (string * string).   (* field -> mutex *)

Definition mem (x : string) (l : list string) : bool := existsb (String.eqb x) l.
Definition rem (x : string) (l : list string) : list string := filter (fun y => negb (String.eqb x y)) l.
(* RUnlock gives back one read hold *)
Fixpoint rem1 (x : string) (l : list string) : list string :=
  match l with [] => [] | y :: r => if String.eqb x y then r else y :: rem1 x r end.

Definition lookup {A} (k : string) (l : list (string * A)) : option A :=
  match find (fun p => String.eqb k (fst p)) l with Some p => Some (snd p) | None => None end.

Definition listener_mutex : string := "Listener.Mutex".

(* ---- inlining of calls (bounded depth; recursion or an unknown callee fails) ---- *)
Definition is_call (i : instr) : bool := match i with Call _ => true | _ => false end.

Fixpoint inline (fuel : nat) (P : program) (c : list instr) {struct fuel} : option (list instr) :=
  match fuel with
  | 0 => if existsb is_call c then None else Some c
  | S n =>
      (fix go (c : list instr) : option (list instr) :=
         match c with
         | [] => Some []
         | Call g :: r =>
             match lookup g P with
             | None => None
             | Some body => match inline n P body, go r with
                            | Some a, Some b => Some (a ++ b)%list
                            | _, _ => None
                            end
             end
         | i :: r => match go r with Some b => Some (i :: b) | None => None end
         end) c
  end.

Definition inline_all (fuel : nat) (P : program) : option (list (list instr)) :=
  fold_right (fun p acc => match inline fuel P (snd p), acc with
                           | Some c, Some l => Some (c :: l) | _, _ => None end) (Some []) P.

(* ---- the lock-set checker: X = mutexes held exclusively, R = held shared ---- *)
Definition guard_of (G : guard_map) (f : string) : option string := lookup f G.

(* [O] (owner map, field -> token): a field all of whose writes are performed by ONE goroutine that
   is started once per object (facts from the translator).  That goroutine holds the virtual
   mutex [token] exclusively from start to end (the translator brackets its body with
   Acq token / Rel token), its writes of the field must hold the token as well as the guard, and a
   READ of the field is admitted when the reader holds the guard (any mode) OR the token — the
   owner may read its own writes without the lock. *)
Definition owner_map := list (string * string).
Definition owner_of (O : owner_map) (f : string) : option string := lookup f O.
Definition owner_held (O : owner_map) (f : string) (X : list string) : bool :=
  match owner_of O f with Some t => mem t X | None => false end.
Definition owner_ok (O : owner_map) (f : string) (X : list string) : bool :=
  match owner_of O f with Some t => mem t X | None => true end.

Fixpoint check (G : guard_map) (O : owner_map) (X R : list string) (c : list instr) : bool :=
  match c with
  | [] => match X, R with [], [] => true | _, _ => false end
  | Acq m :: r => negb (mem m X) && negb (mem m R) && check G O (m :: X) R r
  | AcqR m :: r => negb (mem m X) && negb (mem m R) && check G O X (m :: R) r
  | Rel m :: r => mem m X && check G O (rem m X) R r
  | RelR m :: r => mem m R && check G O X (rem1 m R) r
  | Rd f :: r => (match guard_of G f with Some m => mem m X || mem m R | None => false end || owner_held O f X) && check G O X R r
  | WrW f :: r | WrE f :: r => match guard_of G f with Some m => mem m X | None => false end && owner_ok O f X && check G O X R r
  | Call _ :: _ => false
  | CallCb _ :: r | Send _ :: r | Recv _ :: r | CondB :: r | CondE :: r => check G O X R r
  end.

Definition fuel0 : nat := 12.

Definition well_locked (G : guard_map) (P : program) : bool :=
  match inline_all fuel0 P with
  | Some bodies => forallb (check G [] [] []) bodies
  | None => false
  end.

(* diagnostics only (not used by any theorem): the first offending instruction *)
Fixpoint explain (G : guard_map) (O : owner_map) (X R : list string) (c : list instr) : option string :=
  match c with
  | [] => match X, R with [], [] => None | _, _ => Some "returns while still holding a mutex" end
  | Acq m :: r => if mem m X || mem m R then Some ("acquires " ++ m ++ " while already holding it")
                  else explain G O (m :: X) R r
  | AcqR m :: r => if mem m X || mem m R then Some ("read-acquires " ++ m ++ " while already holding it")
                   else explain G O X (m :: R) r
  | Rel m :: r => if mem m X then explain G O (rem m X) R r else Some ("releases " ++ m ++ " without holding it")
  | RelR m :: r => if mem m R then explain G O X (rem1 m R) r else Some ("read-releases " ++ m ++ " without holding it")
  | Rd f :: r => match guard_of G f with
                 | Some m => if mem m X || mem m R || owner_held O f X then explain G O X R r
                             else Some ("reads " ++ f ++ " without holding " ++ m)
                 | None => Some ("reads " ++ f ++ " which has no guard") end
  | WrW f :: r | WrE f :: r =>
                 match guard_of G f with
                 | Some m => if mem m X && owner_ok O f X then explain G O X R r
                             else Some ("writes " ++ f ++ " without holding " ++ m ++ " exclusively")
                 | None => Some ("writes " ++ f ++ " which has no guard") end
  | Call g :: _ => Some ("call of " ++ g ++ " not inlined")
  | CallCb _ :: r | Send _ :: r | Recv _ :: r | CondB :: r | CondE :: r => explain G O X R r
  end.

Definition diagnose (G : guard_map) (P : program) : list (string * string) :=
  flat_map (fun p => match inline fuel0 P (snd p) with
                     | None => [(fst p, "call depth exceeded or unknown callee")]
                     | Some c => match explain G [] [] [] c with Some e => [(fst p, e)] | None => [] end
                     end) P.

(* ---- entry points: goroutines start only in [entries]; the other functions are helpers that
   are reached through calls (and are checked inlined at their call sites, with the caller's locks) ---- *)
Definition inline_entries (fuel : nat) (P : program) (entries : list string) : option (list (list instr)) :=
  fold_right (fun f acc => match lookup f P, acc with
                           | Some body, Some l => match inline fuel P body with Some c => Some (c :: l) | None => None end
                           | _, _ => None end) (Some []) entries.

Definition well_locked_from (G : guard_map) (O : owner_map) (P : program) (entries : list string) : bool :=
  match inline_entries fuel0 P entries with
  | Some bodies => forallb (check G O [] []) bodies
  | None => false
  end.

Definition diagnose_from (G : guard_map) (O : owner_map) (P : program) (entries : list string) : list (string * string) :=
  flat_map (fun f => match lookup f P with
                     | None => [(f, "entry point without a translated body")]
                     | Some body => match inline fuel0 P body with
                                    | None => [(f, "call depth exceeded or unknown callee")]
                                    | Some c => match explain G O [] [] c with Some e => [(f, e)] | None => [] end
                                    end
                     end) entries.

(* the virtual owner tokens are not mutexes of the program: the deadlock-oriented checks ignore them *)
Definition is_token (m : string) : bool := String.prefix "owner:" m.
Definition strip_tokens (c : list instr) : list instr :=
  filter (fun i => match i with Acq m | AcqR m | Rel m | RelR m => negb (is_token m) | _ => true end) c.
Definition inline_all_nt (P : program) : option (list (list instr)) :=
  match inline_all fuel0 P with Some bodies => Some (map strip_tokens bodies) | None => None end.

(* ---- no lock is re-acquired on any call path (sync.Mutex / RWMutex are not reentrant; a
   recursive RLock deadlocks as soon as a writer is queued in between) ---- *)
Fixpoint no_reacquire (X : list string) (c : list instr) : bool :=
  match c with
  | [] => true
  | Acq m :: r | AcqR m :: r => negb (mem m X) && no_reacquire (m :: X) r
  | Rel m :: r | RelR m :: r => no_reacquire (rem1 m X) r
  | _ :: r => no_reacquire X r
  end.
Definition no_recursive_lock (P : program) : bool :=
  match inline_all_nt P with
  | Some bodies => forallb (no_reacquire []) bodies
  | None => false
  end.
Definition reacquirers (P : program) : list string :=
  flat_map (fun p => match inline fuel0 P (snd p) with
                     | Some c => if no_reacquire [] (strip_tokens c) then [] else [fst p]
                     | None => [fst p] end) P.

(* ---- lock order: the pairs (held, acquired) over all call paths form an acyclic relation, and no
   unresolved callback runs under a mutex other than the Listener's ---- *)
Fixpoint order_edges (X : list string) (c : list instr) : list (string * string) :=
  match c with
  | [] => []
  | Acq m :: r | AcqR m :: r => (map (fun h => (h, m)) X ++ order_edges (m :: X) r)%list
  | Rel m :: r | RelR m :: r => order_edges (rem1 m X) r
  | _ :: r => order_edges X r
  end.
Fixpoint reaches (E : list (string * string)) (fuel : nat) (a b : string) : bool :=
  String.eqb a b ||
  match fuel with
  | 0 => false
  | S n => existsb (fun e => String.eqb (fst e) a && reaches E n (snd e) b) E
  end.
Definition edge_eqb (a b : string * string) : bool :=
  String.eqb (fst a) (fst b) && String.eqb (snd a) (snd b).
Fixpoint dedup_edges (E : list (string * string)) : list (string * string) :=
  match E with
  | [] => []
  | e :: r => if existsb (edge_eqb e) r then dedup_edges r else e :: dedup_edges r
  end.
Definition acyclic (E0 : list (string * string)) : bool :=
  let E := dedup_edges E0 in
  forallb (fun e => negb (reaches E (List.length E) (snd e) (fst e))) E.
Fixpoint cb_ok (X : list string) (c : list instr) : bool :=
  match c with
  | [] => true
  | Acq m :: r | AcqR m :: r => cb_ok (m :: X) r
  | Rel m :: r | RelR m :: r => cb_ok (rem1 m X) r
  | CallCb _ :: r => forallb (fun m => String.eqb m listener_mutex) X && cb_ok X r
  | _ :: r => cb_ok X r
  end.
Definition lock_edges (P : program) : list (string * string) :=
  match inline_all_nt P with
  | Some bodies => dedup_edges (flat_map (order_edges []) bodies)
  | None => []
  end.
Definition lock_order_ok (P : program) : bool :=
  match inline_all_nt P with
  | Some bodies => acyclic (flat_map (order_edges []) bodies) && forallb (cb_ok []) bodies
  | None => false
  end.

(* ---- registration of the handlers through the locking wrappers ---- *)
Definition wrapper_of (body : list instr) : option string :=
  match body with
  | [Acq m; CallCb c; Rel m'] =>
      if String.eqb m listener_mutex && String.eqb m' listener_mutex then Some c else None
  | _ => None
  end.

(* the callback a registered Handler expression delivers to, if it is a Listener wrapper *)
Definition handler_callback (P : program) (h : string) : option string :=
  match lookup ("Listener." ++ h) P with Some body => wrapper_of body | None => None end.

Definition wrappers_ok (P : program) (registered main_cbs : list (string * string)) (cbs : list string) : bool :=
  forallb (fun r => match handler_callback P (snd r) with Some c => mem c cbs | None => false end) registered
  && forallb (fun mc => existsb (fun r => match handler_callback P (snd r) with
                                          | Some c => String.eqb c (snd mc) | None => false end) registered) main_cbs.

(* ---- references handed out of a critical section ---- *)
Definition elem_written (P : program) (f : string) : bool :=
  existsb (fun p => existsb (fun i => match i with WrE g => String.eqb f g | _ => false end) (snd p)) P.

(* a guarded slice / map returned without copying is harmless only if the field is
   replaced as a whole and never changed in place (immutable after publication) *)
Definition no_escape (P : program) (escapes : list (string * string)) : bool :=
  forallb (fun e => negb (elem_written P (snd e))) escapes.

(* ---- no blocking send while holding a mutex the channel's consumer needs ----
   [consumers]: the (inlined) functions that receive from the channel; a send performed while
   holding m can wait forever when the queue is full and the consumer is waiting for m.
   A send under a mutex on a channel nobody (in the translated files) receives from is refused too. *)
Definition acquired (c : list instr) : list string :=
  flat_map (fun i => match i with Acq m | AcqR m => [m] | _ => [] end) c.
Definition receives (ch : string) (c : list instr) : bool :=
  existsb (fun i => match i with Recv x => String.eqb x ch | _ => false end) c.
Definition consumer_mutexes (bodies : list (list instr)) (ch : string) : list string :=
  flat_map (fun b => if receives ch b then acquired b else []) bodies.
Fixpoint send_ok (bodies : list (list instr)) (X : list string) (c : list instr) : bool :=
  match c with
  | [] => true
  | Acq m :: r | AcqR m :: r => send_ok bodies (m :: X) r
  | Rel m :: r | RelR m :: r => send_ok bodies (rem1 m X) r
  | Send ch :: r =>
      match X with
      | [] => true
      | _ => existsb (receives ch) bodies && forallb (fun m => negb (mem m (consumer_mutexes bodies ch))) X
      end && send_ok bodies X r
  | _ :: r => send_ok bodies X r
  end.
Definition no_blocking_send_under_lock (P : program) : bool :=
  match inline_all_nt P with
  | Some bodies => forallb (send_ok bodies []) bodies
  | None => false
  end.
Definition blocking_senders (P : program) : list string :=
  match inline_all_nt P with
  | Some bodies => flat_map (fun p => match inline fuel0 P (snd p) with
                                      | Some c => if send_ok bodies [] (strip_tokens c) then [] else [fst p]
                                      | None => [fst p] end) P
  | None => map fst P
  end.

(* ---- a method that is ONE critical section of mutex m (what C13_rw_serial_by_definition assumes
   of the announcer's methods): Lock; guarded accesses; Unlock — nothing guarded outside *)
Definition only_accesses (reads_only : bool) (c : list instr) : bool :=
  forallb (fun i => match i with
                    | Rd _ => true
                    | WrW _ | WrE _ => negb reads_only
                    | _ => false end) c.
Definition stateless (i : instr) : bool :=
  match i with Send _ | Recv _ | CallCb _ => true | _ => false end.
Fixpoint drop_stateless (c : list instr) : list instr :=
  match c with i :: r => if stateless i then drop_stateless r else c | [] => [] end.
(* channel operations and callbacks before Lock / after Unlock do not belong to the section *)
Definition one_section (m : string) (body0 : list instr) : bool :=
  let body := rev (drop_stateless (rev (drop_stateless body0))) in
  match body with
  | Acq m1 :: r => String.eqb m1 m &&
      match rev r with
      | Rel m2 :: mid => String.eqb m2 m && only_accesses false mid
      | _ => false end
  | AcqR m1 :: r => String.eqb m1 m &&
      match rev r with
      | RelR m2 :: mid => String.eqb m2 m && only_accesses true mid
      | _ => false end
  | _ => false
  end.
(* on the body with calls inlined; a blocking send INSIDE the section is refused (the method
   would not be one atomic step), sends / callbacks before Lock or after Unlock are not part of it *)
Definition sections_ok (P : program) (m : string) (methods : list string) : bool :=
  forallb (fun f => match lookup f P with
                    | Some body => match inline fuel0 P body with Some c => one_section m c | None => false end
                    | None => false end) methods.

(* ---- status fetchers run outside the Listener mutex: they may touch only guarded
   fields (and the guarding mutex) of their receiver ---- *)
Definition confined (G : guard_map) (fetchers : list (string * string * list string)) : bool :=
  forallb (fun x => match x with (_, strct, fields) =>
     forallb (fun f => match guard_of G (strct ++ "." ++ f) with
                       | Some _ => true
                       | None => existsb (fun g => String.eqb (snd g) (strct ++ "." ++ f)) G
                       end) fields end) fetchers.

(* a function literal used as status fetcher (program, name it is stored under, fields / methods of the
   program's controller struct it touches) runs outside the Listener mutex as well: it must touch
   none of the state the handlers own under that mutex *)
Definition fetcher_closures_confined (cl : list (string * string * list string)) : bool :=
  forallb (fun x : string * string * list string => match snd x with [] => true | _ => false end) cl.

(* ---- notifications come after the state they announce ----
   A handler tells an independent status reconciler that an object changed by invoking a callback
   (a blocking hand-over on an unbuffered channel in the programs); the reconciler may run at once
   and reads the component's state through a fetcher that needs only the component's own lock.
   [notify_ok cb fields strict need] on a function body with calls inlined and conditional blocks
   bracketed by CondB / CondE:
     - the LAST invocation of cb comes after the LAST write of one of [fields]      (order);
     - [strict]: if that last write is unconditional, so is that last invocation    (not skipped);
     - [need]: a body that writes [fields] invokes cb at all                        (handlers). *)
Fixpoint nscan (cb : string) (fields : list string) (c : list instr) (i d : nat)
               (lw ln : option (nat * nat)) : option (nat * nat) * option (nat * nat) :=
  match c with
  | [] => (lw, ln)
  | CondB :: r => nscan cb fields r (S i) (S d) lw ln
  | CondE :: r => nscan cb fields r (S i) (Nat.pred d) lw ln
  | WrW f :: r | WrE f :: r => nscan cb fields r (S i) d (if mem f fields then Some (i, d) else lw) ln
  | CallCb c' :: r => nscan cb fields r (S i) d lw (if String.eqb c' cb then Some (i, d) else ln)
  | _ :: r => nscan cb fields r (S i) d lw ln
  end.
Definition notify_ok (cb : string) (fields : list string) (strict need : bool) (c : list instr) : bool :=
  match nscan cb fields c 0 0 None None with
  | (None, _) => true
  | (Some _, None) => negb need
  | (Some (iw, dw), Some (inn, dn)) =>
      Nat.ltb iw inn && (if strict && Nat.eqb dw 0 then Nat.eqb dn 0 else true)
  end.
(* notifier: callback, the fields its consumer's fetcher reads, strict?, name prefix of the functions
   of the notifying struct *)
Definition notifier := (string * list string * bool * string)%type.
Definition notify_violations (P : program) (entries : list string) (ns : list notifier) : list (string * string) :=
  flat_map (fun n => match n with (cb, fields, strict, scope) =>
    flat_map (fun p => if String.prefix scope (fst p) then
                         match inline fuel0 P (snd p) with
                         | Some c => if notify_ok cb fields strict (mem (fst p) entries) c then [] else [(fst p, cb)]
                         | None => [(fst p, "call depth exceeded")] end
                       else []) P end) ns.
Definition notify_after_state (P : program) (entries : list string) (ns : list notifier) : bool :=
  match notify_violations P entries ns with [] => true | _ => false end.

(* what the order buys: an eager consumer publishes the component's state at every notification;
   a handler is a trace of state writes and notifications *)
Section Notify.
  Variable S : Type.
  Inductive nev := NWrite (f : S -> S) | NNotify.
  Definition nstep (sp : S * S) (e : nev) : S * S :=      (* (state, last published) *)
    match e with NWrite f => (f (fst sp), snd sp) | NNotify => (fst sp, fst sp) end.
  Definition nrun (t : list nev) (sp : S * S) : S * S := fold_left nstep t sp.
  Definition is_write (e : nev) : bool := match e with NWrite _ => true | NNotify => false end.
  (* every write is followed by a later notification (= no write after the last notification, and a
     trace that writes notifies) *)
  Fixpoint ends_notified (t : list nev) : bool :=
    match t with
    | [] => true
    | NWrite _ :: r => existsb (fun e => negb (is_write e)) r && ends_notified r
    | NNotify :: r => ends_notified r
    end.
End Notify.

(* ---- interleaving semantics ---- *)
Record thread := mk_thread { hx : list string; hr : list string; code : list instr }.
Definition config := nat -> thread.
Definition upd (c : config) (i : nat) (t : thread) : config := fun j => if Nat.eqb j i then t else c j.

Inductive step (bodies : list (list instr)) (c : config) : config -> Prop :=
  | SAcq i m r : code (c i) = Acq m :: r ->
      (forall j, ~ In m (hx (c j)) /\ ~ In m (hr (c j))) ->
      step bodies c (upd c i (mk_thread (m :: hx (c i)) (hr (c i)) r))
  | SAcqR i m r : code (c i) = AcqR m :: r ->
      (forall j, ~ In m (hx (c j))) ->
      step bodies c (upd c i (mk_thread (hx (c i)) (m :: hr (c i)) r))
  | SRel i m r : code (c i) = Rel m :: r -> In m (hx (c i)) ->
      step bodies c (upd c i (mk_thread (rem m (hx (c i))) (hr (c i)) r))
  | SRelR i m r : code (c i) = RelR m :: r -> In m (hr (c i)) ->
      step bodies c (upd c i (mk_thread (hx (c i)) (rem1 m (hr (c i))) r))
  | SRd i f r : code (c i) = Rd f :: r -> step bodies c (upd c i (mk_thread (hx (c i)) (hr (c i)) r))
  | SWrW i f r : code (c i) = WrW f :: r -> step bodies c (upd c i (mk_thread (hx (c i)) (hr (c i)) r))
  | SWrE i f r : code (c i) = WrE f :: r -> step bodies c (upd c i (mk_thread (hx (c i)) (hr (c i)) r))
  | SCb i f r : code (c i) = CallCb f :: r -> step bodies c (upd c i (mk_thread (hx (c i)) (hr (c i)) r))
  (* channel operations may additionally block; letting them always proceed only adds behaviours *)
  | SSend i f r : code (c i) = Send f :: r -> step bodies c (upd c i (mk_thread (hx (c i)) (hr (c i)) r))
  | SRecv i f r : code (c i) = Recv f :: r -> step bodies c (upd c i (mk_thread (hx (c i)) (hr (c i)) r))
  (* an idle goroutine starts any function (reconciler workers, responders, fetchers) *)
  | SSpawn i b : code (c i) = [] -> hx (c i) = [] -> hr (c i) = [] -> In b bodies ->
      step bodies c (upd c i (mk_thread [] [] b)).

Inductive steps (bodies : list (list instr)) : config -> config -> Prop :=
  | steps_refl c : steps bodies c c
  | steps_trans c c' c'' : steps bodies c c' -> step bodies c' c'' -> steps bodies c c''.

Definition idle (c : config) : Prop := forall i, c i = mk_thread [] [] [].

Definition accesses (i : instr) (f : string) : bool :=
  match i with Rd g | WrW g | WrE g => String.eqb f g | _ => false end.
Definition writes (i : instr) (f : string) : bool :=
  match i with WrW g | WrE g => String.eqb f g | _ => false end.

(* two goroutines are about to access the same guarded field, one of them writing *)
Definition racy (G : guard_map) (c : config) : Prop :=
  exists i j f a ra b rb, i <> j /\ guard_of G f <> None /\
    code (c i) = a :: ra /\ code (c j) = b :: rb /\
    writes a f = true /\ accesses b f = true.

(* ---- serial equivalence of handlers bracketed by ONE mutex ----
   thread k runs  Lock; f_1; ...; f_n; Unlock  on a shared state; [TIdle]
   before Lock, [TIn rest] inside, [TDone] after Unlock *)
Section Serial.
  Variable S : Type.
  Inductive hstate := TIdle | TIn (rest : list (S -> S)) | TDone.
  Record hconfig := mk_hconfig { sigma : S; hs : nat -> hstate; order : list nat }. (* newest first *)
  Definition hupd (h : nat -> hstate) (i : nat) (x : hstate) : nat -> hstate :=
    fun j => if Nat.eqb j i then x else h j.
  Definition run_body (b : list (S -> S)) (s : S) : S := fold_left (fun s f => f s) b s.

  Inductive hstep (bodies : nat -> list (S -> S)) (c : hconfig) : hconfig -> Prop :=
    | HLock i : hs c i = TIdle -> (forall j, forall r, hs c j <> TIn r) ->
        hstep bodies c (mk_hconfig (sigma c) (hupd (hs c) i (TIn (bodies i))) (i :: order c))
    | HStep i f r : hs c i = TIn (f :: r) ->
        hstep bodies c (mk_hconfig (f (sigma c)) (hupd (hs c) i (TIn r)) (order c))
    | HUnlock i : hs c i = TIn [] ->
        hstep bodies c (mk_hconfig (sigma c) (hupd (hs c) i TDone) (order c)).

  Inductive hsteps (bodies : nat -> list (S -> S)) : hconfig -> hconfig -> Prop :=
    | hsteps_refl c : hsteps bodies c c
    | hsteps_trans c c' c'' : hsteps bodies c c' -> hstep bodies c' c'' -> hsteps bodies c c''.

  (* the handlers one at a time, in the order in which they took the lock *)
  Definition serial (bodies : nat -> list (S -> S)) (ord : list nat) (s0 : S) : S :=
    fold_right (fun i s => run_body (bodies i) s) s0 ord.
End Serial.

(* ---- readers and writers under ONE RWMutex ----
   writer k runs  Lock; f_1; ...; f_n; Unlock  (its body changes the state in several
   steps); reader k runs  RLock; a := q sigma; RUnlock.  Readers may overlap each other. *)
Section RW.
  Variable S A : Type.
  Inductive rwstate :=
    | WIdle | WIn (rest : list (S -> S)) | WDone
    | RIdle | RIn | RGot (a : A) | RDone (a : A).
  Record rwconfig := mk_rwconfig { rsigma : S; rths : nat -> rwstate; rorder : list nat }. (* newest first *)
  Definition rwupd (h : nat -> rwstate) (i : nat) (x : rwstate) : nat -> rwstate :=
    fun j => if Nat.eqb j i then x else h j.
  Definition writer_in (x : rwstate) : Prop := exists r, x = WIn r.
  Definition reader_in (x : rwstate) : Prop := x = RIn \/ exists a, x = RGot a.

  Inductive rwstep (wb : nat -> list (S -> S)) (rq : nat -> S -> A) (c : rwconfig) : rwconfig -> Prop :=
    | RWLock i : rths c i = WIdle -> (forall j, ~ writer_in (rths c j) /\ ~ reader_in (rths c j)) ->
        rwstep wb rq c (mk_rwconfig (rsigma c) (rwupd (rths c) i (WIn (wb i))) (i :: rorder c))
    | RWStep i f r : rths c i = WIn (f :: r) ->
        rwstep wb rq c (mk_rwconfig (f (rsigma c)) (rwupd (rths c) i (WIn r)) (rorder c))
    | RWUnlock i : rths c i = WIn [] ->
        rwstep wb rq c (mk_rwconfig (rsigma c) (rwupd (rths c) i WDone) (rorder c))
    | RRLock i : rths c i = RIdle -> (forall j, ~ writer_in (rths c j)) ->
        rwstep wb rq c (mk_rwconfig (rsigma c) (rwupd (rths c) i RIn) (rorder c))
    | RRRead i : rths c i = RIn ->
        rwstep wb rq c (mk_rwconfig (rsigma c) (rwupd (rths c) i (RGot (rq i (rsigma c)))) (rorder c))
    | RRUnlock i a : rths c i = RGot a ->
        rwstep wb rq c (mk_rwconfig (rsigma c) (rwupd (rths c) i (RDone a)) (rorder c)).

  Inductive rwsteps (wb : nat -> list (S -> S)) (rq : nat -> S -> A) : rwconfig -> rwconfig -> Prop :=
    | rwsteps_refl c : rwsteps wb rq c c
    | rwsteps_trans c c' c'' : rwsteps wb rq c c' -> rwstep wb rq c' c'' -> rwsteps wb rq c c''.

  Definition rwinit (s0 : S) (h : nat -> rwstate) : Prop := forall i, h i = WIdle \/ h i = RIdle.
End RW.

(* ---- why a blocking send under the lock deadlocks: a handler and the consumer loop ----
   handler:  Lock m; <send on ch>; Unlock m      (send under the lock)   [under_lock = true]
             Lock m; Unlock m; <send on ch>      (send after the unlock) [under_lock = false]
   consumer: <receive from ch>; RLock m; RUnlock m     forever (spamLoop -> gratuitous)
   [q] is the number of queued elements, [cap] the channel's capacity. *)
Section Queue.
  Inductive hpos := HP0 | HP1 | HP2.     (* before Lock / after the first action / after the second *)
  Inductive cpos := C0 | C1 | C2.     (* before receive / before RLock / holding the read lock *)
  Record qstate := mk_qstate { qh : hpos; qc : cpos; qq : nat }.
  Definition handler_holds (under_lock : bool) (h : hpos) : bool :=
    match h with HP0 => false | HP1 => true | HP2 => under_lock end.

  Inductive qstep (under_lock : bool) (cap : nat) : qstate -> qstate -> Prop :=
    | QLock c q : c <> C2 -> qstep under_lock cap (mk_qstate HP0 c q) (mk_qstate HP1 c q)
    (* send under the lock: HP1 --send--> HP2 --unlock--> HP0 *)
    | QSendU c q : under_lock = true -> q < cap -> qstep under_lock cap (mk_qstate HP1 c q) (mk_qstate HP2 c (S q))
    | QUnlockU c q : under_lock = true -> qstep under_lock cap (mk_qstate HP2 c q) (mk_qstate HP0 c q)
    (* send after the unlock: HP1 --unlock--> HP2 --send--> HP0 *)
    | QUnlockA c q : under_lock = false -> qstep under_lock cap (mk_qstate HP1 c q) (mk_qstate HP2 c q)
    | QSendA c q : under_lock = false -> q < cap -> qstep under_lock cap (mk_qstate HP2 c q) (mk_qstate HP0 c (S q))
    (* the consumer *)
    | QRecv h q : qstep under_lock cap (mk_qstate h C0 (S q)) (mk_qstate h C1 q)
    | QRLock h q : handler_holds under_lock h = false -> qstep under_lock cap (mk_qstate h C1 q) (mk_qstate h C2 q)
    | QRUnlock h q : qstep under_lock cap (mk_qstate h C2 q) (mk_qstate h C0 q).

  Inductive qsteps (under_lock : bool) (cap : nat) : qstate -> qstate -> Prop :=
    | qsteps_refl s : qsteps under_lock cap s s
    | qsteps_trans s s' s'' : qsteps under_lock cap s s' -> qstep under_lock cap s' s'' -> qsteps under_lock cap s s''.

  Definition qstuck (under_lock : bool) (cap : nat) (s : qstate) : Prop := forall s', ~ qstep under_lock cap s s'.
End Queue.

(* ---- why a recursive RLock deadlocks: sync.RWMutex blocks NEW readers once a writer waits ----
   reader:  RLock; RLock (nested, e.g. gratuitous -> shouldAnnounce); RUnlock; RUnlock   [nested = true]
            RLock; RUnlock; RLock; RUnlock                                              [nested = false]
   writer:  Lock (first announces itself as pending, then waits for the readers to drain); Unlock *)
Section RecursiveRLock.
  Inductive rpos := RP0 | RP1 | RP2 | RP3 | RPdone.   (* number of reader steps done *)
  Inductive wpos := WP0 | WPpending | WPin | WPdone.
  Record rrstate := mk_rrstate { rr_r : rpos; rr_w : wpos }.
  (* read holds of the reader at each position *)
  Definition rholds (nested : bool) (p : rpos) : nat :=
    match p, nested with
    | RP0, _ => 0 | RP1, _ => 1
    | RP2, true => 2 | RP2, false => 0
    | RP3, _ => 1
    | RPdone, _ => 0
    end.
  (* is the reader's next step an RLock? *)
  Definition next_is_rlock (nested : bool) (p : rpos) : bool :=
    match p, nested with
    | RP0, _ => true | RP1, true => true | RP2, false => true | _, _ => false
    end.
  Definition rnext (p : rpos) : rpos :=
    match p with RP0 => RP1 | RP1 => RP2 | RP2 => RP3 | RP3 => RPdone | RPdone => RPdone end.

  Inductive rrstep (nested : bool) : rrstate -> rrstate -> Prop :=
    (* RLock: refused while a writer is pending or inside *)
    | RRlock p w : next_is_rlock nested p = true -> (w = WP0 \/ w = WPdone) ->
        rrstep nested (mk_rrstate p w) (mk_rrstate (rnext p) w)
    | RRunlock p w : next_is_rlock nested p = false -> p <> RPdone ->
        rrstep nested (mk_rrstate p w) (mk_rrstate (rnext p) w)
    | RWpend p : rrstep nested (mk_rrstate p WP0) (mk_rrstate p WPpending)
    | RWenter p : rholds nested p = 0 -> rrstep nested (mk_rrstate p WPpending) (mk_rrstate p WPin)
    | RWleave p : rrstep nested (mk_rrstate p WPin) (mk_rrstate p WPdone).

  Inductive rrsteps (nested : bool) : rrstate -> rrstate -> Prop :=
    | rrsteps_refl s : rrsteps nested s s
    | rrsteps_trans s s' s'' : rrsteps nested s s' -> rrstep nested s' s'' -> rrsteps nested s s''.

  Definition rrstuck (nested : bool) (s : rrstate) : Prop := forall s', ~ rrstep nested s s'.
  Definition rrfinished (s : rrstate) : Prop := rr_r s = RPdone /\ rr_w s = WPdone.
End RecursiveRLock.

(* ---- the Listener wrappers release their mutex by a DEFERRED unlock ----
   (obligation repo_wrappers_unlock_deferred on the generated facts: [wu] lists every Listener method
   that takes the Listener mutex with "every unlock is a deferred one"; every registered handler is
   among them) *)
Definition wrappers_unlock_deferred (registered : list (string * string)) (wu : list (string * bool)) : bool :=
  forallb (fun w : string * bool => snd w) wu
  && forallb (fun r : string * string => existsb (fun w : string * bool => String.eqb (fst w) ("Listener." ++ snd r)) wu) registered.

(* ---- why: a handler may PANIC, and controller-runtime recovers the reconcile ----
   Pattern model (a separate small system, like the ones above).  One delivery of an event through a
   wrapper: Lock; handler; Unlock.  The handler returns or panics; on a panic the goroutine unwinds:
   deferred calls run, the statements after the call do not.  A delivery can start only when the
   mutex is free; [served] counts the deliveries of a sequence that get the mutex. *)
Section PanicUnlock.
  Inductive outcome := Returns | Panics.
  (* the mutex after a delivery that started with the mutex free *)
  Definition held_after (deferred : bool) (o : outcome) : bool :=
    match o with Returns => false | Panics => negb deferred end.
  Fixpoint served (deferred held : bool) (os : list outcome) : nat :=
    match os with
    | [] => 0
    | o :: r => if held then 0 else S (served deferred (held_after deferred o) r)
    end.
End PanicUnlock.
