(* Model of the controller: controller/service.go (convergeBalancer,
   clearServiceState, allocateIPs, getDesiredLbIPs, isEqualIPs, serviceFamilyChanged),
   controller/main.go (SetBalancer, SetPools) and the service reconciler
   internal/k8s/controllers/service_controller.go + service_controller_reload.go
   (reconcileService, reprocessAll, the initialLoadPerformed gate).

   External inputs of one handler call (checked nondeterminism): whether the
   status write succeeds, and the allocation the allocator ended up with
   ([k_final], validated by the allocator model's specs).  [rank] is the order of
   the textual form of addresses (isEqualIPs sorts by ip.String()). *)
From Coq Require Export List NArith Bool.
From Verif Require Export Model.Alloc.
Export ListNotations.
Local Open Scope N_scope.

Inductive want := WNone | WIps (l : list ip) | WInvalid.

Record svcobj := {
  o_lb : bool;                  (* Spec.Type == LoadBalancer *)
  o_req : req;                  (* namespace, labels, cluster family, policy, ports, sharing/backend key *)
  o_cluster_ok : bool;          (* ClusterIP(s) set *)
  o_want : want;                (* spec.loadBalancerIP / loadBalancerIPs annotation *)
  o_want_pool : option poolid;  (* address-pool annotation (stable or deprecated spelling) *)
  o_status : list ip;           (* Status.LoadBalancer.Ingress *)
  o_annot : option poolid }.    (* ip-allocated-from-pool annotation *)

Record oracle := { k_write : bool; k_final : option (poolid * list ip) }.

Inductive sync := Success | Error | ReprocessAll | ErrorNoRetry.

Section Ctrl.
Variable rank : ip -> N.

(* the working copy of the service inside convergeBalancer *)
Record cv := { cv_mem : st; cv_status : list ip; cv_annot : option poolid }.

Definition clear (c : cv) (s : svc) : cv :=
  {| cv_mem := unassign (cv_mem c) s; cv_status := []; cv_annot := None |}.

Definition pool_of (a : st) (s : svc) : option poolid := option_map a_pool (get_alloc a s).
Definition ips_of (a : st) (s : svc) : list ip := match get_alloc a s with Some al => a_ips al | None => [] end.
Definition key_of (a : st) (s : svc) : skey :=
  match get_alloc a s with Some al => a_key al | None => {| sharing := 0; backend := 0 |} end.
Definition skey_eqb (x y : skey) : bool := (sharing x =? sharing y) && (backend x =? backend y).

(* serviceFamilyChanged *)
Definition family_changed (lb : option sfam) (cluster : sfam) (pol : policy) : bool :=
  match lb with
  | None => true
  | Some f => if sfam_eqb f cluster then false
              else match cluster, pol with SDual, Prefer => false | _, _ => true end
  end.

(* sort.Slice by ip.String() on at most two addresses *)
Definition sort2 (l : list ip) : list ip :=
  match l with [x; y] => if rank y <? rank x then [y; x] else [x; y] | _ => l end.
Definition equal_ips (a b : list ip) : bool := ips_eqb (sort2 a) (sort2 b).

Definition opt_pool_eqb (a b : option poolid) : bool :=
  match a, b with Some x, Some y => x =? y | None, None => true | _, _ => false end.

Definition is_prefer (p : policy) : bool := match p with Prefer => true | _ => false end.
Definition is_require (p : policy) : bool := match p with Require => true | _ => false end.
Definition is_dual (f : sfam) : bool := match f with SDual => true | _ => false end.

(* run one allocator operation, insisting that the observed choice is admitted *)
Definition alloc_op (a : st) (o : op) : option (st * res) :=
  match step a o with
  | (_, RSpecMismatch) => None
  | r => Some r
  end.

(* result of convergeBalancer: working copy, nil-error?, model/implementation
   agreement on the observed allocation *)
Inductive cres := CR (c : cv) (ok : bool) | CMismatch.

(* when [fix_f6] the additional-family step requires dual-stack cluster IPs (the repaired code) *)
Definition additional_applies (r : req) (lb : list ip) : bool :=
  match lb with [_] => is_prefer (r_pol r) && is_dual (r_fam r) | _ => false end.

Definition the_additional (have : ip) (k : oracle) : option ip :=
  match k_final k with
  | Some (_, [x; y]) => if ip_eqb x have then Some y else if ip_eqb y have then Some x else None
  | _ => None
  end.

(* --- convergeBalancer, stage by stage --- *)

(* A: the recorded addresses, if their family still fits the cluster IPs *)
Definition stageA (c0 : cv) (s : svc) (o : svcobj) : cv * list ip :=
  match o_status o with
  | [] => (clear c0 s, [])
  | lb => if family_changed (alloc_fam lb) (r_fam (o_req o)) (r_pol (o_req o)) then (clear c0 s, []) else (c0, lb)
  end.

(* B: re-validate them against the current configuration and the service's wishes.
   inr: early return with ErrConverge (invalid requested addresses: the state reached so far is kept) *)
Definition stageB (c1 : cv) (lb1 : list ip) (s : svc) (o : svcobj) : (cv * list ip) + cv :=
  match lb1 with
  | [] => inl (c1, [])
  | _ =>
      let '(c2, lb2) :=
        match assign (cv_mem c1) s (o_req o) lb1 with
        | (a', ROk _) => ({| cv_mem := a'; cv_status := cv_status c1; cv_annot := cv_annot c1 |}, lb1)
        | _ => (clear c1 s, [])
        end in
      let '(c3, lb3) :=
        match lb2, o_want_pool o with
        | _ :: _, Some p => if opt_pool_eqb (pool_of (cv_mem c2) s) (Some p) then (c2, lb2) else (clear c2 s, [])
        | _, _ => (c2, lb2)
        end in
      match o_want o with
      | WInvalid => inr c3
      | WIps d => if equal_ips lb3 d then inl (c3, sort2 lb3) else inl (clear c3 s, [])
      | WNone => inl (c3, lb3)
      end
  end.

(* C: PreferDualStack with one address: try the other family from the same pool.
   None: the observed allocation is not admitted by the allocator's spec *)
Definition stageC (c3 : cv) (lb3 : list ip) (s : svc) (r : req) (k : oracle) : option (cv * list ip) :=
  match lb3 with
  | [have] =>
      if additional_applies r lb3 then
        match pool_of (cv_mem c3) s with
        | Some pn =>
            match alloc_op (cv_mem c3) (OAdditional s r have pn (the_additional have k)) with
            | None => None
            | Some (a', ROk [x]) => Some ({| cv_mem := a'; cv_status := cv_status c3; cv_annot := cv_annot c3 |}, [have; x])
            | Some (a', _) => Some ({| cv_mem := a'; cv_status := cv_status c3; cv_annot := cv_annot c3 |}, lb3)
            end
        | None => Some (c3, lb3)
        end
      else Some (c3, lb3)
  | _ => Some (c3, lb3)
  end.

(* D: nothing usable recorded: allocateIPs.  inr: ErrConverge *)
Definition stageD (c4 : cv) (lb4 : list ip) (s : svc) (o : svcobj) (k : oracle) : option (cv * list ip + cv) :=
  let r := o_req o in
  match lb4 with
  | _ :: _ => Some (inl (c4, lb4))
  | [] =>
      match o_want o with
      | WInvalid => Some (inr c4)
      | WIps d =>
          if negb (match alloc_fam d with Some f => sfam_eqb f (r_fam r) | None => false end) then Some (inr c4)
          else match assign (cv_mem c4) s r d with
               | (a', ROk _) =>
                   let c5 := {| cv_mem := a'; cv_status := cv_status c4; cv_annot := cv_annot c4 |} in
                   match o_want_pool o with
                   | Some p => if opt_pool_eqb (pool_of a' s) (Some p) then Some (inl (c5, d))
                               else Some (inr {| cv_mem := unassign a' s; cv_status := cv_status c4; cv_annot := cv_annot c4 |})
                   | None => Some (inl (c5, d))
                   end
               | _ => Some (inr c4)
               end
      | WNone =>
          let o' := match o_want_pool o with
                    | Some p => OAllocateFromPool s r p (option_map snd (k_final k))
                    | None => OAllocate s r (k_final k)
                    end in
          match alloc_op (cv_mem c4) o' with
          | None => None
          | Some (a', ROk ips) => Some (inl ({| cv_mem := a'; cv_status := cv_status c4; cv_annot := cv_annot c4 |}, ips))
          | Some (a', _) => Some (inr {| cv_mem := a'; cv_status := cv_status c4; cv_annot := cv_annot c4 |})
          end
      end
  end.

(* E: record the result in the working copy *)
Definition stageE (c5 : cv) (lb5 : list ip) (s : svc) : cres :=
  match lb5 with
  | [] => CR (clear c5 s) false
  | _ =>
      match pool_of (cv_mem c5) s with
      | Some pn =>
          match find_pool (s_pools (cv_mem c5)) pn with
          | Some _ => CR {| cv_mem := cv_mem c5; cv_status := lb5; cv_annot := Some pn |} true
          | None => CR (clear c5 s) false
          end
      | None => CR (clear c5 s) false
      end
  end.

Definition converge (a : st) (s : svc) (o : svcobj) (k : oracle) : cres :=
  let r := o_req o in
  let c0 := {| cv_mem := a; cv_status := o_status o; cv_annot := o_annot o |} in
  if negb (o_lb o) then CR (clear c0 s) true
  else if match by_name (s_pools a) with [] => true | _ => false end then CR (clear c0 s) false
  else if negb (o_cluster_ok o) then CR (clear c0 s) false
  else if is_require (r_pol r) && negb (is_dual (r_fam r)) then CR (clear c0 s) false
  else
    let '(c1, lb1) := stageA c0 s o in
    match stageB c1 lb1 s o with
    | inr c3 => CR c3 false
    | inl (c3, lb3) =>
        match stageC c3 lb3 s r k with
        | None => CMismatch
        | Some (c4, lb4) =>
            match stageD c4 lb4 s o k with
            | None => CMismatch
            | Some (inr c5) => CR c5 false
            | Some (inl (c5, lb5)) => stageE c5 lb5 s
            end
        end
    end.

(* controller state: allocator + "configuration has been read" *)
Record cstate := { c_mem : st; c_have_pools : bool }.

Record outcome := { oc_state : cstate; oc_sync : sync;
                    oc_write : option (list ip * option poolid) }.   (* UpdateStatus attempted with *)

Definition subset_ips (a b : list ip) : bool := forallb (fun x => mem_ip x b) a.

(* controller.SetBalancer; [fix_f13]: also reprocess when the service moved off an address *)
Definition set_balancer (c : cstate) (s : svc) (o : option svcobj) (k : oracle) : option outcome :=
  match o with
  | None =>
      match get_alloc (c_mem c) s with
      | Some _ => Some {| oc_state := {| c_mem := unassign (c_mem c) s; c_have_pools := c_have_pools c |};
                          oc_sync := ReprocessAll; oc_write := None |}
      | None => Some {| oc_state := c; oc_sync := Success; oc_write := None |}
      end
  | Some o =>
      if negb (c_have_pools c) then Some {| oc_state := c; oc_sync := Success; oc_write := None |}
      else
        let a := c_mem c in
        let prev_ips := ips_of a s in
        let prev_key := key_of a s in
        match converge a s o k with
        | CMismatch => None
        | CR v ok =>
            let a' := cv_mem v in
            let c' := {| c_mem := a'; c_have_pools := true |} in
            let res0 := if ok then Success else ErrorNoRetry in
            let res1 := if skey_eqb prev_key (key_of a' s) then res0 else ReprocessAll in
            let changed := negb (ips_eqb (cv_status v) (o_status o)) || negb (opt_pool_eqb (cv_annot v) (o_annot o)) in
            (* an address held before (in memory, or recorded in the status) is no longer held *)
            let rel := fun ips : list ip =>
                         match ips with
                         | [] => false
                         | _ => negb (subset_ips ips (ips_of a' s)) &&
                                match pool_for (by_name (s_pools a')) ips with Some _ => true | None => false end
                         end in
            let released := rel prev_ips || rel (o_status o) in
            let res2 := if released then ReprocessAll else res1 in
            if negb changed then Some {| oc_state := c'; oc_sync := res2; oc_write := None |}
            else
              (* a failed write keeps the request to reprocess (fix F27): the reload retries this service too *)
              Some {| oc_state := c'; oc_sync := if k_write k then res2
                                                 else match res2 with ReprocessAll => ReprocessAll | _ => Error end;
                      oc_write := Some (cv_status v, cv_annot v) |}
        end
  end.

(* controller.SetPools (accepted configuration) *)
Definition set_pools_c (c : cstate) (ps : pools) : cstate :=
  {| c_mem := set_pools (c_mem c) ps; c_have_pools := true |}.

End Ctrl.

(* ------------------------------------------------------------------ *)
(* The reconciler around the handler: API objects, the work it still has to
   do, the initial-load gate. *)
Record world := {
  w_api : list (svc * svcobj);     (* the API server's Services *)
  w_ctl : cstate;                  (* controller memory *)
  w_gate : bool;                   (* initialLoadPerformed *)
  w_reload : bool;                 (* a reload request is pending *)
  w_queue : list svc }.            (* pending service requests *)

Definition api_get (w : world) (s : svc) : option svcobj :=
  option_map snd (find (fun e => fst e =? s) (w_api w)).
Definition api_put (l : list (svc * svcobj)) (s : svc) (o : svcobj) : list (svc * svcobj) :=
  (s, o) :: filter (fun e => negb (fst e =? s)) l.
Definition api_del (l : list (svc * svcobj)) (s : svc) : list (svc * svcobj) :=
  filter (fun e => negb (fst e =? s)) l.
Definition with_status (o : svcobj) (st : list ip) (an : option poolid) : svcobj :=
  {| o_lb := o_lb o; o_req := o_req o; o_cluster_ok := o_cluster_ok o; o_want := o_want o;
     o_want_pool := o_want_pool o; o_status := st; o_annot := an |}.
Definition enqueue (q : list svc) (s : svc) : list svc := if memN s q then q else s :: q.
Definition dequeue (q : list svc) (s : svc) : list svc := filter (fun x => negb (x =? s)) q.

Definition fresh_ctl : cstate := {| c_mem := init; c_have_pools := false |}.

Inductive ev :=
  | UPut (s : svc) (o : svcobj)       (* user creates / updates the spec; status and pool annotation are kept *)
  | UDel (s : svc)
  | EPools (ps : pools)               (* pool reconciler delivers an accepted configuration *)
  | ESvc (s : svc) (k : oracle)       (* one pending service request is reconciled *)
  | EReload (order : list svc) (ks : list oracle)   (* the reload request is reconciled *)
  | EKick                             (* some reconciler asks for a full re-sync *)
  | ECrash.                           (* process restarts; the API server keeps its objects *)

Section World.
Variable rank : ip -> N.

(* apply the handler's outcome to the world; returns the sync state too *)
Definition apply_handler (w : world) (s : svc) (k : oracle) : option (world * sync) :=
  match set_balancer rank (w_ctl w) s (api_get w s) k with
  | None => None
  | Some oc =>
      let api' := match oc_write oc, api_get w s with
                  | Some (st, an), Some o => if k_write k then api_put (w_api w) s (with_status o st an) else w_api w
                  | _, _ => w_api w
                  end in
      Some ({| w_api := api'; w_ctl := oc_state oc; w_gate := w_gate w; w_reload := w_reload w; w_queue := w_queue w |},
            oc_sync oc)
  end.

Fixpoint reload_pass (w : world) (order : list svc) (ks : list oracle) (retry : bool) (acc : list sync)
  : option (world * bool * list sync) :=
  match order, ks with
  | [], _ => Some (w, retry, rev acc)
  | s :: order', k :: ks' =>
      match apply_handler w s k with
      | None => None
      | Some (w', r) =>
          reload_pass w' order' ks' (retry || match r with Error | ReprocessAll => true | _ => false end) (r :: acc)
      end
  | _ :: _, [] => None
  end.

(* the order reprocessAll uses: a permutation of the listed services in which
   services with more recorded addresses come first *)
Fixpoint desc_by_status (w : world) (order : list svc) : bool :=
  match order with
  | a :: ((b :: _) as r) =>
      (N.of_nat (length (match api_get w b with Some o => o_status o | None => [] end)) <=?
       N.of_nat (length (match api_get w a with Some o => o_status o | None => [] end))) && desc_by_status w r
  | _ => true
  end.
Definition same_set (a b : list svc) : bool :=
  forallb (fun x => memN x b) a && forallb (fun x => memN x a) b && (N.of_nat (length a) =? N.of_nat (length b)).

(* one event; also returns the handler results it produced (for the correspondence) *)
Definition wstep_t (w : world) (e : ev) : option (world * list sync) :=
  match e with
  | UPut s o =>
      let o' := match api_get w s with
                | Some old => with_status o (o_status old) (o_annot old)
                | None => with_status o [] None
                end in
      Some ({| w_api := api_put (w_api w) s o'; w_ctl := w_ctl w; w_gate := w_gate w; w_reload := w_reload w;
              w_queue := enqueue (w_queue w) s |}, [])
  | UDel s =>
      Some ({| w_api := api_del (w_api w) s; w_ctl := w_ctl w; w_gate := w_gate w; w_reload := w_reload w;
              w_queue := enqueue (w_queue w) s |}, [])
  | EPools ps =>
      Some ({| w_api := w_api w; w_ctl := set_pools_c (w_ctl w) ps; w_gate := w_gate w; w_reload := true;
              w_queue := w_queue w |}, [])
  | ESvc s k =>
      if negb (memN s (w_queue w)) then None
      else if negb (w_gate w) && match api_get w s with Some _ => true | None => false end then
        (* before the first full pass events of existing services are dropped (deletions are handled) *)
        Some ({| w_api := w_api w; w_ctl := w_ctl w; w_gate := false; w_reload := w_reload w; w_queue := dequeue (w_queue w) s |}, [])
      else
        match apply_handler w s k with
        | None => None
        | Some (w', r) =>
            Some ({| w_api := w_api w'; w_ctl := w_ctl w'; w_gate := w_gate w;
                    w_reload := w_reload w || match r with ReprocessAll => true | _ => false end;
                    w_queue := match r with Error => w_queue w | _ => dequeue (w_queue w) s end |}, [r])
        end
  | EReload order ks =>
      if negb (w_reload w) then None
      else if negb (same_set order (map fst (w_api w)) && desc_by_status w order) then None
      else
        match reload_pass w order ks false [] with
        | None => None
        | Some (w', retry, rs) =>
            Some ({| w_api := w_api w'; w_ctl := w_ctl w'; w_gate := w_gate w || negb retry; w_reload := retry;
                    w_queue := w_queue w |}, rs)
        end
  | EKick =>
      (* the pool reconciler only asks for a re-sync after it has delivered a configuration *)
      if negb (c_have_pools (w_ctl w)) then None
      else Some ({| w_api := w_api w; w_ctl := w_ctl w; w_gate := w_gate w; w_reload := true; w_queue := w_queue w |}, [])
  | ECrash =>
      Some ({| w_api := w_api w; w_ctl := fresh_ctl; w_gate := false; w_reload := false;
              w_queue := map fst (w_api w) |}, [])
  end.

Definition wstep (w : world) (e : ev) : option world := option_map fst (wstep_t w e).

(* no pending work, and the first full pass after the last restart has completed *)
Definition quiescent (w : world) : Prop := w_reload w = false /\ w_queue w = [] /\ w_gate w = true.

End World.

Definition world0 : world :=
  {| w_api := []; w_ctl := fresh_ctl; w_gate := false; w_reload := false; w_queue := [] |}.
