(* FrrK8s — transcription of internal/bgp/frrk8s/frrk8s.go updateConfig (lines
   191-351), toAdvertiseWithCommunity / toAdvertiseWithLocalPref /
   removeDuplicates / sortMap / sessionName (361-425, 50-66) and of
   speaker/bgp_controller.go passwordForSession (295-317), onto a record that
   mirrors FRRConfiguration.Spec (github.com/metallb/frr-k8s api/v1beta1).

   updateConfig ranges over the map sm.sessions (keyed by sessionName, so the
   neighbor map of a router — keyed by the same sessionName — never finds an
   existing neighbor): iteration order = order of the argument list; routers are
   the distinct RouterName keys, sorted (sortMap); a router's neighbors are its
   sessions sorted by sessionName.  The per-session maps prefixesForCommunity /
   prefixesForLocalPref become association lists; their iteration order does not
   matter because the results are sorted by key (sort.Slice, keys distinct).
   Not modelled: BFD profiles, object metadata other than the node name. *)
From Verif Require Export Model.FrrRender Model.FrrSem.
Open Scope string_scope.

Record kneighbor := mk_kneighbor {
  kn_address : string; kn_interface : string; kn_asn : N; kn_dynasn : string;
  kn_source : string;                (* Neighbor.SourceAddress: never set by updateConfig *)
  kn_port : N;
  kn_hold : option N; kn_keep : option N; kn_connect : option N;     (* nanoseconds *)
  kn_bfd : string; kn_gr : bool; kn_multihop : bool;
  kn_allowed : list pfx;
  kn_with_comm : list (string * list pfx);       (* "a:b" or "large:a:b:c" *)
  kn_with_lp : list (N * list pfx);
  kn_password : string; kn_secret : string * string;
  kn_disable_mp : bool
}.

Record krouter := mk_krouter {
  kr_asn : N; kr_id : string; kr_vrf : string; kr_nbrs : list kneighbor; kr_prefixes : list pfx
}.

Record kconfig := mk_kconfig {
  kc_name : string;                  (* ConfigName(node) *)
  kc_node_selector : list (string * string);    (* NodeSelector.MatchLabels *)
  kc_routers : list krouter
}.

(* sessionName *)
Definition sname (s : session) : string :=
  asn_for s ++ "@" ++ peer_tok s ++ "-" ++ dec (s_myasn s) ++ "@" ++
  (match s_src s with Some a => a | None => "<nil>" end) ++
  (if nonempty (s_vrf s) then "/" ++ s_vrf s else "").

Definition comm_key (c : bool * string) : string := if fst c then "large:" ++ snd c else snd c.

(* distinct keys of an association built by appends, sorted *)
Definition comm_keys (advs : list adv) : list string :=
  sort_s (flat_map (fun a => map comm_key (a_comms a)) advs).
Definition lp_keys (advs : list adv) : list N :=
  sort_n (filter (fun n => negb (N.eqb n 0)) (map a_lp advs)).

Definition has_comm (k : string) (a : adv) : bool := existsb (fun c => String.eqb (comm_key c) k) (a_comms a).

(* sort.Strings(prefixes); removeDuplicates(prefixes) *)
Definition pfx_set (l : list pfx) : list pfx := sort_k p_text l.

Definition secret_empty (r : string * string) : bool := String.eqb (fst r) "" && String.eqb (snd r) "".

Definition k_neighbor (s : session) : option kneighbor :=
  if negb (secret_empty (s_secret s)) && nonempty (s_password s) then None     (* "invalid session with password and secret set" *)
  else
    Some (mk_kneighbor (s_addr s) (s_iface s) (s_peerasn s) (s_dynasn s) "" (s_port s)
            (s_hold s) (s_keep s) (s_connect s) (s_bfd s) (s_gr s) (s_multihop s)
            (pfx_set (map a_pfx (s_advs s)))
            (map (fun k => (k, pfx_set (map a_pfx (filter (has_comm k) (s_advs s))))) (comm_keys (s_advs s)))
            (map (fun n => (n, pfx_set (map a_pfx (filter (fun a => N.eqb (a_lp a) n) (s_advs s))))) (lp_keys (s_advs s)))
            (s_password s) (s_secret s) (s_disable_mp s)).

Definition k_router (S : list session) (k : string) : option krouter :=
  let Sr := sessions_with rkey k S in
  match Sr with
  | [] => None
  | first :: _ =>
      match all_some (map k_neighbor (sort_k sname Sr)) with
      | None => None
      | Some ns =>
          Some (mk_krouter (s_myasn first) (match s_rid first with Some i => i | None => "" end) (s_vrf first)
                           ns (pfx_set (map a_pfx (flat_map s_advs Sr))))
      end
  end.

Definition k8s_render (node : string) (S : list session) : option kconfig :=
  match all_some (map (k_router S) (sort_s (map rkey S))) with
  | None => None
  | Some rs => Some (mk_kconfig ("metallb-" ++ node) [("kubernetes.io/hostname", node)] rs)
  end.

(* ---------- passwordForSession ---------- *)
Inductive bgp_impl := BgpNative | BgpFrr | BgpFrrK8s | BgpOther.
Inductive secret_handling := SecretPassThrough | SecretConvert.
Record peer_pw := mk_peer_pw { pw_password : string; pw_secret_password : string; pw_ref : string * string }.

(* None = panic("non empty password and secret password") *)
Definition password_for_session (p : peer_pw) (t : bgp_impl) (h : secret_handling)
  : option (string * (string * string)) :=
  if nonempty (pw_secret_password p) && nonempty (pw_password p) then None
  else
    let plain := if nonempty (pw_secret_password p) then pw_secret_password p else pw_password p in
    match t with
    | BgpNative | BgpFrr => Some (plain, ("", ""))
    | BgpFrrK8s =>
        match h with
        | SecretPassThrough => Some (pw_password p, pw_ref p)
        | SecretConvert => Some (plain, ("", ""))
        end
    | BgpOther => Some ("", ("", ""))
    end.

(* ---------- reading of an FRRConfiguration (what each neighbor is offered) ---------- *)
Definition k_find (c : kconfig) (vrf : string) (addr iface : string) : option kneighbor :=
  match find (fun r => String.eqb (kr_vrf r) vrf) (kc_routers c) with
  | None => None
  | Some r => find (fun n => String.eqb (kn_address n) addr && String.eqb (kn_interface n) iface) (kr_nbrs r)
  end.

Definition mem_p (p : pfx) (l : list pfx) : bool := existsb (pfx_eqb p) l.

Definition strip_large (k : string) : bool * string :=
  if String.prefix "large:" k then (true, String.substring 6 (String.length k - 6) k) else (false, k).

(* per-family activation as in neighboripfamily.tmpl (frr-k8s renders the same
   template logic from DisableMP; outside this repository: assumption) *)
Definition k_activated (n : kneighbor) (addr4 : bool) (a : afi) : bool :=
  let f := if nonempty (kn_interface n) then NFDual else if addr4 then NF4 else NF6 in
  activate (match a with A4 => "ipv4" | A6 => "ipv6" end) f (kn_disable_mp n).

Definition read_nbr (n : kneighbor) (addr4 : bool) (route : pfx) : option attrs :=
  if k_activated n addr4 (pfx_afi route) && mem_p route (kn_allowed n) then
    let lp := match filter (fun x => mem_p route (snd x)) (kn_with_lp n) with
              | [] => None
              | x :: _ => Some (fst x)
              end in
    let cs := filter (fun x => mem_p route (snd x)) (kn_with_comm n) in
    Some (mk_attrs lp
            (map (fun x => snd (strip_large (fst x))) (filter (fun x => negb (fst (strip_large (fst x)))) cs))
            (map (fun x => snd (strip_large (fst x))) (filter (fun x => fst (strip_large (fst x))) cs)))
  else None.

Definition sem_k8s (c : kconfig) (s : session) (route : pfx) : option attrs :=
  match k_find c (s_vrf s) (s_addr s) (s_iface s) with
  | None => None
  | Some n => read_nbr n (s_addr4 s) route
  end.

(* ---- equality tests for the correspondence ---- *)
Definition kneighbor_eqb (a b : kneighbor) : bool :=
  String.eqb (kn_address a) (kn_address b) && String.eqb (kn_interface a) (kn_interface b) &&
  N.eqb (kn_asn a) (kn_asn b) && String.eqb (kn_dynasn a) (kn_dynasn b) && String.eqb (kn_source a) (kn_source b) &&
  N.eqb (kn_port a) (kn_port b) && opt_eqb N.eqb (kn_hold a) (kn_hold b) && opt_eqb N.eqb (kn_keep a) (kn_keep b) &&
  opt_eqb N.eqb (kn_connect a) (kn_connect b) && String.eqb (kn_bfd a) (kn_bfd b) && Bool.eqb (kn_gr a) (kn_gr b) &&
  Bool.eqb (kn_multihop a) (kn_multihop b) && list_eqb pfx_full_eqb (kn_allowed a) (kn_allowed b) &&
  list_eqb (pair_eqb String.eqb (list_eqb pfx_full_eqb)) (kn_with_comm a) (kn_with_comm b) &&
  list_eqb (pair_eqb N.eqb (list_eqb pfx_full_eqb)) (kn_with_lp a) (kn_with_lp b) &&
  String.eqb (kn_password a) (kn_password b) && pair_eqb String.eqb String.eqb (kn_secret a) (kn_secret b) &&
  Bool.eqb (kn_disable_mp a) (kn_disable_mp b).

Definition krouter_eqb (a b : krouter) : bool :=
  N.eqb (kr_asn a) (kr_asn b) && String.eqb (kr_id a) (kr_id b) && String.eqb (kr_vrf a) (kr_vrf b) &&
  list_eqb kneighbor_eqb (kr_nbrs a) (kr_nbrs b) && list_eqb pfx_full_eqb (kr_prefixes a) (kr_prefixes b).

Definition kconfig_eqb (a b : kconfig) : bool :=
  String.eqb (kc_name a) (kc_name b) &&
  list_eqb (pair_eqb String.eqb String.eqb) (kc_node_selector a) (kc_node_selector b) &&
  list_eqb krouter_eqb (kc_routers a) (kc_routers b).
