(* Model of the speaker's controller: speaker/main.go
     controller.SetBalancer, handleService, deleteBalancer, deleteBalancerProtocol,
     SetConfig (including the refusal), SetNode, isNodeAvailableChanged, poolFor,
     compareIPs
   composed with
     the layer-2 election                     (Model/Elect.v, layer2Controller.ShouldAnnounce)
     the BGP controller                       (Model/BgpAds.v)
     layer2Controller.SetBalancer / DeleteBalancer, ipAdvertisementFor,
     IPAdvertisement.MatchInterfaces and the announcer abstractly: the map
     service -> list of (address, all-interfaces, interface set) maintained by
     Announce.SetBalancer / DeleteBalancer / AnnounceName (internal/layer2/announcer.go).

   Go maps are total functions N -> _ (plus a key list where Go iterates).
   The node's local interface list is a constant of the run ([en_ifs]); the hash
   of "<node>#<first address>" is the function [en_hash] (checked in C04/C12).
   Protocol handlers never fail (SetBalancer never returns SyncStateError).
   A full re-sync (ReprocessAll / ForceSync) = SetBalancer on every existing
   service, in any order (the order is the order of the cluster list K). *)
From Coq Require Export List NArith Bool.
From Verif Require Export Model.BgpAds.
Export ListNotations.
Local Open Scope N_scope.

Record l2adv := { la_nodes : list N; la_ifs : list N; la_all : bool }.
Record pool := { pl_cidrs : list prefix; pl_bgp : list badv; pl_l2 : list l2adv }.
Record config := { cf_pools : list pool; cf_peers : list pcfg }.
(* a Service with its endpoint slices; sv_ips = None: some ingress entry does not parse *)
Record svc := { sv_lb : bool; sv_ips : option (list ip); sv_local : bool; sv_eps : list (list bep) }.
Record nodeinfo := { nd_id : N; nd_unavail : bool; nd_excl : bool; nd_labels : list (N * N) }.
(* layer2.IPAdvertisement *)
Record l2ent := { le_ip : ip; le_all : bool; le_ifs : list N }.

Record env := { en_me : N; en_ignore : bool; en_ifs : list N; en_hash : ip -> N -> N }.

Record sstate := {
  s_cfg : option config;             (* c.config *)
  s_nodes : list nodeinfo;           (* c.nodes *)
  s_spk : option (list N);           (* sList.UsableSpeakers(): None = memberlist disabled *)
  s_annb : N -> bool;                (* c.announced[BGP] *)
  s_annl : N -> bool;                (* c.announced[Layer2] *)
  s_ips : N -> option (list ip);     (* c.svcIPs *)
  s_ipkeys : list N;
  s_bgp : bstate;                    (* the bgpController *)
  s_l2 : N -> option (list l2ent)    (* Announce.ips *)
}.

Definition sinit (spk : option (list N)) : sstate :=
  {| s_cfg := None; s_nodes := []; s_spk := spk; s_annb := fun _ => false; s_annl := fun _ => false;
     s_ips := fun _ => None; s_ipkeys := []; s_bgp := binit; s_l2 := fun _ => None |}.

Definition set_cfg v st := {| s_cfg := v; s_nodes := s_nodes st; s_spk := s_spk st; s_annb := s_annb st; s_annl := s_annl st;
  s_ips := s_ips st; s_ipkeys := s_ipkeys st; s_bgp := s_bgp st; s_l2 := s_l2 st |}.
Definition set_nodes v st := {| s_cfg := s_cfg st; s_nodes := v; s_spk := s_spk st; s_annb := s_annb st; s_annl := s_annl st;
  s_ips := s_ips st; s_ipkeys := s_ipkeys st; s_bgp := s_bgp st; s_l2 := s_l2 st |}.
Definition set_spk v st := {| s_cfg := s_cfg st; s_nodes := s_nodes st; s_spk := v; s_annb := s_annb st; s_annl := s_annl st;
  s_ips := s_ips st; s_ipkeys := s_ipkeys st; s_bgp := s_bgp st; s_l2 := s_l2 st |}.
Definition set_annb v st := {| s_cfg := s_cfg st; s_nodes := s_nodes st; s_spk := s_spk st; s_annb := v; s_annl := s_annl st;
  s_ips := s_ips st; s_ipkeys := s_ipkeys st; s_bgp := s_bgp st; s_l2 := s_l2 st |}.
Definition set_annl v st := {| s_cfg := s_cfg st; s_nodes := s_nodes st; s_spk := s_spk st; s_annb := s_annb st; s_annl := v;
  s_ips := s_ips st; s_ipkeys := s_ipkeys st; s_bgp := s_bgp st; s_l2 := s_l2 st |}.
Definition set_ips v k st := {| s_cfg := s_cfg st; s_nodes := s_nodes st; s_spk := s_spk st; s_annb := s_annb st; s_annl := s_annl st;
  s_ips := v; s_ipkeys := k; s_bgp := s_bgp st; s_l2 := s_l2 st |}.
Definition set_bgp v st := {| s_cfg := s_cfg st; s_nodes := s_nodes st; s_spk := s_spk st; s_annb := s_annb st; s_annl := s_annl st;
  s_ips := s_ips st; s_ipkeys := s_ipkeys st; s_bgp := v; s_l2 := s_l2 st |}.
Definition set_l2 v st := {| s_cfg := s_cfg st; s_nodes := s_nodes st; s_spk := s_spk st; s_annb := s_annb st; s_annl := s_annl st;
  s_ips := s_ips st; s_ipkeys := s_ipkeys st; s_bgp := s_bgp st; s_l2 := v |}.

(* ---- poolFor, compareIPs ---- *)
Definition in_pool (p : pool) (x : ip) : bool := existsb (fun c => contains c x) (pl_cidrs p).
Definition pool_for (cfg : config) (ips : list ip) : option pool :=
  match ips with
  | [] => None
  | _ => find (fun p => forallb (in_pool p) ips) (cf_pools cfg)
  end.
Definition compare_ips (a b : list ip) : bool :=
  (N.of_nat (length a) =? N.of_nat (length b)) && forallb (fun x => existsb (ip_eqb x) b) a.

(* ---- nodes ---- *)
Definition find_node (n : N) (l : list nodeinfo) : option nodeinfo := find (fun x => nd_id x =? n) l.
Fixpoint put_node (n : nodeinfo) (l : list nodeinfo) : list nodeinfo :=
  match l with
  | [] => [n]
  | x :: r => if nd_id x =? nd_id n then n :: r else x :: put_node n r
  end.

(* ---- the two ShouldAnnounce decisions on the current view ---- *)
Definition to_endpoint (e : bep) : endpoint :=
  {| ep_ready := be_ready e; ep_serving := be_serving e; ep_node := be_node e |}.
Definition elect_view (ev : env) (nodes : list nodeinfo) (spk : option (list N)) (p : pool) (s : svc) : view :=
  {| v_nodes := map (fun n => {| ni_id := nd_id n; ni_unavail := nd_unavail n; ni_excl := nd_excl n |}) nodes;
     v_speakers := spk; v_advs := map la_nodes (pl_l2 p);
     v_eps := map (map to_endpoint) (sv_eps s); v_local := sv_local s; v_ignore := en_ignore ev |}.
Definition l2_should (ev : env) (nodes : list nodeinfo) (spk : option (list N)) (p : pool) (s : svc) (ips : list ip) : bool :=
  match ips with
  | x :: _ => decide (en_hash ev x) (elect_view ev nodes spk p s) (en_me ev)
  | [] => false
  end.
Definition bgp_view (ev : env) (nodes : list nodeinfo) (p : pool) (s : svc) : bview :=
  {| bv_advs := map ba_nodes (pl_bgp p);
     bv_node := match find_node (en_me ev) nodes with Some n => Some (nd_unavail n, nd_excl n) | None => None end;
     bv_ignore := en_ignore ev; bv_local := sv_local s; bv_eps := sv_eps s |}.
Definition bgp_should (ev : env) (nodes : list nodeinfo) (p : pool) (s : svc) : bool :=
  breason_eqb (bgp_decide (en_me ev) (bgp_view ev nodes p s)) RAnnounce.

(* ---- layer 2 SetBalancer / DeleteBalancer and the announcer ---- *)
(* ipAdvertisementFor: (allInterfaces, interfaces) *)
Definition ip_adv_for (me : N) (advs : list l2adv) : bool * list N :=
  let sel := filter (fun a => mem me (la_nodes a)) advs in
  if existsb la_all sel then (true, []) else (false, flat_map la_ifs sel).
(* IPAdvertisement.MatchInterfaces(local interfaces) *)
Definition match_ifs (adv : bool * list N) (local : list N) : bool :=
  fst adv || existsb (fun i => mem i (snd adv)) local.
(* Announce.SetBalancer: override the entry of the same address, else append *)
Fixpoint ann_put (e : l2ent) (l : list l2ent) : list l2ent :=
  match l with
  | [] => [e]
  | x :: r => if ip_eqb (le_ip x) (le_ip e) then e :: r else x :: ann_put e r
  end.
Definition ann_set (l2 : N -> option (list l2ent)) (name : N) (e : l2ent) : N -> option (list l2ent) :=
  upd l2 name (Some (ann_put e (match l2 name with Some l => l | None => [] end))).
Definition l2_set_balancer (ev : env) (name : N) (ips : list ip) (p : pool) (l2 : N -> option (list l2ent)) :=
  let adv := ip_adv_for (en_me ev) (pl_l2 p) in
  fold_left (fun m x => if match_ifs adv (en_ifs ev) then ann_set m name {| le_ip := x; le_all := fst adv; le_ifs := snd adv |} else m)
            ips l2.
Definition l2_delete (name : N) (l2 : N -> option (list l2ent)) : N -> option (list l2ent) :=
  match l2 name with Some _ => upd l2 name None | None => l2 end.

(* ---- deleteBalancerProtocol / deleteBalancer ---- *)
Inductive proto := PBgp | PL2.
Definition ann (P : proto) (st : sstate) (name : N) : bool :=
  match P with PBgp => s_annb st name | PL2 => s_annl st name end.

Definition del_proto (P : proto) (name : N) (st : sstate) : sstate :=
  if negb (ann P st name) then st
  else
    let st1 := match P with
               | PBgp => set_annb (upd (s_annb st) name false) (set_bgp (bdelete name (s_bgp st)) st)
               | PL2 => set_annl (upd (s_annl st) name false) (set_l2 (l2_delete name (s_l2 st)) st)
               end in
    if s_annb st1 name || s_annl st1 name then st1
    else set_ips (upd (s_ips st1) name None) (s_ipkeys st1) st1.
Definition del_all (name : N) (st : sstate) : sstate := del_proto PL2 name (del_proto PBgp name st).

(* ---- handleService ---- *)
Definition handle (ev : env) (P : proto) (name : N) (ips : list ip) (s : svc) (p : pool) (st : sstate) : sstate :=
  let should := match P with
                | PBgp => bgp_should ev (s_nodes st) p s
                | PL2 => l2_should ev (s_nodes st) (s_spk st) p s ips
                end in
  if should then
    let st1 := match P with
               | PBgp => set_bgp (bset_balancer (en_me ev) name ips (pl_bgp p) (s_bgp st)) st
               | PL2 => set_l2 (l2_set_balancer ev name ips p (s_l2 st)) st
               end in
    if ann P st1 name then st1
    else
      let st2 := match P with
                 | PBgp => set_annb (upd (s_annb st1) name true) st1
                 | PL2 => set_annl (upd (s_annl st1) name true) st1
                 end in
      set_ips (upd (s_ips st2) name (Some ips)) (name :: s_ipkeys st2) st2
  else del_proto P name st.

(* ---- controller.SetBalancer ---- *)
Definition set_balancer (ev : env) (name : N) (os : option svc) (st : sstate) : sstate :=
  match os with
  | None => del_all name st                                   (* serviceDeleted *)
  | Some s =>
    if negb (sv_lb s) then del_all name st                    (* notLoadBalancer *)
    else match s_cfg st with
    | None => st                                              (* noConfig *)
    | Some cfg =>
      match sv_ips s with
      | None => del_all name st                               (* invalidIP *)
      | Some [] => del_all name st                            (* noIPAllocated *)
      | Some ips =>
        match pool_for cfg ips with
        | None => del_all name st                             (* ipNotAllowed *)
        | Some p =>
          let st1 := match s_ips st name with
                     | Some old => if compare_ips ips old then st else del_all name st   (* loadBalancerIPChanged *)
                     | None => st
                     end in
          handle ev PL2 name ips s p (handle ev PBgp name ips s p st1)
        end
      end
    end
  end.

(* ---- controller.SetConfig: (state, accepted) ---- *)
Definition set_config (ev : env) (cfg : config) (st : sstate) : sstate * bool :=
  if existsb (fun name => match s_ips st name with
                          | Some ips => match pool_for cfg ips with None => true | Some _ => false end
                          | None => false
                          end) (s_ipkeys st)
  then (st, false)
  else (set_cfg (Some cfg) (set_bgp (bset_config_gen true (cf_peers cfg) (s_bgp st)) st), true).

(* ---- controller.SetNode: (state, ReprocessAll requested) ---- *)
Definition set_node (ev : env) (n : nodeinfo) (st : sstate) : sstate * bool :=
  let changed := match find_node (nd_id n) (s_nodes st) with
                 | None => false
                 | Some old => xorb (nd_unavail old) (nd_unavail n) || xorb (nd_excl old) (nd_excl n)
                 end in
  (set_nodes (put_node n (s_nodes st)) (set_bgp (bset_node_gen true (en_me ev) (nd_id n) (nd_labels n) (s_bgp st)) st), changed).

(* ---- the cluster and the events ---- *)
Definition cluster := list (N * svc).          (* existing Services, one entry per name *)
Definition klookup (K : cluster) (name : N) : option svc :=
  match find (fun x => fst x =? name) K with Some x => Some (snd x) | None => None end.
Definition kdel (name : N) (K : cluster) : cluster := filter (fun x => negb (fst x =? name)) K.
Definition kput (name : N) (s : svc) (K : cluster) : cluster := kdel name K ++ [(name, s)].

Definition resync (ev : env) (K : cluster) (st : sstate) : sstate :=
  fold_left (fun a x => set_balancer ev (fst x) (Some (snd x)) a) K st.

Inductive sev :=
| ESvc (name : N) (s : option svc)      (* Service / endpoint-slice add, update, delete *)
| ECfg (c : config)                      (* configuration change *)
| ENode (n : nodeinfo)                   (* node add / label / condition change *)
| ESpk (l : option (list N))             (* speaker membership change (ForceSync) *)
| EResync                                (* any other full re-sync *)
| ENodeDel (n : N).                      (* the Node object is deleted: the node reconciler ignores NotFound, the
                                            handler is never called, the speaker keeps the node in c.nodes *)

(* one event followed by the re-sync it requests *)
Definition sstep (ev : env) (ws : cluster * sstate) (e : sev) : cluster * sstate :=
  let '(K, st) := ws in
  match e with
  | ESvc name (Some s) => (kput name s K, set_balancer ev name (Some s) st)
  | ESvc name None => (kdel name K, set_balancer ev name None st)
  | ECfg c => let '(st', ok) := set_config ev c st in (K, if ok then resync ev K st' else st')
  | ENode n => let '(st', ch) := set_node ev n st in (K, if ch then resync ev K st' else st')
  | ESpk l => (K, resync ev K (set_spk l st))
  | EResync => (K, resync ev K st)
  | ENodeDel _ => (K, st)
  end.
Definition srun (ev : env) (spk : option (list N)) (h : list sev) : cluster * sstate :=
  fold_left (sstep ev) h ([], sinit spk).

(* ---- what the API server holds, tracked from the events alone (independently of the speaker):
   the last DELIVERED configuration (accepted or refused), the existing Node objects, the speaker list *)
Record apiserver := { api_cfg : option config; api_nodes : list nodeinfo; api_spk : option (list N) }.
Definition api_step (a : apiserver) (e : sev) : apiserver :=
  match e with
  | ECfg c => {| api_cfg := Some c; api_nodes := api_nodes a; api_spk := api_spk a |}
  | ENode n => {| api_cfg := api_cfg a; api_nodes := put_node n (api_nodes a); api_spk := api_spk a |}
  | ENodeDel n => {| api_cfg := api_cfg a; api_nodes := filter (fun x => negb (nd_id x =? n)) (api_nodes a); api_spk := api_spk a |}
  | ESpk l => {| api_cfg := api_cfg a; api_nodes := api_nodes a; api_spk := l |}
  | _ => a
  end.
Definition api_run (spk : option (list N)) (h : list sev) : apiserver :=
  fold_left api_step h {| api_cfg := None; api_nodes := []; api_spk := spk |}.

(* a freshly started speaker fed, in this order, the nodes, the configuration, then every Service *)
Definition fresh_of (ev : env) (cfg : option config) (nodes : list nodeinfo) (spk : option (list N)) (K : cluster) : sstate :=
  let st1 := fold_left (fun a n => fst (set_node ev n a)) nodes (sinit spk) in
  let st2 := match cfg with Some c => fst (set_config ev c st1) | None => st1 end in
  resync ev K st2.
(* ... fed the final CLUSTER state (what the API server holds at the end of the history) *)
Definition fresh_cluster (ev : env) (a : apiserver) (K : cluster) : sstate :=
  fresh_of ev (api_cfg a) (api_nodes a) (api_spk a) K.
(* ... fed what the speaker under test remembers (last ACCEPTED configuration, every node ever seen):
   used inside the proofs; equal to fresh_cluster when the speaker is in sync with the cluster *)
Definition fresh (ev : env) (st : sstate) (K : cluster) : sstate :=
  fresh_of ev (s_cfg st) (s_nodes st) (s_spk st) K.
(* the speaker is in sync with the cluster: the last delivered configuration was accepted (no refusal is
   pending) and no Node object the speaker remembers was deleted *)
Definition in_sync (a : apiserver) (st : sstate) : Prop :=
  s_cfg st = api_cfg a /\ s_nodes st = api_nodes a.

(* ---- observables: what is announced ---- *)
Definition opt_set_equiv {A} (a b : option (list A)) : Prop :=
  match a, b with
  | None, None => True
  | Some l, Some l' => forall x, In x l <-> In x l'
  | _, _ => False
  end.
Definition announced_equiv (a b : sstate) : Prop :=
  (forall name, opt_set_equiv (s_l2 a name) (s_l2 b name)) /\           (* layer 2: addresses answered, per service *)
  (forall p, opt_set_equiv (sess_of (s_bgp a) p) (sess_of (s_bgp b) p)). (* BGP: routes offered to each peer *)

(* ---- hypotheses of the partial theorem ---- *)
(* F9 does not strike: in every pool whose layer-2 advertisements select this
   node, the selected interfaces match a local interface *)
Definition pool_ifs_ok (ev : env) (p : pool) : bool :=
  negb (existsb (fun a => mem (en_me ev) (la_nodes a)) (pl_l2 p)) ||
  match_ifs (ip_adv_for (en_me ev) (pl_l2 p)) (en_ifs ev).
Definition cfg_ifs_ok (ev : env) (c : config) : bool := forallb (pool_ifs_ok ev) (cf_pools c).
(* Services carry no repeated address *)
Fixpoint nodup_ips (l : list ip) : bool :=
  match l with [] => true | x :: r => negb (existsb (ip_eqb x) r) && nodup_ips r end.
Definition svc_ok (s : svc) : bool := match sv_ips s with Some l => nodup_ips l | None => true end.

(* the first event of a node requests no re-sync (isNodeAvailableChanged: !exists -> false):
   [stale] records whether such an event happened with Services present and
   no full re-sync since *)
Definition requests_resync (ev : env) (st : sstate) (e : sev) : bool :=
  match e with
  | ESvc _ _ => false
  | ECfg c => snd (set_config ev c st)
  | ENode n => snd (set_node ev n st)
  | ESpk _ | EResync => true
  | ENodeDel _ => false
  end.
Definition first_node_event (st : sstate) (K : cluster) (e : sev) : bool :=
  match e with
  | ENode n => match find_node (nd_id n) (s_nodes st) with
               | None => match K with [] => false | _ => true end
               | Some _ => false
               end
  | _ => false
  end.
(* Services carry no repeated address *)
Definition esvc_ok (e : sev) : bool := match e with ESvc _ (Some s) => svc_ok s | _ => true end.
(* the configuration the speaker finally runs does not select this node only through interfaces it lacks (F9) *)
Definition final_cfg_ok (ev : env) (st : sstate) : bool :=
  match s_cfg st with Some c => cfg_ifs_ok ev c | None => true end.
Definition event_ok (ev : env) (e : sev) : bool :=
  match e with
  | ESvc _ (Some s) => svc_ok s
  | ECfg c => cfg_ifs_ok ev c
  | _ => true
  end.
Fixpoint stale_after (ev : env) (ws : cluster * sstate) (stale : bool) (h : list sev) : bool :=
  match h with
  | [] => stale
  | e :: r =>
    let st := snd ws in
    let stale' := if requests_resync ev st e then false else stale || first_node_event st (fst ws) e in
    stale_after ev (sstep ev ws e) stale' r
  end.

(* ---- which endpoint slices a Service is processed with (internal/k8s/controllers: epSlicesForService through the
   field index epslices.SlicesServiceIndex = "<namespace>/<value of the kubernetes.io/service-name label>"), on the
   single-service path AND on the reprocess-all path of the ServiceReconciler ---- *)
Record kslice := { ks_ns : N; ks_label : option N; ks_eps : list bep }.
Definition slice_of (ns name : N) (s : kslice) : bool :=
  (ks_ns s =? ns) && match ks_label s with Some l => l =? name | None => false end.
Definition slices_for (ns name : N) (all : list kslice) : list (list bep) :=
  map ks_eps (filter (slice_of ns name) all).
(* grouping by the bare label (what the rejected "list once" variant of reprocessAll did) *)
Definition slices_by_label (name : N) (all : list kslice) : list (list bep) :=
  map ks_eps (filter (fun s => match ks_label s with Some l => l =? name | None => false end) all).
