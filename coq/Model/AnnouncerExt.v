(* Extension of Model/Announcer.v (property C13): the rest of internal/layer2/announcer.go.
   - the loops of DeleteBalancer and gratuitous transcribed WITH their control flow
     (continue / return) through [for_each], next to the variants with `return` where the
     code says `continue` (the shape of the seeded changes C13-4 / C09-4), which are refuted;
   - spamLoop (the queue spamCh, the map of addresses being announced, the immediate and the
     periodic gratuitous sweep, expiry) and updateInterfaces (responders created / closed by
     the interface rescan) as steps interleaved in any order with SetBalancer /
     DeleteBalancer / requests.
   Time is not modelled: which entries of the spam map have expired at a tick is an argument
   of the step (every choice is covered by the theorems); so is the responder set a rescan finds.
   SetBalancer's doSpam (after Unlock) is taken together with the state change. *)
From Coq Require Export List NArith ZArith Bool.
From Verif Require Export Model.Announcer.
Export ListNotations.

(* ---- loops with continue / return ---- *)
Inductive ctl := CNext | CReturn.
Fixpoint for_each {A S : Type} (body : A -> S -> S * ctl) (l : list A) (s : S) : S * ctl :=
  match l with
  | [] => (s, CNext)
  | x :: r => match body x s with
              | (s', CNext) => for_each body r s'
              | (s', CReturn) => (s', CReturn)
              end
  end.

(* ---- DeleteBalancer, statement by statement (announcer.go:291-315) ---- *)
Definition set_rc (s : st) (i : ip) (c : Z) : st :=
  mk_st (ips s) (zset i c (refcnt s)) (arps s) (ndps s) (groups s) (member s).
Definition unwatch_all (i : ip) (s : st) : st :=          (* for _, client := range a.ndps { client.Unwatch(ip) } *)
  let gm := fold_left (unwatch1 i) (ndps s) (groups s, member s) in
  mk_st (ips s) (refcnt s) (arps s) (ndps s) (fst gm) (snd gm).

Definition del_body (cur : adv) (s : st) : st * ctl :=
  let i := a_ip cur in
  let s1 := set_rc s i (rc s i - 1)%Z in                  (* a.ipRefcnt[ip]-- *)
  if (0 <? rc s1 i)%Z then (s1, CNext)                    (* > 0: continue *)
  else (unwatch_all i s1, CNext).

Definition delete_balancer_t (name : N) (s : st) : st :=
  match lookup name (ips s) with
  | None => s                                             (* if !ok { return } *)
  | Some advs =>
      let s0 := with_ips s (remove name (ips s)) in       (* delete(a.ips, name) *)
      fst (for_each del_body advs s0)                     (* for _, cur := range advs *)
  end.

(* the same with `return` in the shared-address branch and the delete after the loop *)
Definition del_body_return (cur : adv) (s : st) : st * ctl :=
  let i := a_ip cur in
  let s1 := set_rc s i (rc s i - 1)%Z in
  if (0 <? rc s1 i)%Z then (s1, CReturn)                  (* return *)
  else (unwatch_all i s1, CNext).
Definition delete_balancer_return (name : N) (s : st) : st :=
  match for_each del_body_return (cur_advs s name) s with
  | (s', CReturn) => s'
  | (s', CNext) => with_ips s' (remove name (ips s'))     (* delete(a.ips, name) after the loop *)
  end.

(* ---- gratuitous: the sweep over the responders (announcer.go:203-235) ---- *)
Definition grat_body (a : adv) (kind : bool) (intf : N) (acc : list (bool * N)) : list (bool * N) * ctl :=
  if negb (match_intf a intf) then (acc, CNext)            (* continue *)
  else ((acc ++ [(kind, intf)])%list, CNext).              (* client.Gratuitous(ip) *)
Definition gratuitous_t (s : st) (a : adv) : list (bool * N) :=
  if (rc s (a_ip a) <=? 0)%Z then []                       (* return *)
  else match a_ip a with
       | V4 _ => fst (for_each (grat_body a true) (arps s) [])
       | V6 _ => fst (for_each (grat_body a false) (ndps s) [])
       end.
(* with `return` instead of `continue`: the first responder that is not covered ends the sweep *)
Definition grat_body_return (a : adv) (kind : bool) (intf : N) (acc : list (bool * N)) : list (bool * N) * ctl :=
  if negb (match_intf a intf) then (acc, CReturn) else ((acc ++ [(kind, intf)])%list, CNext).
Definition gratuitous_return (s : st) (a : adv) : list (bool * N) :=
  if (rc s (a_ip a) <=? 0)%Z then []
  else match a_ip a with
       | V4 _ => fst (for_each (grat_body_return a true) (arps s) [])
       | V6 _ => fst (for_each (grat_body_return a false) (ndps s) [])
       end.

(* ---- updateInterfaces: the responders found by the rescan ---- *)
Definition memN (x : N) (l : list N) : bool := existsb (N.eqb x) l.
(* distinct keys of ipRefcnt with a positive count: `for ipStr, refcnt := range a.ipRefcnt { if refcnt <= 0 { continue } ...` *)
Fixpoint dedup_ips (l : list ip) : list ip :=
  match l with
  | [] => []
  | x :: r => if existsb (ip_eqb x) r then dedup_ips r else x :: dedup_ips r
  end.
Definition live_ips (s : st) : list ip :=
  filter (fun i => (0 <? rc s i)%Z) (dedup_ips (map fst (refcnt s))).

(* responders of interfaces that stay keep their state; closed ones lose theirs; a NEW responder
   starts with empty group counters (newNDPResponder) and — since fix 437595c (F29) — Watches every
   address in use before it is stored in a.ndps *)
Definition watch_ips (intf : N) (l : list ip) (gm : list ((N * N) * Z) * list ((N * N) * Z)) :=
  fold_left (fun gm i => watch1 i gm intf) l gm.
Definition rescan (ar nd : list N) (s : st) : st :=
  let kept := filter (fun i => memN i (ndps s)) nd in
  let fresh := filter (fun i => negb (memN i (ndps s))) nd in
  let g0 := filter (fun e => memN (fst (fst e)) kept) (groups s) in
  let m0 := filter (fun e => memN (fst (fst e)) kept) (member s) in
  let gm := fold_left (fun gm intf => watch_ips intf (live_ips s) gm) fresh (g0, m0) in
  mk_st (ips s) (refcnt s) ar nd (fst gm) (snd gm).

(* before the fix: nothing Watches the addresses already announced *)
Definition rescan_prefix (ar nd : list N) (s : st) : st :=
  let kept := filter (fun i => memN i (ndps s)) nd in
  mk_st (ips s) (refcnt s) ar nd
        (filter (fun e => memN (fst (fst e)) kept) (groups s))
        (filter (fun e => memN (fst (fst e)) kept) (member s)).

(* ---- spamLoop ---- *)
Record xst := mk_xst {
  base : st;
  queue : list adv;                       (* spamCh *)
  spam : list (ip * adv);                 (* m: address -> advertisement being announced (until ...) *)
  sent : list ((bool * N) * ip) }.        (* gratuitous packets sent so far: (ARP?, interface), address *)

Definition xinit (ar nd : list N) : xst := mk_xst (init ar nd) [] [] [].

Definition send (s : st) (a : adv) : list ((bool * N) * ip) :=
  map (fun x => (x, a_ip a)) (gratuitous s a).

Definition spam_known (i : ip) (m : list (ip * adv)) : bool := existsb (fun e => ip_eqb i (fst e)) m.
Definition spam_put (i : ip) (a : adv) (m : list (ip * adv)) : list (ip * adv) :=
  (i, a) :: filter (fun e => negb (ip_eqb i (fst e))) m.

Inductive xev :=
  | XSet (name : N) (a : adv)             (* SetBalancer (+ doSpam) *)
  | XDel (name : N)                       (* DeleteBalancer *)
  | XRecv                                 (* spamLoop: case s := <-a.spamCh *)
  | XTick (expired : ip -> bool)          (* spamLoop: case now := <-ticker.C; expired = now.After(until) *)
  | XRescan (ar nd : list N)              (* updateInterfaces *)
  | XAsk (q : query).                     (* a responder / fetcher reads *)

Definition xstep (x : xst) (e : xev) : xst :=
  match e with
  | XSet name a => mk_xst (set_balancer name a (base x)) (queue x ++ [a]) (spam x) (sent x)
  | XDel name => mk_xst (delete_balancer name (base x)) (queue x) (spam x) (sent x)
  | XRecv =>
      match queue x with
      | [] => x
      | a :: q =>
          let i := a_ip a in
          mk_xst (base x) q (spam_put i a (spam x))
                 (if spam_known i (spam x) then sent x else (sent x ++ send (base x) a)%list)
      end
  | XTick expired =>
      let live := filter (fun e => negb (expired (fst e))) (spam x) in
      mk_xst (base x) (queue x) live
             (sent x ++ flat_map (fun e => send (base x) (snd e)) live)%list
  | XRescan ar nd => mk_xst (rescan ar nd (base x)) (queue x) (spam x) (sent x)
  | XAsk _ => x
  end.

Definition xrun (evs : list xev) (x : xst) : xst := fold_left xstep evs x.

(* events that do not (re-)announce address i *)
Definition not_set_of (i : ip) (e : xev) : Prop :=
  match e with XSet _ a => a_ip a <> i | _ => True end.
(* the responder set a rescan finds has no duplicates (keys of the map a.ndps) *)
Definition wf_ev (e : xev) : Prop :=
  match e with XRescan _ nd => NoDup nd | _ => True end.
