(* Addresses and prefixes (Go: net.IP after To4()/To16() normalisation, *net.IPNet
   with a canonical mask).  Shared by the allocator, configuration and BGP models.
   An address is a family and a number below 2^32 / 2^128. *)
From Coq Require Export NArith Bool List.
Export ListNotations.
Local Open Scope N_scope.

Inductive fam := F4 | F6.
Definition fam_eqb (a b : fam) : bool :=
  match a, b with F4, F4 | F6, F6 => true | _, _ => false end.
Definition width (f : fam) : N := match f with F4 => 32 | F6 => 128 end.

Inductive ip := V4 (n : N) | V6 (n : N).
Definition ip_fam (x : ip) : fam := match x with V4 _ => F4 | V6 _ => F6 end.
Definition ip_val (x : ip) : N := match x with V4 n | V6 n => n end.
Definition mk_ip (f : fam) (n : N) : ip := match f with F4 => V4 n | F6 => V6 n end.
Definition wf_ip (x : ip) : Prop := ip_val x < 2 ^ width (ip_fam x).
Definition wf_ipb (x : ip) : bool := ip_val x <? 2 ^ width (ip_fam x).
Definition ip_eqb (a b : ip) : bool := fam_eqb (ip_fam a) (ip_fam b) && (ip_val a =? ip_val b).

(* a prefix: family, base address (as written, not necessarily aligned), length *)
Record prefix := { pfam : fam; pbase : N; plen : N }.
Definition wf_prefix (p : prefix) : Prop := plen p <= width (pfam p) /\ pbase p < 2 ^ width (pfam p).
Definition wf_prefixb (p : prefix) : bool := (plen p <=? width (pfam p)) && (pbase p <? 2 ^ width (pfam p)).
Definition block (p : prefix) : N := 2 ^ (width (pfam p) - plen p).          (* number of addresses *)
Definition pfirst (p : prefix) : N := (pbase p / block p) * block p.          (* network address *)
Definition plast (p : prefix) : N := pfirst p + block p - 1.
Definition prefix_eqb (a b : prefix) : bool :=
  fam_eqb (pfam a) (pfam b) && (pbase a =? pbase b) && (plen a =? plen b).

(* IPNet.Contains *)
Definition contains (p : prefix) (x : ip) : bool :=
  fam_eqb (pfam p) (ip_fam x) && (ip_val x / block p =? pbase p / block p).

(* ip.Mask(net.CIDRMask(len, width)) as the prefix it denotes *)
Definition mask_to (len : N) (x : ip) : prefix :=
  let b := 2 ^ (width (ip_fam x) - len) in
  {| pfam := ip_fam x; pbase := (ip_val x / b) * b; plen := len |}.

(* allocator.ipConfusesBuggyFirmwares: IPv4 ending in .0 or .255 *)
Definition buggy (x : ip) : bool :=
  match x with
  | V4 n => (n mod 256 =? 0) || (n mod 256 =? 255)
  | V6 _ => false
  end.

(* membership of a number in the address range of a prefix *)
Definition in_range (p : prefix) (n : N) : bool := (pfirst p <=? n) && (n <=? plast p).
