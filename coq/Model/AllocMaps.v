(* Concrete model of the bookkeeping of internal/allocator/allocator.go: the
   Allocator struct with its derived maps, as Go keeps them.

     allocated       map[string]*alloc           svc -> alloc
     sharingKeyForIP map[string]*key             ip  -> key       (by value)
     portsInUse      map[string]map[Port]string  ip  -> port -> svc
     servicesOnIP    map[string]map[string]bool  ip  -> set of svc
     poolIPsInUse    map[string]map[string]int   pool -> ip -> number of users
     poolIPV4InUse / poolIPV6InUse               the same for the addresses of one family

   Transcribed: assign (unconditional), Unassign (the "len(portsInUse[ip]) == 0"
   rule, the "== 0" deletions of the counts, the "incoherent state" panic and the
   write to a nil inner map as a sticky flag [m_panic]), checkSharing on the MAPS,
   Assign (validation, then assign), the re-homing loop of SetPools (Unassign +
   assign under the new pool name, or Unassign), the counters of updatePoolStats
   (len of the per-family in-use maps).  Allocate / AllocateFromPool /
   AllocateFromPoolForAdditionalFamily keep the checked nondeterminism of
   Model/Alloc.v: the observed choice is validated by the specs of Model/Alloc.v
   evaluated on the abstraction [abs] (the map service -> allocation).

   Maps are association lists read through [aget] (first match); [aset] / [adel]
   remove every older binding, so a key is bound at most once.  The order of a
   list is representation only: every statement about these maps goes through
   lookups.  A Go nested map that is present but empty and an absent one are
   different values here too (servicesOnIP[ip] is never removed by the Go code).

   Not modelled: poolToCounters as a stored map (the counters are recomputed from
   the maps; that CountersForPool returns this value after every operation is
   what Corr/Run_Alloc.v compares), the Prometheus gauges, the callback. *)
From Coq Require Export List NArith ZArith Bool.
From Verif Require Export Model.Net Model.Alloc.
Export ListNotations.
Local Open Scope N_scope.

(* ---------- association lists ---------- *)
Section AMap.
  Context {K V : Type} (eqb : K -> K -> bool).
  Definition aget (k : K) (l : list (K * V)) : option V :=
    option_map snd (find (fun e => eqb (fst e) k) l).
  Definition adel (k : K) (l : list (K * V)) : list (K * V) :=
    filter (fun e => negb (eqb (fst e) k)) l.
  Definition aset (k : K) (v : V) (l : list (K * V)) : list (K * V) := (k, v) :: adel k l.
End AMap.

(* a nested map read at an absent key behaves as the empty map *)
Definition inner {K V} (o : option (list (K * V))) : list (K * V) :=
  match o with Some l => l | None => [] end.

Record mstate := {
  m_pools : pools;
  m_alloc : list (svc * alloc);                  (* allocated *)
  m_key   : list (ip * skey);                    (* sharingKeyForIP *)
  m_ports : list (ip * list (port * svc));       (* portsInUse *)
  m_svcs  : list (ip * list svc);                (* servicesOnIP (inner map as a set) *)
  m_use   : list (poolid * list (ip * Z));       (* poolIPsInUse *)
  m_use4  : list (poolid * list (ip * Z));       (* poolIPV4InUse *)
  m_use6  : list (poolid * list (ip * Z));       (* poolIPV6InUse *)
  m_panic : bool                                 (* a Go panic would have fired *)
}.

Definition m_init : mstate :=
  {| m_pools := empty_pools; m_alloc := []; m_key := []; m_ports := []; m_svcs := []; m_use := []; m_use4 := []; m_use6 := []; m_panic := false |}.

(* the abstraction: forget the derived maps *)
Definition abs (m : mstate) : st := {| s_pools := m_pools m; allocated := m_alloc m |}.

(* ---------- reading the maps ---------- *)
Definition key_of (m : mstate) (x : ip) : option skey := aget ip_eqb x (m_key m).
Definition ports_on (m : mstate) (x : ip) : list (port * svc) := inner (aget ip_eqb x (m_ports m)).
Definition owner (m : mstate) (x : ip) (p : port) : option svc := aget port_eqb p (ports_on m x).
Definition svcs_on (m : mstate) (x : ip) : list svc :=
  match aget ip_eqb x (m_svcs m) with Some l => l | None => [] end.
Definition use_of (m : mstate) (n : poolid) : list (ip * Z) := inner (aget N.eqb n (m_use m)).
Definition count (m : mstate) (n : poolid) (x : ip) : option Z := aget ip_eqb x (use_of m n).
Definition use4_of (m : mstate) (n : poolid) : list (ip * Z) := inner (aget N.eqb n (m_use4 m)).
Definition use6_of (m : mstate) (n : poolid) : list (ip * Z) := inner (aget N.eqb n (m_use6 m)).
(* ip.To4() != nil / == nil *)
Definition is4 (x : ip) : bool := fam_eqb (ip_fam x) F4.
Definition is6 (x : ip) : bool := fam_eqb (ip_fam x) F6.
(* m[k] of a map[..]int: 0 when absent *)
Definition cnt (x : ip) (cm : list (ip * Z)) : Z := match aget ip_eqb x cm with Some c => c | None => 0%Z end.

(* ---------- Unassign ---------- *)
(* for _, port := range al.ports { if portsInUse[ip][port] != svc { panic }; delete(portsInUse[ip], port) }
   as two functions of the inner map before the loop: what is left, and whether the panic fires *)
Definition del_all (ps : list port) (pm : list (port * svc)) : list (port * svc) :=
  fold_left (fun pm p => adel port_eqb p pm) ps pm.
Fixpoint del_panics (s : svc) (ps : list port) (pm : list (port * svc)) : bool :=
  match ps with
  | [] => false
  | p :: r =>
      negb (match aget port_eqb p pm with Some t => t =? s | None => false end) ||
      del_panics s r (adel port_eqb p pm)
  end.

Definition is_nil {A} (l : list A) : bool := match l with [] => true | _ => false end.
Definition is_none {A} (o : option A) : bool := match o with None => true | Some _ => false end.

(* m[x]--; if m[x] == 0 { delete(m, x) } *)
Definition dec (x : ip) (cm : list (ip * Z)) : list (ip * Z) :=
  let cm1 := aset ip_eqb x (cnt x cm - 1)%Z cm in
  if (cnt x cm1 =? 0)%Z then adel ip_eqb x cm1 else cm1.

(* the two family maps: only the map of the address's family is decremented
   ([sel]), "if m[x] == 0 { delete(m, x) }" runs on both; reading a nil inner map
   gives 0 and deleting from it is a no-op *)
Definition zdel (x : ip) (cm : list (ip * Z)) : list (ip * Z) :=
  if (cnt x cm =? 0)%Z then adel ip_eqb x cm else cm.
Definition udec (sel : bool) (x : ip) (cm : list (ip * Z)) : list (ip * Z) :=
  zdel x (if sel then aset ip_eqb x (cnt x cm - 1)%Z cm else cm).
Definition use_unassign (n : poolid) (sel : bool) (x : ip) (um : list (poolid * list (ip * Z))) :=
  match aget N.eqb n um with
  | None => um
  | Some cm => aset N.eqb n (udec sel x cm) um
  end.

(* one iteration of "for _, ip := range al.ips" in Unassign *)
Definition unassign_ip (s : svc) (al : alloc) (m : mstate) (x : ip) : mstate :=
  let pm0 := aget ip_eqb x (m_ports m) in
  let pm1 := del_all (a_ports al) (inner pm0) in
  (* delete on a nil inner map is a no-op and does not create it *)
  let ports1 := match pm0 with Some _ => aset ip_eqb x pm1 (m_ports m) | None => m_ports m end in
  (* delete(a.servicesOnIP[ip], svc) *)
  let svcs1 := match aget ip_eqb x (m_svcs m) with
               | Some l => aset ip_eqb x (filter (fun t => negb (t =? s)) l) (m_svcs m)
               | None => m_svcs m
               end in
  (* if len(a.portsInUse[ip]) == 0 { delete(a.portsInUse, ip); delete(a.sharingKeyForIP, ip) } *)
  let empty := is_nil (inner (aget ip_eqb x ports1)) in
  let ports2 := if empty then adel ip_eqb x ports1 else ports1 in
  let key2 := if empty then adel ip_eqb x (m_key m) else m_key m in
  (* a.poolIPsInUse[al.pool][ip]--; if a.poolIPsInUse[al.pool][ip] == 0 { delete(...) };
     an assignment to an entry of a nil inner map panics *)
  let use2 := match aget N.eqb (a_pool al) (m_use m) with
              | None => m_use m
              | Some cm => aset N.eqb (a_pool al) (dec x cm) (m_use m)
              end in
  {| m_pools := m_pools m; m_alloc := m_alloc m; m_key := key2; m_ports := ports2; m_svcs := svcs1;
     m_use := use2;
     m_use4 := use_unassign (a_pool al) (is4 x) x (m_use4 m);
     m_use6 := use_unassign (a_pool al) (is6 x) x (m_use6 m);
     m_panic := m_panic m || del_panics s (a_ports al) (inner pm0) || is_none (aget N.eqb (a_pool al) (m_use m))
                || is_none (aget N.eqb (a_pool al) (if is4 x then m_use4 m else m_use6 m)) |}.

Definition with_alloc (m : mstate) (l : list (svc * alloc)) : mstate :=
  {| m_pools := m_pools m; m_alloc := l; m_key := m_key m; m_ports := m_ports m; m_svcs := m_svcs m;
     m_use := m_use m; m_use4 := m_use4 m; m_use6 := m_use6 m; m_panic := m_panic m |}.

Definition m_unassign (m : mstate) (s : svc) : mstate :=
  match aget N.eqb s (m_alloc m) with
  | None => m
  | Some al => fold_left (unassign_ip s al) (a_ips al) (with_alloc m (adel N.eqb s (m_alloc m)))
  end.

(* ---------- assign (unconditional) ---------- *)
Definition add_ports (s : svc) (ps : list port) (pm : list (port * svc)) : list (port * svc) :=
  fold_left (fun pm p => aset port_eqb p s pm) ps pm.
Definition add_svc (s : svc) (l : list svc) : list svc := if memN s l then l else s :: l.
Definition inc (x : ip) (cm : list (ip * Z)) : list (ip * Z) := aset ip_eqb x (cnt x cm + 1)%Z cm.
(* the inner map is created when nil; only the map of the address's family counts it *)
Definition use_assign (n : poolid) (sel : bool) (x : ip) (um : list (poolid * list (ip * Z))) :=
  aset N.eqb n (if sel then inc x (inner (aget N.eqb n um)) else inner (aget N.eqb n um)) um.

(* one iteration of "for _, ip := range alloc.ips" in assign; a nil inner map is
   created empty before it is written *)
Definition assign_ip (s : svc) (al : alloc) (m : mstate) (x : ip) : mstate :=
  {| m_pools := m_pools m; m_alloc := m_alloc m;
     m_key := aset ip_eqb x (a_key al) (m_key m);
     m_ports := aset ip_eqb x (add_ports s (a_ports al) (inner (aget ip_eqb x (m_ports m)))) (m_ports m);
     m_svcs := aset ip_eqb x (add_svc s (svcs_on m x)) (m_svcs m);
     m_use := aset N.eqb (a_pool al) (inc x (inner (aget N.eqb (a_pool al) (m_use m)))) (m_use m);
     m_use4 := use_assign (a_pool al) (is4 x) x (m_use4 m);
     m_use6 := use_assign (a_pool al) (is6 x) x (m_use6 m);
     m_panic := m_panic m |}.

Definition m_assign (m : mstate) (s : svc) (al : alloc) : mstate :=
  let m1 := m_unassign m s in
  fold_left (assign_ip s al) (a_ips al) (with_alloc m1 (aset N.eqb s al (m_alloc m1))).

(* ---------- checkSharing on the maps ---------- *)
Definition m_check_sharing (m : mstate) (s : svc) (x : ip) (ports : list port) (k : skey) : bool :=
  match key_of m x with
  | None => true
  | Some ek =>
      (* sharingOK, or no other service recorded on the address *)
      (sharing_ok ek k || negb (existsb (fun t => negb (t =? s)) (svcs_on m x))) &&
      (* every requested port is unused on the address or used by svc itself *)
      forallb (fun p => match owner m x p with Some t => t =? s | None => true end) ports
  end.

(* ---------- Assign ---------- *)
Definition m_assign_check (m : mstate) (s : svc) (r : req) (ips : list ip) : pool + err :=
  match pool_for (by_name (m_pools m)) ips with
  | None => inr ENotInConfig
  | Some p =>
      if negb (compatible p r) then inr EPoolIncompatible
      else if (2 <? N.of_nat (length ips)) then inr ETooMany
      else if same_family2 ips then inr ESameFamily
      else if negb (forallb (fun x => m_check_sharing m s x (r_ports r) (r_key r)) ips) then inr ESharing
      else inl p
  end.

Definition m_assign_op (m : mstate) (s : svc) (r : req) (ips : list ip) : mstate * res :=
  match m_assign_check m s r ips with
  | inr e => (m, RErr e)
  | inl p => (m_assign m s {| a_pool := p_name p; a_ips := ips; a_ports := r_ports r; a_key := r_key r |}, ROk ips)
  end.

(* ---------- SetPools ---------- *)
Definition with_pools (m : mstate) (ps : pools) : mstate :=
  {| m_pools := ps; m_alloc := m_alloc m; m_key := m_key m; m_ports := m_ports m; m_svcs := m_svcs m;
     m_use := m_use m; m_use4 := m_use4 m; m_use6 := m_use6 m; m_panic := m_panic m |}.

(* body of "for svc, alloc := range a.allocated" *)
Definition rehome_step (ps : pools) (m : mstate) (e : svc * alloc) : mstate :=
  match pool_for (by_name ps) (a_ips (snd e)) with
  | None => m_unassign m (fst e)
  | Some p =>
      if p_name p =? a_pool (snd e) then m
      else m_assign (m_unassign m (fst e)) (fst e)
             {| a_pool := p_name p; a_ips := a_ips (snd e); a_ports := a_ports (snd e); a_key := a_key (snd e) |}
  end.

(* [order]: the entries in the order in which the range statement produces them
   (any enumeration of the map) *)
Definition m_set_pools (m : mstate) (ps : pools) (order : list (svc * alloc)) : mstate :=
  fold_left (rehome_step ps) order (with_pools m ps).

(* ---------- operations ---------- *)
Definition m_step (m : mstate) (o : op) : mstate * res :=
  match o with
  | OAssign s r ips => m_assign_op m s r ips
  | OUnassign s => (m_unassign m s, ROk [])
  | OAllocate s r c =>
      match aget N.eqb s (m_alloc m) with
      | Some al => match m_assign_op m s r (a_ips al) with
                   | (m', ROk _) => match c with Some (_, ips) => if ips_eqb ips (a_ips al) then (m', ROk ips) else (m, RSpecMismatch) | None => (m, RSpecMismatch) end
                   | (m', e) => match c with None => (m', e) | Some _ => (m, RSpecMismatch) end
                   end
      | None =>
          if allocate_spec (abs m) s r c then
            match c with
            | None => (m, RErr ENoIPs)
            | Some (_, ips) => match m_assign_op m s r ips with (m', ROk i) => (m', ROk i) | _ => (m, RSpecMismatch) end
            end
          else (m, RSpecMismatch)
      end
  | OAllocateFromPool s r pn c =>
      match aget N.eqb s (m_alloc m) with
      | Some al =>
          match alloc_fam (a_ips al) with
          | None => match c with None => (m, RErr EWrongFamily) | Some _ => (m, RSpecMismatch) end
          | Some f =>
              if negb (match r_pol r with Prefer => true | _ => false end) && negb (sfam_eqb f (r_fam r))
              then match c with None => (m, RErr EWrongFamily) | Some _ => (m, RSpecMismatch) end
              else match m_assign_op m s r (a_ips al) with
                   | (m', ROk _) => match c with Some ips => if ips_eqb ips (a_ips al) then (m', ROk ips) else (m, RSpecMismatch) | None => (m, RSpecMismatch) end
                   | (m', e) => match c with None => (m', e) | Some _ => (m, RSpecMismatch) end
                   end
          end
      | None =>
          if from_pool_spec (abs m) s r pn c then
            match c with
            | None => (m, RErr ENoIPs)
            | Some ips => match m_assign_op m s r ips with (m', ROk i) => (m', ROk i) | _ => (m, RSpecMismatch) end
            end
          else (m, RSpecMismatch)
      end
  | OAdditional s r have pn c =>
      if additional_spec (abs m) s r have pn c then
        match c with
        | None => (m, RErr ENoIPs)
        | Some x => match m_assign_op m s r [have; x] with (m', ROk _) => (m', ROk [x]) | _ => (m, RSpecMismatch) end
        end
      else (m, RSpecMismatch)
  | OSetPools ps => (m_set_pools m ps (m_alloc m), ROk [])
  end.

Definition m_run (ops : list op) (m : mstate) : mstate := fold_left (fun m o => fst (m_step m o)) ops m.

(* ---------- counters (updatePoolStats): len of the per-family in-use maps ---------- *)
Definition m_len_fam (m : mstate) (n : poolid) (f : fam) : Z :=
  Z.of_nat (length (match f with F4 => use4_of m n | F6 => use6_of m n end)).

Definition m_counters_for (m : mstate) (n : poolid) : counters :=
  match find_pool (m_pools m) n with
  | None => {| c_assigned4 := 0; c_assigned6 := 0; c_avail4 := 0; c_avail6 := 0 |}
  | Some p => {| c_assigned4 := m_len_fam m n F4; c_assigned6 := m_len_fam m n F6;
                 c_avail4 := pool_capacity p F4 - m_len_fam m n F4;
                 c_avail6 := pool_capacity p F6 - m_len_fam m n F6 |}
  end.

(* ---------- what a fresh controller rebuilds from the surviving assignments ---------- *)
Definition m_fresh (ps : pools) : mstate :=
  {| m_pools := ps; m_alloc := []; m_key := []; m_ports := []; m_svcs := []; m_use := []; m_use4 := []; m_use6 := []; m_panic := false |}.
Definition rebuild (a : st) : mstate :=
  fold_right (fun e m => m_assign m (fst e) (snd e)) (m_fresh (s_pools a)) (allocated a).

(* ---------- the domain: what the API server guarantees about a Service ---------- *)
(* at least one port, no (protocol, port) pair twice *)
Definition wf_req (r : req) : Prop := r_ports r <> [] /\ NoDup (r_ports r).
Definition wf_op (o : op) : Prop :=
  match o with
  | OAssign _ r _ | OAllocate _ r _ | OAllocateFromPool _ r _ _ | OAdditional _ r _ _ _ => wf_req r
  | OUnassign _ | OSetPools _ => True
  end.
