(* FrrSpec — well-formedness of a session set and the specification the C14/C15
   exactness theorems are stated against.  No code is modelled here.

   [wf_sessions S] = what the speaker / DiscardNativeOnly guarantee, plus the
   computable naming premises of DESIGN 4/C14:
     - sessions are distinct (they are values of a map with distinct keys);
     - one session per neighbor name and router; the router key determines
       ASN / router id / VRF; a prefix text determines the prefix;
     - one router per VRF, one session per peer token (address or interface) and VRF;
     - the strings Go builds as prefix-list / route-map names do not clash:
       a name identifies the session and the logical list ([kind]).
   [wf_sessions_b] decides it ([wf_sessions_b_sound] in Proofs/FrrWfP.v), so that
   concrete session sets (Examples, generated cases) are shown well-formed by
   computation.

   [offered s route]: what session s requests for [route], restricted to the
   address families the templates ACTUALLY activate for it (activateNeighborFor);
   [intended] (FrrSem.v) uses the families the property statement asks for.  They
   differ only for a neighbor peered by interface with DisableMP (F15). *)
From Verif Require Export Model.FrrRender Model.FrrSem.
Open Scope string_scope.

(* the logical prefix-lists of a neighbor *)
Inductive kind := KAllowed | KLp (n : N) | KComm (c : string) | KLcomm (c : string).

Definition kname (s : session) (k : kind) : string :=
  match k with
  | KAllowed => pl_allowed s
  | KLp n => pl_lp s n
  | KComm c => pl_comm s c
  | KLcomm c => pl_lcomm s c
  end.

Definition kinds (s : session) : list kind :=
  KAllowed ::
  map KLp (filter (fun n => negb (N.eqb n 0)) (map a_lp (s_advs s))) ++
  map KComm (flat_map (comms_of false) (s_advs s)) ++
  map KLcomm (flat_map (comms_of true) (s_advs s)).

Definition all_pfx (S : list session) : list pfx := map a_pfx (flat_map s_advs S).

Record wf_sessions (S : list session) : Prop := mk_wf {
  wf_nodup : NoDup S;
  wf_nbr : forall s t, In s S -> In t S -> rkey s = rkey t -> nname s = nname t -> s = t;
  wf_rkey : forall s t, In s S -> In t S -> rkey s = rkey t ->
              s_myasn s = s_myasn t /\ s_rid s = s_rid t /\ s_vrf s = s_vrf t;
  wf_pfx : forall x y, In x (all_pfx S) -> In y (all_pfx S) -> p_text x = p_text y -> x = y;
  wf_vrf : forall s t, In s S -> In t S -> s_vrf s = s_vrf t -> rkey s = rkey t;
  wf_peer : forall s t, In s S -> In t S -> s_vrf s = s_vrf t -> peer_tok s = peer_tok t -> s = t;
  wf_pl : forall s t k k', In s S -> In t S -> In k (kinds s) -> In k' (kinds t) ->
            kname s k = kname t k' -> s = t /\ k = k';
  wf_rm_out : forall s t, In s S -> In t S -> rm_out s = rm_out t -> s = t;
  wf_rm_in : forall s t, In s S -> In t S -> rm_in s <> rm_out t
}.

(* a probe route whose text is the text of a requested prefix IS that prefix *)
Definition route_ok (S : list session) (route : pfx) : Prop :=
  forall x, In x (all_pfx S) -> p_text x = p_text route -> x = route.

(* activateNeighborFor, per session *)
Definition act_actual (s : session) (a : afi) : bool :=
  activate (match a with A4 => "ipv4" | A6 => "ipv6" end) (nfam_of s) (s_disable_mp s).

Definition requested (s : session) (route : pfx) : option attrs :=
  match filter (fun a => pfx_eqb (a_pfx a) route) (s_advs s) with
  | [] => None
  | a :: rest =>
      Some (mk_attrs (if N.eqb (a_lp a) 0 then None else Some (a_lp a))
                     (fold_right add_s [] (flat_map (comm_texts false) (a :: rest)))
                     (fold_right add_s [] (flat_map (comm_texts true) (a :: rest))))
  end.

Definition offered (s : session) (route : pfx) : option attrs :=
  if act_actual s (pfx_afi route) then requested s route else None.

Definition f15_shape (s : session) : bool := nonempty (s_iface s) && s_disable_mp s.

(* ---------- decision procedure for wf_sessions ---------- *)
Definition fam_eq (a b : fam) : bool := fam_eqb a b.
Definition adv_eqb (a b : adv) : bool :=
  pfx_full_eqb (a_pfx a) (a_pfx b) && N.eqb (a_lp a) (a_lp b) &&
  list_eqb (pair_eqb Bool.eqb String.eqb) (a_comms a) (a_comms b).

Definition session_eqb (s t : session) : bool :=
  N.eqb (s_myasn s) (s_myasn t) && opt_eqb String.eqb (s_rid s) (s_rid t) && String.eqb (s_vrf s) (s_vrf t) &&
  String.eqb (s_addr s) (s_addr t) && Bool.eqb (s_addr4 s) (s_addr4 t) && String.eqb (s_iface s) (s_iface t) &&
  N.eqb (s_peerasn s) (s_peerasn t) && String.eqb (s_dynasn s) (s_dynasn t) && opt_eqb String.eqb (s_src s) (s_src t) &&
  N.eqb (s_port s) (s_port t) && opt_eqb N.eqb (s_hold s) (s_hold t) && opt_eqb N.eqb (s_keep s) (s_keep t) &&
  opt_eqb N.eqb (s_connect s) (s_connect t) && String.eqb (s_password s) (s_password t) && String.eqb (s_bfd s) (s_bfd t) &&
  Bool.eqb (s_gr s) (s_gr t) && Bool.eqb (s_multihop s) (s_multihop t) && Bool.eqb (s_disable_mp s) (s_disable_mp t) &&
  list_eqb adv_eqb (s_advs s) (s_advs t) && pair_eqb String.eqb String.eqb (s_secret s) (s_secret t).

Definition kind_eqb (a b : kind) : bool :=
  match a, b with
  | KAllowed, KAllowed => true
  | KLp x, KLp y => N.eqb x y
  | KComm x, KComm y => String.eqb x y
  | KLcomm x, KLcomm y => String.eqb x y
  | _, _ => false
  end.

Fixpoint nodup_b {A} (eqb : A -> A -> bool) (l : list A) : bool :=
  match l with
  | [] => true
  | x :: r => negb (existsb (eqb x) r) && nodup_b eqb r
  end.

Definition all2 {A} (l : list A) (f : A -> A -> bool) : bool :=
  forallb (fun x => forallb (f x) l) l.

Definition imp (a b : bool) : bool := negb a || b.

Definition wf_sessions_b (S : list session) : bool :=
  nodup_b session_eqb S &&
  all2 S (fun s t => imp (String.eqb (rkey s) (rkey t) && String.eqb (nname s) (nname t)) (session_eqb s t)) &&
  all2 S (fun s t => imp (String.eqb (rkey s) (rkey t))
                         (N.eqb (s_myasn s) (s_myasn t) && opt_eqb String.eqb (s_rid s) (s_rid t) && String.eqb (s_vrf s) (s_vrf t))) &&
  all2 (all_pfx S) (fun x y => imp (String.eqb (p_text x) (p_text y)) (pfx_full_eqb x y)) &&
  all2 S (fun s t => imp (String.eqb (s_vrf s) (s_vrf t)) (String.eqb (rkey s) (rkey t))) &&
  all2 S (fun s t => imp (String.eqb (s_vrf s) (s_vrf t) && String.eqb (peer_tok s) (peer_tok t)) (session_eqb s t)) &&
  all2 S (fun s t => forallb (fun k => forallb (fun k' =>
            imp (String.eqb (kname s k) (kname t k')) (session_eqb s t && kind_eqb k k')) (kinds t)) (kinds s)) &&
  all2 S (fun s t => imp (String.eqb (rm_out s) (rm_out t)) (session_eqb s t)) &&
  all2 S (fun s t => negb (String.eqb (rm_in s) (rm_out t))).

Definition route_ok_b (S : list session) (route : pfx) : bool :=
  forallb (fun x => imp (String.eqb (p_text x) (p_text route)) (pfx_full_eqb x route)) (all_pfx S).

(* the texts of standard communities do not look like large ones ("large:" is
   how frrk8s.go marks a large community in PrefixesWithCommunity) *)
Definition comms_ok (S : list session) : Prop :=
  forall s a c, In s S -> In a (s_advs s) -> In (false, c) (a_comms a) -> String.prefix "large:" c = false.
Definition comms_ok_b (S : list session) : bool :=
  forallb (fun s => forallb (fun a => forallb (fun c => fst c || negb (String.prefix "large:" (snd c))) (a_comms a)) (s_advs s)) S.

(* FRR matches BINARY prefixes; Model/FrrSem.v matches prefix TEXTS.  The two coincide when, among the
   requested prefixes and the probe route, equal prefixes have equal texts (texts are canonical: what
   net.IPNet.String prints for a masked prefix) - hypothesis of C14_text_match_is_binary_match. *)
Definition canonical_texts (S : list session) (route : pfx) : Prop :=
  forall x y, In x (route :: all_pfx S) -> In y (route :: all_pfx S) -> p_net x = p_net y -> p_text x = p_text y.
Definition canonical_texts_b (S : list session) (route : pfx) : bool :=
  all2 (route :: all_pfx S) (fun x y => imp (prefix_eqb (p_net x) (p_net y)) (String.eqb (p_text x) (p_text y))).
