(* FrrRender — transcription of internal/bgp/frr/frr.go createConfig (lines
   201-403), addToAdvertisements / mergeAdvertisements / mergeCommunities
   (537-583), sortMap (524), config.go neighborConfig.ID / RouterName /
   NeighborName / asnFor and the template functions of templateConfig, and of
   templates/frr.tmpl, filters.tmpl, neighborsession.tmpl, neighboripfamily.tmpl
   into the AST of FrrAst.v.

   createConfig ranges over the map sm.sessions; the iteration order is the
   order of the argument list [S] (checked nondeterminism: C14_frr_perm shows
   the result does not depend on it for well-formed session sets).  The loop
   "find or create router by RouterName, find or create neighbor by
   NeighborName, then fold the session's advertisements into the neighbor" is
   written here as the grouping it computes: routers = the distinct router
   keys; a router's neighbors = the distinct neighbor names among its sessions;
   a neighbor takes its parameters from the FIRST session (in iteration order)
   with that name and folds the advertisements of ALL of them, in iteration
   order, with addToAdvertisements.  createConfig fails iff one of these folds
   fails (mergeAdvertisements: different local preference).
   sortMap = sort.Strings on the keys: insertion sort on String.leb (H-sort).
   sets.List = sorted without duplicates.
   Not modelled: log level, hostname, BFD profile blocks, ExtraConfig. *)
From Coq Require Import DecimalString.
From Verif Require Export Model.FrrAst.
Open Scope string_scope.

Definition dec (n : N) : string := NilZero.string_of_uint (N.to_uint n).
Definition nonempty (s : string) : bool := negb (String.eqb s "").

(* ---------- sorted sets (sort.Strings + dedup, sets.List) ---------- *)
Section SortK.
  Context {A : Type} (key : A -> string).
  (* insert keeping the list sorted by key; an element with an equal key is kept, the new one dropped *)
  Fixpoint insert_k (x : A) (l : list A) : list A :=
    match l with
    | [] => [x]
    | y :: r => if String.leb (key x) (key y)
                then (if String.eqb (key x) (key y) then l else x :: l)
                else y :: insert_k x r
    end.
  Definition sort_k (l : list A) : list A := fold_right insert_k [] l.
End SortK.
Definition sort_s : list string -> list string := sort_k (fun s => s).

Fixpoint insert_n (x : N) (l : list N) : list N :=
  match l with
  | [] => [x]
  | y :: r => if N.leb x y then (if N.eqb x y then l else x :: l) else y :: insert_n x r
  end.
Definition sort_n (l : list N) : list N := fold_right insert_n [] l.

(* ---------- names (config.go) ---------- *)
Definition rid_str (s : session) : string := match s_rid s with Some r => r | None => "<nil>" end.
Definition rkey (s : session) : string :=                     (* RouterName *)
  dec (s_myasn s) ++ "@" ++ rid_str s ++ "@" ++ s_vrf s.
Definition asn_for (s : session) : string :=                  (* asnFor *)
  if nonempty (s_dynasn s) then s_dynasn s else dec (s_peerasn s).
Definition nname (s : session) : string :=                    (* NeighborName *)
  asn_for s ++ "@" ++ (if nonempty (s_addr s) then s_addr s else s_iface s) ++ "@" ++ s_vrf s.
Definition peer_tok (s : session) : string :=                 (* $peer in the templates *)
  if nonempty (s_iface s) then s_iface s else s_addr s.
Definition nid (s : session) : string :=                      (* neighborConfig.ID *)
  peer_tok s ++ (if nonempty (s_vrf s) then "-" ++ s_vrf s else "").
Definition nfam_of (s : session) : nfam :=
  if nonempty (s_iface s) then NFDual else if s_addr4 s then NF4 else NF6.
Definition nfam_str (f : nfam) : string :=
  match f with NF4 => "ipv4" | NF6 => "ipv6" | NFDual => "dual" end.

Definition pl_allowed (s : session) : string := nid s ++ "-pl-" ++ nfam_str (nfam_of s).
Definition pl_lp (s : session) (lp : N) : string :=
  nid s ++ "-" ++ dec lp ++ "-" ++ nfam_str (nfam_of s) ++ "-localpref-prefixes".
Definition pl_comm (s : session) (c : string) : string :=
  nid s ++ "-" ++ c ++ "-" ++ nfam_str (nfam_of s) ++ "-community-prefixes".
Definition pl_lcomm (s : session) (c : string) : string :=
  nid s ++ "-large:" ++ c ++ "-" ++ nfam_str (nfam_of s) ++ "-community-prefixes".
Definition rm_in (s : session) : string := nid s ++ "-in".
Definition rm_out (s : session) : string := nid s ++ "-out".

(* ---------- advertisementConfig ---------- *)
Record advc := mk_advc { ac_pfx : pfx; ac_comms : list string; ac_lcomms : list string; ac_lp : N }.

Definition comms_of (large : bool) (a : adv) : list string :=
  map snd (filter (fun c => Bool.eqb (fst c) large) (a_comms a)).

Definition advc_of (a : adv) : advc :=
  mk_advc (a_pfx a) (comms_of false a) (comms_of true a) (a_lp a).

Definition merge_advc (x y : advc) : option advc :=          (* mergeAdvertisements *)
  if negb (afi_eqb (pfx_afi (ac_pfx x)) (pfx_afi (ac_pfx y))) then None
  else if negb (N.eqb (ac_lp x) (ac_lp y)) then None
  else Some (mk_advc (ac_pfx x) (sort_s (ac_comms x ++ ac_comms y))
                     (sort_s (ac_lcomms x ++ ac_lcomms y)) (ac_lp x)).

(* addToAdvertisements: sort.Search for the first entry >= the new prefix text *)
Fixpoint add_advc (cur : list advc) (a : advc) : option (list advc) :=
  match cur with
  | [] => Some [a]
  | c :: rest =>
      if String.leb (p_text (ac_pfx a)) (p_text (ac_pfx c)) then
        if String.eqb (p_text (ac_pfx c)) (p_text (ac_pfx a)) then
          match merge_advc c a with Some m => Some (m :: rest) | None => None end
        else Some (a :: cur)
      else match add_advc rest a with Some r => Some (c :: r) | None => None end
  end.

Fixpoint add_all (cur : list advc) (l : list advc) : option (list advc) :=
  match l with
  | [] => Some cur
  | a :: l' => match add_advc cur a with Some c => add_all c l' | None => None end
  end.

(* ---------- neighborConfig ---------- *)
Record nconf := mk_nconf {
  nc_s : session;                    (* the session that created the neighbor *)
  nc_advs : list advc;
  nc_has4 : bool; nc_has6 : bool;
  nc_comm4 : list string; nc_comm6 : list string;
  nc_lcomm4 : list string; nc_lcomm6 : list string;
  nc_lp4 : list N; nc_lp6 : list N
}.

Definition advs_afi (a : afi) (l : list adv) : list adv :=
  filter (fun x => afi_eqb (pfx_afi (a_pfx x)) a) l.

Definition mk_neighbor (first : session) (advs : list adv) : option nconf :=
  match add_all [] (map advc_of advs) with
  | None => None
  | Some acs =>
      Some (mk_nconf first acs
              (negb (match advs_afi A4 advs with [] => true | _ => false end))
              (negb (match advs_afi A6 advs with [] => true | _ => false end))
              (sort_s (flat_map (comms_of false) (advs_afi A4 advs)))
              (sort_s (flat_map (comms_of false) (advs_afi A6 advs)))
              (sort_s (flat_map (comms_of true) (advs_afi A4 advs)))
              (sort_s (flat_map (comms_of true) (advs_afi A6 advs)))
              (sort_n (filter (fun n => negb (N.eqb n 0)) (map a_lp (advs_afi A4 advs))))
              (sort_n (filter (fun n => negb (N.eqb n 0)) (map a_lp (advs_afi A6 advs)))))
  end.

Record rconf := mk_rconf {
  rc_first : session;                (* the session that created the router: myASN, routerID, vrf *)
  rc_nbrs : list nconf;
  rc_p4 : list pfx; rc_p6 : list pfx
}.

Fixpoint all_some {A} (l : list (option A)) : option (list A) :=
  match l with
  | [] => Some []
  | Some x :: r => match all_some r with Some r' => Some (x :: r') | None => None end
  | None :: _ => None
  end.

Definition sessions_with (k : session -> string) (v : string) (S : list session) : list session :=
  filter (fun s => String.eqb (k s) v) S.

Definition mk_router (S : list session) (k : string) : option rconf :=
  let Sr := sessions_with rkey k S in
  match Sr with
  | [] => None
  | first :: _ =>
      let names := sort_s (map nname Sr) in
      match all_some (map (fun nn => let Sn := sessions_with nname nn Sr in
                                     match Sn with
                                     | [] => None
                                     | f :: _ => mk_neighbor f (flat_map s_advs Sn)
                                     end) names) with
      | None => None
      | Some ns =>
          let all := flat_map s_advs Sr in
          Some (mk_rconf first ns
                  (sort_k p_text (map a_pfx (advs_afi A4 all)))
                  (sort_k p_text (map a_pfx (advs_afi A6 all))))
      end
  end.

Definition create_config (S : list session) : option (list rconf) :=
  all_some (map (mk_router S) (sort_s (map rkey S))).

(* ---------- templates ---------- *)
Inductive seqspec := Fixed (n : N) | Counter (name : string).

Definition prop_entry (s : session) (a : afi) (pl : string) (st : setc) : seqspec * item :=
  (Counter (nid s), IRm (rm_out s) 0 true [(a, pl)] [st] true).

Definition adv_lines (s : session) (a : advc) : list (seqspec * item) :=
  let af := pfx_afi (ac_pfx a) in
  (if N.eqb (ac_lp a) 0 then []
   else [(Counter (pl_lp s (ac_lp a)), IPl af (pl_lp s (ac_lp a)) 0 true (Some (ac_pfx a)))]) ++
  map (fun c => (Counter (pl_comm s c), IPl af (pl_comm s c) 0 true (Some (ac_pfx a)))) (ac_comms a) ++
  map (fun c => (Counter (pl_lcomm s c), IPl af (pl_lcomm s c) 0 true (Some (ac_pfx a)))) (ac_lcomms a) ++
  [(Counter (pl_allowed s), IPl af (pl_allowed s) 0 true (Some (ac_pfx a)))].

(* template "neighborfilters" *)
Definition neighbor_filters (n : nconf) : list (seqspec * item) :=
  let s := nc_s n in
  [(Fixed 20, IRm (rm_in s) 0 false [] [] false)] ++
  map (fun lp => prop_entry s A4 (pl_lp s lp) (SetLP lp)) (nc_lp4 n) ++
  map (fun lp => prop_entry s A6 (pl_lp s lp) (SetLP lp)) (nc_lp6 n) ++
  map (fun c => prop_entry s A4 (pl_lcomm s c) (SetLComm c)) (nc_lcomm4 n) ++
  map (fun c => prop_entry s A6 (pl_lcomm s c) (SetLComm c)) (nc_lcomm6 n) ++
  map (fun c => prop_entry s A4 (pl_comm s c) (SetComm c)) (nc_comm4 n) ++
  map (fun c => prop_entry s A6 (pl_comm s c) (SetComm c)) (nc_comm6 n) ++
  flat_map (adv_lines s) (nc_advs n) ++
  (if nc_has4 n then [] else [(Counter (pl_allowed s), IPl A4 (pl_allowed s) 0 false None)]) ++
  (if nc_has6 n then [] else [(Counter (pl_allowed s), IPl A6 (pl_allowed s) 0 false None)]) ++
  [(Counter (nid s), IRm (rm_out s) 0 true [(A4, pl_allowed s)] [] false);
   (Counter (nid s), IRm (rm_out s) 0 true [(A6, pl_allowed s)] [] false)].

(* the template function "counter" *)
Fixpoint bump (name : string) (cnt : list (string * N)) : N * list (string * N) :=
  match cnt with
  | [] => (1%N, [(name, 1%N)])
  | (k, v) :: r =>
      if String.eqb k name then (N.succ v, (k, N.succ v) :: r)
      else let (n, r') := bump name r in (n, (k, v) :: r')
  end.

Definition set_seq (it : item) (n : N) : item :=
  match it with
  | IRm nm _ p m s nx => IRm nm n p m s nx
  | IPl a nm _ p x => IPl a nm n p x
  end.

Fixpoint number (l : list (seqspec * item)) (cnt : list (string * N)) : list item :=
  match l with
  | [] => []
  | (Fixed n, it) :: r => set_seq it n :: number r cnt
  | (Counter nm, it) :: r => let (n, cnt') := bump nm cnt in set_seq it n :: number r cnt'
  end.

(* activateNeighborFor *)
Definition activate (famname : string) (f : nfam) (disable_mp : bool) : bool :=
  negb disable_mp || String.eqb (nfam_str f) famname.

(* mustDisableConnectedCheck *)
Definition must_dcc (f : nfam) (myasn : N) (asn iface : string) (multihop : bool) : bool :=
  match f with
  | NF6 =>
      if multihop then false
      else if nonempty iface then true
      else if String.eqb asn "internal" then false
      else if String.eqb asn "external" then true
      else negb (String.eqb (dec myasn) asn)
  | _ => false
  end.

Definition second : N := 1000000000.

(* templates "neighborsession" + "neighborenableipfamily" *)
Definition render_nbr (router_asn : N) (n : nconf) : nbr :=
  let s := nc_s n in
  let f := nfam_of s in
  let act := Some (rm_in s, rm_out s) in
  mk_nbr (peer_tok s) (nonempty (s_iface s)) (asn_for s) (s_multihop s)
    (if N.eqb (s_port s) 0 then None else Some (s_port s))
    (match s_keep s, s_hold s with
     | Some k, Some h => Some ((k / second)%N, (h / second)%N)
     | _, _ => None
     end)
    (match s_connect s with
     | Some c => if N.eqb (c / second) 0 then None else Some (c / second)%N
     | None => None
     end)
    (if nonempty (s_password s) then Some (s_password s) else None)
    (match s_src s with Some a => if nonempty a then Some a else None | None => None end)
    (s_gr s)
    (if nonempty (s_bfd s) then Some (s_bfd s) else None)
    (if must_dcc f router_asn (asn_for s) (s_iface s) (s_multihop s) then Some (s_addr s) else None)
    (if activate "ipv4" f (s_disable_mp s) then act else None)
    (if activate "ipv6" f (s_disable_mp s) then act else None).

Definition router_opts : list string :=
  ["no bgp ebgp-requires-policy"; "no bgp network import-check";
   "no bgp default ipv4-unicast"; "bgp graceful-restart preserve-fw-state"].

Definition render_router (r : rconf) : rtr :=
  let f := rc_first r in
  mk_rtr (s_myasn f) (s_vrf f) router_opts
    (match s_rid f with Some i => if nonempty i then Some i else None | None => None end)
    (map (render_nbr (s_myasn f)) (rc_nbrs r)) (rc_p4 r) (rc_p6 r).

Definition filters_of (rs : list rconf) : list (seqspec * item) :=
  flat_map (fun r => flat_map neighbor_filters (rc_nbrs r)) rs.

Definition render (S : list session) : option frr :=          (* None = createConfig returns an error *)
  match create_config S with
  | None => None
  | Some rs => Some (mk_frr (number (filters_of rs) []) (map render_router rs))
  end.
