(* Model/Announcer.v with FAILING multicast joins (property C13, defect F30):
   ndpResponder.Watch returns before counting the watcher when conn.JoinGroup fails; since fix
   5ea1991 ndpResponder.Unwatch leaves the counter alone when it is <= 0.  Whether the join of a
   responder succeeds is an argument of the step ([jok intf], checked nondeterminism); LeaveGroup
   failures only produce an error message in Go and do not change the counters. *)
From Coq Require Export List NArith ZArith Bool.
From Verif Require Export Model.Announcer.
Export ListNotations.

(* ndpResponder.Watch with the outcome [ok] of JoinGroup (only asked for when the count is 0) *)
Definition watch1j (ok : bool) (i : ip) (gm : list ((N * N) * Z) * list ((N * N) * Z)) (intf : N) :=
  match sn_group i with
  | None => gm
  | Some g =>
      let c := zget pair_eqb (intf, g) (fst gm) in
      if (c =? 0)%Z
      then if ok then (zset (intf, g) (c + 1)%Z (fst gm), zset (intf, g) (zget pair_eqb (intf, g) (snd gm) + 1)%Z (snd gm))
           else gm                                   (* return err: nothing counted *)
      else (zset (intf, g) (c + 1)%Z (fst gm), snd gm)
  end.

(* ndpResponder.Unwatch since 5ea1991 *)
Definition unwatch1j (i : ip) (gm : list ((N * N) * Z) * list ((N * N) * Z)) (intf : N) :=
  match sn_group i with
  | None => gm
  | Some g =>
      let c := zget pair_eqb (intf, g) (fst gm) in
      if (c <=? 0)%Z then gm                         (* nothing to undo *)
      else let c' := (c - 1)%Z in
           (zset (intf, g) c' (fst gm),
            if (c' =? 0)%Z then zset (intf, g) (zget pair_eqb (intf, g) (snd gm) - 1)%Z (snd gm) else snd gm)
  end.

Definition inc1j (jok : N -> bool) (i : ip) (s : st) : st :=
  let c := (rc s i + 1)%Z in
  let gm := if (1 <? c)%Z then (groups s, member s)
            else fold_left (fun gm intf => watch1j (jok intf) i gm intf) (ndps s) (groups s, member s) in
  mk_st (ips s) (zset i c (refcnt s)) (arps s) (ndps s) (fst gm) (snd gm).

Definition dec1j (s : st) (i : ip) : st :=
  let c := (rc s i - 1)%Z in
  let gm := if (0 <? c)%Z then (groups s, member s)
            else fold_left (unwatch1j i) (ndps s) (groups s, member s) in
  mk_st (ips s) (zset i c (refcnt s)) (arps s) (ndps s) (fst gm) (snd gm).

Definition set_balancer_j (name : N) (a : adv) (jok : N -> bool) (s : st) : st :=
  let cur := cur_advs s name in
  if existsb (same_ip a) cur then with_ips s (insert name (override a cur) (ips s))
  else inc1j jok (a_ip a) (with_ips s (insert name (cur ++ [a]) (ips s))).

Definition delete_balancer_j (name : N) (s : st) : st :=
  match lookup name (ips s) with
  | None => s
  | Some advs => fold_left dec1j (map a_ip advs) (with_ips s (remove name (ips s)))
  end.

(* BEFORE the fix Unwatch decremented unconditionally: that is [unwatch1] / [delete_balancer] of Model/Announcer.v *)
Inductive updj := JSet (name : N) (a : adv) (jok : N -> bool) | JDel (name : N).
Definition apply_updj (s : st) (u : updj) : st :=
  match u with JSet n a jok => set_balancer_j n a jok s | JDel n => delete_balancer_j n s end.
Definition apply_updj_prefix (s : st) (u : updj) : st :=
  match u with JSet n a jok => set_balancer_j n a jok s | JDel n => delete_balancer n s end.
Definition runj (us : list updj) (s : st) : st := fold_left apply_updj us s.
Definition runj_prefix (us : list updj) (s : st) : st := fold_left apply_updj_prefix us s.
Definition erase (u : updj) : upd := match u with JSet n a _ => USet n a | JDel n => UDel n end.
(* every join of the history succeeded *)
Definition all_joined (nd : list N) (us : list updj) : bool :=
  forallb (fun u => match u with JSet _ _ jok => forallb jok nd | JDel _ => true end) us.
