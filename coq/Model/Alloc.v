(* Model of internal/allocator (allocator.go, allocation.go) and
   k8salloc.BackendKey / controller.SharingKey as the [skey] a request carries.

   State = configured pools + the map service -> allocation ([allocated]).  The
   Go allocator additionally keeps four maps derived from it (sharingKeyForIP,
   portsInUse, servicesOnIP, poolIP*InUse); here they are *functions* of
   [allocated] ([tenants], [check_sharing], [assigned]), i.e. the model is the
   "fresh rebuild" of the bookkeeping.  That the Go maps behave like these
   functions after every operation is what the correspondence run checks
   (check_sharing probe matrix and counters after every op).

   Map iteration order, sort.Slice on pinned pools and "which free address" are
   not computed: an allocation result observed on the implementation is an
   input validated by [allocate_spec] (checked nondeterminism). *)
From Coq Require Export List NArith ZArith Bool.
From Verif Require Export Model.Net.
Export ListNotations.
Local Open Scope N_scope.

Definition svc := N.
Definition poolid := N.

Record port := { proto : N; pnum : N }.
Definition port_eqb (a b : port) : bool := (proto a =? proto b) && (pnum a =? pnum b).

(* sharing key (annotation) and backend key; 0 encodes "" *)
Record skey := { sharing : N; backend : N }.

Record alloc := { a_pool : poolid; a_ips : list ip; a_ports : list port; a_key : skey }.

(* config.ServiceAllocation *)
Record pin := { prio : N; nss : list N; sels : list (list (N * N)) }.
Record pool := { p_name : poolid; p_cidrs : list prefix; p_avoid : bool; p_auto : bool;
                 p_pin : option pin }.
(* config.Pools: ByName (as a list; Go iterates the map in random order, so every
   result that depends on this order is required to be order independent),
   ByNamespace, ByServiceSelector *)
Record pools := { by_name : list pool; by_ns : list (N * list poolid); by_sel : list poolid }.

Inductive policy := Single | Prefer | Require.
Inductive sfam := S4 | S6 | SDual.
(* what the allocator reads from a Service *)
Record req := { r_ns : N; r_labels : list (N * N); r_fam : sfam; r_pol : policy;
                r_first6 : bool;            (* Spec.IPFamilies[0] == IPv6 *)
                r_ports : list port; r_key : skey }.

Record st := { s_pools : pools; allocated : list (svc * alloc) }.

Definition empty_pools : pools := {| by_name := []; by_ns := []; by_sel := [] |}.
Definition init : st := {| s_pools := empty_pools; allocated := [] |}.

(* ---------- small helpers ---------- *)
Definition mem_ip (x : ip) (l : list ip) : bool := existsb (ip_eqb x) l.
Definition mem_port (p : port) (l : list port) : bool := existsb (port_eqb p) l.
Definition memN (n : N) (l : list N) : bool := existsb (N.eqb n) l.
Definition ports_disjoint (a b : list port) : bool := forallb (fun p => negb (mem_port p b)) a.

Definition get_alloc (a : st) (s : svc) : option alloc :=
  option_map snd (find (fun e => fst e =? s) (allocated a)).
Definition remove_svc (s : svc) (l : list (svc * alloc)) : list (svc * alloc) :=
  filter (fun e => negb (fst e =? s)) l.
Definition find_pool (ps : pools) (n : poolid) : option pool :=
  find (fun p => p_name p =? n) (by_name ps).

(* ---------- pool membership ---------- *)
Definition in_pool (p : pool) (x : ip) : bool :=
  negb (p_avoid p && buggy x) && existsb (fun c => contains c x) (p_cidrs p).

(* poolFor: the first pool (in the given order) owning all the addresses *)
Definition pool_for (ps : list pool) (ips : list ip) : option pool :=
  find (fun p => forallb (in_pool p) ips) ps.

(* isPoolCompatibleWithService *)
Definition sel_matches (labels sel : list (N * N)) : bool :=
  forallb (fun kv => existsb (fun l => (fst l =? fst kv) && (snd l =? snd kv)) labels) sel.
Definition compatible (p : pool) (r : req) : bool :=
  match p_pin p with
  | None => true
  | Some pn =>
      (match nss pn with [] => true | l => memN (r_ns r) l end) &&
      (match sels pn with [] => true | l => existsb (sel_matches (r_labels r)) l end)
  end.

(* ---------- sharing ---------- *)
Definition sharing_ok (existing new : skey) : bool :=
  negb (sharing existing =? 0) && negb (sharing new =? 0) &&
  (sharing existing =? sharing new) && (backend existing =? backend new).

(* services currently holding address x (servicesOnIP[x]) *)
Definition tenants (a : st) (x : ip) : list (svc * alloc) :=
  filter (fun e => mem_ip x (a_ips (snd e))) (allocated a).

(* checkSharing(svc, ip, ports, key) == nil *)
Definition check_sharing (a : st) (s : svc) (x : ip) (ports : list port) (k : skey) : bool :=
  let ts := tenants a x in
  match ts with
  | [] => true
  | e0 :: _ =>
      (sharing_ok (a_key (snd e0)) k || forallb (fun e => fst e =? s) ts) &&
      forallb (fun e => (fst e =? s) || ports_disjoint ports (a_ports (snd e))) ts
  end.

(* ---------- Assign / Unassign ---------- *)
Inductive err := ENotInConfig | EPoolIncompatible | ETooMany | ESameFamily | ESharing | ENoIPs
               | EUnknownPool | EWrongFamily.
Inductive res := ROk (ips : list ip) | RErr (e : err) | RSpecMismatch.

Definition unassign (a : st) (s : svc) : st :=
  {| s_pools := s_pools a; allocated := remove_svc s (allocated a) |}.

Definition do_assign (a : st) (s : svc) (al : alloc) : st :=
  {| s_pools := s_pools a; allocated := (s, al) :: remove_svc s (allocated a) |}.

Definition same_family2 (ips : list ip) : bool :=
  match ips with [x; y] => fam_eqb (ip_fam x) (ip_fam y) | _ => false end.

Definition assign_check (a : st) (s : svc) (r : req) (ips : list ip) : pool + err :=
  match pool_for (by_name (s_pools a)) ips with
  | None => inr ENotInConfig
  | Some p =>
      if negb (compatible p r) then inr EPoolIncompatible
      else if (2 <? N.of_nat (length ips)) then inr ETooMany
      else if same_family2 ips then inr ESameFamily
      else if negb (forallb (fun x => check_sharing a s x (r_ports r) (r_key r)) ips) then inr ESharing
      else inl p
  end.

Definition assign (a : st) (s : svc) (r : req) (ips : list ip) : st * res :=
  match assign_check a s r ips with
  | inr e => (a, RErr e)
  | inl p => (do_assign a s {| a_pool := p_name p; a_ips := ips; a_ports := r_ports r; a_key := r_key r |}, ROk ips)
  end.

(* ---------- candidate pools ---------- *)
Definition usable_pinned (ps : pools) (r : req) (n : poolid) : option pool :=
  match find_pool ps n with
  | Some p => if p_auto p && compatible p r then Some p else None
  | None => None
  end.
Definition lookup_ns (ps : pools) (ns : N) : list poolid :=
  match find (fun e => fst e =? ns) (by_ns ps) with Some e => snd e | None => [] end.
Fixpoint omap {A B} (f : A -> option B) (l : list A) : list B :=
  match l with [] => [] | x :: r => match f x with Some y => y :: omap f r | None => omap f r end end.
(* pinnedPoolsForService before sortPools (as a multiset) *)
Definition pinned_pools (ps : pools) (r : req) : list pool :=
  omap (usable_pinned ps r) (lookup_ns ps (r_ns r)) ++ omap (usable_pinned ps r) (by_sel ps).
(* allPools in Allocate *)
Definition unpinned_pools (ps : pools) : list pool :=
  filter (fun p => p_auto p && match p_pin p with None => true | Some _ => false end) (by_name ps).
(* sort key of sortPools: smaller is tried first; priority 0 is last *)
Definition prio_key (p : pool) : N * N :=
  match p_pin p with
  | Some pn => if prio pn =? 0 then (1, 0) else (0, prio pn)
  | None => (1, 0)
  end.
Definition key_lt (a b : N * N) : bool := (fst a <? fst b) || ((fst a =? fst b) && (snd a <? snd b)).

Definition other_fam (f : fam) : fam := match f with F4 => F6 | F6 => F4 end.

(* ---------- free addresses ---------- *)
Definition addr_free (a : st) (s : svc) (r : req) (p : pool) (x : ip) : bool :=
  negb (p_avoid p && buggy x) && check_sharing a s x (r_ports r) (r_key r).

(* getIPFromCIDR: scan the block in ascending order *)
Fixpoint scan (fuel : nat) (f : fam) (cur : N) (ok : ip -> bool) : option ip :=
  match fuel with
  | O => None
  | S fuel' => if ok (mk_ip f cur) then Some (mk_ip f cur) else scan fuel' f (cur + 1) ok
  end.
Definition first_free_cidr (a : st) (s : svc) (r : req) (p : pool) (c : prefix) : option ip :=
  scan (N.to_nat (block c)) (pfam c) (pfirst c) (addr_free a s r p).
(* getFreeIPsFromPool, per family: the first CIDR of that family that has a free address *)
Fixpoint first_some {A B} (f : A -> option B) (l : list A) : option B :=
  match l with [] => None | x :: r => match f x with Some y => Some y | None => first_some f r end end.
Definition first_free (a : st) (s : svc) (r : req) (p : pool) (f : fam) : option ip :=
  first_some (fun c => if fam_eqb (pfam c) f then first_free_cidr a s r p c else None) (p_cidrs p).

(* selectIPsForFamilyAndPolicy on (first_free F4, first_free F6) *)
Definition select_ips (fm : sfam) (pol : policy) (v4 v6 : option ip) : option (list ip) :=
  match fm with
  | S4 => match v4 with Some x => Some [x] | None => None end   (* Go returns [nil]; Assign then fails *)
  | S6 => match v6 with Some x => Some [x] | None => None end
  | SDual =>
      match pol, v4, v6 with
      | Single, _, _ => None
      | Require, Some x, Some y => Some [x; y]
      | Require, _, _ => None
      | Prefer, Some x, Some y => Some [x; y]
      | Prefer, Some x, None => Some [x]
      | Prefer, None, Some y => Some [y]
      | Prefer, None, None => None
      end
  end.

(* what one pool offers a request: None = nothing usable *)
Definition pool_offer (a : st) (s : svc) (r : req) (p : pool) : option (list ip) :=
  select_ips (r_fam r) (r_pol r) (first_free a s r p F4) (first_free a s r p F6).

(* classes of findBestPoolForService: a pool is taken at once when it serves the
   single requested family or both families; under PreferDualStack a pool with
   only the primary (then only the secondary) family is a fall-back *)
Inductive offer_class := Full | PrimaryOnly | SecondaryOnly | Nothing.
Definition primary (r : req) : fam := if r_first6 r then F6 else F4.
Definition secondary (r : req) : fam := if r_first6 r then F4 else F6.
Definition has_free (a : st) (s : svc) (r : req) (p : pool) (f : fam) : bool :=
  match first_free a s r p f with Some _ => true | None => false end.
Definition classify (a : st) (s : svc) (r : req) (p : pool) : offer_class :=
  match r_fam r with
  | S4 => if has_free a s r p F4 then Full else Nothing
  | S6 => if has_free a s r p F6 then Full else Nothing
  | SDual =>
      match r_pol r with Single => Nothing | _ =>
      if has_free a s r p F4 && has_free a s r p F6 then Full
      else match r_pol r with
           | Prefer => if has_free a s r p (primary r) then PrimaryOnly
                       else if has_free a s r p (secondary r) then SecondaryOnly else Nothing
           | _ => Nothing
           end
      end
  end.
Definition class_eqb (x y : offer_class) : bool :=
  match x, y with Full, Full | PrimaryOnly, PrimaryOnly | SecondaryOnly, SecondaryOnly | Nothing, Nothing => true | _, _ => false end.
Definition class_rank (c : offer_class) : N :=
  match c with Full => 0 | PrimaryOnly => 1 | SecondaryOnly => 2 | Nothing => 3 end.

(* best class any pool of the list offers *)
Definition best_class (a : st) (s : svc) (r : req) (l : list pool) : offer_class :=
  fold_left (fun b p => if class_rank (classify a s r p) <? class_rank b then classify a s r p else b) l Nothing.

(* a list of addresses that selectIPsForFamilyAndPolicy may return for pool p,
   whichever free address of each family the scan picked *)
Definition offer_ok (a : st) (s : svc) (r : req) (p : pool) (ips : list ip) : bool :=
  forallb (fun x => in_pool p x && addr_free a s r p x) ips &&
  match r_fam r, ips with
  | S4, [x] => fam_eqb (ip_fam x) F4
  | S6, [x] => fam_eqb (ip_fam x) F6
  | SDual, [x; y] => fam_eqb (ip_fam x) F4 && fam_eqb (ip_fam y) F6 &&
                     match r_pol r with Single => false | _ => true end
  | SDual, [x] => match r_pol r with
                  | Prefer => negb (has_free a s r p (other_fam (ip_fam x)))
                  | _ => false
                  end
  | _, _ => false
  end.

(* choice of pool inside one candidate list [l] (pinned, or unpinned): the chosen
   pool offers the best class available in [l], and no pool of [l] with a
   strictly smaller sort key offers that class *)
Definition choice_ok_in (a : st) (s : svc) (r : req) (l : list pool) (p : pool) : bool :=
  existsb (fun q => p_name q =? p_name p) l &&
  class_eqb (classify a s r p) (best_class a s r l) &&
  negb (class_eqb (classify a s r p) Nothing) &&
  forallb (fun q => negb (key_lt (prio_key q) (prio_key p) && class_eqb (classify a s r q) (classify a s r p))) l.

(* Allocate without an existing allocation: relation between the state, the
   request and the result observed on the implementation *)
Definition allocate_spec (a : st) (s : svc) (r : req) (c : option (poolid * list ip)) : bool :=
  let pinned := pinned_pools (s_pools a) r in
  let unp := unpinned_pools (s_pools a) in
  match c with
  | None => class_eqb (best_class a s r pinned) Nothing && class_eqb (best_class a s r unp) Nothing
  | Some (pn, ips) =>
      match find_pool (s_pools a) pn with
      | None => false
      | Some p =>
          offer_ok a s r p ips &&
          (choice_ok_in a s r pinned p ||
           (class_eqb (best_class a s r pinned) Nothing && choice_ok_in a s r unp p))
      end
  end.

(* AllocateFromPool without an existing allocation *)
Definition from_pool_spec (a : st) (s : svc) (r : req) (pn : poolid) (c : option (list ip)) : bool :=
  match find_pool (s_pools a) pn, c with
  | None, None => true
  | None, Some _ => false
  | Some p, None => match pool_offer a s r p with None => true | Some _ => negb (compatible p r) end
  | Some p, Some ips => offer_ok a s r p ips && compatible p r
  end.

(* AllocateFromPoolForAdditionalFamily *)
Definition additional_spec (a : st) (s : svc) (r : req) (have : ip) (pn : poolid) (c : option ip) : bool :=
  match find_pool (s_pools a) pn with
  | None => match c with None => true | Some _ => false end
  | Some p =>
      match c with
      | Some x => fam_eqb (ip_fam x) (other_fam (ip_fam have)) && in_pool p x && addr_free a s r p x &&
                  match snd (assign a s r [have; x]) with ROk _ => true | _ => false end
      | None => negb (has_free a s r p (other_fam (ip_fam have))) ||
                match first_free a s r p (other_fam (ip_fam have)) with
                | Some x => match snd (assign a s r [have; x]) with ROk _ => false | _ => true end
                | None => true
                end
      end
  end.

(* ---------- operations ---------- *)
Definition alloc_fam (ips : list ip) : option sfam :=
  match ips with
  | [x] => Some (match ip_fam x with F4 => S4 | F6 => S6 end)
  | [x; y] => if fam_eqb (ip_fam x) (ip_fam y) then None else Some SDual
  | _ => None
  end.
Definition sfam_eqb (x y : sfam) : bool :=
  match x, y with S4, S4 | S6, S6 | SDual, SDual => true | _, _ => false end.

Fixpoint ips_eqb (a b : list ip) : bool :=
  match a, b with
  | [], [] => true
  | x :: a', y :: b' => ip_eqb x y && ips_eqb a' b'
  | _, _ => false
  end.

Inductive op :=
  | OAssign (s : svc) (r : req) (ips : list ip)
  | OUnassign (s : svc)
  | OAllocate (s : svc) (r : req) (choice : option (poolid * list ip))
  | OAllocateFromPool (s : svc) (r : req) (p : poolid) (choice : option (list ip))
  | OAdditional (s : svc) (r : req) (have : ip) (p : poolid) (choice : option ip)
  | OSetPools (ps : pools).

(* SetPools: every allocation is re-homed to the pool that now owns its addresses
   or dropped; independent of the order in which services are visited *)
Definition rehome (ps : pools) (e : svc * alloc) : option (svc * alloc) :=
  match pool_for (by_name ps) (a_ips (snd e)) with
  | None => None
  | Some p => Some (fst e, {| a_pool := p_name p; a_ips := a_ips (snd e); a_ports := a_ports (snd e); a_key := a_key (snd e) |})
  end.
Definition set_pools (a : st) (ps : pools) : st :=
  {| s_pools := ps; allocated := omap (rehome ps) (allocated a) |}.

Definition step (a : st) (o : op) : st * res :=
  match o with
  | OAssign s r ips => assign a s r ips
  | OUnassign s => (unassign a s, ROk [])
  | OAllocate s r c =>
      match get_alloc a s with
      | Some al => match assign a s r (a_ips al) with
                   | (a', ROk _) => match c with Some (_, ips) => if ips_eqb ips (a_ips al) then (a', ROk ips) else (a, RSpecMismatch) | None => (a, RSpecMismatch) end
                   | (a', e) => match c with None => (a', e) | Some _ => (a, RSpecMismatch) end
                   end
      | None =>
          if allocate_spec a s r c then
            match c with
            | None => (a, RErr ENoIPs)
            | Some (_, ips) => match assign a s r ips with (a', ROk i) => (a', ROk i) | _ => (a, RSpecMismatch) end
            end
          else (a, RSpecMismatch)
      end
  | OAllocateFromPool s r pn c =>
      match get_alloc a s with
      | Some al =>
          match alloc_fam (a_ips al) with
          | None => match c with None => (a, RErr EWrongFamily) | Some _ => (a, RSpecMismatch) end
          | Some f =>
              if negb (match r_pol r with Prefer => true | _ => false end) && negb (sfam_eqb f (r_fam r))
              then match c with None => (a, RErr EWrongFamily) | Some _ => (a, RSpecMismatch) end
              else match assign a s r (a_ips al) with
                   | (a', ROk _) => match c with Some ips => if ips_eqb ips (a_ips al) then (a', ROk ips) else (a, RSpecMismatch) | None => (a, RSpecMismatch) end
                   | (a', e) => match c with None => (a', e) | Some _ => (a, RSpecMismatch) end
                   end
          end
      | None =>
          if from_pool_spec a s r pn c then
            match c with
            | None => (a, RErr ENoIPs)
            | Some ips => match assign a s r ips with (a', ROk i) => (a', ROk i) | _ => (a, RSpecMismatch) end
            end
          else (a, RSpecMismatch)
      end
  | OAdditional s r have pn c =>
      if additional_spec a s r have pn c then
        match c with
        | None => (a, RErr ENoIPs)
        | Some x => match assign a s r [have; x] with (a', ROk _) => (a', ROk [x]) | _ => (a, RSpecMismatch) end
        end
      else (a, RSpecMismatch)
  | OSetPools ps => (set_pools a ps, ROk [])
  end
.

(* ---------- pool usage counters (poolCount, updatePoolStats, CountersForPool) ---------- *)
Local Open Scope Z_scope.
Definition max_i64 : Z := 2 ^ 63 - 1.
Definition sat_add (x y : Z) : Z := Z.min max_i64 (x + y).
Definition b2z (b : bool) : Z := if b then 1 else 0.

(* number of usable addresses of one CIDR as poolCount computes it; None = the
   "enormous IPv6 range" case (62 or more host bits) *)
Definition cidr_count (avoid : bool) (c : prefix) : option Z :=
  let hb := (width (pfam c) - plen c)%N in
  if (62 <=? hb)%N then None
  else
    let sz := 2 ^ Z.of_N hb in
    let first := mk_ip (pfam c) (pfirst c) in
    let last := mk_ip (pfam c) (plast c) in
    Some (if avoid && fam_eqb (pfam c) F4 then
            if (plen c <=? 24)%N then sz - 2 * 2 ^ Z.of_N (24 - plen c)
            else sz - b2z (buggy first) - (if (pfirst c =? plast c)%N then 0 else b2z (buggy last))
          else sz).

(* per-family capacity with saturation at MaxInt64 *)
Definition pool_capacity (p : pool) (f : fam) : Z :=
  fold_left (fun acc c => if fam_eqb (pfam c) f then
                            match cidr_count (p_avoid p) c with None => max_i64 | Some n => sat_add acc n end
                          else acc) (p_cidrs p) 0.

(* distinct addresses of family f recorded in use under pool name n *)
Fixpoint dedup_ips (l : list ip) : list ip :=
  match l with [] => [] | x :: r => if mem_ip x r then dedup_ips r else x :: dedup_ips r end.
Definition ips_in_use (a : st) (n : poolid) : list ip :=
  dedup_ips (flat_map (fun e => if (a_pool (snd e) =? n)%N then a_ips (snd e) else []) (allocated a)).
Definition assigned (a : st) (n : poolid) (f : fam) : Z :=
  Z.of_nat (length (filter (fun x => fam_eqb (ip_fam x) f) (ips_in_use a n))).

Record counters := { c_assigned4 : Z; c_assigned6 : Z; c_avail4 : Z; c_avail6 : Z }.
Definition counters_for (a : st) (n : poolid) : counters :=
  match find_pool (s_pools a) n with
  | None => {| c_assigned4 := 0; c_assigned6 := 0; c_avail4 := 0; c_avail6 := 0 |}
  | Some p => {| c_assigned4 := assigned a n F4; c_assigned6 := assigned a n F6;
                 c_avail4 := pool_capacity p F4 - assigned a n F4;
                 c_avail6 := pool_capacity p F6 - assigned a n F6 |}
  end.

(* the pre-fix arithmetic of poolCount (int64 wrap-around, the same boundary
   address subtracted twice for a /32): kept for the regression lemmas F3/F16 *)
Definition wrap64 (z : Z) : Z := (z + 2 ^ 63) mod 2 ^ 64 - 2 ^ 63.
Definition cidr_count_prefix (avoid : bool) (c : prefix) : option Z :=
  let hb := (width (pfam c) - plen c)%N in
  if (62 <=? hb)%N then None
  else
    let sz := 2 ^ Z.of_N hb in
    let first := mk_ip (pfam c) (pfirst c) in
    let last := mk_ip (pfam c) (plast c) in
    Some (if avoid && fam_eqb (pfam c) F4 then
            if (plen c <=? 24)%N then sz - 2 * 2 ^ Z.of_N (24 - plen c)
            else sz - b2z (buggy first) - b2z (buggy last)
          else sz).
Definition pool_capacity_prefix (p : pool) (f : fam) : Z :=
  fold_left (fun acc c => if fam_eqb (pfam c) f then
                            match cidr_count_prefix (p_avoid p) c with None => max_i64 | Some n => wrap64 (acc + n) end
                          else acc) (p_cidrs p) 0.
