(* The memoising, level-triggered reconcilers of internal/k8s/controllers, as a state machine.
   Transcribed from
     config_controller.go requestHandler (ConfigReconciler):  list everything, cfg := toConfig;
        on a render error return nil (no requeue); if currentConfig != nil && DeepEqual skip;
        currentConfig = cfg; res := Handler(cfg);  Error -> currentConfig = nil, return errRetry;
        ReprocessAll -> ForceReload();  ErrorNoRetry -> return nil
     pool_controller.go Reconcile (PoolReconciler):  list pools/communities/namespaces, cfg := toConfig;
        render error -> return nil; if DeepEqual(currentConfig, cfg) skip; res := Handler(cfg.Pools);
        Error -> return errRetry;  ReprocessAll -> ForceReload();  ErrorNoRetry -> return nil;
        currentConfig = cfg        (only reached for Success / ReprocessAll)
   One step = one Reconcile call.  Inputs: what the CURRENT cluster state renders to ([Some c] or
   [None] = toConfig fails) and the answer the handler gives if it is called.  Outputs: was the
   handler called and with what, is the request requeued, was ForceReload called.
   [C] is the configuration type with decidable equality [ceq] (reflect.DeepEqual).
   Not in the model: which requests the event sources enqueue (predicates), failures of the API
   List calls (they return the error = requeue, before anything else happens). *)
From Coq Require Export List Bool.
Export ListNotations.

Inductive hres := HSuccess | HReprocessAll | HError | HErrorNoRetry.
Definition hres_eqb (a b : hres) : bool :=
  match a, b with
  | HSuccess, HSuccess | HReprocessAll, HReprocessAll | HError, HError | HErrorNoRetry, HErrorNoRetry => true
  | _, _ => false
  end.

Section R.
  Context (C : Type) (ceq : C -> C -> bool).

  Record out := { o_called : option C; o_requeue : bool; o_reload : bool }.
  Definition quiet : out := {| o_called := None; o_requeue := false; o_reload := false |}.

  Definition same (m : option C) (c : C) : bool := match m with Some o => ceq o c | None => false end.

  (* [pool] = PoolReconciler, otherwise ConfigReconciler; the state is the memo currentConfig *)
  Definition rstep (pool : bool) (memo : option C) (rendered : option C) (h : hres) : option C * out :=
    match rendered with
    | None => (memo, quiet)
    | Some c =>
        if same memo c then (memo, quiet)
        else
          let o r l := {| o_called := Some c; o_requeue := r; o_reload := l |} in
          match h with
          | HError => ((if pool then memo else None), o true false)
          | HErrorNoRetry => ((if pool then memo else Some c), o false false)
          | HReprocessAll => (Some c, o false true)
          | HSuccess => (Some c, o false false)
          end
    end.

  (* a history: the memo, the configuration last GIVEN to the handler, the one it last ACCEPTED
     (answered Success / ReprocessAll to) *)
  Record hist := { h_memo : option C; h_given : option C; h_accepted : option C }.
  Definition hinit : hist := {| h_memo := None; h_given := None; h_accepted := None |}.
  Definition hstep (pool : bool) (s : hist) (ev : option C * hres) : hist * out :=
    let '(m, o) := rstep pool (h_memo s) (fst ev) (snd ev) in
    ({| h_memo := m;
        h_given := match o_called o with Some c => Some c | None => h_given s end;
        h_accepted := match o_called o, snd ev with
                      | Some c, (HSuccess | HReprocessAll) => Some c
                      | _, _ => h_accepted s
                      end |}, o).
  Definition hrun (pool : bool) (evs : list (option C * hres)) (s : hist) : hist :=
    fold_left (fun s ev => fst (hstep pool s ev)) evs s.
  Fixpoint outs (pool : bool) (evs : list (option C * hres)) (s : hist) : list out :=
    match evs with
    | [] => []
    | ev :: r => let '(s', o) := hstep pool s ev in o :: outs pool r s'
    end.
End R.
Arguments o_called {C}. Arguments o_requeue {C}. Arguments o_reload {C}. Arguments quiet {C}.
Arguments same {C}. Arguments rstep {C}. Arguments h_memo {C}. Arguments h_given {C}. Arguments h_accepted {C}.
Arguments hinit {C}. Arguments hstep {C}. Arguments hrun {C}. Arguments outs {C}.
