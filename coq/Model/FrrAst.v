(* FrrAst — abstract syntax of the part of an FRR configuration text that
   internal/bgp/frr/templates/*.tmpl can emit, and the input (sessions) of
   internal/bgp/frr/frr.go createConfig.

   Deviation from DESIGN appendix A, on purpose: the filter part is kept FLAT,
   one [item] per emitted `route-map` entry / `prefix-list` line, in text order
   (closest to the text; tools/frrparse.py is then a line parser and FrrRender a
   transcription of the templates).  Names are the very strings Go concatenates.

   A prefix is its text (what Go compares and sorts: adv.Prefix.String()) together
   with the Net.prefix it denotes; generators use canonical (masked) prefixes, so
   text equality = prefix equality (stated as [wf_pfx] where it matters). *)
From Coq Require Export String NArith Bool List.
From Verif Require Export Model.Net.
Export ListNotations.
Open Scope string_scope.

Inductive afi := A4 | A6.
Definition afi_eqb (a b : afi) : bool := match a, b with A4, A4 | A6, A6 => true | _, _ => false end.
Definition afi_of_fam (f : fam) : afi := match f with F4 => A4 | F6 => A6 end.

Record pfx := mk_pfx { p_text : string; p_net : prefix }.
Definition pfx_afi (p : pfx) : afi := afi_of_fam (pfam (p_net p)).
Definition pfx_eqb (a b : pfx) : bool := String.eqb (p_text a) (p_text b).

(* ---- input of createConfig: bgp.SessionParameters + advertised ---- *)
Record adv := mk_adv {
  a_pfx : pfx;
  a_lp : N;                          (* LocalPref, 0 = unset *)
  a_comms : list (bool * string)     (* community.IsLarge(c), c.String() — in the order of adv.Communities *)
}.

Inductive nfam := NF4 | NF6 | NFDual.   (* ipfamily.Family of a neighbor: "ipv4" "ipv6" "dual" *)

Record session := mk_session {
  s_myasn : N;
  s_rid : option string;             (* RouterID.String() when RouterID != nil *)
  s_vrf : string;
  s_addr : string;                   (* PeerAddress *)
  s_addr4 : bool;                    (* net.ParseIP(PeerAddress).To4() != nil *)
  s_iface : string;                  (* PeerInterface *)
  s_peerasn : N;
  s_dynasn : string;                 (* DynamicASN: "" "internal" "external" *)
  s_src : option string;             (* SourceAddress.String() when != nil *)
  s_port : N;
  s_hold : option N;                 (* nanoseconds *)
  s_keep : option N;
  s_connect : option N;
  s_password : string;
  s_bfd : string;
  s_gr : bool;
  s_multihop : bool;
  s_disable_mp : bool;
  s_advs : list adv;
  s_secret : string * string         (* PasswordRef: name, namespace (frr-k8s mode only) *)
}.

(* ---- AST of the text ---- *)
Inductive setc := SetLP (n : N) | SetComm (c : string) | SetLComm (c : string).

Inductive item :=
  | IRm (name : string) (seq : N) (permit : bool)
        (matches : list (afi * string)) (sets : list setc) (next : bool)
  | IPl (a : afi) (name : string) (seq : N) (permit : bool) (p : option pfx).   (* None = any *)

Record nbr := mk_nbr {
  n_peer : string;                   (* the token after `neighbor`: address or interface *)
  n_iface : bool;                    (* `interface` keyword on the remote-as line *)
  n_asn : string;                    (* remote-as argument *)
  n_multihop : bool;
  n_port : option N;
  n_timers : option (N * N);         (* keepalive hold *)
  n_connect : option N;
  n_password : option string;
  n_src : option string;
  n_gr : bool;
  n_bfd : option string;             (* `bfd` + `bfd profile X` *)
  n_dcc : option string;             (* `neighbor X disable-connected-check`: the X written *)
  n_act4 : option (string * string); (* activated in ipv4 unicast: in / out route-map names *)
  n_act6 : option (string * string)
}.

Record rtr := mk_rtr {
  r_asn : N;
  r_vrf : string;
  r_opts : list string;              (* the fixed option lines of the router block *)
  r_id : option string;
  r_nbrs : list nbr;
  r_net4 : list pfx;
  r_net6 : list pfx
}.

Record frr := mk_frr { items : list item; routers : list rtr }.

(* ---- equality tests used by the correspondence ---- *)
Definition opt_eqb {A} (eqb : A -> A -> bool) (a b : option A) : bool :=
  match a, b with
  | None, None => true
  | Some x, Some y => eqb x y
  | _, _ => false
  end.
Fixpoint list_eqb {A} (eqb : A -> A -> bool) (a b : list A) : bool :=
  match a, b with
  | [], [] => true
  | x :: a', y :: b' => eqb x y && list_eqb eqb a' b'
  | _, _ => false
  end.
Definition pair_eqb {A B} (ea : A -> A -> bool) (eb : B -> B -> bool) (a b : A * B) : bool :=
  ea (fst a) (fst b) && eb (snd a) (snd b).

Definition pfx_full_eqb (a b : pfx) : bool :=
  String.eqb (p_text a) (p_text b) && prefix_eqb (p_net a) (p_net b).

Definition setc_eqb (a b : setc) : bool :=
  match a, b with
  | SetLP x, SetLP y => N.eqb x y
  | SetComm x, SetComm y => String.eqb x y
  | SetLComm x, SetLComm y => String.eqb x y
  | _, _ => false
  end.

Definition item_eqb (a b : item) : bool :=
  match a, b with
  | IRm n s p m st nx, IRm n' s' p' m' st' nx' =>
      String.eqb n n' && N.eqb s s' && Bool.eqb p p' &&
      list_eqb (pair_eqb afi_eqb String.eqb) m m' && list_eqb setc_eqb st st' && Bool.eqb nx nx'
  | IPl a n s p x, IPl a' n' s' p' x' =>
      afi_eqb a a' && String.eqb n n' && N.eqb s s' && Bool.eqb p p' && opt_eqb pfx_full_eqb x x'
  | _, _ => false
  end.

Definition nbr_eqb (a b : nbr) : bool :=
  String.eqb (n_peer a) (n_peer b) && Bool.eqb (n_iface a) (n_iface b) && String.eqb (n_asn a) (n_asn b) &&
  Bool.eqb (n_multihop a) (n_multihop b) && opt_eqb N.eqb (n_port a) (n_port b) &&
  opt_eqb (pair_eqb N.eqb N.eqb) (n_timers a) (n_timers b) && opt_eqb N.eqb (n_connect a) (n_connect b) &&
  opt_eqb String.eqb (n_password a) (n_password b) && opt_eqb String.eqb (n_src a) (n_src b) &&
  Bool.eqb (n_gr a) (n_gr b) && opt_eqb String.eqb (n_bfd a) (n_bfd b) && opt_eqb String.eqb (n_dcc a) (n_dcc b) &&
  opt_eqb (pair_eqb String.eqb String.eqb) (n_act4 a) (n_act4 b) &&
  opt_eqb (pair_eqb String.eqb String.eqb) (n_act6 a) (n_act6 b).

Definition rtr_eqb (a b : rtr) : bool :=
  N.eqb (r_asn a) (r_asn b) && String.eqb (r_vrf a) (r_vrf b) && list_eqb String.eqb (r_opts a) (r_opts b) &&
  opt_eqb String.eqb (r_id a) (r_id b) && list_eqb nbr_eqb (r_nbrs a) (r_nbrs b) &&
  list_eqb pfx_full_eqb (r_net4 a) (r_net4 b) && list_eqb pfx_full_eqb (r_net6 a) (r_net6 b).

Definition frr_eqb (a b : frr) : bool :=
  list_eqb item_eqb (items a) (items b) && list_eqb rtr_eqb (routers a) (routers b).
