(* FrrSem — the route-map / prefix-list semantics assumed of FRR (H-frr, DESIGN
   section 3.9) on the AST of FrrAst.v, and what a session set INTENDS each
   neighbor to be offered (read from the property statement, not from the code).

   prefix-list (afi, name): the lines with that afi and name in sequence order
   (= text order; C14_seq_increasing), first matching line decides, `any`
   matches everything, a prefix line matches exactly that prefix, no matching
   line = deny; `match ip address prefix-list` never matches an IPv6 route and
   vice versa.  A referenced list without any line is governed by the
   parameter [um] (undefined list matches?).
   route-map name: its entries in sequence order; an entry matches when all its
   match clauses do; deny => rejected; permit => sets applied (`additive`
   community = union, local-preference overwritten), then stop, unless
   `on-match next`: continue with the next entry; when the end of the map is
   reached after a matched `on-match next` entry the result is governed by the
   parameter [ft] (fall-through permits?); otherwise the implicit deny.
   Theorems hold for all four combinations of [ft], [um]. *)
From Verif Require Export Model.FrrAst.
Open Scope string_scope.

Record attrs := mk_attrs { at_lp : option N; at_comm : list string; at_lcomm : list string }.
Definition no_attrs : attrs := mk_attrs None [] [].

Definition mem_s (c : string) (l : list string) : bool := existsb (String.eqb c) l.
Definition add_s (c : string) (l : list string) : list string := if mem_s c l then l else l ++ [c].

Definition apply_set (a : attrs) (s : setc) : attrs :=
  match s with
  | SetLP n => mk_attrs (Some n) (at_comm a) (at_lcomm a)
  | SetComm c => mk_attrs (at_lp a) (add_s c (at_comm a)) (at_lcomm a)
  | SetLComm c => mk_attrs (at_lp a) (at_comm a) (add_s c (at_lcomm a))
  end.

Section Sem.
  Variables (ft um : bool) (c : frr).

  Definition pl_lines (a : afi) (name : string) : list (bool * option pfx) :=
    flat_map (fun it => match it with
                        | IPl a' n _ pm p => if afi_eqb a a' && String.eqb n name then [(pm, p)] else []
                        | _ => []
                        end) (items c).

  Definition line_matches (route : pfx) (l : bool * option pfx) : bool :=
    match snd l with None => true | Some q => pfx_eqb q route end.

  Definition pl_eval (ls : list (bool * option pfx)) (route : pfx) : bool :=
    match find (line_matches route) ls with Some l => fst l | None => false end.

  Definition match_ok (route : pfx) (m : afi * string) : bool :=
    if afi_eqb (fst m) (pfx_afi route) then
      match pl_lines (fst m) (snd m) with
      | [] => um
      | ls => pl_eval ls route
      end
    else false.

  Record rme := mk_rme { rm_permit : bool; rm_match : list (afi * string); rm_sets : list setc; rm_next : bool }.

  Definition rm_entries (name : string) : list rme :=
    flat_map (fun it => match it with
                        | IRm n _ pm m st nx => if String.eqb n name then [mk_rme pm m st nx] else []
                        | _ => []
                        end) (items c).

  Fixpoint eval_rm (es : list rme) (route : pfx) (acc : attrs) (fell : bool) : option attrs :=
    match es with
    | [] => if fell && ft then Some acc else None
    | e :: rest =>
        if forallb (match_ok route) (rm_match e) then
          if rm_permit e then
            let acc' := fold_left apply_set (rm_sets e) acc in
            if rm_next e then eval_rm rest route acc' true else Some acc'
          else None
        else eval_rm rest route acc fell
    end.

  Definition find_nbr (vrf peer : string) : option (rtr * nbr) :=
    match find (fun r => String.eqb (r_vrf r) vrf) (routers c) with
    | None => None
    | Some r => match find (fun n => String.eqb (n_peer n) peer) (r_nbrs r) with
                | None => None
                | Some n => Some (r, n)
                end
    end.

  Definition activation (n : nbr) (a : afi) : option (string * string) :=
    match a with A4 => n_act4 n | A6 => n_act6 n end.

  (* what the neighbor [peer] of the router in [vrf] is offered for [route]:
     None = nothing (rejected / not activated for that family / no such neighbor) *)
  Definition sem_out (vrf peer : string) (route : pfx) : option attrs :=
    match find_nbr vrf peer with
    | None => None
    | Some (_, n) =>
        match activation n (pfx_afi route) with
        | None => None
        | Some (_, outmap) => eval_rm (rm_entries outmap) route no_attrs false
        end
    end.

  (* is [route], received from the neighbor, accepted? *)
  Definition sem_in (vrf peer : string) (route : pfx) : bool :=
    match find_nbr vrf peer with
    | None => false
    | Some (_, n) =>
        match activation n (pfx_afi route) with
        | None => false
        | Some (inmap, _) =>
            match eval_rm (rm_entries inmap) route no_attrs false with Some _ => true | None => false end
        end
    end.

  (* what the router of [vrf] originates *)
  Definition sem_networks (vrf : string) (a : afi) : list pfx :=
    match find (fun r => String.eqb (r_vrf r) vrf) (routers c) with
    | None => []
    | Some r => match a with A4 => r_net4 r | A6 => r_net6 r end
    end.
End Sem.

(* every list a route-map references has at least one line *)
Definition lists_defined_b (c : frr) : bool :=
  forallb (fun it => match it with
                     | IRm _ _ _ m _ _ =>
                         forallb (fun x => match pl_lines c (fst x) (snd x) with [] => false | _ => true end) m
                     | _ => true
                     end) (items c).

(* sequence numbers of the lines of each list / the entries of each route-map
   increase strictly in text order *)
Fixpoint increasing (l : list N) : bool :=
  match l with
  | [] => true
  | x :: r => match r with [] => true | y :: _ => N.ltb x y && increasing r end
  end.
Definition pl_seqs (c : frr) (a : afi) (name : string) : list N :=
  flat_map (fun it => match it with
                      | IPl a' n s _ _ => if afi_eqb a a' && String.eqb n name then [s] else []
                      | _ => [] end) (items c).
Definition rm_seqs (c : frr) (name : string) : list N :=
  flat_map (fun it => match it with
                      | IRm n s _ _ _ _ => if String.eqb n name then [s] else []
                      | _ => [] end) (items c).
Definition seqs_increasing_b (c : frr) : bool :=
  forallb (fun it => match it with
                     | IRm n _ _ _ _ _ => increasing (rm_seqs c n)
                     | IPl a n _ _ _ => increasing (pl_seqs c a n)
                     end) (items c).

(* ---------- intended ---------- *)
(* the peer's own family; for a neighbor peered by interface (BGP unnumbered)
   the session runs over the IPv6 link-local address *)
Definition own_afi (s : session) : afi :=
  if negb (String.eqb (s_iface s) "") then A6 else if s_addr4 s then A4 else A6.

(* "per-family activation": all families, with DisableMP only the peer's own *)
Definition act_intended (s : session) (a : afi) : bool :=
  negb (s_disable_mp s) || afi_eqb (own_afi s) a.

Definition comm_texts (large : bool) (a : adv) : list string :=
  map snd (filter (fun x => Bool.eqb (fst x) large) (a_comms a)).

Definition intended (s : session) (route : pfx) : option attrs :=
  if act_intended s (pfx_afi route) then
    match filter (fun a => pfx_eqb (a_pfx a) route) (s_advs s) with
    | [] => None
    | a :: rest =>
        Some (mk_attrs (if N.eqb (a_lp a) 0 then None else Some (a_lp a))
                       (fold_right add_s [] (flat_map (comm_texts false) (a :: rest)))
                       (fold_right add_s [] (flat_map (comm_texts true) (a :: rest))))
    end
  else None.

Definition same_set (l1 l2 : list string) : Prop := forall x, In x l1 <-> In x l2.
Definition attrs_equiv (x y : option attrs) : Prop :=
  match x, y with
  | None, None => True
  | Some a, Some b => at_lp a = at_lp b /\ same_set (at_comm a) (at_comm b) /\ same_set (at_lcomm a) (at_lcomm b)
  | _, _ => False
  end.

Definition subset_b (l1 l2 : list string) : bool := forallb (fun x => mem_s x l2) l1.
Definition attrs_equiv_b (x y : option attrs) : bool :=
  match x, y with
  | None, None => true
  | Some a, Some b => opt_eqb N.eqb (at_lp a) (at_lp b) &&
                      subset_b (at_comm a) (at_comm b) && subset_b (at_comm b) (at_comm a) &&
                      subset_b (at_lcomm a) (at_lcomm b) && subset_b (at_lcomm b) (at_lcomm a)
  | _, _ => false
  end.
