(* Executable transcription of the selection algorithm of Allocator.Allocate:
   sortPools (sort.Slice = insertionSort for <= 12 elements, with sortPools'
   comparator), findBestPoolForService, getFreeIPsFromPool /
   selectIPsForFamilyAndPolicy (the latter two are [pool_offer] of Model/Alloc.v).
   Proofs/AllocSortP.v and Proofs/AllocRefP.v prove that it refines
   [allocate_spec]; Corr/Run_Alloc.v runs it next to the implementation. *)
From Coq Require Import List NArith Bool.
From Verif Require Import Model.Net Model.Alloc.
Import ListNotations.
Local Open Scope N_scope.

(* ServiceAllocations.Priority of a pinned pool *)
Definition prio_of (p : pool) : N := match p_pin p with Some pn => prio pn | None => 0 end.

(* the comparator passed to sort.Slice in sortPools *)
Definition go_less (p q : pool) : bool :=
  if (0 <? prio_of p) && (0 <? prio_of q) then prio_of p <? prio_of q
  else if (prio_of p =? 0) && (0 <? prio_of q) then false
  else true.

(* insertionSort(data, a, b): for i := a+1; i < b; i++ { for j := i; j > a && less(j, j-1); j-- { swap(j, j-1) } }
   [acc] is the already sorted prefix, REVERSED (its head is data[i-1]) *)
Fixpoint ins_rev (less : pool -> pool -> bool) (x : pool) (acc : list pool) : list pool :=
  match acc with
  | [] => [x]
  | e :: r => if less x e then e :: ins_rev less x r else x :: e :: r
  end.
Definition isort (less : pool -> pool -> bool) (l : list pool) : list pool :=
  rev (fold_left (fun acc x => ins_rev less x acc) l []).

Section Ref.
Variables (a : st) (s : svc) (r : req).

(* findBestPoolForService: first pool offering everything wanted; under
   PreferDualStack the first pool with the primary family, then the first with
   the secondary family, are remembered as fall-backs *)
Fixpoint find_best (l : list pool) (pc sc : option pool) : option pool :=
  match l with
  | [] => match pc with Some p => Some p | None => sc end
  | p :: rest =>
      match classify a s r p with
      | Full => Some p
      | PrimaryOnly => find_best rest (match pc with None => Some p | _ => pc end) sc
      | SecondaryOnly => find_best rest pc (match sc with None => Some p | _ => sc end)
      | Nothing => find_best rest pc sc
      end
  end.

Definition alloc_from (l : list pool) : option (poolid * list ip) :=
  match find_best l None None with
  | Some p => option_map (fun ips => (p_name p, ips)) (pool_offer a s r p)
  | None => None
  end.

(* Allocate without an existing allocation: pinned pools (sorted), then the unpinned ones *)
Definition allocate_ref (pinned_sorted unp : list pool) : option (poolid * list ip) :=
  match alloc_from pinned_sorted with
  | Some c => Some c
  | None => alloc_from unp
  end.
End Ref.

(* the map-iteration order is not observable, so the reference is run on the
   orders that put the pool the implementation chose where the sort favours it:
   in front (insertionSort keeps equal positive priorities in input order) or at
   the end (sortPools' comparator says less(x, y) = true for two priority-0
   pools, so the LAST priority-0 pool of the input ends up first among them) *)
Definition prefer (pn : poolid) (l : list pool) : list pool :=
  filter (fun p => p_name p =? pn) l ++ filter (fun p => negb (p_name p =? pn)) l.
Definition prefer_last (pn : poolid) (l : list pool) : list pool :=
  filter (fun p => negb (p_name p =? pn)) l ++ filter (fun p => p_name p =? pn) l.

Definition allocate_ref_with (a : st) (s : svc) (r : req) (f : list pool -> list pool) : option (poolid * list ip) :=
  allocate_ref a s r (isort go_less (f (pinned_pools (s_pools a) r))) (f (unpinned_pools (s_pools a))).
