(* Model of the BGP side of the speaker: speaker/bgp_controller.go
     hasHealthyEndpoint, bgpController.ShouldAnnounce, poolMatchesNodeBGP      (C10)
     SetBalancer (svcAds), updateAds / publishAds / adsForPeer,
     notifyAdsChanged (activeAds), DeleteBalancer, syncPeers, SetConfig (peer
     diffing), SetNode, PeersForService                                        (C05)
   internal/bgp/bgp.go Advertisement.MatchesPeer, internal/k8s/epslices
   EndpointCanServe, internal/k8s/nodes IsNetworkUnavailable /
   IsNodeExcludedFromBalancers (as the two flags of the node, a nil node = no flag).

   Names (services, peers, nodes, label keys/values, communities, endpoint
   addresses) are numbers assigned by the harness.  Go maps are total functions
   N -> option _ plus a key list where Go iterates (the key list may repeat
   keys and keep deleted ones; every iteration looks the key up, so the result
   is the same multiset up to repetition, and observables are compared as sets).
   NewSession / Session.Set / Close never fail (the recording session manager
   of the harness); BFD profiles and BGPExtras are not modelled.

   [close_republish] is the behaviour after commit "fix: republish BGP
   advertisements after closing sessions" (F12): true = the current code. *)
From Coq Require Export List NArith Bool.
From Verif Require Export Model.Net Model.Elect.
Export ListNotations.
Local Open Scope N_scope.

(* ------------------------------------------------------------------ C10 *)

(* one endpoint-slice entry: conditions, node name, addresses *)
Record bep := { be_ready : option bool; be_serving : option bool;
                be_node : option N; be_addrs : list N }.

(* epslices.EndpointCanServe *)
Definition bcan_serve (e : bep) : bool :=
  match be_ready e with
  | None | Some true => true
  | Some false => match be_serving e with Some true => true | _ => false end
  end.

Definition upd {A} (f : N -> A) (k : N) (v : A) : N -> A :=
  fun k' => if k' =? k then v else f k'.

(* the body of the innermost loop of hasHealthyEndpoint for one (entry, address) *)
Definition hstep (st : (N -> option bool) * list N) (ca : bool * N) : (N -> option bool) * list N :=
  let '(m, keys) := st in
  let '(c, a) := ca in
  let m1 := match m a with
            | None => if c then upd m a (Some true) else m
            | Some _ => m
            end in
  let m2 := if c then m1 else upd m1 a (Some false) in
  (m2, a :: keys).

Definition ep_pairs (es : list bep) : list (bool * N) :=
  flat_map (fun e => map (fun a => (bcan_serve e, a)) (be_addrs e)) es.

(* hasHealthyEndpoint(eps, filterNode): [filt] is filterNode (true = skip) *)
Definition has_healthy (filt : option N -> bool) (eps : list (list bep)) : bool :=
  let es := filter (fun e => negb (filt (be_node e))) (concat eps) in
  let '(m, keys) := fold_left hstep (ep_pairs es) (fun _ => None, []) in
  existsb (fun a => match m a with Some true => true | _ => false end) keys.

Inductive breason := RAnnounce | RNotOwner | RNetUnavail | RExcluded | RNoLocal | RNoEndpoints.
Definition breason_eqb (a b : breason) : bool :=
  match a, b with
  | RAnnounce, RAnnounce | RNotOwner, RNotOwner | RNetUnavail, RNetUnavail
  | RExcluded, RExcluded | RNoLocal, RNoLocal | RNoEndpoints, RNoEndpoints => true
  | _, _ => false
  end.

Record bview := { bv_advs : list (list N);         (* pool.BGPAdvertisements[i].Nodes (true entries) *)
                  bv_node : option (bool * bool);  (* nodes[myNode]: (NetworkUnavailable, exclude label) *)
                  bv_ignore : bool;                (* ignoreExcludeLB *)
                  bv_local : bool;                 (* ExternalTrafficPolicy = Local *)
                  bv_eps : list (list bep) }.

Definition not_me (me : N) (n : option N) : bool :=
  match n with Some m => negb (m =? me) | None => true end.

(* bgpController.ShouldAnnounce on node [me] *)
Definition bgp_decide (me : N) (v : bview) : breason :=
  if negb (existsb (mem me) (bv_advs v)) then RNotOwner
  else if match bv_node v with Some (u, _) => u | None => false end then RNetUnavail
  else if negb (bv_ignore v) && match bv_node v with Some (_, x) => x | None => false end then RExcluded
  else if bv_local v && negb (has_healthy (not_me me) (bv_eps v)) then RNoLocal
  else if negb (has_healthy (fun _ => false) (bv_eps v)) then RNoEndpoints
  else RAnnounce.

(* ShouldAnnounce reports ONE reason; when several conditions fail, which one is reported is a free choice of the
   implementation (the order of its tests).  [reason_applies me v r]: the condition behind reason r holds (for
   RAnnounce: all of them pass).  bgp_decide above reports the first applicable reason in the code's current order;
   the correspondence accepts any applicable one (checked nondeterminism). *)
Definition reason_applies (me : N) (v : bview) (r : breason) : bool :=
  let sel := existsb (mem me) (bv_advs v) in
  let unav := match bv_node v with Some (u, _) => u | None => false end in
  let excl := negb (bv_ignore v) && match bv_node v with Some (_, x) => x | None => false end in
  let noloc := bv_local v && negb (has_healthy (not_me me) (bv_eps v)) in
  let noeps := negb (has_healthy (fun _ => false) (bv_eps v)) in
  match r with
  | RNotOwner => negb sel
  | RNetUnavail => unav
  | RExcluded => excl
  | RNoLocal => noloc
  | RNoEndpoints => noeps
  | RAnnounce => sel && negb unav && negb excl && negb noloc && negb noeps
  end.

(* ---- the statement's vocabulary, written independently of has_healthy ---- *)
Definition entries (v : bview) : list bep := concat (bv_eps v).
Definition carries (e : bep) (a : N) : Prop := In a (be_addrs e).
(* "an endpoint address counts as ready only if every entry carrying it is ready or serving" *)
Definition ready_all (v : bview) (a : N) : Prop :=
  (exists e, In e (entries v) /\ carries e a) /\
  forall e, In e (entries v) -> carries e a -> bcan_serve e = true.
(* the same over the entries located on node [me] only (what the code computes for Local) *)
Definition ready_here (me : N) (v : bview) (a : N) : Prop :=
  (exists e, In e (entries v) /\ be_node e = Some me /\ carries e a) /\
  forall e, In e (entries v) -> be_node e = Some me -> carries e a -> bcan_serve e = true.
(* the statement's "ready endpoint on that node" *)
Definition ready_on (me : N) (v : bview) (a : N) : Prop :=
  ready_all v a /\ exists e, In e (entries v) /\ be_node e = Some me /\ carries e a.
Definition node_unavail (v : bview) : bool := match bv_node v with Some (u, _) => u | None => false end.
Definition node_excl (v : bview) : bool := match bv_node v with Some (_, x) => x | None => false end.
Definition adv_selects (me : N) (v : bview) : Prop := exists l, In l (bv_advs v) /\ In me l.
(* no endpoint address appears on two different nodes *)
Definition single_homed (v : bview) : Prop :=
  forall e e' a, In e (entries v) -> In e' (entries v) -> carries e a -> carries e' a -> be_node e = be_node e'.

(* the property's right-hand side, literally *)
Definition c10_literal (me : N) (v : bview) : Prop :=
  adv_selects me v /\ node_unavail v = false /\ (bv_ignore v = true \/ node_excl v = false) /\
  (if bv_local v then exists a, ready_on me v a else exists a, ready_all v a).
(* what the code decides *)
Definition c10_code (me : N) (v : bview) : Prop :=
  adv_selects me v /\ node_unavail v = false /\ (bv_ignore v = true \/ node_excl v = false) /\
  (exists a, ready_all v a) /\ (bv_local v = true -> exists a, ready_here me v a).

(* ------------------------------------------------------------------ C05 *)

(* config.BGPAdvertisement as seen by the speaker *)
Record badv := { ba_agg4 : N; ba_agg6 : N; ba_lp : N; ba_comms : list N;
                 ba_nodes : list N; ba_peers : list N }.
(* bgp.Advertisement *)
Record adv := { ad_pfx : prefix; ad_lp : N; ad_comms : list N; ad_peers : list N }.

Fixpoint listN_eqb (a b : list N) : bool :=
  match a, b with
  | [], [] => true
  | x :: a', y :: b' => (x =? y) && listN_eqb a' b'
  | _, _ => false
  end.
Definition adv_eqb (a b : adv) : bool :=
  prefix_eqb (ad_pfx a) (ad_pfx b) && (ad_lp a =? ad_lp b) &&
  listN_eqb (ad_comms a) (ad_comms b) && listN_eqb (ad_peers a) (ad_peers b).

(* one advertisement: lbIP.Mask(CIDRMask(len, width)) *)
Definition mk_adv (x : ip) (a : badv) : adv :=
  {| ad_pfx := mask_to (match x with V4 _ => ba_agg4 a | V6 _ => ba_agg6 a end) x;
     ad_lp := ba_lp a; ad_comms := ba_comms a; ad_peers := ba_peers a |}.

(* the two loops of bgpController.SetBalancer *)
Definition make_ads (me : N) (ips : list ip) (advs : list badv) : list adv :=
  flat_map (fun x => flat_map (fun a => if mem me (ba_nodes a) then [mk_adv x a] else []) advs) ips.

(* Advertisement.MatchesPeer *)
Definition matches_peer (p : N) (a : adv) : bool :=
  match ad_peers a with [] => true | l => mem p l end.
Definition ads_for_peer (p : N) (ads : list adv) : list adv := filter (matches_peer p) ads.

(* config.Peer: name, node selectors (matchLabels lists, canonical), and one
   number standing for every other field (reflect.DeepEqual compares all) *)
Record pcfg := { pc_name : N; pc_sels : list (list (N * N)); pc_attr : N;
                 pc_ref : N }.  (* the password secret's reference (0 = none): a field like any other for DeepEqual *)
Definition pair_eqb (a b : N * N) : bool := (fst a =? fst b) && (snd a =? snd b).
Fixpoint lbl_eqb (a b : list (N * N)) : bool :=
  match a, b with
  | [], [] => true
  | x :: a', y :: b' => pair_eqb x y && lbl_eqb a' b'
  | _, _ => false
  end.
Fixpoint sels_eqb (a b : list (list (N * N))) : bool :=
  match a, b with
  | [], [] => true
  | x :: a', y :: b' => lbl_eqb x y && sels_eqb a' b'
  | _, _ => false
  end.
Definition pcfg_eqb (a b : pcfg) : bool :=
  (pc_name a =? pc_name b) && sels_eqb (pc_sels a) (pc_sels b) && (pc_attr a =? pc_attr b) && (pc_ref a =? pc_ref b).

(* ps_sess = Some l: live session, l = last Set; ps_made: the peer configuration the live session was
   created from (all arguments of NewSession are a function of it, the node name and the BGP mode) *)
Record peerst := { ps_cfg : pcfg; ps_sess : option (list adv); ps_made : option pcfg }.

Record bstate := { bs_labels : option (list (N * N));     (* c.nodeLabels (nil before the first SetNode) *)
                   bs_peers : list peerst;                 (* c.peers *)
                   bs_keys : list N;                       (* keys ever put into svcAds *)
                   bs_ads : N -> option (list adv);        (* c.svcAds *)
                   bs_active : N -> list N }.              (* c.activeAds, as svc -> peers *)

Definition binit : bstate :=
  {| bs_labels := None; bs_peers := []; bs_keys := []; bs_ads := fun _ => None; bs_active := fun _ => [] |}.

Definition svc_ads (st : bstate) (k : N) : list adv :=
  match bs_ads st k with Some l => l | None => [] end.
Definition all_ads (st : bstate) : list adv := flat_map (svc_ads st) (bs_keys st).

(* selector: all pairs present in the node's labels *)
Definition sel_matches (labels : list (N * N)) (sel : list (N * N)) : bool :=
  forallb (fun kv => existsb (pair_eqb kv) labels) sel.
Definition should_run (labels : option (list (N * N))) (c : pcfg) : bool :=
  let l := match labels with Some l => l | None => [] end in
  match pc_sels c with [] => true | sels => existsb (sel_matches l) sels end.

Definition pfx_in (p : prefix) (ads : list adv) : bool := existsb (fun a => prefix_eqb p (ad_pfx a)) ads.

(* updateAds = publishAds (Set on every live session) + notifyAdsChanged *)
Definition publish (st : bstate) : list peerst :=
  map (fun p => match ps_sess p with
                | Some _ => {| ps_cfg := ps_cfg p; ps_sess := Some (ads_for_peer (pc_name (ps_cfg p)) (all_ads st)); ps_made := ps_made p |}
                | None => p
                end) (bs_peers st).
Definition offered_pfx (ads : list adv) (p : peerst) : bool :=
  match ps_sess p with
  | Some l => existsb (fun a => pfx_in (ad_pfx a) ads) l
  | None => false
  end.
Definition update_ads (st : bstate) : bstate :=
  let ps := publish st in
  let adsf := bs_ads st in
  {| bs_labels := bs_labels st; bs_peers := ps; bs_keys := bs_keys st; bs_ads := adsf;
     bs_active := fun svc =>
       map (fun p => pc_name (ps_cfg p))
           (filter (offered_pfx (match adsf svc with Some l => l | None => [] end)) ps) |}.

(* syncPeers; [force] = a session was closed by the caller *)
Definition sync_one (labels : option (list (N * N))) (p : peerst) : peerst * bool * bool :=
  let run := should_run labels (ps_cfg p) in
  match ps_sess p, run with
  | Some _, false => ({| ps_cfg := ps_cfg p; ps_sess := None; ps_made := None |}, false, true)      (* closed *)
  | None, true => ({| ps_cfg := ps_cfg p; ps_sess := Some []; ps_made := Some (ps_cfg p) |}, true, false)  (* opened: NewSession(p.cfg) *)
  | _, _ => (p, false, false)
  end.
Definition sync_peers_gen (close_republish : bool) (force : bool) (st : bstate) : bstate :=
  let r := map (sync_one (bs_labels st)) (bs_peers st) in
  let ps := map (fun x => fst (fst x)) r in
  let opened := existsb (fun x => snd (fst x)) r in
  let closed := existsb (fun x => snd x) r in
  let st1 := {| bs_labels := bs_labels st; bs_peers := ps; bs_keys := bs_keys st;
                bs_ads := bs_ads st; bs_active := bs_active st |} in
  if opened || (close_republish && (closed || force)) then update_ads st1 else st1.

(* SetConfig: keep the peers whose configuration is unchanged, close the others *)
Fixpoint take_peer (c : pcfg) (old : list peerst) : option (peerst * list peerst) :=
  match old with
  | [] => None
  | p :: r => if pcfg_eqb c (ps_cfg p) then Some (p, r)
              else match take_peer c r with Some (q, r') => Some (q, p :: r') | None => None end
  end.
Fixpoint diff_peers (cfgs : list pcfg) (old : list peerst) : list peerst * list peerst :=
  match cfgs with
  | [] => ([], old)
  | c :: cs => match take_peer c old with
               | Some (p, old') => let '(n, o) := diff_peers cs old' in (p :: n, o)
               | None => let '(n, o) := diff_peers cs old in ({| ps_cfg := c; ps_sess := None; ps_made := None |} :: n, o)
               end
  end.
Definition bset_config_gen (cr : bool) (cfgs : list pcfg) (st : bstate) : bstate :=
  let '(n, o) := diff_peers cfgs (bs_peers st) in
  let closed := existsb (fun p => match ps_sess p with Some _ => true | None => false end) o in
  sync_peers_gen cr closed
    {| bs_labels := bs_labels st; bs_peers := n; bs_keys := bs_keys st; bs_ads := bs_ads st; bs_active := bs_active st |}.

Definition bset_node_gen (cr : bool) (me n : N) (labels : list (N * N)) (st : bstate) : bstate :=
  if negb (n =? me) then st
  else match bs_labels st with
       | Some l => if lbl_eqb l labels then st
                   else sync_peers_gen cr false
                     {| bs_labels := Some labels; bs_peers := bs_peers st; bs_keys := bs_keys st;
                        bs_ads := bs_ads st; bs_active := bs_active st |}
       | None => sync_peers_gen cr false
                     {| bs_labels := Some labels; bs_peers := bs_peers st; bs_keys := bs_keys st;
                        bs_ads := bs_ads st; bs_active := bs_active st |}
       end.

Definition bset_balancer (me name : N) (ips : list ip) (advs : list badv) (st : bstate) : bstate :=
  update_ads {| bs_labels := bs_labels st; bs_peers := bs_peers st; bs_keys := name :: bs_keys st;
                bs_ads := upd (bs_ads st) name (Some (make_ads me ips advs)); bs_active := bs_active st |}.

Definition bdelete (name : N) (st : bstate) : bstate :=
  match bs_ads st name with
  | None => st
  | Some _ => update_ads {| bs_labels := bs_labels st; bs_peers := bs_peers st; bs_keys := bs_keys st;
                            bs_ads := upd (bs_ads st) name None; bs_active := bs_active st |}
  end.

Inductive bev :=
| BSet (name : N) (ips : list ip) (advs : list badv)
| BDel (name : N)
| BCfg (peers : list pcfg)
| BNode (n : N) (labels : list (N * N)).

Definition bstep_gen (cr : bool) (me : N) (st : bstate) (e : bev) : bstate :=
  match e with
  | BSet name ips advs => bset_balancer me name ips advs st
  | BDel name => bdelete name st
  | BCfg peers => bset_config_gen cr peers st
  | BNode n labels => bset_node_gen cr me n labels st
  end.
Definition bstep := bstep_gen true.
Definition brun (me : N) (evs : list bev) : bstate := fold_left (bstep me) evs binit.

(* observables *)
Definition sess_of (st : bstate) (p : N) : option (list adv) :=
  match find (fun q => pc_name (ps_cfg q) =? p) (bs_peers st) with
  | Some q => ps_sess q
  | None => None
  end.

(* ---- the statement's vocabulary for C05, defined on the event list only ---- *)
(* the service is announced: last SetBalancer not followed by a DeleteBalancer *)
Definition announced_as (evs : list bev) (name : N) : option (list ip * list badv) :=
  fold_left (fun cur e => match e with
                          | BSet n ips advs => if name =? n then Some (ips, advs) else cur
                          | BDel n => if name =? n then None else cur
                          | _ => cur
                          end) evs None.
Definition last_cfg (evs : list bev) : list pcfg :=
  fold_left (fun cur e => match e with BCfg ps => ps | _ => cur end) evs [].
Definition last_labels (me : N) (evs : list bev) : option (list (N * N)) :=
  fold_left (fun cur e => match e with BNode n l => if n =? me then Some l else cur | _ => cur end) evs None.

(* the routes the statement prescribes for peer [p] *)
Definition intended (me : N) (evs : list bev) (p : N) (ad : adv) : Prop :=
  exists name ips advs x a,
    announced_as evs name = Some (ips, advs) /\ In x ips /\ In a advs /\
    In me (ba_nodes a) /\ (ba_peers a = [] \/ In p (ba_peers a)) /\ ad = mk_adv x a.
(* the prefixes a service produces *)
Definition svc_prefix (me : N) (evs : list bev) (svc : N) (pf : prefix) : Prop :=
  exists ips advs x a, announced_as evs svc = Some (ips, advs) /\ In x ips /\ In a advs /\
    In me (ba_nodes a) /\ pf = ad_pfx (mk_adv x a).
(* the peer is configured and its node selectors admit this node *)
Definition session_expected (me : N) (evs : list bev) (c : pcfg) : Prop :=
  In c (last_cfg evs) /\ should_run (last_labels me evs) c = true.

(* ServiceBGPStatusReconciler (internal/k8s/controllers/bgp_status_controller.go): the ServiceBGPStatus of
   (service, this node) after a reconciliation is a function of PeersForService alone, NOT of what was stored
   before: no resource when the set is empty, else a resource listing exactly its elements *)
Definition published_status (active : list N) : option (list N) :=
  match active with [] => None | l => Some l end.
