(* The rest of config.For / toConfig on top of Model/Cfg.v (which models poolsFor): the whole
   *config.Config value and every reason for which a resource set is refused.

   Go code mirrored (pinned commit + fix commits):
     internal/config/config.go      For, bfdProfilesFor, bfdProfileFromCR, bfdIntFromConfig, peersFor,
                                    peerFromCR, parseTimers, passwordFromSecretForPeer,
                                    communitiesFromCrs, getCommunityValue (community strings arrive
                                    classified: legacy / large / invalid value / invalid format / alias
                                    name), bgpExtrasFor
     internal/config/validation.go  DontValidate, DiscardFRROnly (findIPv6BGPAdvertisement,
                                    poolSelectorsForBGP, matchesPool, findNonLegacyCommunity),
                                    DiscardNativeOnly (peerIdentifier), validateConfig, hasBFDEcho
     internal/k8s/controllers/config_conversion.go toConfig (every listed kind sorted by name;
                                    PasswordSecrets is a map and BGPExtras a single object: not sorted)
   Loops over Go maps in this part are existence tests only (peersFor's duplicate test,
   validateConfig's walks over Pools.ByName and Peers): written with existsb / find, order-free
   by construction.  Names are numbers; "" is 0 and the name with index k is k+1 where a field
   may be empty (BFD profile reference, secret reference, interface, password, VRF).
   Durations are nanoseconds.  Not modelled: label selectors with matchExpressions, int64
   overflow of durations, empty object names. *)
From Coq Require Export NArith Bool List Permutation Sorted.
From Verif Require Export Model.Cfg.
Export ListNotations.
Local Open Scope N_scope.

(* ------------------------------------------------------------------ communities *)
Inductive cval := CLegacy (n : N) | CLarge (n : N) | CBadValue | CBadFormat.   (* community.New *)
Inductive cref := RAlias (a : N) | RLit (v : cval).           (* a string of BGPAdvertisement.communities *)
Record comm_cr := { cm_name : N; cm_aliases : list (N * cval) }.

Definition cval_ok (v : cval) : bool := match v with CLegacy _ | CLarge _ => true | _ => false end.
Definition cval_code (v : cval) : N := match v with CLegacy n => 2 * n | CLarge n => 2 * n + 1 | _ => 0 end.
Definition cval_eqb (a b : cval) : bool :=
  match a, b with
  | CLegacy x, CLegacy y | CLarge x, CLarge y => x =? y
  | CBadValue, CBadValue | CBadFormat, CBadFormat => true
  | _, _ => false
  end.
Definition cref_eqb (a b : cref) : bool :=
  match a, b with RAlias x, RAlias y => x =? y | RLit x, RLit y => cval_eqb x y | _, _ => false end.

(* communitiesFromCrs: alias name -> value; None = parse error or duplicate alias *)
Fixpoint comms_loop (l : list (N * cval)) (acc : list (N * cval)) : option (list (N * cval)) :=
  match l with
  | [] => Some acc
  | (a, v) :: r => if cval_ok v && negb (memN a (map fst acc)) then comms_loop r (acc ++ [(a, v)]) else None
  end.
Definition comms_for (cs : list comm_cr) : option (list (N * cval)) := comms_loop (flat_map cm_aliases cs) [].

(* getCommunityValue *)
Definition resolve (tbl : list (N * cval)) (c : cref) : option N :=
  match c with
  | RAlias a => match find (fun p => fst p =? a) tbl with Some p => Some (cval_code (snd p)) | None => None end
  | RLit v => if cval_ok v then Some (cval_code v) else None
  end.
Fixpoint resolve_all (tbl : list (N * cval)) (l : list cref) : option (list N) :=
  match l with
  | [] => Some []
  | c :: r => match resolve tbl c, resolve_all tbl r with Some x, Some y => Some (x :: y) | _, _ => None end
  end.
Fixpoint crefs_nodup (l : list cref) : bool :=
  match l with [] => true | c :: r => negb (existsb (cref_eqb c) r) && crefs_nodup r end.

(* ------------------------------------------------------------------ BFD profiles *)
Record bfd_cr := { bf_name : N; bf_rx : option N; bf_tx : option N; bf_detect : option N;
                   bf_echoint : option N; bf_minttl : option N; bf_echo : option bool; bf_passive : option bool }.
Record bfd := { b_name : N; b_rx : option N; b_tx : option N; b_detect : option N; b_echoint : option N;
                b_minttl : option N; b_echo : bool; b_passive : bool }.
Definition in_rng (v : option N) (lo hi : N) : bool :=
  match v with None => true | Some x => (lo <=? x) && (x <=? hi) end.
Definition obool (b : option bool) : bool := match b with Some x => x | None => false end.
Definition parse_bfd (c : bfd_cr) : option bfd :=
  if in_rng (bf_detect c) 2 255 && in_rng (bf_rx c) 10 60000 && in_rng (bf_tx c) 10 60000 &&
     in_rng (bf_minttl c) 1 254 && in_rng (bf_echoint c) 10 60000 then
    Some {| b_name := bf_name c; b_rx := bf_rx c; b_tx := bf_tx c; b_detect := bf_detect c;
            b_echoint := bf_echoint c; b_minttl := bf_minttl c; b_echo := obool (bf_echo c);
            b_passive := obool (bf_passive c) |}
  else None.
Fixpoint bfds_loop (l : list bfd_cr) (acc : list bfd) : option (list bfd) :=
  match l with
  | [] => Some acc
  | c :: r => match parse_bfd c with
              | Some b => if memN (b_name b) (map b_name acc) then None else bfds_loop r (acc ++ [b])
              | None => None
              end
  end.
Definition bfds_for (l : list bfd_cr) : option (list bfd) :=
  match bfds_loop l [] with Some bs => Some (ksort b_name bs) | None => None end.

(* ------------------------------------------------------------------ peers *)
Inductive dynasn := DNone | DInternal | DExternal | DInvalid.
Definition ipstr := option (option ip).      (* None = "", Some None = not an address *)
Record secret_cr := { sc_name : N; sc_basic : bool; sc_pw : option N }.
Record peer_cr := { pr_name : N; pr_myasn : N; pr_asn : N; pr_dyn : dynasn; pr_addr : ipstr; pr_iface : N;
                    pr_src : ipstr; pr_port : N; pr_hold : option N; pr_keep : option N;
                    pr_connect : option N; pr_router : ipstr; pr_nsels : list sel; pr_password : N;
                    pr_secret : N; pr_bfd : N; pr_graceful : bool; pr_multihop : bool; pr_vrf : N;
                    pr_disablemp : bool }.
Record peer := { p_pname : N; p_myasn : N; p_asn : N; p_dyn : N; p_addr : option ip; p_iface : N;
                 p_src : option ip; p_port : N; p_hold : option N; p_keep : option N;
                 p_connect : option N; p_router : option ip; p_nsels : list sel; p_password : N;
                 p_secretpw : N; p_pwref : N; p_bfd : N; p_graceful : bool; p_multihop : bool; p_vrf : N;
                 p_disablemp : bool }.

Definition dyn_code (d : dynasn) : N := match d with DNone => 0 | DInternal => 1 | DExternal => 2 | DInvalid => 3 end.
Definition ipstr_bad (s : ipstr) : bool := match s with Some None => true | _ => false end.
Definition ipstr_ip (s : ipstr) : option ip := match s with Some (Some x) => Some x | _ => None end.
Definition ipstr_empty (s : ipstr) : bool := match s with None => true | _ => false end.

Definition second : N := 1000000000.
(* parseTimers *)
Definition parse_timers (ht ka : option N) : option (option N * option N) :=
  match ht, ka with
  | None, None => Some (None, None)
  | _, _ =>
      let hk := match ht, ka with
                | Some h, Some k => (h, k)
                | Some h, None => (h, h / 3)
                | None, Some k => (k * 3, k)
                | None, None => (0, 0)
                end in
      let rounded := (fst hk / second) * second in
      if negb (rounded =? 0) && (rounded <? 3 * second) then None
      else if fst hk <? snd hk then None
      else Some (Some (fst hk), Some (snd hk))
  end.

(* passwordFromSecretForPeer: None = error *)
Definition secret_pw (secrets : list secret_cr) (ref : N) : option N :=
  match find (fun s => sc_name s =? ref) secrets with
  | Some s => if sc_basic s then sc_pw s else None
  | None => None
  end.

(* peerFromCR *)
Definition parse_peer (secrets : list secret_cr) (c : peer_cr) : option peer :=
  if (pr_myasn c =? 0)
     || ((pr_asn c =? 0) && (dyn_code (pr_dyn c) =? 0))
     || (negb (pr_asn c =? 0) && negb (dyn_code (pr_dyn c) =? 0))
     || (dyn_code (pr_dyn c) =? 3)
     || ((pr_asn c =? pr_myasn c) && pr_multihop c)
     || (ipstr_empty (pr_addr c) && (pr_iface c =? 0))
     || (negb (ipstr_empty (pr_addr c)) && negb (pr_iface c =? 0))
     || ipstr_bad (pr_addr c) || ipstr_bad (pr_router c) || ipstr_bad (pr_src c)
     || negb (sels_nodup (pr_nsels c))
     || (negb (pr_password c =? 0) && negb (pr_secret c =? 0))
  then None
  else match parse_timers (pr_hold c) (pr_keep c) with
       | None => None
       | Some (h, k) =>
           match (if pr_secret c =? 0 then Some 0 else secret_pw secrets (pr_secret c)) with
           | None => None
           | Some spw =>
               Some {| p_pname := pr_name c; p_myasn := pr_myasn c; p_asn := pr_asn c; p_dyn := dyn_code (pr_dyn c);
                       p_addr := ipstr_ip (pr_addr c); p_iface := pr_iface c; p_src := ipstr_ip (pr_src c);
                       p_port := pr_port c; p_hold := h; p_keep := k; p_connect := pr_connect c;
                       p_router := ipstr_ip (pr_router c);
                       p_nsels := match pr_nsels c with [] => [[]] | l => l end;
                       p_password := pr_password c; p_secretpw := spw; p_pwref := pr_secret c;
                       p_bfd := pr_bfd c; p_graceful := pr_graceful c; p_multihop := pr_multihop c;
                       p_vrf := pr_vrf c; p_disablemp := pr_disablemp c |}
           end
       end.

Definition oN_eqb (a b : option N) : bool :=
  match a, b with Some x, Some y => x =? y | None, None => true | _, _ => false end.
Definition oip_eqb (a b : option ip) : bool :=
  match a, b with Some x, Some y => ip_eqb x y | None, None => true | _, _ => false end.
(* reflect.DeepEqual on two parsed peers *)
Definition peer_eqb (a b : peer) : bool :=
  (p_pname a =? p_pname b) && (p_myasn a =? p_myasn b) && (p_asn a =? p_asn b) && (p_dyn a =? p_dyn b) &&
  oip_eqb (p_addr a) (p_addr b) && (p_iface a =? p_iface b) && oip_eqb (p_src a) (p_src b) &&
  (p_port a =? p_port b) && oN_eqb (p_hold a) (p_hold b) && oN_eqb (p_keep a) (p_keep b) &&
  oN_eqb (p_connect a) (p_connect b) && oip_eqb (p_router a) (p_router b) &&
  list_eqb sel_eqb (p_nsels a) (p_nsels b) && (p_password a =? p_password b) &&
  (p_secretpw a =? p_secretpw b) && (p_pwref a =? p_pwref b) && (p_bfd a =? p_bfd b) &&
  Bool.eqb (p_graceful a) (p_graceful b) && Bool.eqb (p_multihop a) (p_multihop b) &&
  (p_vrf a =? p_vrf b) && Bool.eqb (p_disablemp a) (p_disablemp b).

(* peersFor: the result map as a list without repeated names (a later peer of the same name
   replaces the earlier one unless it is DeepEqual to some stored peer, which is an error) *)
Fixpoint peers_loop (secrets : list secret_cr) (bfds : list bfd) (l : list peer_cr) (acc : list peer)
  : option (list peer) :=
  match l with
  | [] => Some acc
  | c :: r =>
      match parse_peer secrets c with
      | None => None
      | Some p =>
          if negb (p_bfd p =? 0) && negb (memN (p_bfd p - 1) (map b_name bfds)) then None
          else if existsb (peer_eqb p) acc then None
          else peers_loop secrets bfds r (filter (fun q => negb (p_pname q =? p_pname p)) acc ++ [p])
      end
  end.
Definition peers_for (secrets : list secret_cr) (bfds : list bfd) (l : list peer_cr) : option (list peer) :=
  match peers_loop secrets bfds l [] with Some ps => Some (ksort p_pname ps) | None => None end.

(* ------------------------------------------------------------------ resources, validators *)
Record bgp_fcr := { bfc : bgp_cr; bf_crefs : list cref }.       (* bg_comms of [bfc] is not used *)
Record fresources := { f_pools : list pool_cr; f_l2 : list l2_cr; f_bgp : list bgp_fcr;
                       f_nodes : list node_cr; f_nss : list ns_cr; f_peers : list peer_cr;
                       f_bfds : list bfd_cr; f_comms : list comm_cr; f_secrets : list secret_cr;
                       f_extras : N }.
Inductive vmode := VNone | VFrr | VNative.      (* DontValidate | DiscardNativeOnly | DiscardFRROnly *)

Definition ipstr_eqb (a b : ipstr) : bool :=
  match a, b with
  | None, None => true
  | Some x, Some y => oip_eqb x y
  | _, _ => false
  end.
(* peerIdentifier *)
Definition peer_id_eqb (a b : peer_cr) : bool :=
  (if ipstr_empty (pr_addr a) then ipstr_empty (pr_addr b) && (pr_iface a =? pr_iface b)
   else ipstr_eqb (pr_addr a) (pr_addr b)) && (pr_vrf a =? pr_vrf b).
Fixpoint ids_nodup (l : list peer_cr) : bool :=
  match l with [] => true | p :: r => negb (existsb (peer_id_eqb p) r) && ids_nodup r end.

(* DiscardNativeOnly *)
Definition discard_native_only (peers : list peer_cr) : bool :=
  match peers with
  | p0 :: rest =>
      match rest with
      | [] => true
      | _ => forallb (fun p => ipstr_eqb (pr_router p) (pr_router p0)) rest && ids_nodup peers
      end
  | [] => true
  end &&
  forallb (fun p => forallb (fun p1 => negb (negb (pr_myasn p =? pr_myasn p1) && (pr_vrf p =? pr_vrf p1)))
                            (tl peers)) peers.

(* findIPv6BGPAdvertisement *)
Definition bgp_catch_all (advs : list bgp_fcr) : bool :=
  existsb (fun a => match bg_pools (bfc a), bg_psels (bfc a) with [], [] => true | _, _ => false end) advs.
Definition bgp_selects (advs : list bgp_fcr) (p : pool_cr) : bool :=
  bgp_catch_all advs ||
  memN (pl_name p) (flat_map (fun a => bg_pools (bfc a)) advs) ||
  matches_any (flat_map (fun a => bg_psels (bfc a)) advs) (pl_labels p).
Definition addr_v4_only (a : addr) : bool :=
  match parse_addr a with Some ps => forallb (fun q => fam_eqb (pfam q) F4) ps | None => false end.
Definition no_ipv6_bgp (fr : fresources) : bool :=
  match f_bgp fr with
  | [] => true
  | advs => forallb (fun p => negb (bgp_selects advs p) || forallb addr_v4_only (pl_addrs p)) (f_pools fr)
  end.
(* findNonLegacyCommunity *)
Definition is_large (v : cval) : bool := match v with CLarge _ => true | _ => false end.
Definition only_legacy (fr : fresources) : bool :=
  forallb (fun a => forallb (fun c => match c with RLit v => negb (is_large v) | RAlias _ => true end) (bf_crefs a)) (f_bgp fr) &&
  forallb (fun c => forallb (fun av => negb (is_large (snd av))) (cm_aliases c)) (f_comms fr).

(* DiscardFRROnly *)
Definition discard_frr_only (fr : fresources) : bool :=
  forallb (fun p => (pr_bfd p =? 0) &&
                    match pr_keep p with Some k => k =? 0 | None => true end &&
                    (pr_vrf p =? 0) && match pr_connect p with None => true | Some _ => false end &&
                    negb (pr_graceful p) && negb (pr_disablemp p) && (dyn_code (pr_dyn p) =? 0) &&
                    (pr_iface p =? 0)) (f_peers fr) &&
  match f_bfds fr with [] => true | _ => false end && no_ipv6_bgp fr && only_legacy fr.

Definition validate (m : vmode) (fr : fresources) : bool :=
  match m with VNone => true | VFrr => discard_native_only (f_peers fr) | VNative => discard_frr_only fr end.

(* ------------------------------------------------------------------ config.For *)
Record fconfig := { fc_pools : pools_out; fc_peers : list peer; fc_bfds : list bfd; fc_extras : N }.

Fixpoint resolve_bgp (tbl : list (N * cval)) (l : list bgp_fcr) : option (list bgp_cr) :=
  match l with
  | [] => Some []
  | a :: r =>
      if crefs_nodup (bf_crefs a) then
        match resolve_all tbl (bf_crefs a), resolve_bgp tbl r with
        | Some vs, Some rest =>
            let c := bfc a in
            Some ({| bg_name := bg_name c; bg_agg4 := bg_agg4 c; bg_agg6 := bg_agg6 c; bg_lp := bg_lp c;
                     bg_comms := uniq vs; bg_peers := bg_peers c; bg_pools := bg_pools c;
                     bg_psels := bg_psels c; bg_nsels := bg_nsels c |} :: rest)
        | _, _ => None
        end
      else None
  end.

Definition base_of (fr : fresources) (bgp : list bgp_cr) : resources :=
  {| r_pools := f_pools fr; r_l2 := f_l2 fr; r_bgp := bgp; r_nodes := f_nodes fr; r_nss := f_nss fr;
     r_peers := []; r_bfds := []; r_comms := [] |}.

(* hasBFDEcho *)
Definition peer_echo (bfds : list bfd) (q : peer) : bool :=
  if p_bfd q =? 0 then false
  else match find (fun b => b_name b =? p_bfd q - 1) bfds with Some b => b_echo b | None => false end.
Definition pool_has_v6 (p : pool) : bool := existsb (fun c => fam_eqb (pfam c) F6) (p_cidrs p).
(* the offence validateConfig looks for *)
Definition adv_reaches_echo (bfds : list bfd) (peers : list peer) (a : bgpadv) : bool :=
  match ba_peers a with
  | [] => existsb (peer_echo bfds) peers
  | names => existsb (fun n => match find (fun q => p_pname q =? n) peers with
                               | Some q => peer_echo bfds q
                               | None => false
                               end) names
  end.
Definition validate_config (c : fconfig) : bool :=
  negb (existsb (fun p => pool_has_v6 p && existsb (adv_reaches_echo (fc_bfds c) (fc_peers c)) (p_bgp p))
                (po_pools (fc_pools c))).

Definition full_for (iter : list pool -> list pool) (m : vmode) (fr : fresources) : option fconfig :=
  if validate m fr then
    match bfds_for (f_bfds fr) with
    | None => None
    | Some bfds =>
        match peers_for (f_secrets fr) bfds (f_peers fr) with
        | None => None
        | Some peers =>
            match comms_for (f_comms fr) with
            | None => None
            | Some tbl =>
                match resolve_bgp tbl (f_bgp fr) with
                | None => None
                | Some bgp =>
                    match pools_for iter (base_of fr bgp) with
                    | None => None
                    | Some po =>
                        let c := {| fc_pools := po; fc_peers := peers; fc_bfds := bfds; fc_extras := f_extras fr |} in
                        if validate_config c then Some c else None
                    end
                end
            end
        end
    end
  else None.

(* toConfig *)
Definition fcanon (srt : sorter) (fr : fresources) : fresources :=
  {| f_pools := srt _ pl_name (f_pools fr); f_l2 := srt _ l2_name (f_l2 fr);
     f_bgp := srt _ (fun a => bg_name (bfc a)) (f_bgp fr); f_nodes := srt _ nd_name (f_nodes fr);
     f_nss := srt _ ns_name (f_nss fr); f_peers := srt _ pr_name (f_peers fr);
     f_bfds := srt _ bf_name (f_bfds fr); f_comms := srt _ cm_name (f_comms fr);
     f_secrets := f_secrets fr; f_extras := f_extras fr |}.
Definition full_to_config (srt : sorter) (iter : list pool -> list pool) (m : vmode) (fr : fresources)
  : option fconfig := full_for iter m (fcanon srt fr).

(* two listings of one snapshot *)
Definition fperm (a b : fresources) : Prop :=
  Permutation (f_pools a) (f_pools b) /\ Permutation (f_l2 a) (f_l2 b) /\ Permutation (f_bgp a) (f_bgp b) /\
  Permutation (f_nodes a) (f_nodes b) /\ Permutation (f_nss a) (f_nss b) /\ Permutation (f_peers a) (f_peers b) /\
  Permutation (f_bfds a) (f_bfds b) /\ Permutation (f_comms a) (f_comms b) /\
  f_secrets a = f_secrets b /\ f_extras a = f_extras b.
Definition fnodup (a : fresources) : Prop :=
  NoDup (map pl_name (f_pools a)) /\ NoDup (map l2_name (f_l2 a)) /\
  NoDup (map (fun x => bg_name (bfc x)) (f_bgp a)) /\ NoDup (map nd_name (f_nodes a)) /\
  NoDup (map ns_name (f_nss a)) /\ NoDup (map pr_name (f_peers a)) /\ NoDup (map bf_name (f_bfds a)) /\
  NoDup (map cm_name (f_comms a)).

(* sort.Slice runs insertion sort only on slices of at most 12 elements *)
Definition fsmall (a : fresources) : Prop :=
  (length (f_pools a) <= 12 /\ length (f_l2 a) <= 12 /\ length (f_bgp a) <= 12 /\ length (f_nodes a) <= 12 /\
   length (f_nss a) <= 12 /\ length (f_peers a) <= 12 /\ length (f_bfds a) <= 12 /\ length (f_comms a) <= 12)%nat.
Definition rsmall (r : resources) : Prop :=
  (length (r_pools r) <= 12 /\ length (r_l2 r) <= 12 /\ length (r_bgp r) <= 12 /\ length (r_nodes r) <= 12 /\
   length (r_nss r) <= 12 /\ length (r_peers r) <= 12 /\ length (r_bfds r) <= 12 /\ length (r_comms r) <= 12)%nat.

(* ------------------------------------------------------------------ observable equality *)
(* the comparison used by the correspondence and, in the reconciler theorems, the stand-in for
   reflect.DeepEqual.  It is COARSER than DeepEqual: a *net.IPNet is (family, base, length) (not
   its 4-byte / 16-byte representation), nil and empty slices coincide, pointer aliasing and
   the unexported Pool.cidrsPerAddresses ([p_per_addr]) are not compared. *)
Definition lN_eqb := list_eqb N.eqb.
Definition opt_eqb {A} (e : A -> A -> bool) (a b : option A) : bool :=
  match a, b with Some x, Some y => e x y | None, None => true | _, _ => false end.
Definition bgpadv_eqb (a b : bgpadv) : bool :=
  (ba_name a =? ba_name b) && (ba_agg4 a =? ba_agg4 b) && (ba_agg6 a =? ba_agg6 b) &&
  (ba_lp a =? ba_lp b) && lN_eqb (ba_comms a) (ba_comms b) && lN_eqb (ba_nodes a) (ba_nodes b) &&
  lN_eqb (ba_peers a) (ba_peers b).
Definition l2adv_same (a b : l2adv) : bool :=
  Bool.eqb (la_all a) (la_all b) && lN_eqb (la_nodes a) (la_nodes b) && lN_eqb (la_ifaces a) (la_ifaces b).
Definition salloc_eqb (a b : salloc) : bool :=
  (sa_prio a =? sa_prio b) && lN_eqb (sa_nss a) (sa_nss b) && list_eqb sel_eqb (sa_sels a) (sa_sels b).
Definition pool_eqb (a b : pool) : bool :=
  (p_name a =? p_name b) && list_eqb prefix_eqb (p_cidrs a) (p_cidrs b) &&
  Bool.eqb (p_avoid a) (p_avoid b) && Bool.eqb (p_auto a) (p_auto b) &&
  list_eqb bgpadv_eqb (p_bgp a) (p_bgp b) && list_eqb l2adv_same (p_l2 a) (p_l2 b) &&
  opt_eqb salloc_eqb (p_alloc a) (p_alloc b).
Definition out_eqb (a b : pools_out) : bool :=
  list_eqb pool_eqb (po_pools a) (po_pools b) &&
  list_eqb (fun x y => (fst x =? fst y) && lN_eqb (snd x) (snd y)) (po_byns a) (po_byns b) &&
  lN_eqb (po_bysel a) (po_bysel b).

Definition bfd_eqb (a b : bfd) : bool :=
  (b_name a =? b_name b) && oN_eqb (b_rx a) (b_rx b) && oN_eqb (b_tx a) (b_tx b) && oN_eqb (b_detect a) (b_detect b) &&
  oN_eqb (b_echoint a) (b_echoint b) && oN_eqb (b_minttl a) (b_minttl b) && Bool.eqb (b_echo a) (b_echo b) &&
  Bool.eqb (b_passive a) (b_passive b).
Definition fconfig_eqb (a b : fconfig) : bool :=
  out_eqb (fc_pools a) (fc_pools b) && list_eqb peer_eqb (fc_peers a) (fc_peers b) &&
  list_eqb bfd_eqb (fc_bfds a) (fc_bfds b) && (fc_extras a =? fc_extras b).

