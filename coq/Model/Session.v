(* Model of the native BGP session state machine: internal/bgp/native/native.go
   (run, connect [handshake result], sendUpdates [first flush / diff flush],
   Set, validate, abort, sendKeepalive failure, consumeBGP's deferred drop
   handling, Close).  Every step below is one critical section of s.mu in Go
   (sendUpdates runs under s.mu except inside cond.Wait; connect holds s.mu for
   the whole dial + OPEN exchange), so steps are atomic and any interleaving of
   the goroutines is a sequence of steps.

   Routes: key = prefix (numbered), attrs = the (local-pref, communities) tuple
   that Advertisement.Equal compares (numbered).
   ASSUMPTION: a key (Go: Prefix.String()) determines the NLRI on the wire and
   vice versa; advertisements whose address has bits beyond the mask (two keys,
   one NLRI) are outside the model (Proofs/SessionWireP.v nlri_inj, alias_example).  Go map iteration order is not
   computed: the flush events carry the order as an argument (checked
   nondeterminism) and the theorems hold for every order.

   The peer keeps one table per connection: it is emptied when a connection is
   established or dropped.  Messages written while the peer is still on the
   same connection are delivered in order; otherwise they are lost.
   No proofs here. *)
From Coq Require Export List NArith Bool.
Export ListNotations.
Local Open Scope N_scope.

Definition key := N.
Definition attrs := N.
Definition table := key -> option attrs.
Definition empty : table := fun _ => None.
Definition upd (t : table) (k : key) (v : option attrs) : table :=
  fun x => if x =? k then v else t x.

(* Set: newAdvs[adv.Prefix.String()] = adv, in argument order (last wins) *)
Definition map_of (l : list (key * attrs)) : table :=
  fold_left (fun t p => upd t (fst p) (Some (snd p))) l empty.

Definition oeqb (a b : option attrs) : bool :=
  match a, b with Some x, Some y => x =? y | None, None => true | _, _ => false end.
Definition is_some (a : option attrs) : bool := match a with Some _ => true | None => false end.
Definition mem (k : key) (l : list key) : bool := existsb (N.eqb k) l.

(* what goes over the wire, abstractly *)
Inductive smsg := MUpd (k : key) (v : attrs) | MWdr (ks : list key).
Definition apply_msg (t : table) (m : smsg) : table :=
  match m with
  | MUpd k v => upd t k (Some v)
  | MWdr ks => fold_left (fun t k => upd t k None) ks t
  end.
Definition apply_msgs (t : table) (ms : list smsg) : table := fold_left apply_msg ms t.

(* first flush after connect: every advertised route, in map order [ord] *)
Definition first_msgs (adv : table) (ord : list key) : list smsg :=
  flat_map (fun k => match adv k with Some v => [MUpd k v] | None => [] end) ord.

(* diff flush: changed/new routes in the order [o1] of s.new, then ONE withdraw
   of the routes of s.advertised (order [o2]) that are missing from s.new *)
Definition diff_msgs (adv new : table) (o1 o2 : list key) : list smsg :=
  flat_map (fun k => match new k with
                     | Some v => if oeqb (adv k) (Some v) then [] else [MUpd k v]
                     | None => [] end) o1
  ++ match filter (fun k => is_some (adv k) && negb (is_some (new k))) o2 with
     | [] => []
     | w => [MWdr w]
     end.

Record cfg := { my_asn : N; peer_asn : N; universe : list key;
                cfg_hold : option N }.   (* SessionParameters.HoldTime in whole seconds; None = nil pointer *)

(* NewSession: "native mode does not support empty holdtime, we explicitly set
   it to 90s in this case" -- ONLY a nil pointer is replaced; an explicit 0
   (RFC 4271: hold time 0 = no keepalives) is kept.  connect() passes it to
   sendOpen together with MyASN. *)
Definition session_hold (c : cfg) : N := match cfg_hold c with None => 90 | Some h => h end.
(* sendKeepalives: ticker period actualHoldTime/3 with actualHoldTime =
   min(own, peer's); no ticker at all when that is 0 *)
Definition keepalive_period (c : cfg) (peer_hold : N) : option N :=
  let h := N.min (session_hold c) peer_hold in if h =? 0 then None else Some (h / 3).

Record sess := { closed : bool; conn : option N; synced : bool;  (* first flush done on this connection *)
                 advertised : table; pending : option table; fbasn : bool }.
Record peer := { up : option N; ptable : table;
                 pcap : bool }.   (* 4-octet AS capability the peer announced in the OPEN of ITS current connection:
                                     the width with which it parses AS_PATH *)
Record world := { ws : sess; wp : peer;
                  desired : table }.   (* ghost: the last accepted Set *)

Definition world0 : world :=
  {| ws := {| closed := false; conn := None; synced := false; advertised := empty; pending := None; fbasn := false |};
     wp := {| up := None; ptable := empty; pcap := false |}; desired := empty |}.

(* abort(): close the connection, fold the pending set into advertised *)
Definition abort (s : sess) : sess :=
  {| closed := closed s; conn := None; synced := false;
     advertised := match pending s with Some p => p | None => advertised s end;
     pending := None; fbasn := fbasn s |}.

(* connect(): the peer's OPEN is acceptable iff it carries the configured AS
   number and, when our own AS number needs 4 octets, the 4-octet capability
   (the guard of the current tree; see SessionP_prefix.v for the pre-fix guard) *)
Definition hs_accept_gen (limit : N) (c : cfg) (asn : N) (fb : bool) : bool :=
  (asn =? peer_asn c) && negb ((limit <? my_asn c) && negb fb).
Definition hs_accept : cfg -> N -> bool -> bool := hs_accept_gen 65535.

Inductive sev :=
| ESet (l : list (key * attrs))            (* Set(advs...) = nil *)
| ESetRejected                              (* Set(...) = error (validate): nothing changes *)
| EHandshake (c : N) (asn : N) (fb : bool) (acc : bool)  (* dial ok, OPENs exchanged, session's verdict *)
| EDialFail                                 (* dial / OPEN exchange failed *)
| EFirstFlush (ord : list key) (sent : option nat)   (* None: all written; Some n: write n+1 failed *)
| EDiffFlush (o1 o2 : list key) (sent : option nat)
| EReaderDrop (c : N)                       (* consumeBGP(conn c) returns *)
| EKeepaliveFail
| EPeerDrop                                 (* the peer loses / closes its connection *)
| EClose.

Definition covers (c : cfg) (need : key -> bool) (ord : list key) : bool :=
  forallb (fun k => implb (need k) (mem k ord)) (universe c).

Definition deliver (p : peer) (c : N) (ms : list smsg) : peer :=
  match up p with
  | Some c' => if c' =? c then {| up := up p; ptable := apply_msgs (ptable p) ms; pcap := pcap p |} else p
  | None => p
  end.

Definition with_sess (w : world) (s : sess) : world := {| ws := s; wp := wp w; desired := desired w |}.

Definition step (c : cfg) (w : world) (e : sev) : option world :=
  let s := ws w in
  match e with
  | ESet l =>
    if forallb (fun p => mem (fst p) (universe c)) l then
      Some {| ws := {| closed := closed s; conn := conn s; synced := synced s; advertised := advertised s;
                       pending := Some (map_of l); fbasn := fbasn s |};
              wp := wp w; desired := map_of l |}
    else None
  | ESetRejected => Some w
  | EHandshake id asn fb acc =>
    if closed s || is_some (conn s) then None
    else if negb (Bool.eqb acc (hs_accept c asn fb)) then None
    else if acc then
      Some {| ws := {| closed := false; conn := Some id; synced := false; advertised := advertised s;
                       pending := pending s; fbasn := fb |};
              wp := {| up := Some id; ptable := empty; pcap := fb |}; desired := desired w |}
    else Some w
  | EDialFail => if closed s || is_some (conn s) then None else Some w
  | EFirstFlush ord sent =>
    match conn s with
    | Some id =>
      if closed s || synced s then None
      else
        let adv := match pending s with Some p => p | None => advertised s end in
        if negb (covers c (fun k => is_some (adv k)) ord) then None
        else
          let ms := first_msgs adv ord in
          match sent with
          | None => Some {| ws := {| closed := false; conn := Some id; synced := true; advertised := adv;
                                     pending := None; fbasn := fbasn s |};
                            wp := deliver (wp w) id ms; desired := desired w |}
          | Some n => Some {| ws := {| closed := false; conn := None; synced := false; advertised := adv;
                                       pending := None; fbasn := fbasn s |};
                              wp := deliver (wp w) id (firstn n ms); desired := desired w |}
          end
    | None => None
    end
  | EDiffFlush o1 o2 sent =>
    match conn s, pending s with
    | Some id, Some new =>
      if closed s || negb (synced s) then None
      else if negb (covers c (fun k => is_some (new k)) o1 && covers c (fun k => is_some (advertised s k)) o2) then None
      else
        let ms := diff_msgs (advertised s) new o1 o2 in
        match sent with
        | None => Some {| ws := {| closed := false; conn := Some id; synced := true; advertised := new;
                                   pending := None; fbasn := fbasn s |};
                          wp := deliver (wp w) id ms; desired := desired w |}
        | Some n => Some {| ws := abort s; wp := deliver (wp w) id (firstn n ms); desired := desired w |}
        end
    | _, _ => None
    end
  | EReaderDrop id =>
    match conn s with
    | Some id' => if id' =? id then Some (with_sess w (abort s)) else Some w
    | None => Some w
    end
  | EKeepaliveFail => if closed s || negb (is_some (conn s)) then None else Some (with_sess w (abort s))
  | EPeerDrop => Some {| ws := s; wp := {| up := None; ptable := empty; pcap := pcap (wp w) |}; desired := desired w |}
  | EClose => Some (with_sess w (abort {| closed := true; conn := conn s; synced := synced s; advertised := advertised s;
                                          pending := pending s; fbasn := fbasn s |}))
  end.

Fixpoint run (c : cfg) (w : world) (es : list sev) : option world :=
  match es with
  | [] => Some w
  | e :: r => match step c w e with Some w' => run c w' r | None => None end
  end.

(* the messages a step writes to the connection, and whether it dials *)
Definition emitted (c : cfg) (w : world) (e : sev) : list smsg :=
  let s := ws w in
  match e with
  | EFirstFlush ord sent =>
    let ms := first_msgs (match pending s with Some p => p | None => advertised s end) ord in
    match sent with None => ms | Some n => firstn n ms end
  | EDiffFlush o1 o2 sent =>
    match pending s with
    | Some new => let ms := diff_msgs (advertised s) new o1 o2 in
                  match sent with None => ms | Some n => firstn n ms end
    | None => []
    end
  | _ => []
  end.
Definition dials (e : sev) : bool :=
  match e with EHandshake _ _ _ _ | EDialFail => true | _ => false end.

(* the AS-number width with which a step encodes the UPDATEs it writes
   (sendUpdates: fbasn := s.peerFBASNSupport, read under s.mu in the flush) *)
Definition emit_width (w : world) : bool := fbasn (ws w).

(* connection established on both sides and the sender has nothing to do *)
Definition stable (w : world) : Prop :=
  exists id, conn (ws w) = Some id /\ up (wp w) = Some id /\ synced (ws w) = true /\ pending (ws w) = None.

(* ------------------------------------------------------------------ *)
(* backoff.go: multiplicative backoff of the run() loop, in milliseconds.
   run(): a failed connect() sleeps Duration(); a successful one calls Reset(). *)
Definition bo_max : N := 120000.
(* Duration(): returns the current delay and doubles it (first 1 s), capped *)
Definition bo_duration (b : N) : N * N :=
  (b, if b =? 0 then 1000 else N.min (b * 2) bo_max).
Definition bo_reset : N := 0.
(* a sequence of calls on one backoff value: true = Duration(), false = Reset();
   result: the delays returned by the Duration() calls *)
Fixpoint bo_run (b : N) (ops : list bool) : list N :=
  match ops with
  | [] => []
  | true :: r => fst (bo_duration b) :: bo_run (snd (bo_duration b)) r
  | false :: r => bo_run bo_reset r
  end.
(* state after k consecutive failed attempts since the last success / start *)
Fixpoint bo_after (k : nat) : N :=
  match k with O => bo_reset | S k => snd (bo_duration (bo_after k)) end.
(* the sleep before attempt k+2 of a streak (k failed attempts already slept) *)
Definition bo_delay (k : nat) : N := fst (bo_duration (bo_after k)).
