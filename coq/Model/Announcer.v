(* Model of the layer-2 announcer: internal/layer2/announcer.go
   (Announce.{ips, ipRefcnt}, SetBalancer, DeleteBalancer, shouldAnnounce,
   gratuitous, AnnounceName), internal/layer2/ip_advertisement.go
   (matchInterface), internal/layer2/arp.go (processRequest decision),
   internal/layer2/ndp.go (Watch, Unwatch, solicitedNodeGroups, processRequest
   decision).

   Services and interfaces are numbered by the harness.  The set of ARP / NDP
   responders (arps / ndps, one per interface) is fixed: updateInterfaces is
   not modelled.  Go's map iteration order never influences a result here
   (shouldAnnounce is proved order independent in Proofs/AnnouncerP.v); the
   [ips] map is an association list with unique keys.  [member] is the socket's
   multicast membership (JoinGroup = +1, LeaveGroup = -1), the only piece of
   state that is not a Go variable; JoinGroup / LeaveGroup are assumed to succeed. *)
From Coq Require Export List NArith ZArith Bool.
From Verif Require Export Model.Net.
Export ListNotations.

Record adv := mk_adv { a_ip : ip; a_all : bool; a_ifs : list N }.

(* IPAdvertisement.matchInterface *)
Definition match_intf (a : adv) (intf : N) : bool :=
  a_all a || existsb (N.eqb intf) (a_ifs a).

(* --- Go maps with int values: association list, absent key reads 0 --- *)
Definition zget {K} (eqb : K -> K -> bool) (k : K) (m : list (K * Z)) : Z :=
  match find (fun p => eqb k (fst p)) m with Some p => snd p | None => 0%Z end.
Definition zset {K} (k : K) (v : Z) (m : list (K * Z)) : list (K * Z) := (k, v) :: m.

Definition pair_eqb (a b : N * N) : bool := N.eqb (fst a) (fst b) && N.eqb (snd a) (snd b).

(* --- the ips map: service -> advertisements --- *)
Definition lookup (k : N) (m : list (N * list adv)) : option (list adv) :=
  match find (fun p => N.eqb k (fst p)) m with Some p => Some (snd p) | None => None end.
Definition remove (k : N) (m : list (N * list adv)) : list (N * list adv) :=
  filter (fun p => negb (N.eqb k (fst p))) m.
Definition insert (k : N) (v : list adv) (m : list (N * list adv)) : list (N * list adv) :=
  (k, v) :: remove k m.

Record st := mk_st {
  ips : list (N * list adv);       (* Announce.ips *)
  refcnt : list (ip * Z);          (* Announce.ipRefcnt (keyed by ip.String()) *)
  arps : list N;                   (* interfaces with an ARP responder *)
  ndps : list N;                   (* interfaces with an NDP responder *)
  groups : list ((N * N) * Z);     (* (interface, group) -> ndpResponder.solicitedNodeGroups *)
  member : list ((N * N) * Z) }.   (* (interface, group) -> joins minus leaves on the socket *)

Definition init (arps ndps : list N) : st := mk_st [] [] arps ndps [] [].

Definition rc (s : st) (i : ip) : Z := zget ip_eqb i (refcnt s).
Definition grp (s : st) (intf g : N) : Z := zget pair_eqb (intf, g) (groups s).
Definition mem (s : st) (intf g : N) : Z := zget pair_eqb (intf, g) (member s).

(* ndp.SolicitedNodeMulticast: ff02::1:ffXX:XXXX, the low 24 bits of the address *)
Definition sn_group (i : ip) : option N :=
  match i with V4 _ => None | V6 n => Some (n mod 2 ^ 24)%N end.

(* ndpResponder.Watch / Unwatch on the responder of interface [intf] *)
Definition watch1 (i : ip) (gm : list ((N * N) * Z) * list ((N * N) * Z)) (intf : N) :=
  match sn_group i with
  | None => gm
  | Some g =>
      let c := zget pair_eqb (intf, g) (fst gm) in
      (zset (intf, g) (c + 1)%Z (fst gm),
       if (c =? 0)%Z then zset (intf, g) (zget pair_eqb (intf, g) (snd gm) + 1)%Z (snd gm) else snd gm)
  end.
Definition unwatch1 (i : ip) (gm : list ((N * N) * Z) * list ((N * N) * Z)) (intf : N) :=
  match sn_group i with
  | None => gm
  | Some g =>
      let c := (zget pair_eqb (intf, g) (fst gm) - 1)%Z in
      (zset (intf, g) c (fst gm),
       if (c =? 0)%Z then zset (intf, g) (zget pair_eqb (intf, g) (snd gm) - 1)%Z (snd gm) else snd gm)
  end.

(* ipRefcnt[ip]++ ; if it is now 1: Watch on every NDP responder *)
Definition inc1 (i : ip) (s : st) : st :=
  let c := (rc s i + 1)%Z in
  let gm := if (1 <? c)%Z then (groups s, member s)
            else fold_left (watch1 i) (ndps s) (groups s, member s) in
  mk_st (ips s) (zset i c (refcnt s)) (arps s) (ndps s) (fst gm) (snd gm).

(* ipRefcnt[ip]-- ; if it is now <= 0: Unwatch on every NDP responder *)
Definition dec1 (s : st) (i : ip) : st :=
  let c := (rc s i - 1)%Z in
  let gm := if (0 <? c)%Z then (groups s, member s)
            else fold_left (unwatch1 i) (ndps s) (groups s, member s) in
  mk_st (ips s) (zset i c (refcnt s)) (arps s) (ndps s) (fst gm) (snd gm).

Definition with_ips (s : st) (m : list (N * list adv)) : st :=
  mk_st m (refcnt s) (arps s) (ndps s) (groups s) (member s).

Definition same_ip (a b : adv) : bool := ip_eqb (a_ip a) (a_ip b).

(* a.ips[name][i] = adv for the first i with an equal address *)
Fixpoint override (a : adv) (l : list adv) : list adv :=
  match l with
  | [] => []
  | b :: r => if same_ip a b then a :: r else b :: override a r
  end.

Definition cur_advs (s : st) (name : N) : list adv :=
  match lookup name (ips s) with Some l => l | None => [] end.

(* Announce.SetBalancer (state change; the spam request is [gratuitous] below) *)
Definition set_balancer (name : N) (a : adv) (s : st) : st :=
  let cur := cur_advs s name in
  if existsb (same_ip a) cur then with_ips s (insert name (override a cur) (ips s))
  else inc1 (a_ip a) (with_ips s (insert name (cur ++ [a]) (ips s))).

(* Announce.DeleteBalancer *)
Definition delete_balancer (name : N) (s : st) : st :=
  match lookup name (ips s) with
  | None => s
  | Some advs => fold_left dec1 (map a_ip advs) (with_ips s (remove name (ips s)))
  end.

(* Announce.AnnounceName *)
Definition announce_name (s : st) (name : N) : bool :=
  match lookup name (ips s) with Some _ => true | None => false end.

(* dropReason *)
Inductive drop := DNone | DClosed | DError | DArpReply | DMsgType | DNoSourceLL
                | DEthDst | DAnnounceIP | DNotMatchIntf.
Definition drop_eqb (a b : drop) : bool :=
  match a, b with
  | DNone, DNone | DClosed, DClosed | DError, DError | DArpReply, DArpReply
  | DMsgType, DMsgType | DNoSourceLL, DNoSourceLL | DEthDst, DEthDst
  | DAnnounceIP, DAnnounceIP | DNotMatchIntf, DNotMatchIntf => true
  | _, _ => false
  end.

(* Announce.shouldAnnounce: the two nested loops, in the order the map yields *)
Fixpoint scan (i : ip) (intf : N) (l : list adv) (found : bool) : drop :=
  match l with
  | [] => if found then DNotMatchIntf else DAnnounceIP
  | a :: r => if ip_eqb (a_ip a) i
              then (if match_intf a intf then DNone else scan i intf r true)
              else scan i intf r found
  end.
Definition all_advs (s : st) : list adv := concat (map snd (ips s)).
Definition should_announce (s : st) (i : ip) (intf : N) : drop := scan i intf (all_advs s) false.

(* Announce.gratuitous: the responders an unsolicited announcement is sent on
   (true = ARP responder, false = NDP responder) *)
Definition gratuitous (s : st) (a : adv) : list (bool * N) :=
  if (rc s (a_ip a) <=? 0)%Z then []
  else match a_ip a with
       | V4 _ => map (pair true) (filter (match_intf a) (arps s))
       | V6 _ => map (pair false) (filter (match_intf a) (ndps s))
       end.

(* arpResponder.processRequest after a successful read: [op] the ARP operation
   (1 request, 2 reply), [dst] the ethernet destination, [mac] the responder's
   hardware address, [intf] its interface *)
Definition bcast : N := 281474976710655%N.   (* ff:ff:ff:ff:ff:ff *)
Definition arp_process (s : st) (intf mac op dst : N) (target : ip) : drop :=
  if negb (N.eqb op 1) then DArpReply
  else if negb (N.eqb dst bcast) && negb (N.eqb dst mac) then DEthDst
  else should_announce s target intf.

(* The received frame as the responder sees it: the ETHERNET header's destination [f_eth_dst] and,
   from the ARP payload, the operation, the target hardware address field [f_tha] and the target
   protocol address.  The addressing filter of processRequest is on [f_eth_dst]; [f_tha] is carried
   only to state that it plays no role (a unicast probe re-validating a neighbour entry is sent to
   the node's MAC with a zero THA; a frame for another station may carry any THA). *)
Record arp_frame := mk_arp_frame { f_eth_dst : N; f_op : N; f_tha : N; f_target : ip }.
Definition arp_process_frame (s : st) (intf mac : N) (f : arp_frame) : drop :=
  arp_process s intf mac (f_op f) (f_eth_dst f) (f_target f).

(* ndpResponder.processRequest after a successful read *)
Definition ndp_process (s : st) (intf : N) (is_solicitation has_source_ll : bool) (target : ip) : drop :=
  if negb is_solicitation then DMsgType
  else if negb has_source_ll then DNoSourceLL
  else should_announce s target intf.

(* WHICH label is reported for a request that is not answered is not part of the property when
   several reasons apply (the code may test them in any order): [arp_reasons] / [ndp_reasons] list
   EVERY reason that applies; a reported label [d] is admissible when it is one of them, or DNone
   (answered) when there is none.  [arp_process] / [ndp_process] above pick the first in the order of
   the code the model was transcribed from; the Go oracle and Corr/Run_Announcer.v accept every
   admissible label (checked nondeterminism), answering or not is decided by the list being empty. *)
Definition reason_of (d : drop) : list drop := match d with DNone => [] | _ => [d] end.
Definition arp_reasons (s : st) (intf mac op dst : N) (target : ip) : list drop :=
  (if negb (N.eqb op 1) then [DArpReply] else []) ++
  (if negb (N.eqb dst bcast) && negb (N.eqb dst mac) then [DEthDst] else []) ++
  reason_of (should_announce s target intf).
Definition ndp_reasons (s : st) (intf : N) (is_solicitation has_source_ll : bool) (target : ip) : list drop :=
  (if negb is_solicitation then [DMsgType] else []) ++
  (if negb has_source_ll then [DNoSourceLL] else []) ++
  reason_of (should_announce s target intf).
Definition admissible (rs : list drop) (d : drop) : bool :=
  match rs with [] => drop_eqb d DNone | _ => existsb (drop_eqb d) rs end.

(* arpResponder.run: processRequest again and again until it reports dropReasonClosed.  What a read
   from the socket yields: the socket was closed, a frame the ARP / ethernet parser rejects (runt,
   lengths larger than the frame, ...), or a well-formed frame.  A malformed frame is dropped with
   dropReasonError and is otherwise a NO-OP: the loop goes on.  [arp_run] is the list of verdicts of
   the frames the loop processes before it exits. *)
Inductive rx := RxClosed | RxMalformed | RxFrame (f : arp_frame).
Definition rx_drop (s : st) (intf mac : N) (r : rx) : drop :=
  match r with
  | RxClosed => DClosed
  | RxMalformed => DError
  | RxFrame f => arp_process_frame s intf mac f
  end.
Fixpoint arp_run (s : st) (intf mac : N) (rs : list rx) : list drop :=
  match rs with
  | [] => []
  | r :: t => let d := rx_drop s intf mac r in
              d :: (if drop_eqb d DClosed then [] else arp_run s intf mac t)
  end.
(* a variant that takes a malformed frame for the end of the socket (the loop exits) *)
Definition rx_drop_exit (s : st) (intf mac : N) (r : rx) : drop :=
  match r with RxMalformed => DClosed | _ => rx_drop s intf mac r end.
Fixpoint arp_run_exit (s : st) (intf mac : N) (rs : list rx) : list drop :=
  match rs with
  | [] => []
  | r :: t => let d := rx_drop_exit s intf mac r in
              d :: (if drop_eqb d DClosed then [] else arp_run_exit s intf mac t)
  end.

(* --- histories --- *)
Inductive upd := USet (name : N) (a : adv) | UDel (name : N).
Definition apply_upd (s : st) (u : upd) : st :=
  match u with USet n a => set_balancer n a s | UDel n => delete_balancer n s end.
Definition run (us : list upd) (s : st) : st := fold_left apply_upd us s.

(* --- interleaving semantics: every announcer method is one critical section
   of the RWMutex; a schedule is any merge of the updater's calls with the
   responders' / spam loop's / status calls --- *)
Inductive query :=
  | QArp (intf mac op dst : N) (target : ip)
  | QNdp (intf : N) (is_ns has_ll : bool) (target : ip)
  | QShould (i : ip) (intf : N)
  | QGrat (a : adv)
  | QName (name : N).
Inductive answer := ADrop (d : drop) | ASent (l : list (bool * N)) | ABool (b : bool).
Definition ask (s : st) (q : query) : answer :=
  match q with
  | QArp intf mac op dst t => ADrop (arp_process s intf mac op dst t)
  | QNdp intf ns ll t => ADrop (ndp_process s intf ns ll t)
  | QShould i intf => ADrop (should_announce s i intf)
  | QGrat a => ASent (gratuitous s a)
  | QName n => ABool (announce_name s n)
  end.
Inductive ev := EUpd (u : upd) | EAsk (q : query).
Fixpoint exec (evs : list ev) (s : st) : st * list answer :=
  match evs with
  | [] => (s, [])
  | EUpd u :: r => exec r (apply_upd s u)
  | EAsk q :: r => let (s', l) := exec r s in (s', ask s q :: l)
  end.
Definition updates (evs : list ev) : list upd :=
  flat_map (fun e => match e with EUpd u => [u] | EAsk _ => [] end) evs.
(* what a serial execution answers: request k sees the updates scheduled before it *)
Fixpoint serial_answers (evs : list ev) (done : list upd) (s0 : st) : list answer :=
  match evs with
  | [] => []
  | EUpd u :: r => serial_answers r (done ++ [u]) s0
  | EAsk q :: r => ask (run done s0) q :: serial_answers r done s0
  end.
