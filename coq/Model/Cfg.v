(* Model of configuration loading (C08, C18).

   Go code mirrored, function by function (pinned commit + the fix: commits F1,F2,F4,F5):
     internal/config/config.go   ParseCIDR, addressPoolFromCR, addressPoolServiceAllocationsFromCR,
                                 poolsFor, cidrsOverlap, cidrContainsCIDR, lowestMask,
                                 setL2AdvertisementsToPools, setBGPAdvertisementsToPools,
                                 l2AdvertisementFromCR, bgpAdvertisementFromCR, containsAdvertisement,
                                 selectedNodes, selectedPools, validateBGPAdvPerPool,
                                 advertisementsAreCompatible, isAggrLengthDifferent,
                                 validateDuplicate, validateLabelSelectorDuplicate (matchLabels only),
                                 poolsByNamespace, poolsByServiceSelector
     internal/k8s/nodes/nodes.go NodeIPsForFamily
     internal/k8s/controllers/config_conversion.go  toConfig, sortedCopy
     github.com/mikioh/ipaddr    Summarize (summarizeIPv4 / summarizeIPv6, same loop at width 32 / 128)

   Input = the resource snapshot after Go's string -> number parsing (net.ParseIP, the address
   and length of net.ParseCIDR, label selectors with matchLabels only).  Names are numbers, the
   harness numbers names of one kind in string order.  Go maps are represented canonically
   (lists sorted by key).  Map iteration order is computed nowhere: the loops over Go maps
   whose result is "reject if any element fails / update every element" are written with
   forallb / map (order-free by construction); the one loop whose result used to depend on the
   iteration order (poolsByNamespace, F2) takes the iteration order [iter] as an argument.
   Go's sort (sort.Slice in sortedCopy) is an argument [srt] of [to_config]; [ksort] below is
   the executable instance used by the correspondence.
   Peers, BFD profiles, communities, secrets and the validate callback are outside the model:
   [other] / [vcfg] are arbitrary functions of the sorted snapshot. *)
From Coq Require Export NArith Bool List Permutation Sorted.
From Verif Require Export Model.Net.
Export ListNotations.
Local Open Scope N_scope.

(* ------------------------------------------------------------------ helpers *)
Definition memN (x : N) (l : list N) : bool := existsb (N.eqb x) l.
Fixpoint nodupb (l : list N) : bool :=
  match l with [] => true | x :: r => negb (memN x r) && nodupb r end.
Definition uniq (l : list N) : list N :=
  fold_right (fun x acc => if memN x acc then acc else x :: acc) [] l.

Section KeySort.
  Context {A : Type} (key : A -> N).
  Fixpoint kinsert (x : A) (l : list A) : list A :=
    match l with
    | [] => [x]
    | y :: r => if key x <=? key y then x :: l else y :: kinsert x r
    end.
  Definition ksort (l : list A) : list A := fold_right kinsert [] l.
End KeySort.
Definition sortN (l : list N) : list N := ksort (fun x => x) l.
Definition setN (l : list N) : list N := sortN (uniq l).        (* a Go set / map key set *)

Fixpoint list_eqb {A} (e : A -> A -> bool) (a b : list A) : bool :=
  match a, b with
  | [], [] => true
  | x :: a', y :: b' => e x y && list_eqb e a' b'
  | _, _ => false
  end.

(* label selectors: matchLabels only, as (key,value) lists sorted by key by the harness *)
Definition kv := (N * N)%type.
Definition kv_eqb (a b : kv) : bool := (fst a =? fst b) && (snd a =? snd b).
Definition sel := list kv.
Definition sel_eqb : sel -> sel -> bool := list_eqb kv_eqb.
Definition matches (s : sel) (labels : list kv) : bool :=
  forallb (fun p => existsb (kv_eqb p) labels) s.
Definition matches_any (ss : list sel) (labels : list kv) : bool :=
  existsb (fun s => matches s labels) ss.
(* validateLabelSelectorDuplicate *)
Fixpoint sels_nodup (l : list sel) : bool :=
  match l with [] => true | s :: r => negb (existsb (sel_eqb s) r) && sels_nodup r end.

(* ------------------------------------------------------------------ ipaddr.Summarize *)
(* inner loop: n is decremented while the block of length n-1 that starts at fi
   is aligned at fi and ends at or before li *)
Fixpoint grow (w fi li : N) (fuel : nat) (n : N) : N :=
  match fuel with
  | O => n
  | S f =>
      if n =? 0 then n
      else let blk := 2 ^ (w - (n - 1)) in
           if (fi mod blk =? 0) && (fi + blk - 1 <=? li) then grow w fi li f (n - 1) else n
  end.

(* outer loop; None = fuel exhausted (never, see summarize_fuel_ok) *)
Fixpoint summ (w : N) (fuel : nat) (fi li : N) : option (list (N * N)) :=
  match fuel with
  | O => None
  | S f =>
      if li <? fi then Some []
      else let n := grow w fi li (N.to_nat w) w in
           let last := fi + 2 ^ (w - n) - 1 in
           if last =? 2 ^ w - 1 then Some [(fi, n)]
           else match summ w f (last + 1) li with
                | Some r => Some ((fi, n) :: r)
                | None => None
                end
  end.

Definition summarize (f : fam) (s e : N) : option (list prefix) :=
  match summ (width f) (2 * N.to_nat (width f) + 2) s e with
  | Some l => Some (map (fun p => {| pfam := f; pbase := fst p; plen := snd p |}) l)
  | None => None
  end.

(* ------------------------------------------------------------------ ParseCIDR *)
(* an address entry of IPAddressPool.spec.addresses, already tokenised:
   ACidr   "a.b.c.d/len" or "x:x::/len"   (address as written, not necessarily aligned)
   AMapped "::ffff:a.b.c.d/len"           (base = the IPv4 number, len counted on 128 bits)
   ARange  "start - end"                  (either end in any notation of its family) *)
Inductive addr := ACidr (p : prefix) | AMapped (base len : N) | ARange (s e : ip).

(* net.ParseCIDR's network: address masked *)
Definition norm (p : prefix) : prefix := {| pfam := pfam p; pbase := pfirst p; plen := plen p |}.

Definition mapped_base : N := 281470681743360.   (* ::ffff:0.0.0.0 = 0xffff00000000 *)

(* config.ParseCIDR.  After fix F4 an IPv4-mapped CIDR (its masked address is still
   IPv4-mapped, i.e. len >= 96) is returned as the IPv4 prefix it denotes; after fix F5 a
   range whose ends are of different families is rejected. *)
Definition parse_addr (a : addr) : option (list prefix) :=
  match a with
  | ACidr p => if wf_prefixb p then Some [norm p] else None
  | AMapped b l =>
      if (l <=? 128) && (b <? 2 ^ 32) then
        if 96 <=? l then Some [norm {| pfam := F4; pbase := b; plen := l - 96 |}]
        else Some [norm {| pfam := F6; pbase := mapped_base + b; plen := l |}]
      else None
  | ARange (V4 s) (V4 e) => if (s <=? e) && (e <? 2 ^ 32) then summarize F4 s e else None
  | ARange (V6 s) (V6 e) => if (s <=? e) && (e <? 2 ^ 128) then summarize F6 s e else None
  | ARange _ _ => None
  end.

Fixpoint parse_addrs (l : list addr) : option (list (list prefix)) :=
  match l with
  | [] => Some []
  | a :: r => match parse_addr a, parse_addrs r with
              | Some x, Some y => Some (x :: y)
              | _, _ => None
              end
  end.

(* ------------------------------------------------------------------ resources *)
Record alloc_cr := { al_prio : N; al_nss : list N; al_nssels : list sel; al_svcsels : list sel }.
Record pool_cr := { pl_name : N; pl_labels : list kv; pl_addrs : list addr;
                    pl_avoid : bool; pl_auto : bool; pl_alloc : option alloc_cr }.
Record node_cr := { nd_name : N; nd_labels : list kv; nd_ips : list ip }.   (* InternalIP entries *)
Record ns_cr := { ns_name : N; ns_labels : list kv }.
Record l2_cr := { l2_name : N; l2_pools : list N; l2_psels : list sel; l2_nsels : list sel;
                  l2_ifaces : list N }.
Record bgp_cr := { bg_name : N; bg_agg4 : N; bg_agg6 : N; bg_lp : N; bg_comms : list N;
                   bg_peers : list N; bg_pools : list N; bg_psels : list sel; bg_nsels : list sel }.
Definition opaque_cr := (N * N)%type.      (* name, content: peers, BFD profiles, communities *)

Record resources := { r_pools : list pool_cr; r_l2 : list l2_cr; r_bgp : list bgp_cr;
                      r_nodes : list node_cr; r_nss : list ns_cr;
                      r_peers : list opaque_cr; r_bfds : list opaque_cr; r_comms : list opaque_cr }.

(* ------------------------------------------------------------------ parsed configuration *)
(* sa_sels: ServiceAllocation.ServiceSelectors (matchLabels requirements; [] = Everything) *)
Record salloc := { sa_prio : N; sa_nss : list N; sa_sels : list sel }.
Record l2adv := { la_nodes : list N; la_ifaces : list N; la_all : bool }.
Record bgpadv := { ba_name : N; ba_agg4 : N; ba_agg6 : N; ba_lp : N; ba_comms : list N;
                   ba_nodes : list N; ba_peers : list N }.
Record pool := { p_name : N; p_cidrs : list prefix; p_per_addr : list (list prefix);
                 p_avoid : bool; p_auto : bool; p_bgp : list bgpadv; p_l2 : list l2adv;
                 p_alloc : option salloc }.
Record pools_out := { po_pools : list pool;              (* ByName, sorted by name *)
                      po_byns : list (N * list N);       (* ByNamespace, sorted by namespace *)
                      po_bysel : list N }.               (* ByServiceSelector *)

(* addressPoolServiceAllocationsFromCR *)
Definition parse_alloc (nss : list ns_cr) (a : option alloc_cr) : option (option salloc) :=
  match a with
  | None => Some None
  | Some a =>
      if negb (nodupb (al_nss a)) then None
      else match al_nss a, al_nssels a, al_svcsels a with
           | [], [], [] => Some (Some {| sa_prio := al_prio a; sa_nss := []; sa_sels := [[]] |})
           | _, _, _ =>
               if sels_nodup (al_nssels a) && sels_nodup (al_svcsels a) then
                 Some (Some {| sa_prio := al_prio a;
                               sa_nss := setN (al_nss a ++ map ns_name
                                            (filter (fun n => matches_any (al_nssels a) (ns_labels n)) nss));
                               sa_sels := al_svcsels a |})
               else None
           end
  end.

(* addressPoolFromCR *)
Definition parse_pool (nss : list ns_cr) (p : pool_cr) : option pool :=
  match pl_addrs p with
  | [] => None
  | _ => match parse_addrs (pl_addrs p), parse_alloc nss (pl_alloc p) with
         | Some per, Some al =>
             Some {| p_name := pl_name p; p_cidrs := concat per; p_per_addr := per;
                     p_avoid := pl_avoid p; p_auto := pl_auto p; p_bgp := []; p_l2 := [];
                     p_alloc := al |}
         | _, _ => None
         end
  end.

(* cidrContainsCIDR / cidrsOverlap on parsed (network-aligned) prefixes *)
Definition cidr_contains_cidr (o i : prefix) : bool :=
  fam_eqb (pfam o) (pfam i) &&
  (((plen o =? plen i) && (pbase o =? pbase i)) ||
   ((plen o <? plen i) && contains o (mk_ip (pfam i) (pbase i)))).
Definition overlap (a b : prefix) : bool := cidr_contains_cidr a b || cidr_contains_cidr b a.

(* the per-CIDR checks of poolsFor: against every earlier CIDR, against the node IPs *)
Fixpoint check_cidrs (nodeips : list ip) (cs : list prefix) (all : list prefix) : option (list prefix) :=
  match cs with
  | [] => Some all
  | c :: r => if existsb (overlap c) all || existsb (contains c) nodeips then None
              else check_cidrs nodeips r (all ++ [c])
  end.

Fixpoint pools_loop (nodeips : list ip) (nss : list ns_cr) (ps : list pool_cr)
         (all : list prefix) (acc : list pool) : option (list pool) :=
  match ps with
  | [] => Some acc
  | p :: r =>
      match parse_pool nss p with
      | None => None
      | Some pl =>
          if memN (p_name pl) (map p_name acc) then None
          else match check_cidrs nodeips (p_cidrs pl) all with
               | None => None
               | Some all' => pools_loop nodeips nss r all' (acc ++ [pl])
               end
      end
  end.

(* selectedNodes (the key set of the map) *)
Definition selected_nodes (nodes : list node_cr) (ss : list sel) : list N :=
  setN (map nd_name (filter (fun n => match ss with [] => true | _ => matches_any ss (nd_labels n) end) nodes)).
(* selectedPools *)
Definition selected_pools (pools : list pool_cr) (ss : list sel) : list N :=
  map pl_name (filter (fun p => matches_any ss (pl_labels p)) pools).

(* the pools an advertisement is attached to, in attachment order (a pool that is both
   named and selected occurs twice, as in Go); None names and no selectors = every pool *)
Definition targets (crs : list pool_cr) (names : list N) (ss : list sel) (pools : list pool) : list N :=
  match names, ss with
  | [], [] => map p_name pools
  | _, _ => filter (fun n => memN n (map p_name pools)) (names ++ selected_pools crs ss)
  end.

Definition l2adv_eqb (a b : l2adv) : bool :=          (* containsAdvertisement's comparison *)
  Bool.eqb (la_all a) (la_all b) && list_eqb N.eqb (la_nodes a) (la_nodes b) &&
  list_eqb N.eqb (setN (la_ifaces a)) (setN (la_ifaces b)).

Definition upd_pool (n : N) (f : pool -> pool) (pools : list pool) : list pool :=
  map (fun p => if p_name p =? n then f p else p) pools.
Definition find_pool (n : N) (pools : list pool) : option pool :=
  find (fun p => p_name p =? n) pools.

Definition add_l2 (a : l2adv) (p : pool) : pool :=
  if existsb (l2adv_eqb a) (p_l2 p) then p
  else {| p_name := p_name p; p_cidrs := p_cidrs p; p_per_addr := p_per_addr p; p_avoid := p_avoid p;
          p_auto := p_auto p; p_bgp := p_bgp p; p_l2 := p_l2 p ++ [a]; p_alloc := p_alloc p |}.
Definition add_bgp (a : bgpadv) (p : pool) : pool :=
  {| p_name := p_name p; p_cidrs := p_cidrs p; p_per_addr := p_per_addr p; p_avoid := p_avoid p;
     p_auto := p_auto p; p_bgp := p_bgp p ++ [a]; p_l2 := p_l2 p; p_alloc := p_alloc p |}.

(* l2AdvertisementFromCR *)
Definition parse_l2 (nodes : list node_cr) (c : l2_cr) : option l2adv :=
  if nodupb (l2_pools c) && sels_nodup (l2_psels c) && sels_nodup (l2_nsels c) then
    Some {| la_nodes := selected_nodes nodes (l2_nsels c); la_ifaces := l2_ifaces c;
            la_all := match l2_ifaces c with [] => true | _ => false end |}
  else None.

(* setL2AdvertisementsToPools *)
Fixpoint set_l2 (crs : list pool_cr) (nodes : list node_cr) (advs : list l2_cr) (pools : list pool)
  : option (list pool) :=
  match advs with
  | [] => Some pools
  | c :: r =>
      match parse_l2 nodes c with
      | None => None
      | Some a => set_l2 crs nodes r
                    (fold_left (fun ps n => upd_pool n (add_l2 a) ps)
                               (targets crs (l2_pools c) (l2_psels c) pools) pools)
      end
  end.

(* bgpAdvertisementFromCR (communities arrive resolved to numbers) *)
Definition parse_bgp (nodes : list node_cr) (c : bgp_cr) : option bgpadv :=
  if nodupb (bg_pools c) && nodupb (bg_comms c) && nodupb (bg_peers c) &&
     sels_nodup (bg_psels c) && sels_nodup (bg_nsels c) &&
     (bg_agg4 c <=? 32) && (bg_agg6 c <=? 128) then
    Some {| ba_name := bg_name c; ba_agg4 := bg_agg4 c; ba_agg6 := bg_agg6 c; ba_lp := bg_lp c;
            ba_comms := setN (bg_comms c); ba_nodes := selected_nodes nodes (bg_nsels c);
            ba_peers := bg_peers c |}
  else None.

Definition lowest (cs : list prefix) : N :=
  match cs with [] => 0 | c :: r => fold_left (fun m x => N.min m (plen x)) r (plen c) end.
Definition agg_of (a : bgpadv) (f : fam) : N := match f with F4 => ba_agg4 a | F6 => ba_agg6 a end.
Definition pool_has (f : fam) (p : pool) : bool :=
  existsb (fun cs => match cs with c :: _ => fam_eqb (pfam c) f | [] => false end) (p_per_addr p).

(* isAggrLengthDifferent *)
Definition aggr_different (a b : bgpadv) (p : pool) : bool :=
  let h4 := pool_has F4 p in let h6 := pool_has F6 p in
  if negb h4 && negb h6 then true
  else if negb (ba_agg4 a =? ba_agg4 b) && negb h6 then true
  else if negb (ba_agg6 a =? ba_agg6 b) && negb h4 then true
  else negb (ba_agg4 a =? ba_agg4 b) && negb (ba_agg6 a =? ba_agg6 b).

(* advertisementsAreCompatible *)
Definition compatible (a b : bgpadv) (p : pool) : bool :=
  if aggr_different a b p then true
  else if match ba_peers a, ba_peers b with
          | _ :: _, _ :: _ => negb (existsb (fun x => memN x (ba_peers b)) (ba_peers a))
          | _, _ => false
          end then true
  else negb (existsb (fun n => memN n (ba_nodes b)) (ba_nodes a)).

(* validateBGPAdvPerPool *)
Definition validate_adv (a : bgpadv) (p : pool) : bool :=
  forallb (fun cs => match cs with
                     | [] => true
                     | c :: _ => lowest cs <=? agg_of a (pfam c)
                     end) (p_per_addr p) &&
  forallb (fun b => (ba_lp a =? ba_lp b) || compatible a b p) (p_bgp p).

Fixpoint attach_bgp (a : bgpadv) (ts : list N) (pools : list pool) : option (list pool) :=
  match ts with
  | [] => Some pools
  | n :: r => match find_pool n pools with
              | None => attach_bgp a r pools
              | Some p => if validate_adv a p then attach_bgp a r (upd_pool n (add_bgp a) pools) else None
              end
  end.

(* setBGPAdvertisementsToPools *)
Fixpoint set_bgp (crs : list pool_cr) (nodes : list node_cr) (advs : list bgp_cr) (pools : list pool)
  : option (list pool) :=
  match advs with
  | [] => Some pools
  | c :: r =>
      match parse_bgp nodes c with
      | None => None
      | Some a => match attach_bgp a (targets crs (bg_pools c) (bg_psels c) pools) pools with
                  | None => None
                  | Some ps => set_bgp crs nodes r ps
                  end
      end
  end.

Definition pool_nss (p : pool) : list N := match p_alloc p with Some a => sa_nss a | None => [] end.
Definition has_sel (p : pool) : bool := match p_alloc p with Some a => match sa_sels a with [] => false | _ => true end | None => false end.

(* poolsByNamespace after fix F2 (each list sorted).  [order] = the map iteration order. *)
Definition by_namespace (order : list pool) : list (N * list N) :=
  map (fun ns => (ns, sortN (map p_name (filter (fun p => memN ns (pool_nss p)) order))))
      (setN (flat_map pool_nss order)).
(* poolsByServiceSelector *)
Definition by_selector (order : list pool) : list N := sortN (map p_name (filter has_sel order)).

Definition node_ips (nodes : list node_cr) : list ip := flat_map nd_ips nodes.

(* poolsFor.  [iter] = iteration order of the ByName map *)
Definition pools_for (iter : list pool -> list pool) (r : resources) : option pools_out :=
  match pools_loop (node_ips (r_nodes r)) (r_nss r) (r_pools r) [] [] with
  | None => None
  | Some ps =>
      match set_l2 (r_pools r) (r_nodes r) (r_l2 r) ps with
      | None => None
      | Some ps1 =>
          match set_bgp (r_pools r) (r_nodes r) (r_bgp r) ps1 with
          | None => None
          | Some ps2 =>
              let byname := ksort p_name ps2 in
              Some {| po_pools := byname; po_byns := by_namespace (iter byname);
                      po_bysel := by_selector (iter byname) |}
          end
      end
  end.

(* config.For: [other] stands for validate + bfdProfilesFor + peersFor + communitiesFromCrs +
   bgpExtrasFor (result: the non-pool part of Config, None = rejected), [vcfg] for validateConfig *)
Definition cfg_for {O : Type} (iter : list pool -> list pool) (other : resources -> option O)
           (vcfg : pools_out -> O -> bool) (r : resources) : option (pools_out * O) :=
  match other r with
  | None => None
  | Some o => match pools_for iter r with
              | None => None
              | Some ps => if vcfg ps o then Some (ps, o) else None
              end
  end.

(* toConfig: every listed kind goes through sortedCopy.  [srt] = Go's sort by name. *)
Definition sorter := forall A : Type, (A -> N) -> list A -> list A.
Definition canon (srt : sorter) (r : resources) : resources :=
  {| r_pools := srt _ pl_name (r_pools r); r_l2 := srt _ l2_name (r_l2 r);
     r_bgp := srt _ bg_name (r_bgp r); r_nodes := srt _ nd_name (r_nodes r);
     r_nss := srt _ ns_name (r_nss r); r_peers := srt _ fst (r_peers r);
     r_bfds := srt _ fst (r_bfds r); r_comms := srt _ fst (r_comms r) |}.
Definition to_config {T : Type} (srt : sorter) (F : resources -> T) (r : resources) : T := F (canon srt r).

Definition ksorter : sorter := fun A key l => ksort key l.

(* ------------------------------------------------------------------ property vocabulary *)
(* address set of what the user wrote *)
Definition addr_denotes (a : addr) (x : ip) : Prop :=
  match a with
  | ACidr p => contains p x = true
  | AMapped b l => if 96 <=? l then contains {| pfam := F4; pbase := b; plen := l - 96 |} x = true
                   else contains {| pfam := F6; pbase := mapped_base + b; plen := l |} x = true
  | ARange s e => ip_fam s = ip_fam e /\ ip_fam x = ip_fam s /\ ip_val s <= ip_val x <= ip_val e
  end.
Definition in_prefixes (ps : list prefix) (x : ip) : Prop := exists p, In p ps /\ contains p x = true.
Definition disjoint (a b : prefix) : Prop := forall x, contains a x = true -> contains b x = true -> False.
Definition aligned (p : prefix) : Prop := pbase p mod block p = 0.

(* H-sort: what the theorems assume of Go's sort.Slice with the by-name comparator *)
Definition kle {A} (key : A -> N) (a b : A) : Prop := key a <= key b.
Definition hsort (srt : sorter) : Prop :=
  forall A (key : A -> N) (l : list A), NoDup (map key l) ->
    Permutation (srt A key l) l /\ StronglySorted (kle key) (srt A key l).
(* the iteration order of a Go map: some permutation of its content *)
Definition map_order (iter : list pool -> list pool) : Prop := forall l, Permutation (iter l) l.

(* two listings of the same snapshot; names are unique within a kind *)
Definition perm_res (r r' : resources) : Prop :=
  Permutation (r_pools r) (r_pools r') /\ Permutation (r_l2 r) (r_l2 r') /\
  Permutation (r_bgp r) (r_bgp r') /\ Permutation (r_nodes r) (r_nodes r') /\
  Permutation (r_nss r) (r_nss r') /\ Permutation (r_peers r) (r_peers r') /\
  Permutation (r_bfds r) (r_bfds r') /\ Permutation (r_comms r) (r_comms r').
Definition nodup_names (r : resources) : Prop :=
  NoDup (map pl_name (r_pools r)) /\ NoDup (map l2_name (r_l2 r)) /\ NoDup (map bg_name (r_bgp r)) /\
  NoDup (map nd_name (r_nodes r)) /\ NoDup (map ns_name (r_nss r)) /\ NoDup (map fst (r_peers r)) /\
  NoDup (map fst (r_bfds r)) /\ NoDup (map fst (r_comms r)).

(* ------------------------------------------------------------------ the reconcilers *)
(* config_controller.go:144-171 / pool_controller.go:88-110: [new] is toConfig's result
   (None = error), [ceq] is reflect.DeepEqual, [h] the handler's answer if it is called *)
Inductive sync := SSuccess | SError | SReprocessAll | SErrorNoRetry.
Record rstate (C : Type) := { rs_cur : option C; rs_calls : nat; rs_reloads : nat }.
Arguments rs_cur {C}. Arguments rs_calls {C}. Arguments rs_reloads {C}.
Definition reconcile {C} (pool_variant : bool) (ceq : C -> C -> bool) (st : rstate C)
           (new : option C) (h : sync) : rstate C :=
  match new with
  | None => st
  | Some c =>
      if match rs_cur st with Some o => ceq o c | None => false end then st
      else let calls := S (rs_calls st) in
           match h with
           | SError => {| rs_cur := if pool_variant then rs_cur st else None; rs_calls := calls; rs_reloads := rs_reloads st |}
           | SErrorNoRetry => {| rs_cur := if pool_variant then rs_cur st else Some c; rs_calls := calls; rs_reloads := rs_reloads st |}
           | SReprocessAll => {| rs_cur := Some c; rs_calls := calls; rs_reloads := S (rs_reloads st) |}
           | SSuccess => {| rs_cur := Some c; rs_calls := calls; rs_reloads := rs_reloads st |}
           end
  end.
