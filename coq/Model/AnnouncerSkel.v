(* The control skeleton of internal/layer2/announcer.go that Model/Announcer.v and
   Model/AnnouncerExt.v were transcribed from (property C13, structural tie of the hand-written
   model to the code). *)
From Coq Require Import List String Bool Arith.
Import ListNotations.
Local Open Scope string_scope.

(* ---- the control skeleton the transcriptions above were made from ----
   per function, for every loop: (nesting depth among loops, contains a return, contains a break of
   the loop, contains a continue of the loop, calls its body must contain).
   tools/lockfacts re-extracts the skeletons from announcer.go on every run (per loop additionally
   ALL the names called in its body, and per function whether there is a `return` outside every
   loop) and announcer_skeleton_matches (.work/C13/AnnSkeleton.v) compares: `continue` turned into
   `return`, a loop that lost the call the model gives it, a new or a missing loop break the tie even
   when no input separates the behaviours yet.
   What is NOT compared, because it cannot matter for the transcription: the textual order of the
   loops relative to each other and to straight-line statements (the loops of a function are matched
   as a MULTISET: every expected loop is paired with a distinct found loop of the same exit
   structure whose body contains the required calls, and no found loop is left over), calls in
   addition to the required ones (logging, String(), ...), and whether a guard is written as an
   early `return` or as an enclosing `if` (the first component of the found skeleton is kept for the
   evidence only).
     SetBalancer:    loop over the service's advertisements leaves by `return` on an Equal address
                     ([override] stops at the first match); loop over the NDP responders (Watch)
                     runs through                                               -> [inc1]
     DeleteBalancer: loop over the advertisements with `continue` while the address is still in
                     use ([del_body] never returns); inner loop over the NDP responders (Unwatch)
     gratuitous:     two sweeps with `continue` for responders the advertisement does not cover
                     (matchInterface), Gratuitous on the others ([grat_body])
     shouldAnnounce: nested loops left by `return` at the first covering advertisement ([scan])
     spamLoop:       endless for/select, inner sweep over the map without exits calling gratuitous
                     ([XRecv], [XTick]) *)
Definition loop := (nat * bool * bool * bool * list string)%type.
Definition skeleton := (bool * list loop)%type.
Definition expected_skeletons : list (string * list loop) := [
  ("Announce.SetBalancer",    [(1, true, false, false, ["Equal"]); (1, false, false, false, ["Watch"])]);
  ("Announce.DeleteBalancer", [(2, false, false, false, ["Unwatch"]); (1, false, false, true, ["Unwatch"])]);
  ("Announce.gratuitous",     [(1, false, false, true, ["matchInterface"; "Gratuitous"]);
                               (1, false, false, true, ["matchInterface"; "Gratuitous"])]);
  ("Announce.shouldAnnounce", [(2, true, false, false, ["matchInterface"]); (1, true, false, false, ["matchInterface"])]);
  ("Announce.spamLoop",       [(2, false, false, false, ["gratuitous"]); (1, false, false, false, ["gratuitous"])])].

Definition mem_str (x : string) (l : list string) : bool := existsb (String.eqb x) l.
(* e: expected (required calls), f: found (all calls of the body) *)
Definition loop_matches (e f : loop) : bool :=
  match e, f with
  | (d, r, k, c, need), (d', r', k', c', have) =>
      Nat.eqb d d' && Bool.eqb r r' && Bool.eqb k k' && Bool.eqb c c' && forallb (fun x => mem_str x have) need
  end.
(* remove the first found loop that matches e *)
Fixpoint take_match (e : loop) (fs : list loop) : option (list loop) :=
  match fs with
  | [] => None
  | f :: r => if loop_matches e f then Some r
              else match take_match e r with Some r' => Some (f :: r') | None => None end
  end.
(* every expected loop is paired with a distinct found loop, none is left over (greedy, first match) *)
Fixpoint loops_match (es fs : list loop) : bool :=
  match es with
  | [] => match fs with [] => true | _ => false end
  | e :: r => match take_match e fs with Some fs' => loops_match r fs' | None => false end
  end.
Definition skeleton_ok (found : list (string * skeleton)) (e : string * list loop) : bool :=
  match find (fun f => String.eqb (fst f) (fst e)) found with
  | Some f => loops_match (snd e) (snd (snd f))
  | None => false
  end.
Definition skeletons_match (found : list (string * skeleton)) : bool :=
  forallb (skeleton_ok found) expected_skeletons.
Definition skeleton_diffs (found : list (string * skeleton)) : list string :=
  map fst (filter (fun e => negb (skeleton_ok found e)) expected_skeletons).

(* the textual order does not matter: two examples of the comparison itself *)
Example loops_match_order_free :
  loops_match [(1, true, false, false, ["Equal"]); (1, false, false, false, ["Watch"])]
              [(1, false, false, false, ["Error"; "Log"; "Watch"]); (1, true, false, false, ["Equal"])] = true.
Proof. reflexivity. Qed.
Example loops_match_continue_to_return_differs :
  loops_match [(1, false, false, true, ["Unwatch"])] [(1, true, false, false, ["Unwatch"])] = false.
Proof. reflexivity. Qed.
