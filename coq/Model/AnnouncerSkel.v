(* The control skeleton of internal/layer2/announcer.go that Model/Announcer.v and
   Model/AnnouncerExt.v were transcribed from (property C13, structural tie of the hand-written
   model to the code). *)
From Coq Require Import List String Bool Arith.
Import ListNotations.
Local Open Scope string_scope.

(* ---- the control skeleton the transcriptions above were made from ----
   per function: is there a `return` outside every loop, and for every loop in source order
   (nesting depth, contains a return, contains a break of the loop, contains a continue of the loop).
   tools/lockfacts re-extracts the skeletons from announcer.go on every run and
   announcer_skeleton_matches (.work/C13/AnnSections.v) compares: `continue` turned into
   `return`, a dropped early return or a new loop break the correspondence even when no input
   separates the behaviours yet.
     SetBalancer:    loop over the service's advertisements leaves by `return` on an equal address
                     ([override] stops at the first match); `return` when the count is > 1;
                     loop over a.ndps (Watch) runs through                       -> [inc1]
     DeleteBalancer: early `return` for an unknown service; loop over the advertisements with
                     `continue` while the address is still in use ([del_body] never returns);
                     inner loop over a.ndps (Unwatch)
     gratuitous:     early `return` when the count is <= 0; two sweeps with `continue` for
                     responders the advertisement does not cover ([grat_body])
     shouldAnnounce: nested loops left by `return` at the first covering advertisement ([scan])
     spamLoop:       endless for/select, inner sweep over the map without exits ([XRecv], [XTick]) *)
Definition skeleton := (bool * list (nat * bool * bool * bool))%type.
Definition expected_skeletons : list (string * skeleton) := [
  ("Announce.SetBalancer",    (true,  [(1, true, false, false); (1, false, false, false)]));
  ("Announce.DeleteBalancer", (true,  [(1, false, false, true); (2, false, false, false)]));
  ("Announce.gratuitous",     (true,  [(1, false, false, true); (1, false, false, true)]));
  ("Announce.shouldAnnounce", (true,  [(1, true, false, false); (2, true, false, false)]));
  ("Announce.spamLoop",       (false, [(1, false, false, false); (2, false, false, false)]))].

Definition loop_eqb (a b : nat * bool * bool * bool) : bool :=
  match a, b with
  | (d, r, k, c), (d', r', k', c') => Nat.eqb d d' && Bool.eqb r r' && Bool.eqb k k' && Bool.eqb c c'
  end.
Fixpoint loops_eqb (a b : list (nat * bool * bool * bool)) : bool :=
  match a, b with
  | [], [] => true
  | x :: r, y :: r' => loop_eqb x y && loops_eqb r r'
  | _, _ => false
  end.
Definition skeleton_eqb (a b : skeleton) : bool := Bool.eqb (fst a) (fst b) && loops_eqb (snd a) (snd b).
Definition skeletons_match (found : list (string * skeleton)) : bool :=
  forallb (fun e => match find (fun f => String.eqb (fst f) (fst e)) found with
                    | Some f => skeleton_eqb (snd f) (snd e)
                    | None => false end) expected_skeletons.
Definition skeleton_diffs (found : list (string * skeleton)) : list string :=
  map fst (filter (fun e => negb (match find (fun f => String.eqb (fst f) (fst e)) found with
                                  | Some f => skeleton_eqb (snd f) (snd e)
                                  | None => false end)) expected_skeletons).
