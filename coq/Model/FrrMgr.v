(* FrrMgr — the session-manager state machine of both BGP back ends:
   internal/bgp/frr/frr.go      sessionManager / session: NewSession (123-143),
     Set (73-107), Close (110-125), addSession / deleteSession (145-165),
     SyncExtraInfo (167-178), SyncBFDProfiles (180-200), sessionName (46-63), validate (65-70)
   internal/bgp/frrk8s/frrk8s.go the same functions (lines 50-190).
   State: the sessions map (association list keyed by sessionName = FrrK8s.sname;
   iteration order of the Go map is NOT modelled: [cfg_of] takes the list order
   and FrrMgrP shows the configuration does not depend on it), the BFD profiles
   (opaque payloads keyed by name) and the extra configuration.
   One operation = one call under the manager's mutex.  Result: new state, "no
   error returned", and the configuration handed on (to the reload channel /
   the callback) if any.
     NewSession: add (overwrite) the session with no advertisements, generate;
                 on failure deleteSession (by name!) and return the error.
     Set:        unknown session name -> error; validate every advertisement
                 (at most 63 communities) BEFORE anything is stored; store, generate;
                 on failure restore the previous advertisements.
     Close:      delete, generate.     SyncBFDProfiles: store (sorted by name), generate.
     SyncExtraInfo: FRR mode stores and generates; frr-k8s mode refuses a non-empty
                 string and otherwise does nothing.
   A handle is identified with the map entry of its name (a stale handle of an
   overwritten session is outside the model; the harness never creates one). *)
From Verif Require Export Model.FrrSpec Model.FrrK8s.
Open Scope string_scope.

Definition set_advs (s : session) (l : list adv) : session :=
  mk_session (s_myasn s) (s_rid s) (s_vrf s) (s_addr s) (s_addr4 s) (s_iface s) (s_peerasn s) (s_dynasn s) (s_src s)
             (s_port s) (s_hold s) (s_keep s) (s_connect s) (s_password s) (s_bfd s) (s_gr s) (s_multihop s)
             (s_disable_mp s) l (s_secret s).

Definition bfdprof := (string * N)%type.       (* name, payload (opaque) *)

Record mstate := mk_mstate { ms_sessions : list (string * session); ms_bfd : list bfdprof; ms_extra : string }.
Definition minit : mstate := mk_mstate [] [] "".

Inductive mop :=
  | MNew (p : session)                  (* NewSession(args): advertisements of p are ignored *)
  | MSet (p : session) (advs : list adv)   (* Set on the handle of the session named like p *)
  | MClose (p : session)
  | MBfd (l : list bfdprof)
  | MExtra (e : string).

(* association list keyed by session name *)
Fixpoint aget (k : string) (l : list (string * session)) : option session :=
  match l with
  | [] => None
  | (k', v) :: r => if String.eqb k' k then Some v else aget k r
  end.
Fixpoint aput (k : string) (v : session) (l : list (string * session)) : list (string * session) :=
  match l with
  | [] => [(k, v)]
  | (k', v') :: r => if String.eqb k' k then (k, v) :: r else (k', v') :: aput k v r
  end.
Definition adel (k : string) (l : list (string * session)) : list (string * session) :=
  filter (fun x => negb (String.eqb (fst x) k)) l.

Definition valid_adv (a : adv) : bool := Nat.leb (List.length (a_comms a)) 63.      (* validate *)

Definition sessions_of (st : mstate) : list session := map snd (ms_sessions st).

Section Machine.
  (* the back end: configuration generated from the state (None = error) and
     what SyncExtraInfo does *)
  Context {C : Type}.
  Variable gen : list session -> list bfdprof -> string -> option C.
  Variable extra_regenerates : bool.     (* FRR mode: true; frr-k8s mode: false (and a non-empty string is an error) *)

  Definition cfg_of (st : mstate) : option C := gen (sessions_of st) (ms_bfd st) (ms_extra st).

  Definition with_sessions (st : mstate) (l : list (string * session)) : mstate :=
    mk_mstate l (ms_bfd st) (ms_extra st).

  (* new state, no error, configuration handed on *)
  Definition mstep (st : mstate) (o : mop) : mstate * bool * option C :=
    match o with
    | MNew p =>
        let s := set_advs p [] in
        let st' := with_sessions st (aput (sname s) s (ms_sessions st)) in
        match cfg_of st' with
        | Some c => (st', true, Some c)
        | None => (with_sessions st (adel (sname s) (ms_sessions st')), false, None)
        end
    | MSet p advs =>
        match aget (sname p) (ms_sessions st) with
        | None => (st, false, None)                       (* "not established before advertisement" *)
        | Some s0 =>
            if forallb valid_adv advs then
              let st' := with_sessions st (aput (sname p) (set_advs s0 advs) (ms_sessions st)) in
              match cfg_of st' with
              | Some c => (st', true, Some c)
              | None => (st, false, None)                 (* s.advertised = oldAdvs *)
              end
            else (st, false, None)
        end
    | MClose p =>
        let st' := with_sessions st (adel (sname p) (ms_sessions st)) in
        match cfg_of st' with
        | Some c => (st', true, Some c)
        | None => (st', false, None)
        end
    | MBfd l =>
        let st' := mk_mstate (ms_sessions st) (sort_k fst l) (ms_extra st) in
        match cfg_of st' with
        | Some c => (st', true, Some c)
        | None => (st', false, None)
        end
    | MExtra e =>
        if extra_regenerates then
          let st' := mk_mstate (ms_sessions st) (ms_bfd st) e in
          match cfg_of st' with
          | Some c => (st', true, Some c)
          | None => (st', false, None)
          end
        else (st, String.eqb e "", None)
    end.

  (* a history: final state, the per-operation results, the last configuration handed on *)
  Fixpoint mrun (st : mstate) (last : option C) (ops : list mop) : mstate * list bool * option C :=
    match ops with
    | [] => (st, [], last)
    | o :: r =>
        let '(st', ok, c) := mstep st o in
        let '(st'', oks, last') := mrun st' (match c with Some _ => c | None => last end) r in
        (st'', ok :: oks, last')
    end.
End Machine.

(* the two back ends *)
Definition gen_frr (S : list session) (b : list bfdprof) (e : string) : option (frr * list bfdprof * string) :=
  match render S with Some f => Some (f, b, e) | None => None end.

Definition gen_k8s (node : string) (S : list session) (b : list bfdprof) (e : string) : option (kconfig * list bfdprof) :=
  match k8s_render node S with Some c => Some (c, sort_k fst b) | None => None end.
