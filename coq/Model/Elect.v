(* Model of the layer-2 election: speaker/layer2_controller.go
   (ShouldAnnounce, nodesWithEndpoint, activeEndpointExists, poolMatchesNodeL2,
   speakersForPool), internal/k8s/nodes (IsNetworkUnavailable,
   IsNodeExcludedFromBalancers), internal/k8s/epslices.EndpointCanServe.
   Nodes are numbered by the harness; [h n] is the 256-bit digest of
   "<node name>#<first address>" as a number. *)
From Coq Require Export List NArith Bool.
Export ListNotations.
Local Open Scope N_scope.

Record ninfo := { ni_id : N; ni_unavail : bool; ni_excl : bool }.
Record endpoint := { ep_ready : option bool; ep_serving : option bool; ep_node : option N }.
Record view := { v_nodes : list ninfo;            (* nodes map[string]*v1.Node *)
                 v_speakers : option (list N);    (* None: memberlist disabled *)
                 v_advs : list (list N);          (* pool.L2Advertisements[i].Nodes *)
                 v_eps : list (list endpoint);    (* endpoint slices *)
                 v_local : bool;                  (* ExternalTrafficPolicy = Local *)
                 v_ignore : bool }.               (* ignoreExcludeLB *)

(* epslices.EndpointCanServe *)
Definition can_serve (e : endpoint) : bool :=
  match ep_ready e with
  | None | Some true => true
  | Some false => match ep_serving e with Some true => true | _ => false end
  end.

Definition active_ep_exists (v : view) : bool := existsb (existsb can_serve) (v_eps v).

Definition mem (n : N) (l : list N) : bool := existsb (N.eqb n) l.

Definition pool_matches (v : view) (n : N) : bool := existsb (mem n) (v_advs v).

Definition ninfo_of (v : view) (n : N) : option ninfo :=
  find (fun i => N.eqb (ni_id i) n) (v_nodes v).
(* a nil *v1.Node is neither unavailable nor excluded *)
Definition unavail (v : view) (n : N) : bool :=
  match ninfo_of v n with Some i => ni_unavail i | None => false end.
Definition excluded (v : view) (n : N) : bool :=
  match ninfo_of v n with Some i => ni_excl i | None => false end.

Definition candidates (v : view) : list N :=
  match v_speakers v with Some l => l | None => map ni_id (v_nodes v) end.

Definition node_ok (v : view) (n : N) : bool :=
  negb (unavail v n) && (v_ignore v || negb (excluded v n)) && pool_matches v n.

(* speakersForPool: the key set of the returned map *)
Definition speakers_for_pool (v : view) : list N := filter (node_ok v) (candidates v).

Definition ep_on (n : N) (e : endpoint) : bool :=
  can_serve e && match ep_node e with Some m => N.eqb m n | None => false end.
Definition has_ep_on (v : view) (n : N) : bool := existsb (existsb (ep_on n)) (v_eps v).

(* availableNodes (as a set; order and multiplicity are irrelevant to argmin) *)
Definition available (v : view) : list N :=
  if v_local v then filter (has_ep_on v) (speakers_for_pool v) else speakers_for_pool v.

Definition argmin (h : N -> N) (l : list N) : option N :=
  match l with
  | [] => None
  | x :: r => Some (fold_left (fun b y => if h y <? h b then y else b) r x)
  end.

(* ShouldAnnounce(...) == "" on node [me] *)
Definition decide (h : N -> N) (v : view) (me : N) : bool :=
  active_ep_exists v && pool_matches v me &&
  match argmin h (available v) with Some w => N.eqb w me | None => false end.

(* the property's eligibility list, written independently of [decide] *)
Definition eligible (v : view) (n : N) : Prop :=
  In n (candidates v) /\ unavail v n = false /\ (v_ignore v = true \/ excluded v n = false) /\
  pool_matches v n = true /\ active_ep_exists v = true /\
  (v_local v = true -> has_ep_on v n = true).

Definition inj_on (h : N -> N) (l : list N) : Prop :=
  forall a b, In a l -> In b l -> h a = h b -> a = b.

(* what the Go code really does: every speaker builds its candidate list by ranging
   over its OWN maps, so the listing order [ord me] may differ from node to node *)
Definition decide_ord (h : N -> N) (v : view) (ord : N -> list N) (me : N) : bool :=
  active_ep_exists v && pool_matches v me &&
  match argmin h (ord me) with Some w => N.eqb w me | None => false end.
