(* Model of the native BGP wire format: internal/bgp/native/messages.go
   (sendOpen, readOpen/readOptions/readCapabilities with their LimitedReader
   bounds, readNotification, sendUpdate/encodePathAttrs/encodePrefixes/
   bytesForBits, sendWithdraw, sendKeepalive), community.BGPCommunityLegacy.
   ToUint32, safeconvert.IntToUInt8/IntToUInt16/Uint32ToInt16.

   A byte is an [N] (< 256, predicate [wfb]).  Part 1 transcribes the Go
   encoders with explicit widths ([None] = the Go function returns an error).
   Part 2 transcribes readOpen over an in-memory stream (io.ReadFull over nested
   io.LimitedReader).  Part 3 is an RFC 4271 abstract syntax, a serializer and
   an INDEPENDENT decoder [dec_msg], both written from RFC 4271 / 4760 / 6793 /
   1997 / 5492 and not from part 1.  No proofs here. *)
From Coq Require Export List NArith Bool.
Export ListNotations.
Local Open Scope N_scope.

Definition wfb (l : list N) : Prop := Forall (fun b => b < 256) l.
Definition len {A} (l : list A) : N := N.of_nat (length l).

(* ------------------------------------------------------------------ *)
(* big-endian fixed-width writers (Go: binary.Write of uint16 / uint32,
   conversion uintN(x) truncates) *)
Definition b0 (n : N) : N := n mod 256.
Definition b1 (n : N) : N := (n / 256) mod 256.
Definition b2 (n : N) : N := (n / 65536) mod 256.
Definition b3 (n : N) : N := (n / 16777216) mod 256.
Definition u16 (n : N) : list N := [b1 n; b0 n].
Definition u32 (n : N) : list N := [b3 n; b2 n; b1 n; b0 n].

Definition marker : list N := repeat 255 16.

(* ================================================================== *)
(* Part 1: the encoders of messages.go                                 *)

(* sendOpen(w, asn, routerID, holdTime): [rid] = routerID.To4() (4 bytes),
   [hold] = whole seconds of holdTime.  binary.Size(msg) = 49 always fits. *)
Definition enc_open (asn : N) (rid : list N) (hold : N) : option (list N) :=
  Some (marker ++ u16 49 ++ [1]
        ++ [4] ++ u16 (if 65535 <? asn then 23456 else asn) ++ u16 hold ++ firstn 4 rid
        ++ [20; 2; 18]
        ++ [1; 4] ++ u16 1 ++ u16 1
        ++ [1; 4] ++ u16 2 ++ u16 1
        ++ [65; 4] ++ u32 asn).

(* community.BGPCommunity: legacy (two uint16) or large (three uint32) *)
Inductive comm := CLegacy (hi lo : N) | CLarge (a b c : N).
Definition comm_u32 (c : comm) : option N :=
  match c with CLegacy hi lo => Some (hi * 65536 + lo) | CLarge _ _ _ => None end.

Record prefix := { p_ip : list N;     (* pfx.IP.To4(), 4 bytes, arbitrary bits *)
                   p_len : N }.       (* ones of pfx.Mask.Size(), 0..32 *)
Record adv := { a_pfx : prefix; a_lp : N; a_comms : list comm }.

(* bytesForBits: ((n + 7) &^ 7) / 8 *)
Definition bytes_for_bits (n : N) : N := N.ldiff (n + 7) 7 / 8.

(* encodePrefixes, one prefix *)
Definition enc_prefix (p : prefix) : list N :=
  b0 (p_len p) :: firstn (N.to_nat (bytes_for_bits (p_len p))) (p_ip p).

Fixpoint all_some {A} (l : list (option A)) : option (list A) :=
  match l with
  | [] => Some []
  | None :: _ => None
  | Some x :: r => match all_some r with Some xs => Some (x :: xs) | None => None end
  end.

(* the communities part of encodePathAttrs *)
Definition enc_comms (cs : list comm) : option (list N) :=
  match cs with
  | [] => Some []
  | _ => match all_some (map comm_u32 cs) with
         | None => None                                  (* non-legacy community *)
         | Some vs => if 255 <? 4 * len cs then None     (* IntToUInt8 *)
                      else Some ([192; 8] ++ [4 * len cs] ++ concat (map u32 vs))
         end
  end.

(* the AS_PATH part *)
Definition enc_aspath (asn : N) (ibgp fbasn : bool) : option (list N) :=
  if ibgp then Some [0]
  else if fbasn then Some ([6; 2; 1] ++ u32 asn)
  else if 65535 <? asn then None                        (* Uint32ToInt16 *)
  else Some ([4; 2; 1] ++ u16 asn).

(* encodePathAttrs; [nh] is the raw net.IP written by b.Write(nextHop)
   (4 bytes on IPv4 transport, 16 on IPv6 transport) *)
Definition enc_path_attrs (asn : N) (ibgp fbasn : bool) (nh : list N) (a : adv) : option (list N) :=
  match enc_aspath asn ibgp fbasn with
  | None => None
  | Some asp =>
    match enc_comms (a_comms a) with
    | None => None
    | Some cm =>
      Some ([64; 1; 1; 0; 64; 2] ++ asp ++ [64; 3; 4] ++ nh
            ++ (if ibgp then [64; 5; 4] ++ u32 (a_lp a) else []) ++ cm)
    end
  end.

(* sendUpdate *)
Definition enc_update (asn : N) (ibgp fbasn : bool) (nh : list N) (a : adv) : option (list N) :=
  match enc_path_attrs asn ibgp fbasn nh a with
  | None => None
  | Some attrs =>
    if 65535 <? len attrs then None
    else let nlri := enc_prefix (a_pfx a) in
         let total := 23 + len attrs + len nlri in
         if 65535 <? total then None
         else Some (marker ++ u16 total ++ [2] ++ u16 0 ++ u16 (len attrs) ++ attrs ++ nlri)
  end.

(* sendWithdraw *)
Definition enc_withdraw (ps : list prefix) : option (list N) :=
  let w := concat (map enc_prefix ps) in
  if 65535 <? len w then None
  else let total := 21 + len w + 2 in
       if 65535 <? total then None
       else Some (marker ++ u16 total ++ [2] ++ u16 (len w) ++ w ++ u16 0).

(* sendKeepalive *)
Definition enc_keepalive : option (list N) := Some (marker ++ u16 19 ++ [4]).

(* ================================================================== *)
(* Part 2: readOpen over a byte stream                                 *)

Inductive rerr := EEof | EUnexp | EOther.
Record open_result := { r_asn : N; r_hold : N; r_mp4 : bool; r_mp6 : bool; r_fbasn : bool }.
Inductive rres := ROk (r : open_result) | RErr (e : rerr).

Fixpoint be (l : list N) (acc : N) : N :=
  match l with [] => acc | b :: r => be r (acc * 256 + b) end.

(* io.ReadFull(k bytes) through LimitedReaders with budgets [lims] on stream
   [s]: the number of bytes actually obtained *)
Definition got (k : N) (lims : list N) (s : list N) : N :=
  fold_right N.min (N.min k (len s)) lims.
Definition full_err (k m : N) : option rerr :=
  if m =? k then None else if m =? 0 then Some EEof else Some EUnexp.
Definition takeN (m : N) (s : list N) := firstn (N.to_nat m) s.
Definition dropN (m : N) (s : list N) := skipn (N.to_nat m) s.

(* readCapabilities(lr2, ret): stream [s], budgets n2 (this option) and n1
   (the message).  Returns (error, stream, n1, n2, result). *)
Fixpoint read_caps (fuel : nat) (s : list N) (n1 n2 : N) (r : open_result)
  : option rerr * list N * N * N * open_result :=
  match fuel with
  | O => (Some EOther, s, n1, n2, r)
  | S fuel =>
    let m := got 2 [n2; n1] s in
    let h := takeN m s in let s1 := dropN m s in
    let n1a := n1 - m in let n2a := n2 - m in
    if m =? 0 then (None, s1, n1a, n2a, r)                 (* io.EOF: done *)
    else if m =? 1 then (Some EUnexp, s1, n1a, n2a, r)
    else
      let code := nth 0 h 0 in let n3 := nth 1 h 0 in
      if (code =? 65) || (code =? 1) then
        let m4 := got 4 [n3; n2a; n1a] s1 in
        let d := takeN m4 s1 in let s2 := dropN m4 s1 in
        let n1b := n1a - m4 in let n2b := n2a - m4 in let n3b := n3 - m4 in
        match full_err 4 m4 with
        | Some e => (Some e, s2, n1b, n2b, r)
        | None =>
          let r' := if code =? 65
                    then {| r_asn := be d 0; r_hold := r_hold r; r_mp4 := r_mp4 r; r_mp6 := r_mp6 r; r_fbasn := true |}
                    else let afi := be (firstn 2 d) 0 in let safi := be (skipn 2 d) 0 in
                         {| r_asn := r_asn r; r_hold := r_hold r;
                            r_mp4 := r_mp4 r || ((afi =? 1) && (safi =? 1));
                            r_mp6 := r_mp6 r || ((afi =? 2) && (safi =? 1));
                            r_fbasn := r_fbasn r |} in
          if n3b =? 0 then read_caps fuel s2 n1b n2b r'
          else (Some EOther, s2, n1b, n2b, r')
        end
      else
        (* io.Copy(io.Discard, &lr3) *)
        let md := got n3 [n2a; n1a] s1 in
        let s2 := dropN md s1 in
        if n3 - md =? 0 then read_caps fuel s2 (n1a - md) (n2a - md) r
        else (Some EOther, s2, n1a - md, n2a - md, r)
  end.

(* readOptions(lr, ret) *)
Fixpoint read_opts (fuel : nat) (s : list N) (n1 : N) (r : open_result)
  : option rerr * list N * N * open_result :=
  match fuel with
  | O => (Some EOther, s, n1, r)
  | S fuel =>
    let m := got 2 [n1] s in
    let h := takeN m s in let s1 := dropN m s in
    let n1a := n1 - m in
    if m =? 0 then (None, s1, n1a, r)
    else if m =? 1 then (Some EUnexp, s1, n1a, r)
    else
      let ty := nth 0 h 0 in let n2 := nth 1 h 0 in
      if negb (ty =? 2) then (Some EOther, s1, n1a, r)
      else
        match read_caps (S (length s1)) s1 n1a n2 r with
        | (Some e, s2, n1b, _, r') => (Some e, s2, n1b, r')
        | (None, s2, n1b, n2b, r') =>
          if n2b =? 0 then read_opts fuel s2 n1b r' else (Some EOther, s2, n1b, r')
        end
  end.

(* readOpen.  [minlen] is the constant of the "too small to be OPEN" test and
   [bound_notif] says whether readNotification reads through a reader limited
   to the announced length (see Proofs/WireP_prefix.v for the values before
   the fix: commits). *)
Definition read_open_gen (minlen : N) (bound_notif : bool) (bs : list N) : rres * N :=
  let m := got 19 [] bs in
  let h := takeN m bs in let s := dropN m bs in
  match full_err 19 m with
  | Some e => (RErr e, m)
  | None =>
    if negb (forallb (N.eqb 255) (firstn 16 h)) then (RErr EOther, m)
    else
      let hlen := be (firstn 2 (skipn 16 h)) 0 in
      let ty := nth 18 h 0 in
      if ty =? 3 then
        (* readNotification: binary.Read of a uint16, always an error *)
        let m2 := if bound_notif then got 2 [hlen - 19] s else got 2 [] s in
        (RErr (match full_err 2 m2 with Some e => e | None => EOther end), m + m2)
      else if negb (ty =? 1) then (RErr EOther, m)
      else if hlen <? minlen then (RErr EOther, m)
      else
        let n1 := hlen - 19 in
        let m10 := got 10 [n1] s in
        let o := takeN m10 s in let s1 := dropN m10 s in
        match full_err 10 m10 with
        | Some e => (RErr e, m + m10)
        | None =>
          let ver := nth 0 o 0 in
          let asn16 := be (firstn 2 (skipn 1 o)) 0 in
          let hold := be (firstn 2 (skipn 3 o)) 0 in
          if negb (ver =? 4) then (RErr EOther, m + m10)
          else if negb (hold =? 0) && (hold <? 3) then (RErr EOther, m + m10)
          else
            let r0 := {| r_asn := asn16; r_hold := hold; r_mp4 := false; r_mp6 := false; r_fbasn := false |} in
            match read_opts (S (length s1)) s1 (n1 - m10) r0 with
            | (Some e, s2, _, _) => (RErr e, len bs - len s2)
            | (None, s2, _, r) => (ROk r, len bs - len s2)
            end
        end
  end.

(* the code of the current tree (after fix: F10 and the notification bound) *)
Definition read_open : list N -> rres * N := read_open_gen 29 true.

(* ================================================================== *)
(* Part 3: RFC 4271 abstract syntax, serializer, independent decoder   *)

(* RFC 5492 capability: code, value.  RFC 4760: code 1, value AFI(2) Res(1)
   SAFI(1).  RFC 6793: code 65, value 4-octet AS number. *)
Record cap := { c_code : N; c_val : list N }.
(* RFC 4271 4.2 optional parameter; RFC 5492: type 2 = capabilities *)
Inductive param := PCaps (cs : list cap) | POther (ty : N) (val : list N).
Record open_msg := { o_ver : N; o_asn : N; o_hold : N; o_id : list N; o_params : list param }.

(* path attributes, RFC 4271 4.3 / 5.1, RFC 1997 *)
Inductive attr :=
| AOrigin (v : N)
| AAsPath (segs : list (N * list N))       (* segment type 1=SET 2=SEQUENCE, AS numbers *)
| ANextHop (ip : list N)
| ALocalPref (v : N)
| ACommunities (vs : list N)
| AOther (flags ty : N) (val : list N).
Definition nlri := (N * list N)%type.        (* length in bits, ceil(len/8) octets *)
Record update_msg := { u_wdr : list nlri; u_attrs : list attr; u_nlri : list nlri }.
Inductive msg := MOpen (o : open_msg) | MUpdate (u : update_msg) | MKeepalive
               | MNotification (code sub : N) (data : list N).

(* ---- serializer (RFC field layout) ---- *)
Definition ser_cap (c : cap) : list N := [c_code c; len (c_val c)] ++ c_val c.
Definition ser_param (p : param) : list N :=
  match p with
  | PCaps cs => let body := concat (map ser_cap cs) in [2; len body] ++ body
  | POther ty v => [ty; len v] ++ v
  end.
Definition ser_nlri (p : nlri) : list N := fst p :: snd p.
Definition ser_seg (w4 : bool) (s : N * list N) : list N :=
  [fst s; len (snd s)] ++ concat (map (fun a => if w4 then u32 a else u16 a) (snd s)).
Definition ser_attr_raw (flags ty : N) (v : list N) : list N :=
  if N.testbit flags 4 then [flags; ty] ++ u16 (len v) ++ v else [flags; ty; len v] ++ v.
Definition ser_attr (w4 : bool) (a : attr) : list N :=
  match a with
  | AOrigin v => ser_attr_raw 64 1 [v]
  | AAsPath segs => ser_attr_raw 64 2 (concat (map (ser_seg w4) segs))
  | ANextHop ip => ser_attr_raw 64 3 ip
  | ALocalPref v => ser_attr_raw 64 5 (u32 v)
  | ACommunities vs => ser_attr_raw 192 8 (concat (map u32 vs))
  | AOther f t v => ser_attr_raw f t v
  end.
Definition ser_body (w4 : bool) (m : msg) : N * list N :=
  match m with
  | MOpen o => let ps := concat (map ser_param (o_params o)) in
               (1, [o_ver o] ++ u16 (o_asn o) ++ u16 (o_hold o) ++ o_id o ++ [len ps] ++ ps)
  | MUpdate u => let w := concat (map ser_nlri (u_wdr u)) in
                 let a := concat (map (ser_attr w4) (u_attrs u)) in
                 (2, u16 (len w) ++ w ++ u16 (len a) ++ a ++ concat (map ser_nlri (u_nlri u)))
  | MKeepalive => (4, [])
  | MNotification c s d => (3, [c; s] ++ d)
  end.
Definition ser_msg (w4 : bool) (m : msg) : list N :=
  let '(ty, body) := ser_body w4 m in marker ++ u16 (19 + len body) ++ [ty] ++ body.

(* ---- decoder ---- *)
Definition bind {A B} (x : option A) (f : A -> option B) : option B :=
  match x with Some a => f a | None => None end.
Notation "x <- e ;; f" := (bind e (fun x => f)) (at level 61, e at next level, right associativity).
Notation "' p <- e ;; f" := (bind e (fun p => f)) (at level 61, p pattern, e at next level, right associativity).
Definition guard (b : bool) : option unit := if b then Some tt else None.

Definition get8 (l : list N) : option (N * list N) :=
  match l with b :: r => Some (b, r) | [] => None end.
Definition get16 (l : list N) : option (N * list N) :=
  match l with a :: b :: r => Some (a * 256 + b, r) | _ => None end.
Definition get32 (l : list N) : option (N * list N) :=
  match l with a :: b :: c :: d :: r => Some (((a * 256 + b) * 256 + c) * 256 + d, r) | _ => None end.
Definition take (k : N) (l : list N) : option (list N * list N) :=
  if len l <? k then None else Some (firstn (N.to_nat k) l, skipn (N.to_nat k) l).

(* zero or more items filling the whole input *)
Fixpoint many {A} (p : list N -> option (A * list N)) (fuel : nat) (l : list N) : option (list A) :=
  match l with
  | [] => Some []
  | _ :: _ => match fuel with
              | O => None
              | S f => '(a, r) <- p l ;; xs <- many p f r ;; Some (a :: xs)
              end
  end.
Definition all {A} (p : list N -> option (A * list N)) (l : list N) : option (list A) :=
  many p (length l) l.

(* RFC 4271 4.3: <length (1 octet), prefix (ceil(length/8) octets)>, IPv4: length <= 32 *)
Definition dec_nlri (l : list N) : option (nlri * list N) :=
  '(n, r) <- get8 l ;; _ <- guard (n <=? 32) ;;
  '(bs, r') <- take ((n + 7) / 8) r ;; Some ((n, bs), r').

Definition dec_cap (l : list N) : option (cap * list N) :=
  '(c, r) <- get8 l ;; '(n, r) <- get8 r ;; '(v, r) <- take n r ;;
  (* RFC 4760 / RFC 6793: both known capabilities have a 4-octet value *)
  _ <- guard (negb ((c =? 1) || (c =? 65)) || (n =? 4)) ;;
  Some ({| c_code := c; c_val := v |}, r).
Definition dec_param (l : list N) : option (param * list N) :=
  '(t, r) <- get8 l ;; '(n, r) <- get8 r ;; '(v, r) <- take n r ;;
  if t =? 2 then cs <- all dec_cap v ;; Some (PCaps cs, r) else Some (POther t v, r).

Definition dec_asn (w4 : bool) (l : list N) : option (N * list N) := if w4 then get32 l else get16 l.
Fixpoint rep {A} (p : list N -> option (A * list N)) (k : nat) (l : list N) : option (list A * list N) :=
  match k with
  | O => Some ([], l)
  | S k => '(a, r) <- p l ;; '(xs, r') <- rep p k r ;; Some (a :: xs, r')
  end.
Definition dec_seg (w4 : bool) (l : list N) : option ((N * list N) * list N) :=
  '(t, r) <- get8 l ;; _ <- guard ((t =? 1) || (t =? 2)) ;;
  '(n, r) <- get8 r ;; '(asns, r) <- rep (dec_asn w4) (N.to_nat n) r ;; Some ((t, asns), r).

Definition flag_optional (f : N) := N.testbit f 7.
Definition flag_transitive (f : N) := N.testbit f 6.
Definition flag_partial (f : N) := N.testbit f 5.
Definition flag_extended (f : N) := N.testbit f 4.
(* well-known attribute: optional 0, transitive 1, partial 0 (RFC 4271 4.3) *)
Definition wellknown (f : N) := negb (flag_optional f) && flag_transitive f && negb (flag_partial f).

Definition dec_attr_val (w4 : bool) (f t : N) (v : list N) : option attr :=
  if t =? 1 then _ <- guard (wellknown f) ;;
                 match v with [o] => _ <- guard (o <=? 2) ;; Some (AOrigin o) | _ => None end
  else if t =? 2 then _ <- guard (wellknown f) ;; segs <- all (dec_seg w4) v ;; Some (AAsPath segs)
  else if t =? 3 then _ <- guard (wellknown f) ;; _ <- guard (len v =? 4) ;; Some (ANextHop v)
  else if t =? 5 then _ <- guard (wellknown f) ;;
                      '(x, r) <- get32 v ;; match r with [] => Some (ALocalPref x) | _ => None end
  else if t =? 8 then _ <- guard (flag_optional f && flag_transitive f) ;;
                      vs <- all get32 v ;; Some (ACommunities vs)
  else Some (AOther f t v).

Definition dec_attr (w4 : bool) (l : list N) : option (attr * list N) :=
  '(f, r) <- get8 l ;; '(t, r) <- get8 r ;;
  '(n, r) <- (if flag_extended f then get16 r else get8 r) ;;
  '(v, r) <- take n r ;; a <- dec_attr_val w4 f t v ;; Some (a, r).

Definition attr_type (a : attr) : N :=
  match a with AOrigin _ => 1 | AAsPath _ => 2 | ANextHop _ => 3 | ALocalPref _ => 5
             | ACommunities _ => 8 | AOther _ t _ => t end.
Fixpoint nodupb (l : list N) : bool :=
  match l with [] => true | x :: r => negb (existsb (N.eqb x) r) && nodupb r end.
(* RFC 4271 5: an attribute appears at most once; ORIGIN, AS_PATH, NEXT_HOP are
   mandatory when the UPDATE carries NLRI *)
Definition update_ok (u : update_msg) : bool :=
  let ts := map attr_type (u_attrs u) in
  nodupb ts &&
  match u_nlri u with [] => true | _ => existsb (N.eqb 1) ts && existsb (N.eqb 2) ts && existsb (N.eqb 3) ts end.

Definition dec_update (w4 : bool) (l : list N) : option update_msg :=
  '(wl, r) <- get16 l ;; '(w, r) <- take wl r ;; wd <- all dec_nlri w ;;
  '(al, r) <- get16 r ;; '(a, r) <- take al r ;; ats <- all (dec_attr w4) a ;;
  nl <- all dec_nlri r ;;
  let u := {| u_wdr := wd; u_attrs := ats; u_nlri := nl |} in
  _ <- guard (update_ok u) ;; Some u.

Definition dec_open (l : list N) : option open_msg :=
  '(v, r) <- get8 l ;; '(a, r) <- get16 r ;; '(h, r) <- get16 r ;; '(id, r) <- take 4 r ;;
  '(ol, r) <- get8 r ;; _ <- guard (len r =? ol) ;;
  _ <- guard (v =? 4) ;; _ <- guard ((h =? 0) || (3 <=? h)) ;;
  ps <- all dec_param r ;;
  Some {| o_ver := v; o_asn := a; o_hold := h; o_id := id; o_params := ps |}.

(* RFC 4271 4.1: marker all ones, 19 <= length <= 4096, length = whole message;
   [w4]: AS numbers in AS_PATH are 4 octets wide (both sides announced RFC 6793) *)
Definition dec_msg (w4 : bool) (bs : list N) : option msg :=
  '(mk, r) <- take 16 bs ;; _ <- guard (forallb (N.eqb 255) mk) ;;
  '(l, r) <- get16 r ;; '(t, body) <- get8 r ;;
  _ <- guard ((19 <=? l) && (l <=? 4096) && (l =? len bs)) ;;
  if t =? 1 then o <- dec_open body ;; Some (MOpen o)
  else if t =? 2 then u <- dec_update w4 body ;; Some (MUpdate u)
  else if t =? 3 then '(c, r) <- get8 body ;; '(s, d) <- get8 r ;; Some (MNotification c s d)
  else if t =? 4 then match body with [] => Some MKeepalive | _ => None end
  else None.

(* ---- what the speaker intends to say (the right-hand sides of the
   round-trip theorems) ---- *)
Definition intended_open (asn : N) (rid : list N) (hold : N) : msg :=
  MOpen {| o_ver := 4; o_asn := if 65535 <? asn then 23456 else asn; o_hold := hold; o_id := rid;
           o_params := [PCaps [ {| c_code := 1; c_val := [0; 1; 0; 1] |};
                                {| c_code := 1; c_val := [0; 2; 0; 1] |};
                                {| c_code := 65; c_val := u32 asn |} ]] |}.

Definition intended_nlri (p : prefix) : nlri :=
  (p_len p, firstn (N.to_nat ((p_len p + 7) / 8)) (p_ip p)).

Definition legacy_val (c : comm) : N := match c with CLegacy hi lo => hi * 65536 + lo | CLarge _ _ _ => 0 end.
Definition is_legacy (c : comm) : bool := match c with CLegacy _ _ => true | _ => false end.

Definition intended_comm_attrs (cs : list comm) : list attr :=
  match cs with [] => [] | _ => [ACommunities (map legacy_val cs)] end.
(* ORIGIN IGP; AS_PATH empty (iBGP) or one AS_SEQUENCE [asn] (eBGP); NEXT_HOP;
   LOCAL_PREF iff iBGP; COMMUNITIES iff there are any *)
Definition intended_attrs (asn : N) (ibgp : bool) (nh : list N) (a : adv) : list attr :=
  [AOrigin 0; AAsPath (if ibgp then [] else [(2, [asn])]); ANextHop nh]
  ++ (if ibgp then [ALocalPref (a_lp a)] else []) ++ intended_comm_attrs (a_comms a).
Definition intended_update (asn : N) (ibgp : bool) (nh : list N) (a : adv) : msg :=
  MUpdate {| u_wdr := []; u_attrs := intended_attrs asn ibgp nh a; u_nlri := [intended_nlri (a_pfx a)] |}.

Definition intended_withdraw (ps : list prefix) : msg :=
  MUpdate {| u_wdr := map intended_nlri ps; u_attrs := []; u_nlri := [] |}.

(* what a reader understands from an OPEN (RFC 6793: the 4-octet capability
   carries the real AS number).  NOTE: [cap_is_mp] is fitted to the code, not to
   RFC 4760: it requires the reserved octet of the MP capability to be 0 (the Go
   code compares {reserved, SAFI} as one uint16); a conforming reader ignores it. *)
Definition cap_as4 (c : cap) : option N :=
  if (c_code c =? 65) && (len (c_val c) =? 4) then Some (be (c_val c) 0) else None.
Definition cap_is_mp (afi safi : N) (c : cap) : bool :=
  (c_code c =? 1) && (len (c_val c) =? 4) && (be (firstn 2 (c_val c)) 0 =? afi) && (be (skipn 2 (c_val c)) 0 =? safi).
Definition open_caps (o : open_msg) : list cap :=
  concat (map (fun p => match p with PCaps cs => cs | POther _ _ => [] end) (o_params o)).
Definition understood (o : open_msg) : open_result :=
  let cs := open_caps o in
  {| r_asn := fold_left (fun acc c => match cap_as4 c with Some a => a | None => acc end) cs (o_asn o);
     r_hold := o_hold o;
     r_mp4 := existsb (cap_is_mp 1 1) cs;
     r_mp6 := existsb (cap_is_mp 2 1) cs;
     r_fbasn := existsb (fun c => match cap_as4 c with Some _ => true | None => false end) cs |}.

(* ================================================================== *)
(* Part 4: well-formedness predicates used in the theorem statements   *)

(* what the Go parameter types guarantee (uint32, uint16, net.IP.To4(),
   net.CIDRMask(_, 32)) *)
Definition wf_comm (c : comm) : Prop :=
  match c with CLegacy hi lo => hi < 65536 /\ lo < 65536
             | CLarge a b c => a < 4294967296 /\ b < 4294967296 /\ c < 4294967296 end.
Definition wf_prefix (p : prefix) : Prop := length (p_ip p) = 4%nat /\ wfb (p_ip p) /\ p_len p <= 32.
Definition wf_adv (a : adv) : Prop :=
  wf_prefix (a_pfx a) /\ a_lp a < 4294967296 /\ Forall wf_comm (a_comms a).
Definition wf_ip4 (ip : list N) : Prop := length ip = 4%nat /\ wfb ip.

(* abstract syntax that the serializer maps to a real message *)
Definition wf_nlri (p : nlri) : Prop := fst p <= 32 /\ len (snd p) = (fst p + 7) / 8.
Definition wf_cap (c : cap) : Prop := (c_code c = 1 \/ c_code c = 65) -> len (c_val c) = 4.
Definition wf_param (p : param) : Prop :=
  match p with PCaps cs => Forall wf_cap cs | POther t _ => t <> 2 end.
Definition wf_open (o : open_msg) : Prop :=
  o_ver o = 4 /\ (o_hold o = 0 \/ 3 <= o_hold o) /\ o_hold o < 65536 /\ o_asn o < 65536 /\
  len (o_id o) = 4 /\ Forall wf_param (o_params o).
Definition wf_seg (w4 : bool) (s : N * list N) : Prop :=
  (fst s = 1 \/ fst s = 2) /\ Forall (fun a => a < (if w4 then 4294967296 else 65536)) (snd s).
Definition wf_attr (w4 : bool) (a : attr) : Prop :=
  match a with
  | AOrigin v => v <= 2
  | AAsPath segs => Forall (wf_seg w4) segs
  | ANextHop ip => len ip = 4
  | ALocalPref v => v < 4294967296
  | ACommunities vs => Forall (fun v => v < 4294967296) vs
  | AOther f t v => t <> 1 /\ t <> 2 /\ t <> 3 /\ t <> 5 /\ t <> 8 /\ (N.testbit f 4 = true -> len v < 65536)
  end.
Definition wf_update (w4 : bool) (u : update_msg) : Prop :=
  Forall wf_nlri (u_wdr u) /\ Forall (wf_attr w4) (u_attrs u) /\ Forall wf_nlri (u_nlri u) /\ update_ok u = true.
Definition wf_msg (w4 : bool) (m : msg) : Prop :=
  len (ser_msg w4 m) <= 4096 /\
  match m with MOpen o => wf_open o | MUpdate u => wf_update w4 u | _ => True end.

(* parameters of sendUpdate as the Go types guarantee them *)
Definition wf_uparams (asn : N) (nh : list N) (a : adv) : Prop :=
  asn < 4294967296 /\ wf_ip4 nh /\ wf_adv a.

(* the two length octets of the message header *)
Definition hdr_len (bs : list N) : N := nth 16 bs 0 * 256 + nth 17 bs 0.

(* an optional parameter that is a capability list whose known capabilities
   (codes 1, 65) have their RFC length / just: is a capability parameter *)
Definition caps_only (p : param) : Prop := exists cs, p = PCaps cs /\ Forall wf_cap cs.
Definition is_pcaps (p : param) : Prop := match p with PCaps _ => True | POther _ _ => False end.
