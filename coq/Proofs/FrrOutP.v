(* Evaluation of the out route-map of one neighbor against what its session
   requests (block level, for any configuration that contains the block's lists
   and route-map unmixed with others). *)
From Coq Require Import String NArith Bool List Sorted Lia.
From Verif Require Import Model.FrrSpec Proofs.FrrSortP Proofs.FrrListsP Proofs.FrrShapeP Proofs.FrrP Proofs.FrrSemP.
Import ListNotations.
Open Scope string_scope.

Definition lp_of (a : afi) (n : nconf) : list N := match a with A4 => nc_lp4 n | A6 => nc_lp6 n end.
Definition comm_of (a : afi) (n : nconf) : list string := match a with A4 => nc_comm4 n | A6 => nc_comm6 n end.
Definition lcomm_of (a : afi) (n : nconf) : list string := match a with A4 => nc_lcomm4 n | A6 => nc_lcomm6 n end.
Definition has_of (a : afi) (n : nconf) : bool := match a with A4 => nc_has4 n | A6 => nc_has6 n end.

Lemma afi_eqb_refl a : afi_eqb a a = true.
Proof. destruct a; reflexivity. Qed.

Lemma afi_eqb_true a b : afi_eqb a b = true <-> a = b.
Proof. split; [apply afi_eqb_eq|intros ->; apply afi_eqb_refl]. Qed.

Lemma pfx_eqb_text q p : pfx_eqb q p = true <-> p_text q = p_text p.
Proof. unfold pfx_eqb. apply String.eqb_eq. Qed.

Lemma existsb_false {A} (h : A -> bool) l : (forall x, In x l -> h x = false) -> existsb h l = false.
Proof.
  induction l as [|x l IH]; intros H; simpl; [reflexivity|].
  rewrite (H x (or_introl eq_refl)), IH; [reflexivity|]. intros y Hy; apply H; right; assumption.
Qed.

Lemma mk_neighbor_fields f advs n : mk_neighbor f advs = Some n ->
  forall a,
    lp_of a n = sort_n (filter (fun x => negb (N.eqb x 0)) (map a_lp (advs_afi a advs))) /\
    comm_of a n = sort_s (flat_map (comms_of false) (advs_afi a advs)) /\
    lcomm_of a n = sort_s (flat_map (comms_of true) (advs_afi a advs)) /\
    (has_of a n = true <-> exists x, In x (advs_afi a advs)).
Proof.
  unfold mk_neighbor. destruct (add_all [] (map advc_of advs)); [|discriminate].
  intros H; inversion H; subst; clear H. intros [|]; simpl; repeat split; try reflexivity.
  all: try (destruct (advs_afi _ advs) as [|x0 l0]; simpl; [discriminate|intros _; exists x0; left; reflexivity]).
  all: intros (x & Hx); destruct (advs_afi _ advs); [contradiction|reflexivity].
Qed.

Section BlockEval.
  Variables (ft um : bool) (c : frr) (s : session) (n : nconf) (p : pfx).
  Hypothesis Hmk : mk_neighbor s (s_advs s) = Some n.
  Hypothesis Hrm : rm_entries c (rm_out s) = out_entries n.
  Hypothesis Hpl : forall a k pm q, In k (kinds s) ->
    (In (pm, q) (pl_lines c a (kname s k)) <-> exists sq, In (IPl a (kname s k) sq pm q) (block n)).
  Hypothesis Hinj : forall k k', In k (kinds s) -> In k' (kinds s) -> kname s k = kname s k' -> k = k'.
  Hypothesis Hroute : forall a0, In a0 (s_advs s) -> p_text (a_pfx a0) = p_text p -> a_pfx a0 = p.

  Let advs := s_advs s.
  Definition hit (y : advc) : bool := pfx_eqb (ac_pfx y) p.

  Lemma Hs : nc_s n = s.
  Proof. exact (proj1 (mk_neighbor_covers _ _ _ Hmk)). Qed.

  Lemma Hsorted : ssorted atext (nc_advs n).
  Proof. exact (proj1 (mk_neighbor_shape _ _ _ Hmk)). Qed.

  Lemma Hsupp y : In y (nc_advs n) -> supp (map advc_of advs) y.
  Proof. exact (proj2 (mk_neighbor_shape _ _ _ Hmk) y). Qed.

  Lemma Hcov a0 : In a0 advs -> exists y, In y (nc_advs n) /\ covers y (advc_of a0).
  Proof. exact (proj2 (mk_neighbor_covers _ _ _ Hmk) a0). Qed.

  Lemma fields a :
    lp_of a n = sort_n (filter (fun x => negb (N.eqb x 0)) (map a_lp (advs_afi a advs))) /\
    comm_of a n = sort_s (flat_map (comms_of false) (advs_afi a advs)) /\
    lcomm_of a n = sort_s (flat_map (comms_of true) (advs_afi a advs)) /\
    (has_of a n = true <-> exists x, In x (advs_afi a advs)).
  Proof. exact (mk_neighbor_fields _ _ _ Hmk a). Qed.

  (* origin of an entry of the merged list *)
  Lemma y_origin y : In y (nc_advs n) ->
    exists a0, In a0 advs /\ a_pfx a0 = ac_pfx y /\ a_lp a0 = ac_lp y.
  Proof.
    intros Hy. destruct (Hsupp y Hy) as ((g & Hg & Pg & Lg) & _).
    apply in_map_iff in Hg as (a0 & <- & Ha0). exists a0. simpl in *. auto.
  Qed.

  Lemma hit_pfx y : In y (nc_advs n) -> hit y = true -> ac_pfx y = p.
  Proof.
    intros Hy Hh. destruct (y_origin y Hy) as (a0 & Ha0 & Pa & _). rewrite <- Pa.
    apply Hroute; [assumption|]. rewrite Pa. apply pfx_eqb_text. exact Hh.
  Qed.

  Lemma hit_unique y y' : In y (nc_advs n) -> In y' (nc_advs n) -> hit y = true -> hit y' = true -> y = y'.
  Proof.
    intros Hy Hy' H1 H2. apply (ssorted_key_unique atext (nc_advs n)); try assumption; [apply Hsorted|].
    unfold atext. apply pfx_eqb_text in H1. apply pfx_eqb_text in H2. congruence.
  Qed.

  (* kinds *)
  Lemma k_allowed : In KAllowed (kinds s).
  Proof. left; reflexivity. Qed.

  Lemma k_lp_adv a0 : In a0 advs -> a_lp a0 <> 0%N -> In (KLp (a_lp a0)) (kinds s).
  Proof.
    intros Ha Hn. unfold kinds. right. apply in_or_app. left. apply in_map. apply filter_In. split.
    - apply in_map; assumption.
    - apply negb_true_iff, N.eqb_neq; assumption.
  Qed.

  Lemma k_comm_adv a0 x : In a0 advs -> In x (comms_of false a0) -> In (KComm x) (kinds s).
  Proof.
    intros Ha Hx. unfold kinds. right. apply in_or_app. right. apply in_or_app. left. apply in_map.
    apply in_flat_map. exists a0; auto.
  Qed.

  Lemma k_lcomm_adv a0 x : In a0 advs -> In x (comms_of true a0) -> In (KLcomm x) (kinds s).
  Proof.
    intros Ha Hx. unfold kinds. right. apply in_or_app. right. apply in_or_app. right. apply in_map.
    apply in_flat_map. exists a0; auto.
  Qed.

  Lemma k_lp_y y : In y (nc_advs n) -> ac_lp y <> 0%N -> In (KLp (ac_lp y)) (kinds s).
  Proof.
    intros Hy Hn. destruct (y_origin y Hy) as (a0 & Ha0 & _ & La). rewrite <- La. apply k_lp_adv; [assumption|congruence].
  Qed.

  Lemma k_comm_y y x : In y (nc_advs n) -> In x (ac_comms y) -> In (KComm x) (kinds s).
  Proof.
    intros Hy Hx. destruct (Hsupp y Hy) as (_ & Cc & _). destruct (Cc x Hx) as (g & Hg & _ & Hxg).
    apply in_map_iff in Hg as (a0 & <- & Ha0). eapply k_comm_adv; eauto.
  Qed.

  Lemma k_lcomm_y y x : In y (nc_advs n) -> In x (ac_lcomms y) -> In (KLcomm x) (kinds s).
  Proof.
    intros Hy Hx. destruct (Hsupp y Hy) as (_ & _ & Lc). destruct (Lc x Hx) as (g & Hg & _ & Hxg).
    apply in_map_iff in Hg as (a0 & <- & Ha0). eapply k_lcomm_adv; eauto.
  Qed.

  Lemma k_lp_in a lp : In lp (lp_of a n) -> In (KLp lp) (kinds s) /\ lp <> 0%N.
  Proof.
    destruct (fields a) as (E & _). rewrite E. intros H. apply sort_n_in, filter_In in H as [H Hn].
    apply negb_true_iff, N.eqb_neq in Hn. apply in_map_iff in H as (a0 & <- & Ha0). apply advs_afi_in in Ha0 as [Ha0 _].
    split; [apply k_lp_adv; assumption|assumption].
  Qed.

  Lemma k_comm_in a x : In x (comm_of a n) -> In (KComm x) (kinds s).
  Proof.
    destruct (fields a) as (_ & E & _). rewrite E. intros H. apply sort_s_in, in_flat_map in H as (a0 & Ha0 & Hx).
    apply advs_afi_in in Ha0 as [Ha0 _]. eapply k_comm_adv; eauto.
  Qed.

  Lemma k_lcomm_in a x : In x (lcomm_of a n) -> In (KLcomm x) (kinds s).
  Proof.
    destruct (fields a) as (_ & _ & E & _). rewrite E. intros H. apply sort_s_in, in_flat_map in H as (a0 & Ha0 & Hx).
    apply advs_afi_in in Ha0 as [Ha0 _]. eapply k_lcomm_adv; eauto.
  Qed.

  (* exact content of each logical list in c *)
  Lemma block_ipl' a nm sq pm q : In (IPl a nm sq pm q) (block n) ->
    (exists y, In y (nc_advs n) /\ a = pfx_afi (ac_pfx y) /\ q = Some (ac_pfx y) /\ pm = true /\
       (nm = kname s KAllowed \/ (nm = kname s (KLp (ac_lp y)) /\ ac_lp y <> 0%N) \/
        (exists x, In x (ac_comms y) /\ nm = kname s (KComm x)) \/ (exists x, In x (ac_lcomms y) /\ nm = kname s (KLcomm x))))
    \/ (nm = kname s KAllowed /\ pm = false /\ q = None /\ has_of a n = false).
  Proof.
    intros H. apply block_ipl in H. rewrite Hs in H. simpl in H.
    destruct H as [H|(A & B & C & [[-> D]|[-> D]])]; [left; exact H|right; auto|right; auto].
  Qed.

  Lemma lines_lp a lp pm q : In (KLp lp) (kinds s) ->
    (In (pm, q) (pl_lines c a (pl_lp s lp)) <->
     pm = true /\ exists y, In y (nc_advs n) /\ a = pfx_afi (ac_pfx y) /\ q = Some (ac_pfx y) /\ ac_lp y = lp /\ lp <> 0%N).
  Proof.
    intros Hk. change (pl_lp s lp) with (kname s (KLp lp)). rewrite (Hpl a (KLp lp) pm q Hk). split.
    - intros (sq & H). apply block_ipl' in H as [(y & Hy & Ea & Eq & Epm & Hn)|(Hn & _)].
      + split; [assumption|]. exists y. split; [assumption|]. split; [assumption|]. split; [assumption|].
        destruct Hn as [Hn|[[Hn Hz]|[(x & Hx & Hn)|(x & Hx & Hn)]]].
        * apply Hinj in Hn; [discriminate|assumption|apply k_allowed].
        * apply Hinj in Hn; [|assumption|apply k_lp_y; assumption]. inversion Hn; subst. auto.
        * apply Hinj in Hn; [discriminate|assumption|eapply k_comm_y; eauto].
        * apply Hinj in Hn; [discriminate|assumption|eapply k_lcomm_y; eauto].
      + apply Hinj in Hn; [discriminate|assumption|apply k_allowed].
    - intros (-> & y & Hy & -> & -> & <- & Hz). exists 0%N. simpl. rewrite <- Hs. apply blk_lp; assumption.
  Qed.

  Lemma lines_comm a x pm q : In (KComm x) (kinds s) ->
    (In (pm, q) (pl_lines c a (pl_comm s x)) <->
     pm = true /\ exists y, In y (nc_advs n) /\ a = pfx_afi (ac_pfx y) /\ q = Some (ac_pfx y) /\ In x (ac_comms y)).
  Proof.
    intros Hk. change (pl_comm s x) with (kname s (KComm x)). rewrite (Hpl a (KComm x) pm q Hk). split.
    - intros (sq & H). apply block_ipl' in H as [(y & Hy & Ea & Eq & Epm & Hn)|(Hn & _)].
      + split; [assumption|]. exists y. split; [assumption|]. split; [assumption|]. split; [assumption|].
        destruct Hn as [Hn|[[Hn Hz]|[(x' & Hx & Hn)|(x' & Hx & Hn)]]].
        * apply Hinj in Hn; [discriminate|assumption|apply k_allowed].
        * apply Hinj in Hn; [discriminate|assumption|apply k_lp_y; assumption].
        * apply Hinj in Hn; [|assumption|eapply k_comm_y; eauto]. inversion Hn; subst. assumption.
        * apply Hinj in Hn; [discriminate|assumption|eapply k_lcomm_y; eauto].
      + apply Hinj in Hn; [discriminate|assumption|apply k_allowed].
    - intros (-> & y & Hy & -> & -> & Hx). exists 0%N. simpl. rewrite <- Hs. apply blk_comm; assumption.
  Qed.

  Lemma lines_lcomm a x pm q : In (KLcomm x) (kinds s) ->
    (In (pm, q) (pl_lines c a (pl_lcomm s x)) <->
     pm = true /\ exists y, In y (nc_advs n) /\ a = pfx_afi (ac_pfx y) /\ q = Some (ac_pfx y) /\ In x (ac_lcomms y)).
  Proof.
    intros Hk. change (pl_lcomm s x) with (kname s (KLcomm x)). rewrite (Hpl a (KLcomm x) pm q Hk). split.
    - intros (sq & H). apply block_ipl' in H as [(y & Hy & Ea & Eq & Epm & Hn)|(Hn & _)].
      + split; [assumption|]. exists y. split; [assumption|]. split; [assumption|]. split; [assumption|].
        destruct Hn as [Hn|[[Hn Hz]|[(x' & Hx & Hn)|(x' & Hx & Hn)]]].
        * apply Hinj in Hn; [discriminate|assumption|apply k_allowed].
        * apply Hinj in Hn; [discriminate|assumption|apply k_lp_y; assumption].
        * apply Hinj in Hn; [discriminate|assumption|eapply k_comm_y; eauto].
        * apply Hinj in Hn; [|assumption|eapply k_lcomm_y; eauto]. inversion Hn; subst. assumption.
      + apply Hinj in Hn; [discriminate|assumption|apply k_allowed].
    - intros (-> & y & Hy & -> & -> & Hx). exists 0%N. simpl. rewrite <- Hs. apply blk_lcomm; assumption.
  Qed.

  Lemma lines_allowed a pm q :
    In (pm, q) (pl_lines c a (pl_allowed s)) <->
    (pm = true /\ exists y, In y (nc_advs n) /\ a = pfx_afi (ac_pfx y) /\ q = Some (ac_pfx y)) \/
    (pm = false /\ q = None /\ has_of a n = false).
  Proof.
    change (pl_allowed s) with (kname s KAllowed). rewrite (Hpl a KAllowed pm q k_allowed). split.
    - intros (sq & H). apply block_ipl' in H as [(y & Hy & Ea & Eq & Epm & _)|(_ & A & B & C)]; [left|right; auto].
      split; [assumption|]. exists y; auto.
    - intros [(-> & y & Hy & -> & ->)|(-> & -> & Hh)].
      + exists 0%N. simpl. rewrite <- Hs. apply blk_allowed; assumption.
      + exists 0%N. simpl. rewrite <- Hs. destruct a; simpl in Hh; [apply blk_deny4|apply blk_deny6]; assumption.
  Qed.

  (* has_of and the merged list *)
  Lemma has_iff a : has_of a n = true <-> exists y, In y (nc_advs n) /\ pfx_afi (ac_pfx y) = a.
  Proof.
    destruct (fields a) as (_ & _ & _ & H). rewrite H. split.
    - intros (x & Hx). apply advs_afi_in in Hx as [Hx Ax]. destruct (Hcov x Hx) as (y & Hy & (_ & Ay & _)).
      exists y. split; [assumption|]. simpl in Ay. congruence.
    - intros (y & Hy & Ay). destruct (y_origin y Hy) as (a0 & Ha0 & Pa & _). exists a0. apply advs_afi_in. split; [assumption|congruence].
  Qed.

  (* ---- when does a match clause of the out route-map hold ---- *)
  Definition hits (a : afi) (P : advc -> Prop) : Prop :=
    afi_eqb a (pfx_afi p) = true /\ exists y, In y (nc_advs n) /\ pfx_afi (ac_pfx y) = a /\ hit y = true /\ P y.

  Lemma mo_lp a lp : In lp (lp_of a n) ->
    (match_ok um c p (a, pl_lp s lp) = true <-> hits a (fun y => ac_lp y = lp)).
  Proof.
    intros Hin. destruct (k_lp_in a lp Hin) as [Hk Hz]. unfold hits.
    destruct (afi_eqb a (pfx_afi p)) eqn:Ea; [|rewrite match_ok_afi by assumption; split; [discriminate|intros [X _]; discriminate]].
    assert (Hne: pl_lines c a (pl_lp s lp) <> []).
    { destruct (fields a) as (E & _). rewrite E in Hin. apply sort_n_in, filter_In in Hin as [Hin _].
      apply in_map_iff in Hin as (a0 & La & Ha0). apply advs_afi_in in Ha0 as [Ha0 Aa].
      destruct (Hcov a0 Ha0) as (y & Hy & (_ & Ay & _ & _ & Ly)). simpl in *.
      intros X. assert (In (true, Some (ac_pfx y)) (pl_lines c a (pl_lp s lp))).
      { apply lines_lp; [assumption|]. split; [reflexivity|]. exists y. repeat split; try assumption; congruence. }
      rewrite X in H. contradiction. }
    rewrite match_ok_eval by assumption. rewrite pl_eval_permit.
    - split.
      + intros (q & Hq & Hm). apply lines_lp in Hq as (_ & y & Hy & Ay & Eq & Ly & _); [|assumption]. inversion Eq; subst.
        split; [reflexivity|]. exists y. auto.
      + intros (_ & y & Hy & Ay & Hh & Ly). exists (ac_pfx y). split; [|exact Hh].
        apply lines_lp; [assumption|]. split; [reflexivity|]. exists y. repeat split; auto.
    - intros [pm q] Hl. apply lines_lp in Hl as (-> & y & _ & _ & -> & _); [|assumption]. eexists; reflexivity.
  Qed.

  Lemma mo_comm a x : In x (comm_of a n) ->
    (match_ok um c p (a, pl_comm s x) = true <-> hits a (fun y => In x (ac_comms y))).
  Proof.
    intros Hin. pose proof (k_comm_in a x Hin) as Hk. unfold hits.
    destruct (afi_eqb a (pfx_afi p)) eqn:Ea; [|rewrite match_ok_afi by assumption; split; [discriminate|intros [X _]; discriminate]].
    assert (Hne: pl_lines c a (pl_comm s x) <> []).
    { destruct (fields a) as (_ & E & _). rewrite E in Hin. apply sort_s_in, in_flat_map in Hin as (a0 & Ha0 & Hx).
      apply advs_afi_in in Ha0 as [Ha0 Aa].
      destruct (Hcov a0 Ha0) as (y & Hy & (_ & Ay & Cy & _)). simpl in *.
      intros X. assert (In (true, Some (ac_pfx y)) (pl_lines c a (pl_comm s x))).
      { apply lines_comm; [assumption|]. split; [reflexivity|]. exists y. repeat split; try assumption; [congruence|apply Cy; assumption]. }
      rewrite X in H. contradiction. }
    rewrite match_ok_eval by assumption. rewrite pl_eval_permit.
    - split.
      + intros (q & Hq & Hm). apply lines_comm in Hq as (_ & y & Hy & Ay & Eq & Ly); [|assumption]. inversion Eq; subst.
        split; [reflexivity|]. exists y. auto.
      + intros (_ & y & Hy & Ay & Hh & Ly). exists (ac_pfx y). split; [|exact Hh].
        apply lines_comm; [assumption|]. split; [reflexivity|]. exists y. repeat split; auto.
    - intros [pm q] Hl. apply lines_comm in Hl as (-> & y & _ & _ & -> & _); [|assumption]. eexists; reflexivity.
  Qed.

  Lemma mo_lcomm a x : In x (lcomm_of a n) ->
    (match_ok um c p (a, pl_lcomm s x) = true <-> hits a (fun y => In x (ac_lcomms y))).
  Proof.
    intros Hin. pose proof (k_lcomm_in a x Hin) as Hk. unfold hits.
    destruct (afi_eqb a (pfx_afi p)) eqn:Ea; [|rewrite match_ok_afi by assumption; split; [discriminate|intros [X _]; discriminate]].
    assert (Hne: pl_lines c a (pl_lcomm s x) <> []).
    { destruct (fields a) as (_ & _ & E & _). rewrite E in Hin. apply sort_s_in, in_flat_map in Hin as (a0 & Ha0 & Hx).
      apply advs_afi_in in Ha0 as [Ha0 Aa].
      destruct (Hcov a0 Ha0) as (y & Hy & (_ & Ay & _ & Cy & _)). simpl in *.
      intros X. assert (In (true, Some (ac_pfx y)) (pl_lines c a (pl_lcomm s x))).
      { apply lines_lcomm; [assumption|]. split; [reflexivity|]. exists y. repeat split; try assumption; [congruence|apply Cy; assumption]. }
      rewrite X in H. contradiction. }
    rewrite match_ok_eval by assumption. rewrite pl_eval_permit.
    - split.
      + intros (q & Hq & Hm). apply lines_lcomm in Hq as (_ & y & Hy & Ay & Eq & Ly); [|assumption]. inversion Eq; subst.
        split; [reflexivity|]. exists y. auto.
      + intros (_ & y & Hy & Ay & Hh & Ly). exists (ac_pfx y). split; [|exact Hh].
        apply lines_lcomm; [assumption|]. split; [reflexivity|]. exists y. repeat split; auto.
    - intros [pm q] Hl. apply lines_lcomm in Hl as (-> & y & _ & _ & -> & _); [|assumption]. eexists; reflexivity.
  Qed.

  Lemma mo_allowed a : match_ok um c p (a, pl_allowed s) = true <-> hits a (fun _ => True).
  Proof.
    unfold hits.
    destruct (afi_eqb a (pfx_afi p)) eqn:Ea; [|rewrite match_ok_afi by assumption; split; [discriminate|intros [X _]; discriminate]].
    destruct (has_of a n) eqn:Hh.
    - (* only permit lines *)
      pose proof (proj1 (has_iff a) Hh) as (y0 & Hy0 & Ay0).
      assert (Hne: pl_lines c a (pl_allowed s) <> []).
      { intros X. assert (In (true, Some (ac_pfx y0)) (pl_lines c a (pl_allowed s))).
        { apply lines_allowed. left. split; [reflexivity|]. exists y0. auto. }
        rewrite X in H. contradiction. }
      rewrite match_ok_eval by assumption. rewrite pl_eval_permit.
      + split.
        * intros (q & Hq & Hm). apply lines_allowed in Hq as [(_ & y & Hy & Ay & Eq)|(X & _)]; [|discriminate]. inversion Eq; subst.
          split; [reflexivity|]. exists y. auto.
        * intros (_ & y & Hy & Ay & Hhit & _). exists (ac_pfx y). split; [|exact Hhit].
          apply lines_allowed. left. split; [reflexivity|]. exists y. auto.
      + intros [pm q] Hl. apply lines_allowed in Hl as [(-> & y & _ & _ & ->)|(_ & _ & X)]; [eexists; reflexivity|congruence].
    - (* only deny any *)
      assert (Hne: pl_lines c a (pl_allowed s) <> []).
      { intros X. assert (In (false, None) (pl_lines c a (pl_allowed s))) by (apply lines_allowed; right; auto).
        rewrite X in H. contradiction. }
      rewrite match_ok_eval by assumption. rewrite pl_eval_deny.
      + split; [discriminate|]. intros (_ & y & Hy & Ay & _).
        assert (has_of a n = true) by (apply has_iff; exists y; auto). congruence.
      + intros [pm q] Hl. apply lines_allowed in Hl as [(_ & y & Hy & Ay & _)|(-> & -> & _)]; [|reflexivity].
        exfalso. assert (has_of a n = true) by (apply has_iff; exists y; auto). congruence.
  Qed.

  (* property_lists_subset_allowed, semantically: a property clause that holds implies the allowed clause holds *)
  Lemma hits_allowed a P : hits a P -> match_ok um c p (a, pl_allowed s) = true.
  Proof. intros (Ea & y & Hy & Ay & Hh & _). apply mo_allowed. split; [assumption|]. exists y. auto. Qed.

  (* ---- evaluation of the out route-map ---- *)
  Definition f_lp a := fun ac x => if match_ok um c p (a, pl_lp s x) then apply_set ac (SetLP x) else ac.
  Definition f_lc a := fun ac x => if match_ok um c p (a, pl_lcomm s x) then apply_set ac (SetLComm x) else ac.
  Definition f_c a := fun ac x => if match_ok um c p (a, pl_comm s x) then apply_set ac (SetComm x) else ac.
  Definition e_lp a := existsb (fun x => match_ok um c p (a, pl_lp s x)) (lp_of a n).
  Definition e_lc a := existsb (fun x => match_ok um c p (a, pl_lcomm s x)) (lcomm_of a n).
  Definition e_c a := existsb (fun x => match_ok um c p (a, pl_comm s x)) (comm_of a n).

  Definition acc1 := fold_left (f_lp A4) (lp_of A4 n) no_attrs.
  Definition acc2 := fold_left (f_lp A6) (lp_of A6 n) acc1.
  Definition acc3 := fold_left (f_lc A4) (lcomm_of A4 n) acc2.
  Definition acc4 := fold_left (f_lc A6) (lcomm_of A6 n) acc3.
  Definition acc5 := fold_left (f_c A4) (comm_of A4 n) acc4.
  Definition acc6 := fold_left (f_c A6) (comm_of A6 n) acc5.

  Lemma eval_out :
    eval_rm ft um c (rm_entries c (rm_out s)) p no_attrs false =
    if match_ok um c p (A4, pl_allowed s) then Some acc6
    else if match_ok um c p (A6, pl_allowed s) then Some acc6
    else if (false || e_lp A4 || e_lp A6 || e_lc A4 || e_lc A6 || e_c A4 || e_c A6) && ft then Some acc6 else None.
  Proof.
    rewrite Hrm. unfold out_entries. rewrite Hs.
    rewrite !eval_group, eval_finals. reflexivity.
  Qed.

  Lemma no_hit_mo : existsb hit (nc_advs n) = false -> forall a P, ~ hits a P.
  Proof.
    intros EX a P (_ & y & Hy & _ & Hh & _).
    assert (existsb hit (nc_advs n) = true) by (apply existsb_exists; exists y; auto). congruence.
  Qed.

  Lemma cov_y y a' : In y (nc_advs n) -> hit y = true -> In a' advs -> pfx_eqb (a_pfx a') p = true -> covers y (advc_of a').
  Proof.
    intros Hy Hh Ha Hp. destruct (Hcov a' Ha) as (y' & Hy' & C). assert (y' = y); [|subst; assumption].
    apply hit_unique; try assumption. destruct C as (T & _). simpl in T. unfold hit. apply pfx_eqb_text. rewrite T. apply pfx_eqb_text. exact Hp.
  Qed.

  Theorem block_eval :
    attrs_equiv (eval_rm ft um c (rm_entries c (rm_out s)) p no_attrs false) (requested s p).
  Proof.
    rewrite eval_out. destruct (existsb hit (nc_advs n)) eqn:EX.
    - (* some entry of the merged list has the route's prefix *)
      apply existsb_exists in EX as (y & Hy & Hh). pose proof (hit_pfx y Hy Hh) as Py.
      assert (Hal: match_ok um c p (pfx_afi p, pl_allowed s) = true).
      { apply mo_allowed. split; [apply afi_eqb_refl|]. exists y. repeat split; auto. rewrite Py; reflexivity. }
      assert (R: (if match_ok um c p (A4, pl_allowed s) then Some acc6
                  else if match_ok um c p (A6, pl_allowed s) then Some acc6
                  else if (false || e_lp A4 || e_lp A6 || e_lc A4 || e_lc A6 || e_c A4 || e_c A6) && ft then Some acc6 else None) = Some acc6).
      { destruct (match_ok um c p (A4, pl_allowed s)) eqn:M4; [reflexivity|].
        destruct (match_ok um c p (A6, pl_allowed s)) eqn:M6; [reflexivity|].
        destruct (pfx_afi p); congruence. }
      rewrite R. clear R.
      (* the requested side *)
      destruct (y_origin y Hy) as (a0 & Ha0 & Pa0 & La0).
      assert (Hf0: In a0 (filter (fun a => pfx_eqb (a_pfx a) p) (s_advs s))).
      { apply filter_In. split; [assumption|]. rewrite Pa0, Py. apply pfx_eqb_text. reflexivity. }
      unfold requested. destruct (filter (fun a => pfx_eqb (a_pfx a) p) (s_advs s)) as [|a1 rest] eqn:F; [contradiction|].
      assert (HF: forall a', In a' (a1 :: rest) <-> In a' advs /\ pfx_eqb (a_pfx a') p = true).
      { intros a'. rewrite <- F. apply filter_In. }
      assert (Uhit: forall a' P, hits a' P -> a' = pfx_afi p /\ P y).
      { intros a' P (Ea & y' & Hy' & Ay' & Hh' & HP). assert (y' = y) by (apply hit_unique; assumption). subst y'.
        split; [apply afi_eqb_eq; assumption|assumption]. }
      simpl. split; [|split].
      + (* local preference *)
        destruct (fold_comm (fun x => match_ok um c p (A6, pl_comm s x)) (comm_of A6 n) acc5) as (L6 & _ & _).
        destruct (fold_comm (fun x => match_ok um c p (A4, pl_comm s x)) (comm_of A4 n) acc4) as (L5 & _ & _).
        destruct (fold_lcomm (fun x => match_ok um c p (A6, pl_lcomm s x)) (lcomm_of A6 n) acc3) as (L4 & _ & _).
        destruct (fold_lcomm (fun x => match_ok um c p (A4, pl_lcomm s x)) (lcomm_of A4 n) acc2) as (L3 & _ & _).
        fold (f_c A6) in L6. fold (f_c A4) in L5. fold (f_lc A6) in L4. fold (f_lc A4) in L3.
        fold acc6 in L6. fold acc5 in L5. fold acc4 in L4. fold acc3 in L3.
        rewrite L6, L5, L4, L3.
        assert (Hu: forall a' x, In x (lp_of a' n) -> match_ok um c p (a', pl_lp s x) = true -> x = ac_lp y).
        { intros a' x Hx M. apply (mo_lp a' x Hx) in M. apply Uhit in M as [_ M]. congruence. }
        destruct (fold_lp (fun x => match_ok um c p (A6, pl_lp s x)) (lp_of A6 n) (ac_lp y) acc1 (Hu A6)) as (_ & _ & X2).
        destruct (fold_lp (fun x => match_ok um c p (A4, pl_lp s x)) (lp_of A4 n) (ac_lp y) no_attrs (Hu A4)) as (_ & _ & X1).
        fold (f_lp A6) in X2. fold (f_lp A4) in X1. fold acc1 in X1. fold acc2 in X2. fold (e_lp A6) in X2. fold (e_lp A4) in X1.
        rewrite X2, X1. simpl.
        assert (La1: a_lp a1 = ac_lp y).
        { assert (In a1 (a1 :: rest)) by (left; reflexivity). apply HF in H as [H1 H2].
          destruct (cov_y y a1 Hy Hh H1 H2) as (_ & _ & _ & _ & L). simpl in L. congruence. }
        rewrite La1. destruct (N.eqb (ac_lp y) 0) eqn:Z.
        * apply N.eqb_eq in Z.
          assert (E: forall a', e_lp a' = false).
          { intros a'. apply existsb_false. intros x Hx. destruct (match_ok um c p (a', pl_lp s x)) eqn:M; [|reflexivity].
            exfalso. pose proof (Hu a' x Hx M). destruct (k_lp_in a' x Hx). congruence. }
          rewrite !E. reflexivity.
        * apply N.eqb_neq in Z.
          assert (Hin: In (ac_lp y) (lp_of (pfx_afi p) n)).
          { destruct (fields (pfx_afi p)) as (E & _). rewrite E. apply sort_n_in, filter_In. split.
            - apply in_map_iff. exists a0. split; [assumption|]. apply advs_afi_in. split; [assumption|]. rewrite Pa0, Py; reflexivity.
            - apply negb_true_iff, N.eqb_neq; assumption. }
          assert (M: match_ok um c p (pfx_afi p, pl_lp s (ac_lp y)) = true).
          { apply (mo_lp _ _ Hin). split; [apply afi_eqb_refl|]. exists y. repeat split; auto. rewrite Py; reflexivity. }
          assert (E: e_lp (pfx_afi p) = true) by (apply existsb_exists; exists (ac_lp y); auto).
          destruct (pfx_afi p); rewrite E; [destruct (e_lp A6)|]; reflexivity.
      + (* communities *)
        intros x.
        destruct (fold_comm (fun x => match_ok um c p (A6, pl_comm s x)) (comm_of A6 n) acc5) as (_ & _ & C6).
        destruct (fold_comm (fun x => match_ok um c p (A4, pl_comm s x)) (comm_of A4 n) acc4) as (_ & _ & C5).
        destruct (fold_lcomm (fun x => match_ok um c p (A6, pl_lcomm s x)) (lcomm_of A6 n) acc3) as (_ & C4 & _).
        destruct (fold_lcomm (fun x => match_ok um c p (A4, pl_lcomm s x)) (lcomm_of A4 n) acc2) as (_ & C3 & _).
        destruct (fold_lp_pres (fun x => match_ok um c p (A6, pl_lp s x)) (lp_of A6 n) acc1) as (C2 & _).
        destruct (fold_lp_pres (fun x => match_ok um c p (A4, pl_lp s x)) (lp_of A4 n) no_attrs) as (C1 & _).
        fold (f_c A6) in C6. fold (f_c A4) in C5. fold (f_lc A6) in C4. fold (f_lc A4) in C3. fold (f_lp A6) in C2. fold (f_lp A4) in C1.
        fold acc6 in C6. fold acc5 in C5, C6. fold acc4 in C4, C5. fold acc3 in C3, C4. fold acc2 in C2, C3. fold acc1 in C1, C2.
        rewrite C6, C5, C4, C3, C2, C1. simpl.
        rewrite fold_add_s_in.
        change (comm_texts false a1 ++ flat_map (comm_texts false) rest)%list with (flat_map (comm_texts false) (a1 :: rest)).
        rewrite in_flat_map.
        assert (Iy: In x (ac_comms y) <-> exists a', In a' (a1 :: rest) /\ In x (comm_texts false a')).
        { split.
          - intros Hx. destruct (Hsupp y Hy) as (_ & Cc & _). destruct (Cc x Hx) as (g & Hg & Tg & Hxg).
            apply in_map_iff in Hg as (a' & <- & Ha'). exists a'. split; [|exact Hxg].
            apply HF. split; [assumption|]. apply pfx_eqb_text. unfold atext in Tg. simpl in Tg. rewrite Tg, Py. reflexivity.
          - intros (a' & Ha' & Hx). apply HF in Ha' as [H1 H2]. destruct (cov_y y a' Hy Hh H1 H2) as (_ & _ & I & _). apply I. exact Hx. }
        rewrite <- Iy. split.
        * intros [[[]|[Hx M]]|[Hx M]].
          -- apply (mo_comm A4 x Hx) in M. apply Uhit in M as [_ M]. exact M.
          -- apply (mo_comm A6 x Hx) in M. apply Uhit in M as [_ M]. exact M.
        * intros Hx.
          assert (Hin: In x (comm_of (pfx_afi p) n)).
          { destruct (fields (pfx_afi p)) as (_ & E & _). rewrite E. apply sort_s_in, in_flat_map.
            destruct (proj1 Iy Hx) as (a' & Ha' & Hxa). apply HF in Ha' as [H1 H2]. exists a'. split; [|exact Hxa].
            apply advs_afi_in. split; [assumption|]. rewrite (Hroute a' H1); [reflexivity|apply pfx_eqb_text; assumption]. }
          assert (M: match_ok um c p (pfx_afi p, pl_comm s x) = true).
          { apply (mo_comm _ _ Hin). split; [apply afi_eqb_refl|]. exists y. repeat split; auto. rewrite Py; reflexivity. }
          destruct (pfx_afi p); [left; right|right]; auto.
      + (* large communities *)
        intros x.
        destruct (fold_comm (fun x => match_ok um c p (A6, pl_comm s x)) (comm_of A6 n) acc5) as (_ & C6 & _).
        destruct (fold_comm (fun x => match_ok um c p (A4, pl_comm s x)) (comm_of A4 n) acc4) as (_ & C5 & _).
        destruct (fold_lcomm (fun x => match_ok um c p (A6, pl_lcomm s x)) (lcomm_of A6 n) acc3) as (_ & _ & C4).
        destruct (fold_lcomm (fun x => match_ok um c p (A4, pl_lcomm s x)) (lcomm_of A4 n) acc2) as (_ & _ & C3).
        destruct (fold_lp_pres (fun x => match_ok um c p (A6, pl_lp s x)) (lp_of A6 n) acc1) as (_ & C2).
        destruct (fold_lp_pres (fun x => match_ok um c p (A4, pl_lp s x)) (lp_of A4 n) no_attrs) as (_ & C1).
        fold (f_c A6) in C6. fold (f_c A4) in C5. fold (f_lc A6) in C4. fold (f_lc A4) in C3. fold (f_lp A6) in C2. fold (f_lp A4) in C1.
        fold acc6 in C6. fold acc5 in C5, C6. fold acc4 in C4, C5. fold acc3 in C3, C4. fold acc2 in C2, C3. fold acc1 in C1, C2.
        rewrite C6, C5, C4, C3, C2, C1. simpl.
        rewrite fold_add_s_in.
        change (comm_texts true a1 ++ flat_map (comm_texts true) rest)%list with (flat_map (comm_texts true) (a1 :: rest)).
        rewrite in_flat_map.
        assert (Iy: In x (ac_lcomms y) <-> exists a', In a' (a1 :: rest) /\ In x (comm_texts true a')).
        { split.
          - intros Hx. destruct (Hsupp y Hy) as (_ & _ & Cc). destruct (Cc x Hx) as (g & Hg & Tg & Hxg).
            apply in_map_iff in Hg as (a' & <- & Ha'). exists a'. split; [|exact Hxg].
            apply HF. split; [assumption|]. apply pfx_eqb_text. unfold atext in Tg. simpl in Tg. rewrite Tg, Py. reflexivity.
          - intros (a' & Ha' & Hx). apply HF in Ha' as [H1 H2]. destruct (cov_y y a' Hy Hh H1 H2) as (_ & _ & _ & I & _). apply I. exact Hx. }
        rewrite <- Iy. split.
        * intros [[[]|[Hx M]]|[Hx M]].
          -- apply (mo_lcomm A4 x Hx) in M. apply Uhit in M as [_ M]. exact M.
          -- apply (mo_lcomm A6 x Hx) in M. apply Uhit in M as [_ M]. exact M.
        * intros Hx.
          assert (Hin: In x (lcomm_of (pfx_afi p) n)).
          { destruct (fields (pfx_afi p)) as (_ & _ & E & _). rewrite E. apply sort_s_in, in_flat_map.
            destruct (proj1 Iy Hx) as (a' & Ha' & Hxa). apply HF in Ha' as [H1 H2]. exists a'. split; [|exact Hxa].
            apply advs_afi_in. split; [assumption|]. rewrite (Hroute a' H1); [reflexivity|apply pfx_eqb_text; assumption]. }
          assert (M: match_ok um c p (pfx_afi p, pl_lcomm s x) = true).
          { apply (mo_lcomm _ _ Hin). split; [apply afi_eqb_refl|]. exists y. repeat split; auto. rewrite Py; reflexivity. }
          destruct (pfx_afi p); [left; right|right]; auto.
    - (* no entry has the route's prefix: nothing matches, nothing is offered *)
      pose proof (no_hit_mo EX) as NH.
      assert (E1: forall a', e_lp a' = false).
      { intros a'. apply existsb_false. intros x Hx. destruct (match_ok um c p (a', pl_lp s x)) eqn:M; [|reflexivity].
        exfalso. apply (mo_lp a' x Hx) in M. exact (NH _ _ M). }
      assert (E2: forall a', e_lc a' = false).
      { intros a'. apply existsb_false. intros x Hx. destruct (match_ok um c p (a', pl_lcomm s x)) eqn:M; [|reflexivity].
        exfalso. apply (mo_lcomm a' x Hx) in M. exact (NH _ _ M). }
      assert (E3: forall a', e_c a' = false).
      { intros a'. apply existsb_false. intros x Hx. destruct (match_ok um c p (a', pl_comm s x)) eqn:M; [|reflexivity].
        exfalso. apply (mo_comm a' x Hx) in M. exact (NH _ _ M). }
      assert (E4: forall a', match_ok um c p (a', pl_allowed s) = false).
      { intros a'. destruct (match_ok um c p (a', pl_allowed s)) eqn:M; [|reflexivity]. exfalso. apply mo_allowed in M. exact (NH _ _ M). }
      rewrite !E1, !E2, !E3, !E4. simpl.
      unfold requested. destruct (filter (fun a => pfx_eqb (a_pfx a) p) (s_advs s)) as [|a1 rest] eqn:F; [exact I|].
      exfalso. assert (Ha1: In a1 (filter (fun a => pfx_eqb (a_pfx a) p) (s_advs s))) by (rewrite F; left; reflexivity).
      apply filter_In in Ha1 as [H1 H2]. destruct (Hcov a1 H1) as (y & Hy & (T & _)). simpl in T.
      assert (hit y = true) by (unfold hit; apply pfx_eqb_text; rewrite T; apply pfx_eqb_text; exact H2).
      assert (existsb hit (nc_advs n) = true) by (apply existsb_exists; exists y; auto). congruence.
  Qed.
End BlockEval.
