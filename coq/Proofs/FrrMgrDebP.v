(* Manager -> debouncer, in the models: every accepted operation of the session
   manager (Model/FrrMgr.v) submits the configuration it generated to the
   debouncer (Model/Debounce.v) as an immutable value; reload attempts interleave.
   Latest wins end to end: when the debouncer is idle, the applied configuration
   is the one generated from the manager's final state. *)
From Coq Require Import String NArith Bool List Lia.
From Verif Require Import Model.FrrMgr Model.Debounce Proofs.DebounceP Proofs.FrrMgrP.
Import ListNotations.

Inductive mev := EOp (o : mop) | EFire (ok : bool) | EReapply.

Section Compose.
  Context {C : Type}.
  Variable gen : list session -> list bfdprof -> string -> option C.
  Variable xr : bool.
  Variable code : C -> N.            (* configurations as the debouncer compares them (DeepEqual = equality of content) *)

  (* an interleaving of manager operations, reload attempts and re-apply requests (frr.go validateReload) *)
  Fixpoint mevents (st : mstate) (last : option C) (l : list mev) : mstate * list ev * option C :=
    match l with
    | [] => (st, [], last)
    | EOp o :: r =>
        let '(st', _, c) := mstep gen xr st o in
        let '(st'', evs, last') := mevents st' (match c with Some _ => c | None => last end) r in
        (st'', match c with Some x => Submit (code x) :: evs | None => evs end, last')
    | EFire b :: r =>
        let '(st'', evs, last') := mevents st last r in (st'', Fire b :: evs, last')
    | EReapply :: r =>
        let '(st'', evs, last') := mevents st last r in (st'', ReapplyOld :: evs, last')
    end.

  Fixpoint ops_of (l : list mev) : list mop :=
    match l with [] => [] | EOp o :: r => o :: ops_of r | _ :: r => ops_of r end.

  Lemma mevents_mrun l : forall st last st' evs last',
    mevents st last l = (st', evs, last') ->
    exists oks, mrun gen xr st last (ops_of l) = (st', oks, last').
  Proof.
    induction l as [|[o|b|] r IH]; intros st last st' evs last' H; simpl in *.
    - inversion H; subst. exists []; reflexivity.
    - destruct (mstep gen xr st o) as [[st1 ok] c] eqn:E.
      destruct (mevents st1 _ r) as [[st2 evs2] last2] eqn:E2. inversion H; subst.
      destruct (IH _ _ _ _ _ E2) as (oks & R). rewrite R. exists (ok :: oks); reflexivity.
    - destruct (mevents st last r) as [[st2 evs2] last2] eqn:E2. inversion H; subst. apply (IH _ _ _ _ _ E2).
    - destruct (mevents st last r) as [[st2 evs2] last2] eqn:E2. inversion H; subst. apply (IH _ _ _ _ _ E2).
  Qed.

  Lemma mevents_last_submit l : forall st last d st' evs last',
    mevents st last l = (st', evs, last') -> d = option_map code last ->
    last_submit_from d evs = option_map code last'.
  Proof.
    induction l as [|[o|b|] r IH]; intros st last d st' evs last' H Hd; simpl in *.
    - inversion H; subst. reflexivity.
    - destruct (mstep gen xr st o) as [[st1 ok] c] eqn:E.
      destruct (mevents st1 _ r) as [[st2 evs2] last2] eqn:E2. inversion H; subst.
      destruct c as [x|]; simpl.
      + eapply IH; [exact E2|reflexivity].
      + eapply IH; [exact E2|reflexivity].
    - destruct (mevents st last r) as [[st2 evs2] last2] eqn:E2. inversion H; subst. simpl. eapply IH; [exact E2|reflexivity].
    - destruct (mevents st last r) as [[st2 evs2] last2] eqn:E2. inversion H; subst. simpl. eapply IH; [exact E2|reflexivity].
  Qed.

  (* the debouncer's stored configuration is always the last one the manager handed on;
     when no timer is armed it is also the applied one *)
  Theorem mgr_debounce_latest l st evs last sigma :
    mevents minit None l = (st, evs, last) -> run init evs = Some sigma ->
    config sigma = option_map code last /\ (timer sigma = false -> applied sigma = option_map code last).
  Proof.
    intros H R. pose proof (mevents_last_submit l _ _ None _ _ _ H eq_refl) as L.
    pose proof (config_is_last _ _ R) as Cf. assert (Cf2: config sigma = option_map code last) by (rewrite Cf; exact L). clear Cf. rename Cf2 into Cf. split; [exact Cf|].
    intros T. destruct (reachable_inv sigma (ex_intro _ evs R)) as [I _]. rewrite (I T). exact Cf.
  Qed.
End Compose.

(* FRR mode end to end: for a history of the kind the speaker produces, once the
   debouncer is idle the applied configuration is the one generated from the
   manager's final state *)
Theorem frr_mgr_latest_applied (code : frr * list bfdprof * string -> N) l st evs last sigma c :
  hist_ok gen_frr true good_frr minit (ops_of l) ->
  mevents gen_frr true code minit None l = (st, evs, last) -> run init evs = Some sigma -> timer sigma = false ->
  last <> None -> cfg_of gen_frr st = Some c -> applied sigma = Some (code c).
Proof.
  intros Hh H R T Nl Hc. destruct (mevents_mrun gen_frr true code l _ _ _ _ _ H) as (oks & M).
  destruct (frr_history_in_sync _ _ _ _ Hh M) as [_ [[X _]|A]]; [congruence|].
  destruct (mgr_debounce_latest gen_frr true code l st evs last sigma H R) as [_ Ap]. rewrite (Ap T), A, Hc. reflexivity.
Qed.

(* [code] stands for the content the debouncer compares with reflect.DeepEqual: it must be injective, otherwise the
   model would drop a submission the code does not.  With an injective code the applied configuration IS c. *)
Theorem frr_mgr_latest_applied_inj (code : frr * list bfdprof * string -> N) l st evs last sigma c :
  (forall x y, code x = code y -> x = y) ->
  hist_ok gen_frr true good_frr minit (ops_of l) ->
  mevents gen_frr true code minit None l = (st, evs, last) -> run init evs = Some sigma -> timer sigma = false ->
  last <> None -> cfg_of gen_frr st = Some c ->
  applied sigma = Some (code c) /\ forall c', applied sigma = Some (code c') -> c' = c.
Proof.
  intros Hinj Hh H R T Nl Hc. pose proof (frr_mgr_latest_applied code l st evs last sigma c Hh H R T Nl Hc) as A.
  split; [exact A|]. intros c' A'. rewrite A in A'. inversion A'. symmetry. apply Hinj. assumption.
Qed.
