(* The controller's handler (convergeBalancer / SetBalancer): frame, what it
   leaves in memory versus what it writes, preservation of the allocator
   invariants. *)
From Coq Require Import List NArith Bool Lia.
From Verif Require Import Model.Net Model.Alloc Model.Ctrl Proofs.NetP Proofs.AllocP Proofs.AllocPolicyP.
Import ListNotations.
Local Open Scope N_scope.

(* ---------- lookups after assign / unassign ---------- *)
Lemma find_remove_same (l : list (svc * alloc)) s :
  find (fun e => fst e =? s) (remove_svc s l) = None.
Proof.
  unfold remove_svc. induction l as [|e l IH]; [reflexivity|].
  cbn [filter]. match goal with |- context [negb ?b] => destruct b eqn:E end; cbn [negb]; [exact IH|].
  cbn [find]. rewrite E. exact IH.
Qed.

Lemma find_remove_other (l : list (svc * alloc)) s t : t <> s ->
  find (fun e => fst e =? t) (remove_svc s l) = find (fun e => fst e =? t) l.
Proof.
  intros Hne. unfold remove_svc. induction l as [|e l IH]; [reflexivity|].
  cbn [filter find]. match goal with |- context [negb ?b] => destruct b eqn:E end; cbn [negb].
  - apply N.eqb_eq in E. match goal with |- context [if ?b then _ else _] => destruct b eqn:E2 end;
      [apply N.eqb_eq in E2; congruence|exact IH].
  - cbn [find]. match goal with |- context [if ?b then _ else _] => destruct b eqn:E2 end; [reflexivity|exact IH].
Qed.

Lemma get_alloc_do_assign_same a s al : get_alloc (do_assign a s al) s = Some al.
Proof. unfold get_alloc, do_assign. cbn. rewrite N.eqb_refl. reflexivity. Qed.

Lemma get_alloc_do_assign_other a s al t : t <> s -> get_alloc (do_assign a s al) t = get_alloc a t.
Proof.
  intros Hne. unfold get_alloc, do_assign. cbn.
  destruct (s =? t) eqn:E; [apply N.eqb_eq in E; congruence|]. rewrite find_remove_other by exact Hne. reflexivity.
Qed.

Lemma get_alloc_unassign_same a s : get_alloc (unassign a s) s = None.
Proof. unfold get_alloc, unassign. cbn. rewrite find_remove_same. reflexivity. Qed.

Lemma get_alloc_unassign_other a s t : t <> s -> get_alloc (unassign a s) t = get_alloc a t.
Proof. intros Hne. unfold get_alloc, unassign. cbn. rewrite find_remove_other by exact Hne. reflexivity. Qed.

(* ---------- what an allocator operation on service s does ---------- *)
Definition targets (o : op) (s : svc) : Prop :=
  match o with
  | OAssign s' _ _ | OUnassign s' | OAllocate s' _ _ | OAllocateFromPool s' _ _ _ | OAdditional s' _ _ _ _ => s' = s
  | OSetPools _ => False
  end.

Lemma assign_frame a s r ips t : t <> s ->
  get_alloc (fst (assign a s r ips)) t = get_alloc a t /\ s_pools (fst (assign a s r ips)) = s_pools a.
Proof.
  intros Hne. unfold assign. destruct (assign_check a s r ips); cbn; [|auto].
  split; [apply get_alloc_do_assign_other; exact Hne|reflexivity].
Qed.

Lemma assign_pools a s r ips : s_pools (fst (assign a s r ips)) = s_pools a.
Proof. unfold assign. destruct (assign_check a s r ips); reflexivity. Qed.

Lemma assign_ok_holds a s r ips a' out :
  assign a s r ips = (a', ROk out) -> out = ips /\ ips_of a' s = ips /\ s_pools a' = s_pools a /\
  exists p, pool_for (by_name (s_pools a)) ips = Some p /\ pool_of a' s = Some (p_name p).
Proof.
  intros H. apply assign_ok_inv in H. destruct H as [p [Hc [-> ->]]].
  unfold ips_of, pool_of. rewrite get_alloc_do_assign_same. cbn. repeat split.
  apply assign_check_spec in Hc. exists p. tauto.
Qed.

Lemma step_frame a o s t : targets o s -> t <> s ->
  get_alloc (fst (step a o)) t = get_alloc a t /\ s_pools (fst (step a o)) = s_pools a.
Proof.
  intros Ht Hne. destruct o as [s' r ips|s'|s' r c|s' r pn c|s' r have pn c|ps]; cbn in Ht; try contradiction; subst s'; cbn [step].
  - apply assign_frame. exact Hne.
  - cbn. split; [apply get_alloc_unassign_other; exact Hne|reflexivity].
  - destruct (get_alloc a s) as [al|].
    + pose proof (assign_frame a s r (a_ips al) t Hne) as HA.
      destruct (assign a s r (a_ips al)) as [a' [i|e|]]; cbn in HA.
      * destruct c as [[pn ips]|]; [|auto]. destruct (ips_eqb ips (a_ips al)); auto.
      * destruct c; auto.
      * destruct c; auto.
    + destruct (allocate_spec a s r c); [|auto]. destruct c as [[pn ips]|]; [|auto].
      pose proof (assign_frame a s r ips t Hne) as HA.
      destruct (assign a s r ips) as [a' [i|e|]]; cbn in *; auto.
  - destruct (get_alloc a s) as [al|].
    + destruct (alloc_fam (a_ips al)).
      * destruct (negb _ && negb _); [destruct c; auto|].
        pose proof (assign_frame a s r (a_ips al) t Hne) as HA.
        destruct (assign a s r (a_ips al)) as [a' [i|e|]]; cbn in HA.
        -- destruct c as [ips|]; [|auto]. destruct (ips_eqb ips (a_ips al)); auto.
        -- destruct c; auto.
        -- destruct c; auto.
      * destruct c; auto.
    + destruct (from_pool_spec a s r pn c); [|auto]. destruct c as [ips|]; [|auto].
      pose proof (assign_frame a s r ips t Hne) as HA.
      destruct (assign a s r ips) as [a' [i|e|]]; cbn in *; auto.
  - destruct (additional_spec a s r have pn c); [|auto]. destruct c as [x|]; [|auto].
    pose proof (assign_frame a s r [have; x] t Hne) as HA.
    destruct (assign a s r [have; x]) as [a' [i|e|]]; cbn in *; auto.
Qed.

(* a successful allocation leaves exactly the reported addresses recorded *)
Lemma ips_eqb_eq a b : ips_eqb a b = true <-> a = b.
Proof.
  revert b. induction a as [|x a IH]; destruct b as [|y b]; cbn; try (split; congruence).
  rewrite andb_true_iff, ip_eqb_eq, IH. split; [intros [-> ->]; reflexivity|intros [= -> ->]; auto].
Qed.

Lemma step_allocate_ok a s r c a' ips :
  step a (OAllocate s r c) = (a', ROk ips) -> ips_of a' s = ips.
Proof.
  cbn [step]. destruct (get_alloc a s) as [al|] eqn:Hg.
  - destruct (assign a s r (a_ips al)) as [a1 [i|e|]] eqn:E.
    + destruct c as [[pn ips']|]; [|discriminate]. destruct (ips_eqb ips' (a_ips al)) eqn:Eq; [|discriminate].
      intros [= <- <-]. apply ips_eqb_eq in Eq. subst. apply assign_ok_holds in E. tauto.
    + destruct c; discriminate.
    + destruct c; discriminate.
  - destruct (allocate_spec a s r c); [|discriminate]. destruct c as [[pn ips']|]; [|discriminate].
    destruct (assign a s r ips') as [a1 [i|e|]] eqn:E; try discriminate.
    intros [= <- <-]. apply assign_ok_holds in E. destruct E as (-> & H & _). exact H.
Qed.

Lemma step_frompool_ok a s r pn c a' ips :
  step a (OAllocateFromPool s r pn c) = (a', ROk ips) -> ips_of a' s = ips.
Proof.
  cbn [step]. destruct (get_alloc a s) as [al|] eqn:Hg.
  - destruct (alloc_fam (a_ips al)); [|destruct c; discriminate].
    destruct (negb _ && negb _); [destruct c; discriminate|].
    destruct (assign a s r (a_ips al)) as [a1 [i|e|]] eqn:E.
    + destruct c as [ips'|]; [|discriminate]. destruct (ips_eqb ips' (a_ips al)) eqn:Eq; [|discriminate].
      intros [= <- <-]. apply ips_eqb_eq in Eq. subst. apply assign_ok_holds in E. tauto.
    + destruct c; discriminate.
    + destruct c; discriminate.
  - destruct (from_pool_spec a s r pn c); [|discriminate]. destruct c as [ips'|]; [|discriminate].
    destruct (assign a s r ips') as [a1 [i|e|]] eqn:E; try discriminate.
    intros [= <- <-]. apply assign_ok_holds in E. destruct E as (-> & H & _). exact H.
Qed.

Lemma step_additional_ok a s r have pn c a' out :
  step a (OAdditional s r have pn c) = (a', ROk out) -> exists x, out = [x] /\ ips_of a' s = [have; x].
Proof.
  cbn [step]. destruct (additional_spec a s r have pn c); [|discriminate]. destruct c as [x|]; [|discriminate].
  destruct (assign a s r [have; x]) as [a1 [i|e|]] eqn:E; try discriminate.
  intros [= <- <-]. exists x. split; [reflexivity|]. apply assign_ok_holds in E. tauto.
Qed.

Lemma alloc_op_some a o a' r : alloc_op a o = Some (a', r) -> step a o = (a', r) /\ r <> RSpecMismatch.
Proof.
  unfold alloc_op. destruct (step a o) as [a1 [i|e|]]; intros H; try discriminate; injection H as <- <-; split; congruence.
Qed.

(* ---------- "held": what memory records for s, as a set ---------- *)
Definition same_ips (a b : list ip) : Prop := forall x, In x a <-> In x b.
Lemma same_ips_refl a : same_ips a a. Proof. intros x. tauto. Qed.

Definition cleared (c : cv) (s : svc) : Prop := get_alloc (cv_mem c) s = None /\ cv_status c = [].
Lemma clear_cleared c s : cleared (clear c s) s.
Proof. split; [apply get_alloc_unassign_same|reflexivity]. Qed.

Lemma ips_of_none a s : get_alloc a s = None -> ips_of a s = [].
Proof. unfold ips_of. intros ->. reflexivity. Qed.

Lemma sort2_same rank l : same_ips (sort2 rank l) l.
Proof.
  unfold sort2. destruct l as [|x [|y [|z t]]]; try apply same_ips_refl.
  destruct (rank y <? rank x); [|apply same_ips_refl]. intros w. cbn. tauto.
Qed.

Lemma sort2_nil rank l : sort2 rank l = [] <-> l = [].
Proof.
  unfold sort2. destruct l as [|x [|y [|z t]]]; try tauto; try (split; discriminate).
  destruct (rank y <? rank x); split; discriminate.
Qed.

(* ---------- the stages of convergeBalancer only touch service s, through
   allocator operations: every relation closed under those operations links
   the memory before and after ---------- *)
Section Rel.
Variable rank : ip -> N.
Variable s : svc.
Variable R : st -> st -> Prop.
Hypothesis R_refl : forall a, R a a.
Hypothesis R_trans : forall a b c, R a b -> R b c -> R a c.
Hypothesis R_unassign : forall a, R a (unassign a s).
Hypothesis R_assign : forall a r ips, R a (fst (assign a s r ips)).
Hypothesis R_step : forall a o, targets o s -> R a (fst (step a o)).

Lemma clear_rel c : R (cv_mem c) (cv_mem (clear c s)).
Proof. cbn. apply R_unassign. Qed.

Lemma stageA_rel c0 o c1 lb1 : stageA c0 s o = (c1, lb1) -> R (cv_mem c0) (cv_mem c1).
Proof.
  unfold stageA. destruct (o_status o); [intros [= <- _]; apply clear_rel|].
  destruct (family_changed _ _ _); intros [= <- _]; [apply clear_rel|apply R_refl].
Qed.

Lemma stageB_rel c1 lb1 o :
  match stageB rank c1 lb1 s o with
  | inl (c3, _) => R (cv_mem c1) (cv_mem c3)
  | inr c3 => R (cv_mem c1) (cv_mem c3)
  end.
Proof.
  unfold stageB. destruct lb1 as [|x l]; [apply R_refl|].
  pose proof (R_assign (cv_mem c1) (o_req o) (x :: l)) as HA.
  destruct (assign (cv_mem c1) s (o_req o) (x :: l)) as [a' [i|e|]] eqn:E; cbn [fst] in HA.
  - (* assign ok *)
    set (c2 := {| cv_mem := a'; cv_status := cv_status c1; cv_annot := cv_annot c1 |}).
    assert (H2 : R (cv_mem c1) (cv_mem c2)) by exact HA.
    destruct (o_want_pool o) as [p|].
    + destruct (opt_pool_eqb (pool_of (cv_mem c2) s) (Some p)).
      * destruct (o_want o) as [|d|]; [exact H2| |exact H2].
        destruct (equal_ips rank (x :: l) d); [exact H2|]. eapply R_trans; [exact H2|apply clear_rel].
      * assert (H3 : R (cv_mem c1) (cv_mem (clear c2 s))) by (eapply R_trans; [exact H2|apply clear_rel]).
        destruct (o_want o) as [|d|]; [exact H3| |exact H3].
        destruct (equal_ips rank [] d); [exact H3|]. eapply R_trans; [exact H3|apply clear_rel].
    + destruct (o_want o) as [|d|]; [exact H2| |exact H2].
      destruct (equal_ips rank (x :: l) d); [exact H2|]. eapply R_trans; [exact H2|apply clear_rel].
  - assert (H3 : R (cv_mem c1) (cv_mem (clear c1 s))) by apply clear_rel.
    destruct (o_want_pool o); destruct (o_want o) as [|d|]; try exact H3;
      (destruct (equal_ips rank [] d); [exact H3|]; eapply R_trans; [exact H3|apply clear_rel]).
  - assert (H3 : R (cv_mem c1) (cv_mem (clear c1 s))) by apply clear_rel.
    destruct (o_want_pool o); destruct (o_want o) as [|d|]; try exact H3;
      (destruct (equal_ips rank [] d); [exact H3|]; eapply R_trans; [exact H3|apply clear_rel]).
Qed.

Lemma alloc_op_rel a o a' r : targets o s -> alloc_op a o = Some (a', r) -> R a a'.
Proof.
  intros Ht H. apply alloc_op_some in H. destruct H as [H _].
  pose proof (R_step a o Ht) as HR. rewrite H in HR. exact HR.
Qed.

Lemma stageC_rel c3 lb3 r k c4 lb4 : stageC c3 lb3 s r k = Some (c4, lb4) -> R (cv_mem c3) (cv_mem c4).
Proof.
  unfold stageC. destruct lb3 as [|have [|y l]]; try (intros [= <- _]; apply R_refl).
  destruct (additional_applies r [have]); [|intros [= <- _]; apply R_refl].
  destruct (pool_of (cv_mem c3) s) as [pn|]; [|intros [= <- _]; apply R_refl].
  destruct (alloc_op (cv_mem c3) (OAdditional s r have pn (the_additional have k))) as [[a' res]|] eqn:E; [|discriminate].
  assert (HR : R (cv_mem c3) a') by (eapply alloc_op_rel; [|exact E]; reflexivity).
  destruct res as [[|x [|y l]]|e|]; intros [= <- _]; exact HR.
Qed.

Lemma stageD_rel c4 lb4 o k res :
  stageD c4 lb4 s o k = Some res ->
  match res with inl (c5, _) => R (cv_mem c4) (cv_mem c5) | inr c5 => R (cv_mem c4) (cv_mem c5) end.
Proof.
  unfold stageD. destruct lb4 as [|x l]; [|intros [= <-]; apply R_refl].
  destruct (o_want o) as [|d|].
  - destruct (o_want_pool o) as [p|].
    + destruct (alloc_op (cv_mem c4) _) as [[a' r]|] eqn:E; [|discriminate].
      assert (HR : R (cv_mem c4) a') by (eapply alloc_op_rel; [|exact E]; reflexivity).
      destruct r; intros [= <-]; exact HR.
    + destruct (alloc_op (cv_mem c4) _) as [[a' r]|] eqn:E; [|discriminate].
      assert (HR : R (cv_mem c4) a') by (eapply alloc_op_rel; [|exact E]; reflexivity).
      destruct r; intros [= <-]; exact HR.
  - destruct (negb _); [intros [= <-]; apply R_refl|].
    pose proof (R_assign (cv_mem c4) (o_req o) d) as HA.
    destruct (assign (cv_mem c4) s (o_req o) d) as [a' [i|e|]]; cbn [fst] in HA; try (intros [= <-]; apply R_refl).
    destruct (o_want_pool o) as [p|]; [|intros [= <-]; exact HA].
    destruct (opt_pool_eqb (pool_of a' s) (Some p)); intros [= <-]; [exact HA|].
    cbn. eapply R_trans; [exact HA|apply R_unassign].
  - intros [= <-]. apply R_refl.
Qed.

Lemma stageE_rel c5 lb5 v ok : stageE c5 lb5 s = CR v ok -> R (cv_mem c5) (cv_mem v).
Proof.
  unfold stageE. destruct lb5; [intros [= <- _]; apply clear_rel|].
  destruct (pool_of (cv_mem c5) s) as [pn|]; [|intros [= <- _]; apply clear_rel].
  destruct (find_pool _ pn); intros [= <- _]; [apply R_refl|apply clear_rel].
Qed.

Lemma converge_rel a o k v ok : converge rank a s o k = CR v ok -> R a (cv_mem v).
Proof.
  unfold converge.
  set (c0 := {| cv_mem := a; cv_status := o_status o; cv_annot := o_annot o |}).
  assert (H0 : R a (cv_mem (clear c0 s))) by apply (clear_rel c0).
  destruct (negb (o_lb o)); [intros [= <- _]; exact H0|].
  destruct (match by_name (s_pools a) with [] => true | _ => false end); [intros [= <- _]; exact H0|].
  destruct (negb (o_cluster_ok o)); [intros [= <- _]; exact H0|].
  destruct (is_require _ && _); [intros [= <- _]; exact H0|].
  destruct (stageA c0 s o) as [c1 lb1] eqn:EA. pose proof (stageA_rel _ _ _ _ EA) as HA. cbn in HA.
  pose proof (stageB_rel c1 lb1 o) as HB.
  destruct (stageB rank c1 lb1 s o) as [[c3 lb3]|c3].
  - destruct (stageC c3 lb3 s (o_req o) k) as [[c4 lb4]|] eqn:EC; [|discriminate].
    pose proof (stageC_rel _ _ _ _ _ _ EC) as HC.
    destruct (stageD c4 lb4 s o k) as [res|] eqn:ED; [|discriminate].
    pose proof (stageD_rel _ _ _ _ _ ED) as HD.
    destruct res as [[c5 lb5]|c5].
    + intros HE. apply stageE_rel in HE. eapply R_trans; [exact HA|]. eapply R_trans; [exact HB|].
      eapply R_trans; [exact HC|]. eapply R_trans; [exact HD|exact HE].
    + intros [= <- _]. eapply R_trans; [exact HA|]. eapply R_trans; [exact HB|]. eapply R_trans; [exact HC|exact HD].
  - intros [= <- _]. eapply R_trans; [exact HA|exact HB].
Qed.
End Rel.

(* ---------- instances ---------- *)
(* frame: other services and the pools are untouched *)
Definition frame_rel (s : svc) (a b : st) : Prop :=
  (forall t, t <> s -> get_alloc b t = get_alloc a t) /\ s_pools b = s_pools a.

Lemma converge_frame rank a s o k v ok :
  converge rank a s o k = CR v ok -> frame_rel s a (cv_mem v).
Proof.
  apply (converge_rel rank s (frame_rel s)).
  - intros x. split; auto.
  - intros x y z [H1 H2] [H3 H4]. split; [intros t Ht; rewrite H3, H1; auto|congruence].
  - intros x. split; [intros t Ht; apply get_alloc_unassign_other; exact Ht|reflexivity].
  - intros x r ips. split; [intros t Ht; apply assign_frame; exact Ht|apply assign_pools].
  - intros x op Ht. split; [intros t Hne; apply (step_frame x op s t Ht Hne)|].
    destruct (N.eq_dec (s + 1) s) as [E|E]; [lia|]. apply (step_frame x op s (s + 1) Ht E).
Qed.

(* the allocator invariants survive the handler *)
Lemma converge_Inv rank a s o k v ok :
  converge rank a s o k = CR v ok -> Inv a -> Inv (cv_mem v).
Proof.
  apply (converge_rel rank s (fun x y => Inv x -> Inv y)); auto.
  - intros x H. apply Inv_unassign. exact H.
  - intros x r ips H. apply Inv_assign. exact H.
  - intros x op _ H. apply step_Inv. exact H.
Qed.

Lemma converge_PoolCoh rank a s o k v ok :
  converge rank a s o k = CR v ok -> PoolCoh a -> PoolCoh (cv_mem v).
Proof.
  apply (converge_rel rank s (fun x y => PoolCoh x -> PoolCoh y)); auto.
  - intros x H. apply PoolCoh_unassign. exact H.
  - intros x r ips H. apply PoolCoh_assign. exact H.
  - intros x op _ H. apply step_PoolCoh. exact H.
Qed.

(* ---------- memory versus the working copy ---------- *)
Section Synced.
Variable rank : ip -> N.
Variable s : svc.

(* between stages: memory records exactly lb for s; nothing recorded => status cleared *)
Definition Q (c : cv) (lb : list ip) : Prop :=
  same_ips (ips_of (cv_mem c) s) lb /\ (lb = [] -> cv_status c = []).

Lemma Q_clear c : Q (clear c s) [].
Proof.
  split; [|reflexivity]. unfold ips_of. cbn. rewrite get_alloc_unassign_same. apply same_ips_refl.
Qed.

Definition synced (c : cv) : Prop := same_ips (ips_of (cv_mem c) s) (cv_status c).

Lemma synced_clear c : synced (clear c s).
Proof. unfold synced, ips_of. cbn. rewrite get_alloc_unassign_same. apply same_ips_refl. Qed.

Lemma Q_nil_synced c : Q c [] -> synced c.
Proof. intros [H1 H2]. unfold synced. rewrite (H2 eq_refl). exact H1. Qed.

Lemma want_step o c lb : Q c lb -> synced c ->
  match match o_want o with
        | WInvalid => inr c
        | WIps d => if equal_ips rank lb d then inl (c, sort2 rank lb) else inl (clear c s, [])
        | WNone => inl (c, lb)
        end with
  | inl (c3, lb3) => Q c3 lb3
  | inr c3 => synced c3
  end.
Proof.
  intros Qc Sc. destruct (o_want o) as [|d|]; [exact Qc| |exact Sc].
  destruct (equal_ips rank lb d); [|apply Q_clear].
  destruct Qc as [Q1 Q2']. split.
  - intros w. rewrite (Q1 w). symmetry. apply sort2_same.
  - intros Hn. apply sort2_nil in Hn. auto.
Qed.

Lemma stageB_Q c0 o c1 lb1 :
  cv_status c0 = o_status o -> stageA c0 s o = (c1, lb1) ->
  match stageB rank c1 lb1 s o with
  | inl (c3, lb3) => Q c3 lb3
  | inr c3 => synced c3
  end.
Proof.
  intros Hst HA. unfold stageA in HA.
  assert (Hcases : (lb1 = [] /\ c1 = clear c0 s) \/ (lb1 <> [] /\ c1 = c0 /\ lb1 = o_status o)).
  { destruct (o_status o) as [|x l] eqn:Es; [injection HA as <- <-; left; auto|].
    destruct (family_changed _ _ _); injection HA as <- <-; [left; auto|right; repeat split; congruence]. }
  destruct Hcases as [[-> ->]|(Hne & -> & Hlb)].
  - cbn. apply Q_clear.
  - unfold stageB. destruct lb1 as [|x l]; [congruence|].
    destruct (assign (cv_mem c0) s (o_req o) (x :: l)) as [a' [i|e|]] eqn:E.
    + apply assign_ok_holds in E. destruct E as (_ & Hips & _).
      set (c2 := {| cv_mem := a'; cv_status := cv_status c0; cv_annot := cv_annot c0 |}).
      assert (Q2 : Q c2 (x :: l)).
      { split; [cbn; rewrite Hips; apply same_ips_refl|discriminate]. }
      assert (S2 : synced c2).
      { unfold synced. cbn. rewrite Hips, Hst, <- Hlb. apply same_ips_refl. }
      destruct (o_want_pool o) as [p|].
      * destruct (opt_pool_eqb (pool_of (cv_mem c2) s) (Some p)).
        -- apply want_step; assumption.
        -- apply want_step; [apply Q_clear|apply synced_clear].
      * apply want_step; assumption.
    + destruct (o_want_pool o); apply want_step; try apply Q_clear; apply synced_clear.
    + destruct (o_want_pool o); apply want_step; try apply Q_clear; apply synced_clear.
Qed.

Lemma stageC_Q c3 lb3 r k c4 lb4 : Q c3 lb3 -> stageC c3 lb3 s r k = Some (c4, lb4) -> Q c4 lb4.
Proof.
  intros Q3. unfold stageC. destruct lb3 as [|have [|y l]]; try (intros [= <- <-]; exact Q3).
  destruct (additional_applies r [have]); [|intros [= <- <-]; exact Q3].
  destruct (pool_of (cv_mem c3) s) as [pn|]; [|intros [= <- <-]; exact Q3].
  destruct (alloc_op (cv_mem c3) (OAdditional s r have pn (the_additional have k))) as [[a' res]|] eqn:E; [|discriminate].
  apply alloc_op_some in E. destruct E as [E Hnm].
  destruct res as [out|e|].
  - destruct (step_additional_ok _ _ _ _ _ _ _ _ E) as [x [-> Hips]].
    intros [= <- <-]. split; [cbn; rewrite Hips; apply same_ips_refl|discriminate].
  - apply failed_op_no_change in E. subst a'. intros [= <- <-].
    destruct Q3 as [Q1 Q2']. split; [exact Q1|discriminate].
  - exfalso. apply Hnm. reflexivity.
Qed.

Lemma stageD_Q c4 lb4 o k res : Q c4 lb4 -> stageD c4 lb4 s o k = Some res ->
  match res with inl (c5, lb5) => Q c5 lb5 | inr c5 => synced c5 end.
Proof.
  intros Q4. unfold stageD. destruct lb4 as [|x l]; [|intros [= <-]; exact Q4].
  pose proof (Q_nil_synced _ Q4) as S4. destruct Q4 as [Q1 Q2']. specialize (Q2' eq_refl).
  destruct (o_want o) as [|d|].
  - set (o' := match o_want_pool o with
               | Some p => OAllocateFromPool s (o_req o) p (option_map snd (k_final k))
               | None => OAllocate s (o_req o) (k_final k)
               end).
    destruct (alloc_op (cv_mem c4) o') as [[a' r]|] eqn:E; [|discriminate].
    apply alloc_op_some in E. destruct E as [E Hnm].
    destruct r as [ips|e|].
    + intros [= <-]. assert (Hips : ips_of a' s = ips).
      { unfold o' in E. destruct (o_want_pool o); [eapply step_frompool_ok|eapply step_allocate_ok]; exact E. }
      split; [cbn; rewrite Hips; apply same_ips_refl|cbn; intros _; exact Q2'].
    + apply failed_op_no_change in E. subst a'. intros [= <-]. unfold synced. cbn. rewrite Q2'. exact Q1.
    + exfalso. apply Hnm. reflexivity.
  - destruct (negb _); [intros [= <-]; exact S4|].
    destruct (assign (cv_mem c4) s (o_req o) d) as [a' [i|e|]] eqn:E; try (intros [= <-]; exact S4).
    apply assign_ok_holds in E. destruct E as (_ & Hips & _).
    assert (Q5 : Q {| cv_mem := a'; cv_status := cv_status c4; cv_annot := cv_annot c4 |} d).
    { split; [cbn; rewrite Hips; apply same_ips_refl|cbn; intros _; exact Q2']. }
    destruct (o_want_pool o) as [p|]; [|intros [= <-]; exact Q5].
    destruct (opt_pool_eqb (pool_of a' s) (Some p)); intros [= <-]; [exact Q5|].
    unfold synced, ips_of. cbn. rewrite get_alloc_unassign_same, Q2'. apply same_ips_refl.
  - intros [= <-]. exact S4.
Qed.

Lemma stageE_synced c5 lb5 v ok : Q c5 lb5 -> stageE c5 lb5 s = CR v ok -> synced v.
Proof.
  intros [Q1 _]. unfold stageE. destruct lb5 as [|x l]; [intros [= <- _]; apply synced_clear|].
  destruct (pool_of (cv_mem c5) s) as [pn|]; [|intros [= <- _]; apply synced_clear].
  destruct (find_pool _ pn); intros [= <- _]; [exact Q1|apply synced_clear].
Qed.

(* whatever path convergeBalancer takes: what memory records for the service
   is (as a set) what the working copy - the status that will be written - says *)
Theorem converge_synced a o k v ok : converge rank a s o k = CR v ok -> synced v.
Proof.
  unfold converge.
  set (c0 := {| cv_mem := a; cv_status := o_status o; cv_annot := o_annot o |}).
  destruct (negb (o_lb o)); [intros [= <- _]; apply synced_clear|].
  destruct (match by_name (s_pools a) with [] => true | _ => false end); [intros [= <- _]; apply synced_clear|].
  destruct (negb (o_cluster_ok o)); [intros [= <- _]; apply synced_clear|].
  destruct (is_require _ && _); [intros [= <- _]; apply synced_clear|].
  destruct (stageA c0 s o) as [c1 lb1] eqn:EA.
  pose proof (stageB_Q c0 o c1 lb1 eq_refl EA) as HB.
  destruct (stageB rank c1 lb1 s o) as [[c3 lb3]|c3]; [|intros [= <- _]; exact HB].
  destruct (stageC c3 lb3 s (o_req o) k) as [[c4 lb4]|] eqn:EC; [|discriminate].
  pose proof (stageC_Q _ _ _ _ _ _ HB EC) as HC.
  destruct (stageD c4 lb4 s o k) as [res|] eqn:ED; [|discriminate].
  pose proof (stageD_Q _ _ _ _ _ HC ED) as HD.
  destruct res as [[c5 lb5]|c5]; [|intros [= <- _]; exact HD].
  intros HE. eapply stageE_synced; eassumption.
Qed.

(* on success the pool annotation names the pool memory records, and that pool exists *)
Theorem converge_ok_annot a o k v : converge rank a s o k = CR v true -> o_lb o = true ->
  cv_status v <> [] /\ cv_annot v = pool_of (cv_mem v) s /\
  exists pn p, cv_annot v = Some pn /\ find_pool (s_pools (cv_mem v)) pn = Some p.
Proof.
  unfold converge.
  set (c0 := {| cv_mem := a; cv_status := o_status o; cv_annot := o_annot o |}).
  intros H Hlb. rewrite Hlb in H. cbn [negb] in H.
  destruct (match by_name (s_pools a) with [] => true | _ => false end); [discriminate|].
  destruct (negb (o_cluster_ok o)); [discriminate|].
  destruct (is_require _ && _); [discriminate|].
  destruct (stageA c0 s o) as [c1 lb1].
  destruct (stageB rank c1 lb1 s o) as [[c3 lb3]|c3]; [|discriminate].
  destruct (stageC c3 lb3 s (o_req o) k) as [[c4 lb4]|]; [|discriminate].
  destruct (stageD c4 lb4 s o k) as [[[c5 lb5]|c5]|]; try discriminate.
  unfold stageE in H. destruct lb5 as [|x l]; [discriminate|].
  destruct (pool_of (cv_mem c5) s) as [pn|] eqn:Ep; [|discriminate].
  destruct (find_pool _ pn) as [p|] eqn:Ef; [|discriminate].
  injection H as <-. cbn. repeat split; [discriminate|congruence|]. exists pn, p. auto.
Qed.
End Synced.
