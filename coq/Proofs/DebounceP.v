(* Lemmas about Model/Debounce.v (C19). *)
From Coq Require Import NArith Bool List Lia.
From Verif Require Import Model.Debounce.
Import ListNotations.

Lemma ocfg_eqb_eq a b : ocfg_eqb a b = true <-> a = b.
Proof.
  destruct a, b; simpl; try (split; congruence).
  rewrite N.eqb_eq. split; congruence.
Qed.

Lemma ocfg_eqb_refl a : ocfg_eqb a a = true.
Proof. apply ocfg_eqb_eq; reflexivity. Qed.

Lemma run_app s l1 l2 :
  run s (l1 ++ l2) = match run s l1 with Some s' => run s' l2 | None => None end.
Proof.
  revert s; induction l1 as [|e l1 IH]; intros s; simpl; [reflexivity|].
  destruct (step s e); [apply IH|reflexivity].
Qed.

Lemma run_snoc s l e :
  run s (l ++ [e]) = match run s l with Some s' => step s' e | None => None end.
Proof.
  rewrite run_app. destruct (run s l); [|reflexivity]. simpl. destruct (step s0 e); reflexivity.
Qed.

Lemma last_submit_from_app d l1 l2 :
  last_submit_from d (l1 ++ l2) = last_submit_from (last_submit_from d l1) l2.
Proof.
  revert d; induction l1 as [|e l1 IH]; intros d; simpl; [reflexivity|].
  destruct e; apply IH.
Qed.

Lemma last_submit_from_nosub d l : no_submit l = true -> last_submit_from d l = d.
Proof.
  revert d; induction l as [|e l IH]; intros d H; simpl in *; [reflexivity|].
  apply andb_true_iff in H as [He Hl]. destruct e; simpl in He; try discriminate; apply IH; assumption.
Qed.

(* ---- reachability ---- *)
Definition reachable (s : st) : Prop := exists l, run init l = Some s.

Lemma reachable_init : reachable init.
Proof. exists []; reflexivity. Qed.

Lemma reachable_step s e s' : reachable s -> step s e = Some s' -> reachable s'.
Proof.
  intros [l H] Hs. exists (l ++ [e]). rewrite run_snoc, H. exact Hs.
Qed.

Lemma reachable_run s l s' : reachable s -> run s l = Some s' -> reachable s'.
Proof.
  revert s; induction l as [|e l IH]; intros s Hr H; simpl in H.
  - inversion H; subst; assumption.
  - destruct (step s e) eqn:E; [|discriminate]. eapply IH; [eapply reachable_step; eassumption|assumption].
Qed.

(* the invariant *)
Definition inv (s : st) : Prop :=
  (timer s = false -> applied s = config s) /\ (timer s = true -> config s <> None).

Lemma inv_init : inv init.
Proof. split; simpl; [reflexivity|discriminate]. Qed.

Lemma inv_step s e s' : inv s -> step s e = Some s' -> inv s'.
Proof.
  intros [I1 I2] H. destruct e as [c| |ok]; simpl in H.
  - destruct (ocfg_eqb (config s) (Some c)) eqn:E; inversion H; subst; clear H.
    + split; assumption.
    + split; simpl; [discriminate|intros _; discriminate].
  - destruct (config s) eqn:E; inversion H; subst; clear H.
    + split; simpl; [discriminate|intros _; discriminate].
    + split; rewrite E; assumption.
  - destruct (timer s) eqn:E; [|discriminate]. inversion H; subst; clear H.
    destruct ok; split; simpl; try discriminate; auto.
Qed.

Lemma inv_run s l s' : inv s -> run s l = Some s' -> inv s'.
Proof.
  revert s; induction l as [|e l IH]; intros s Hi H; simpl in H.
  - inversion H; subst; assumption.
  - destruct (step s e) eqn:E; [|discriminate]. eapply IH; [eapply inv_step; eassumption|assumption].
Qed.

Lemma reachable_inv s : reachable s -> inv s.
Proof. intros [l H]. eapply inv_run; [apply inv_init|exact H]. Qed.

(* no lost update *)
Lemma pending_implies_timer s : reachable s -> config s <> applied s -> timer s = true.
Proof.
  intros Hr Hne. destruct (reachable_inv s Hr) as [I1 _].
  destruct (timer s); [reflexivity|]. exfalso. apply Hne. symmetry. apply I1. reflexivity.
Qed.

(* [config] is always the most recently submitted configuration *)
Lemma config_step s e s' : step s e = Some s' -> config s' = last_submit_from (config s) [e].
Proof.
  intros H. destruct e as [c| |ok]; simpl in *.
  - destruct (ocfg_eqb (config s) (Some c)) eqn:E; inversion H; subst; simpl; [|reflexivity].
    apply ocfg_eqb_eq in E. assumption.
  - destruct (config s) eqn:E; inversion H; subst; simpl; congruence.
  - destruct (timer s); inversion H; subst; reflexivity.
Qed.

Lemma config_run s l s' : run s l = Some s' -> config s' = last_submit_from (config s) l.
Proof.
  revert s; induction l as [|e l IH]; intros s H; simpl in H.
  - inversion H; subst; reflexivity.
  - destruct (step s e) eqn:E; [|discriminate]. rewrite (IH _ H). apply config_step in E. rewrite E.
    destruct e; reflexivity.
Qed.

Lemma config_is_last l s : run init l = Some s -> config s = last_submit l.
Proof. intros H. apply config_run in H. exact H. Qed.

(* every body call is made with the latest submitted configuration *)
Lemma fire_uses_latest l b s :
  run init (l ++ [Fire b]) = Some s ->
  exists rest, log s = (last_submit l, b) :: rest /\ (b = true -> applied s = last_submit l).
Proof.
  rewrite run_snoc. destruct (run init l) as [s0|] eqn:E; [|discriminate].
  simpl. destruct (timer s0); [|discriminate]. intros H; inversion H; subst; simpl.
  rewrite (config_is_last _ _ E). exists (log s0). split; [reflexivity|]. intros ->. reflexivity.
Qed.

(* log of a run = the specification: for each Fire, the latest submit before it *)
Fixpoint fire_log (d : option cfg) (l : list ev) (acc : list (option cfg * bool)) : list (option cfg * bool) :=
  match l with
  | [] => acc
  | Submit c :: l' => fire_log (Some c) l' acc
  | ReapplyOld :: l' => fire_log d l' acc
  | Fire b :: l' => fire_log d l' ((d, b) :: acc)
  end.

Lemma log_run s l s' : run s l = Some s' -> log s' = fire_log (config s) l (log s).
Proof.
  revert s; induction l as [|e l IH]; intros s H; simpl in H.
  - inversion H; subst; reflexivity.
  - destruct (step s e) eqn:E; [|discriminate]. rewrite (IH _ H).
    destruct e as [c| |ok]; simpl in *.
    + destruct (ocfg_eqb (config s) (Some c)) eqn:E2; inversion E; subst; simpl; [|reflexivity].
      apply ocfg_eqb_eq in E2. rewrite E2. reflexivity.
    + destruct (config s) eqn:E2; inversion E; subst; simpl; rewrite ?E2; reflexivity.
    + destruct (timer s); inversion E; subst; reflexivity.
Qed.

Lemma log_is_spec l s : run init l = Some s -> log s = fire_log None l [].
Proof. intros H. apply log_run in H. exact H. Qed.

(* an older configuration is never applied after a newer one was submitted *)
Lemma never_older_after_newer p1 c p2 b s :
  run init (p1 ++ Submit c :: p2 ++ [Fire b]) = Some s ->
  exists c' rest, log s = (Some c', b) :: rest /\
                  (c' = c /\ no_submit p2 = true \/ In (Submit c') p2).
Proof.
  intros H.
  replace (p1 ++ Submit c :: p2 ++ [Fire b]) with ((p1 ++ Submit c :: p2) ++ [Fire b]) in H
    by (rewrite <- app_assoc; reflexivity).
  apply fire_uses_latest in H as (rest & Hl & _).
  unfold last_submit in Hl. rewrite last_submit_from_app in Hl. simpl in Hl.
  assert (G: forall d, (last_submit_from (Some d) p2 = Some d /\ no_submit p2 = true) \/
                       exists c', last_submit_from (Some d) p2 = Some c' /\ In (Submit c') p2).
  { clear. induction p2 as [|e p2 IH]; intros d; simpl.
    - left; split; reflexivity.
    - destruct e as [x| |ok]; simpl.
      + right. destruct (IH x) as [[E _]|[c' [E I]]].
        * exists x; split; [assumption|left; reflexivity].
        * exists c'; split; [assumption|right; assumption].
      + destruct (IH d) as [[E N]|[c' [E I]]]; [left; split; assumption|right; exists c'; split; [assumption|right; assumption]].
      + destruct (IH d) as [[E N]|[c' [E I]]]; [left; split; assumption|right; exists c'; split; [assumption|right; assumption]]. }
  destruct (G c) as [[E N]|[c' [E I]]].
  - exists c, rest. rewrite E in Hl. split; [assumption|left; split; [reflexivity|assumption]].
  - exists c', rest. rewrite E in Hl. split; [assumption|right; assumption].
Qed.

(* chronological monotonicity: of two body calls the later one uses the
   configuration that was the latest at its own time, i.e. either the one the
   earlier call used (no submit in between) or one submitted after it *)
Lemma later_call_not_older p1 b1 p2 b2 s :
  run init (p1 ++ Fire b1 :: p2 ++ [Fire b2]) = Some s ->
  exists rest, log s = (last_submit_from (last_submit p1) p2, b2) :: rest.
Proof.
  intros H.
  replace (p1 ++ Fire b1 :: p2 ++ [Fire b2]) with ((p1 ++ Fire b1 :: p2) ++ [Fire b2]) in H
    by (rewrite <- app_assoc; reflexivity).
  apply fire_uses_latest in H as (rest & Hl & _). exists rest. rewrite Hl.
  unfold last_submit. rewrite last_submit_from_app. reflexivity.
Qed.

(* resubmitting the identical configuration changes nothing: no timer, no reload *)
Lemma identical_submit_no_reload s c : config s = Some c -> step s (Submit c) = Some s.
Proof. intros H. simpl. rewrite H, ocfg_eqb_refl. reflexivity. Qed.

Lemma identical_submit_run s c l : config s = Some c -> run s (Submit c :: l) = run s l.
Proof. intros H. simpl. rewrite H. simpl. rewrite N.eqb_refl. reflexivity. Qed.

(* events other than Fire do not touch the log / applied, and keep an armed timer *)
Lemma nofire_run s l s' : no_fire l = true -> run s l = Some s' ->
  log s' = log s /\ applied s' = applied s /\ (timer s = true -> timer s' = true).
Proof.
  revert s; induction l as [|e l IH]; intros s Hn H; simpl in *.
  - inversion H; subst; auto.
  - apply andb_true_iff in Hn as [He Hl]. destruct (step s e) as [s1|] eqn:E; [|discriminate].
    destruct (IH _ Hl H) as (A & B & C).
    destruct e as [c| |ok]; simpl in *; try discriminate.
    + destruct (ocfg_eqb (config s) (Some c)); inversion E; subst; simpl in *; auto.
    + destruct (config s); inversion E; subst; simpl in *; auto.
Qed.

(* a run without Fire is always enabled *)
Lemma nofire_enabled s l : no_fire l = true -> exists s', run s l = Some s'.
Proof.
  revert s; induction l as [|e l IH]; intros s Hn; simpl in *; [eauto|].
  apply andb_true_iff in Hn as [He Hl]. destruct e as [c| |ok]; simpl in *; try discriminate.
  - destruct (ocfg_eqb (config s) (Some c)); apply IH; assumption.
  - destruct (config s); apply IH; assumption.
Qed.

(* k updates inside one window: exactly one body call, with the last one *)
Lemma coalesce s subs s' :
  reachable s -> timer s = false -> no_fire subs = true ->
  run s (subs ++ [Fire true]) = Some s' ->
  log s' = (last_submit_from (config s) subs, true) :: log s /\
  applied s' = last_submit_from (config s) subs /\ timer s' = false /\
  (forall b, step s' (Fire b) = None).
Proof.
  intros Hr Ht Hn H. rewrite run_snoc in H. destruct (run s subs) as [s1|] eqn:E; [|discriminate].
  destruct (nofire_run _ _ _ Hn E) as (A & B & C). pose proof (config_run _ _ _ E) as D.
  simpl in H. destruct (timer s1); [|discriminate]. inversion H; subst; simpl.
  rewrite A, D. repeat split; reflexivity.
Qed.

(* if the window saw at least one new configuration the timer is armed, i.e. the
   single body call above does happen *)
Lemma submit_arms s c s' : step s (Submit c) = Some s' -> config s <> Some c -> timer s' = true.
Proof.
  simpl. destruct (ocfg_eqb (config s) (Some c)) eqn:E.
  - apply ocfg_eqb_eq in E. congruence.
  - intros H _; inversion H; reflexivity.
Qed.

(* failed attempts are retried without a new submission *)
Lemma retry_without_submit s s' :
  step s (Fire false) = Some s' ->
  timer s' = true /\ config s' = config s /\ applied s' = applied s /\
  exists s'', step s' (Fire true) = Some s'' /\ applied s'' = config s.
Proof.
  simpl. destruct (timer s); [|discriminate]. intros H; inversion H; subst; simpl.
  repeat split. eexists; split; reflexivity.
Qed.

Lemma retry_n s n : timer s = true ->
  exists s', run s (repeat (Fire false) n ++ [Fire true]) = Some s' /\
             applied s' = config s /\ config s' = config s /\ timer s' = false /\
             length (log s') = length (log s) + n + 1.
Proof.
  revert s; induction n as [|n IH]; intros s Ht; simpl.
  - rewrite Ht. eexists; repeat split; simpl. lia.
  - rewrite Ht. simpl.
    destruct (IH (mk_st (config s) true (applied s) ((config s, false) :: log s)) eq_refl)
      as (s' & R & A & B & C & D).
    exists s'. simpl in *. repeat split; try assumption. lia.
Qed.

(* eventually: no further submit, the body succeeds once => applied = last submitted *)
Lemma nosub_keeps s l s' : no_submit l = true -> run s l = Some s' -> config s' = config s.
Proof. intros Hn H. rewrite (config_run _ _ _ H). apply last_submit_from_nosub. assumption. Qed.

Lemma step_nosub_config s e s' : is_submit e = false -> step s e = Some s' -> config s' = config s.
Proof.
  intros He H. destruct e as [c| |ok]; simpl in *; try discriminate.
  - destruct (config s) eqn:E; inversion H; subst; simpl; congruence.
  - destruct (timer s); inversion H; subst; reflexivity.
Qed.

Lemma applied_stays s l s' :
  no_submit l = true -> run s l = Some s' -> applied s = config s -> applied s' = config s.
Proof.
  revert s; induction l as [|e l IH]; intros s Hn H Ha; simpl in *.
  - inversion H; subst; assumption.
  - apply andb_true_iff in Hn as [He Hl]. apply negb_true_iff in He.
    destruct (step s e) as [s1|] eqn:E; [|discriminate].
    rewrite <- (step_nosub_config _ _ _ He E). apply IH; [assumption|assumption|].
    rewrite (step_nosub_config _ _ _ He E).
    destruct e as [c| |ok]; simpl in *; try discriminate.
    + destruct (config s) eqn:E2; inversion E; subst; simpl; congruence.
    + destruct (timer s); inversion E; subst; simpl. destruct ok; [reflexivity|assumption].
Qed.

Lemma applied_after_fire s l s' :
  no_submit l = true -> run s l = Some s' -> In (Fire true) l -> applied s' = config s.
Proof.
  revert s; induction l as [|e l IH]; intros s Hn H Hin; simpl in *; [contradiction|].
  apply andb_true_iff in Hn as [He Hl]. apply negb_true_iff in He.
  destruct (step s e) as [s1|] eqn:E; [|discriminate].
  rewrite <- (step_nosub_config _ _ _ He E).
  destruct Hin as [->|Hin].
  - apply (applied_stays s1 l s' Hl H).
    simpl in E. destruct (timer s); inversion E; subst; reflexivity.
  - apply IH; assumption.
Qed.

Lemma applied_after_ok s l s' :
  inv s -> no_submit l = true -> run s l = Some s' ->
  (timer s = false \/ In (Fire true) l) -> applied s' = config s.
Proof.
  intros Hi Hn H [Ht|Hin].
  - eapply applied_stays; eauto. apply Hi; assumption.
  - eapply applied_after_fire; eauto.
Qed.

Lemma eventually l s cont s' :
  run init l = Some s -> no_submit cont = true -> run s cont = Some s' ->
  (timer s = false \/ In (Fire true) cont) ->
  applied s' = last_submit l /\ config s' = last_submit l.
Proof.
  intros Hl Hn Hr Hor. pose proof (reachable_inv s (ex_intro _ l Hl)) as Hi.
  rewrite <- (config_is_last _ _ Hl). split.
  - eapply applied_after_ok; eauto.
  - eapply nosub_keeps; eauto.
Qed.

(* progress: while an update is pending the body call is enabled, and one
   success delivers the latest configuration *)
Lemma pending_progress l s :
  run init l = Some s -> applied s <> last_submit l ->
  exists s', step s (Fire true) = Some s' /\ applied s' = last_submit l /\ timer s' = false.
Proof.
  intros Hl Hne. pose proof (config_is_last _ _ Hl) as Hc.
  assert (Ht: timer s = true).
  { apply pending_implies_timer; [exists l; assumption|]. rewrite Hc. congruence. }
  simpl. rewrite Ht. eexists; split; [reflexivity|]. simpl. split; [assumption|reflexivity].
Qed.

(* ---------- re-apply requests ---------- *)
(* submissions and re-apply requests are always received: only a timer expiry can be "not enabled" *)
Lemma submit_total s c : exists s', step s (Submit c) = Some s'.
Proof. simpl. destruct (ocfg_eqb (config s) (Some c)); eauto. Qed.

Lemma reapply_total s : exists s', step s ReapplyOld = Some s'.
Proof. simpl. destruct (config s); eauto. Qed.

(* a re-apply request arms the timer (unless nothing was ever submitted) and changes nothing else *)
Lemma reapply_arms s c : config s = Some c ->
  exists s', step s ReapplyOld = Some s' /\ timer s' = true /\ config s' = Some c /\ applied s' = applied s /\ log s' = log s.
Proof. intros H. simpl. rewrite H. eexists. split; [reflexivity|]. simpl. auto. Qed.

Lemma reapply_ignored_when_empty s : config s = None -> step s ReapplyOld = Some s.
Proof. intros H. simpl. rewrite H. reflexivity. Qed.

(* with no newer submission the re-apply leads to exactly one more reload call, with the same content ... *)
Lemma reapply_reloads_same s c : reachable s -> timer s = false -> config s = Some c ->
  exists s', run s [ReapplyOld; Fire true] = Some s' /\ log s' = (Some c, true) :: log s /\
             applied s' = Some c /\ timer s' = false /\ (forall b, step s' (Fire b) = None).
Proof.
  intros Hr Ht Hc. simpl. rewrite Hc. simpl. eexists. split; [reflexivity|]. simpl. repeat split.
Qed.

(* ... and with a newer submission in the same window, of the newer content, once *)
Lemma reapply_reloads_newer s c c' : reachable s -> timer s = false -> config s = Some c ->
  exists s', run s [ReapplyOld; Submit c'; Fire true] = Some s' /\ log s' = (Some c', true) :: log s /\
             applied s' = Some c' /\ timer s' = false.
Proof.
  intros Hr Ht Hc. simpl. rewrite Hc. simpl. destruct (N.eqb c c') eqn:E; simpl.
  - apply N.eqb_eq in E. subst. eexists. split; [reflexivity|]. simpl. auto.
  - eexists. split; [reflexivity|]. simpl. auto.
Qed.

(* a failing re-applied reload is retried like any other *)
Lemma reapply_failure_retried s c : timer s = false -> config s = Some c ->
  exists s', run s [ReapplyOld; Fire false] = Some s' /\ timer s' = true /\ config s' = Some c.
Proof. intros Ht Hc. simpl. rewrite Hc. simpl. eexists. split; [reflexivity|]. simpl. auto. Qed.

(* the window of C19_coalesce exists: any sequence of submissions / re-apply requests is a run; afterwards the
   reload call is enabled as soon as the timer is armed, and the timer IS armed when it was armed before, when
   the stored configuration changed, or when the window contains a re-apply request (something having been submitted) *)
Lemma window_run s subs : no_fire subs = true ->
  exists s1, run s subs = Some s1 /\ (timer s1 = true -> exists s', run s (subs ++ [Fire true]) = Some s').
Proof.
  intros Hn. destruct (nofire_enabled s subs Hn) as (s1 & R). exists s1. split; [exact R|].
  intros T. rewrite run_snoc, R. simpl. rewrite T. eauto.
Qed.

Lemma nofire_keeps_some s l s1 : no_fire l = true -> run s l = Some s1 -> config s <> None -> config s1 <> None.
Proof.
  revert s; induction l as [|e l IH]; intros s Hn H Hc; simpl in *; [inversion H; subst; assumption|].
  apply andb_true_iff in Hn as [He Hn]. destruct (step s e) as [s0|] eqn:E; [|discriminate]. apply (IH s0 Hn H).
  destruct e as [c| |ok]; simpl in *; try discriminate.
  - destruct (ocfg_eqb (config s) (Some c)); inversion E; subst; simpl; [assumption|discriminate].
  - destruct (config s) eqn:Q; inversion E; subst; simpl; congruence.
Qed.

Lemma window_armed_by_change s subs s1 : no_fire subs = true -> run s subs = Some s1 -> config s1 <> config s -> timer s1 = true.
Proof.
  revert s; induction subs as [|e l IH]; intros s Hn H Hc; simpl in *; [inversion H; subst; congruence|].
  apply andb_true_iff in Hn as [He Hn]. destruct (step s e) as [s0|] eqn:E; [|discriminate].
  destruct e as [c| |ok]; simpl in *; try discriminate.
  - destruct (ocfg_eqb (config s) (Some c)) eqn:Q; inversion E; subst; clear E.
    + apply (IH s0 Hn H Hc).
    + destruct (nofire_run _ _ _ Hn H) as (_ & _ & K). apply K. reflexivity.
  - destruct (config s) eqn:Q; inversion E; subst; clear E.
    + destruct (nofire_run _ _ _ Hn H) as (_ & _ & K). apply K. reflexivity.
    + apply (IH s0 Hn H). rewrite Q. exact Hc.
Qed.

Lemma window_armed_by_reapply s subs s1 : no_fire subs = true -> run s subs = Some s1 ->
  In ReapplyOld subs -> config s <> None -> timer s1 = true.
Proof.
  revert s; induction subs as [|e l IH]; intros s Hn H Hin Hc; simpl in *; [contradiction|].
  apply andb_true_iff in Hn as [He Hn]. destruct (step s e) as [s0|] eqn:E; [|discriminate].
  destruct Hin as [->|Hin].
  - simpl in E. destruct (config s) eqn:Q; [|congruence]. inversion E; subst; clear E.
    destruct (nofire_run _ _ _ Hn H) as (_ & _ & K). apply K. reflexivity.
  - apply (IH s0 Hn H Hin). apply (nofire_keeps_some s [e] s0); simpl; [rewrite He; reflexivity|rewrite E; reflexivity|assumption].
Qed.

(* ---------- loop location: submitters are never blocked indefinitely ---------- *)
Definition freachable (s : fst_) : Prop := exists l, frun finit l = Some s.

Lemma frun_app s l1 l2 :
  frun s (l1 ++ l2) = match frun s l1 with Some s' => frun s' l2 | None => None end.
Proof.
  revert s; induction l1 as [|e l1 IH]; intros s; simpl; [reflexivity|].
  destruct (fstep s e); [apply IH|reflexivity].
Qed.

Definition finv (s : fst_) : Prop := f_inbody s = true -> timer (f_st s) = true.

Lemma finv_step s e s' : finv s -> fstep s e = Some s' -> finv s'.
Proof.
  unfold finv. intros I H. destruct e, (f_inbody s) eqn:B; unfold fstep in H; rewrite ?B in H; try discriminate.
  - destruct (step (f_st s) (Submit c)); inversion H; subst; simpl; discriminate.
  - destruct (step (f_st s) ReapplyOld); inversion H; subst; simpl; discriminate.
  - destruct (timer (f_st s)) eqn:T; inversion H; subst; simpl; auto.
  - destruct (step (f_st s) (Fire ok)); inversion H; subst; simpl; discriminate.
Qed.

Lemma freachable_finv s : freachable s -> finv s.
Proof.
  intros [l H]. revert s H. induction l as [|e l IH] using rev_ind; intros s H.
  - inversion H; subst. unfold finv; simpl; discriminate.
  - rewrite frun_app in H. destruct (frun finit l) as [s0|] eqn:E; [|discriminate].
    simpl in H. destruct (fstep s0 e) eqn:E2; [|discriminate]. inversion H; subst.
    eapply finv_step; [apply IH; reflexivity|exact E2].
Qed.

(* at the select every submission is accepted at once and the loop is back at
   the select; inside body one return of body (assumed to terminate) brings the
   loop back to the select *)
Lemma submit_never_blocks s :
  freachable s ->
  exists pre s1, length pre <= 1 /\ (forall e, In e pre -> exists ok, e = FBodyReturn ok) /\
     frun s pre = Some s1 /\ f_inbody s1 = false /\
     (forall c, exists s2, fstep s1 (FSubmit c) = Some s2 /\ f_inbody s2 = false) /\
     (exists s2, fstep s1 FReapplyOld = Some s2 /\ f_inbody s2 = false).
Proof.
  intros Hr. pose proof (freachable_finv s Hr) as I.
  assert (G: forall t, f_inbody t = false ->
     (forall c, exists s2, fstep t (FSubmit c) = Some s2 /\ f_inbody s2 = false) /\
     (exists s2, fstep t FReapplyOld = Some s2 /\ f_inbody s2 = false)).
  { intros t B. split.
    - intros c. simpl. rewrite B. destruct (ocfg_eqb (config (f_st t)) (Some c)); eexists; split; reflexivity.
    - simpl. rewrite B. destruct (config (f_st t)); eexists; split; reflexivity. }
  destruct (f_inbody s) eqn:B.
  - exists [FBodyReturn true]. specialize (I B).
    eexists. split; [simpl; lia|]. split; [intros e [<-|[]]; eauto|].
    simpl. rewrite B. simpl. rewrite I. split; [reflexivity|]. split; [reflexivity|]. apply G. reflexivity.
  - exists [], s. split; [simpl; lia|]. split; [intros e []|]. split; [reflexivity|]. split; [assumption|]. apply G; assumption.
Qed.

(* the fine model refines the atomic one *)
Lemma fine_refines_from s0 l s :
  frun s0 l = Some s -> run (f_st s0) (collapse l) = Some (f_st s).
Proof.
  revert s0; induction l as [|e l IH]; intros s0 H; simpl in *.
  - inversion H; subst; reflexivity.
  - destruct (fstep s0 e) as [s1|] eqn:E; [|discriminate].
    specialize (IH _ H).
    destruct e, (f_inbody s0) eqn:B; unfold fstep in E; rewrite ?B in E; try discriminate.
    + destruct (step (f_st s0) (Submit c)) as [t|] eqn:E2; [|discriminate]. inversion E; subst.
      simpl in *. rewrite E2. exact IH.
    + destruct (step (f_st s0) ReapplyOld) as [t|] eqn:E2; [|discriminate]. inversion E; subst.
      simpl in *. rewrite E2. exact IH.
    + destruct (timer (f_st s0)); [|discriminate]. inversion E; subst. exact IH.
    + destruct (step (f_st s0) (Fire ok)) as [t|] eqn:E2; [|discriminate]. inversion E; subst.
      simpl in *. rewrite E2. exact IH.
Qed.

Lemma fine_refines l s : frun finit l = Some s -> run init (collapse l) = Some (f_st s).
Proof. apply fine_refines_from. Qed.

(* ---------- frr-k8s variant ---------- *)
Definition kreachable (s : kst) : Prop := exists l, krun kinit l = Some s.

Lemma krun_app s l1 l2 :
  krun s (l1 ++ l2) = match krun s l1 with Some s' => krun s' l2 | None => None end.
Proof.
  revert s; induction l1 as [|e l1 IH]; intros s; simpl; [reflexivity|].
  destruct (kstep s e); [apply IH|reflexivity].
Qed.

Definition kinv (s : kst) : Prop := k_pending s = k_timer s.

Lemma kinv_step s e s' : kinv s -> kstep s e = Some s' -> kinv s'.
Proof.
  unfold kinv. intros I H. destruct e; simpl in H.
  - inversion H; reflexivity.
  - destruct (k_timer s); inversion H; reflexivity.
Qed.

Lemma kreachable_inv s : kreachable s -> kinv s.
Proof.
  intros [l H]. revert s H. induction l as [|e l IH] using rev_ind; intros s H.
  - inversion H; subst. reflexivity.
  - rewrite krun_app in H. destruct (krun kinit l) as [s0|] eqn:E; [|discriminate].
    simpl in H. destruct (kstep s0 e) eqn:E2; [|discriminate]. inversion H; subst.
    eapply kinv_step; [apply IH; reflexivity|exact E2].
Qed.

Lemma k_pending_implies_timer s : kreachable s -> k_pending s = true -> k_timer s = true.
Proof. intros Hr Hp. rewrite <- (kreachable_inv s Hr). assumption. Qed.

Fixpoint count_fire (l : list kev) : N :=
  match l with [] => 0 | KFire :: l' => N.succ (count_fire l') | KNotify :: l' => count_fire l' end.

(* every emitted event is later than every notification it covers: after a fire
   nothing is pending *)
Lemma k_fire_covers s s' : kstep s KFire = Some s' -> k_pending s' = false /\ k_timer s' = false /\ k_out s' = N.succ (k_out s).
Proof. simpl. destruct (k_timer s); [|discriminate]. intros H; inversion H; auto. Qed.

(* k notifications in one window: exactly one emitted event *)
Lemma k_coalesce s n s' :
  krun s (repeat KNotify (S n) ++ [KFire]) = Some s' ->
  k_out s' = N.succ (k_out s) /\ k_pending s' = false /\ k_timer s' = false /\ kstep s' KFire = None.
Proof.
  rewrite krun_app.
  assert (G: forall m t, krun t (repeat KNotify (S m)) = Some (mk_k true true (k_out t))).
  { induction m as [|m IH]; intros t; [reflexivity|].
    change (repeat KNotify (S (S m))) with (KNotify :: repeat KNotify (S m)).
    cbn [krun kstep]. rewrite IH. reflexivity. }
  rewrite G. simpl. intros H; inversion H; subst; simpl. auto.
Qed.

(* no spurious event: a fire is enabled only when a notification is pending *)
Lemma k_fire_needs_notify s s' : kreachable s -> kstep s KFire = Some s' -> k_pending s = true.
Proof.
  intros Hr H. rewrite (kreachable_inv s Hr). simpl in H. destruct (k_timer s); [reflexivity|discriminate].
Qed.

(* progress: a pending notification can always be delivered *)
Lemma k_progress s : kreachable s -> k_pending s = true -> exists s', kstep s KFire = Some s' /\ k_pending s' = false.
Proof.
  intros Hr Hp. pose proof (k_pending_implies_timer s Hr Hp) as Ht. simpl. rewrite Ht.
  eexists; split; reflexivity.
Qed.

(* validateReload: a re-apply is requested exactly for a new time stamp with status failure *)
Lemma validate_reload_spec fields prev :
  snd (validate_reload fields prev) = true <->
  exists ts, fields = Some [ts; 1%N] /\ ts <> prev.
Proof.
  unfold validate_reload. destruct fields as [[|ts [|stt [|x r]]]|]; simpl; try (split; [discriminate|intros (t & E & _); discriminate]).
  destruct (N.eqb ts prev) eqn:E; simpl.
  - apply N.eqb_eq in E. split; [discriminate|]. intros (t & H & Hn). inversion H; subst. congruence.
  - apply N.eqb_neq in E. rewrite N.eqb_eq. split.
    + intros ->. exists ts; split; [reflexivity|assumption].
    + intros (t & H & _). inversion H; reflexivity.
Qed.

(* ---------- frr-k8s variant, emission as a blocking send ---------- *)
Definition dkreachable (s : dkst) : Prop := exists l, dkrun false dkinit l = Some s.

Lemma dkrun_app d s l1 l2 :
  dkrun d s (l1 ++ l2) = match dkrun d s l1 with Some s' => dkrun d s' l2 | None => None end.
Proof.
  revert s; induction l1 as [|e l1 IH]; intros s; simpl; [reflexivity|].
  destruct (dkstep d s e); [apply IH|reflexivity].
Qed.

Definition dkinv (s : dkst) : Prop :=
  (dk_pending s = true -> dk_timer s = true \/ dk_sending s = true) /\ (dk_sending s = true -> dk_timer s = false).

Lemma dkinv_step s e s' : dkinv s -> dkstep false s e = Some s' -> dkinv s'.
Proof.
  intros [I1 I2] H. destruct e; simpl in H.
  - destruct (dk_sending s); [discriminate|]. inversion H; subst. split; simpl; [auto|discriminate].
  - destruct (dk_timer s) eqn:T; destruct (dk_sending s) eqn:S; simpl in H; try discriminate.
    inversion H; subst. split; simpl; auto.
  - destruct (dk_sending s) eqn:S; [|discriminate]. inversion H; subst. split; simpl; discriminate.
  - discriminate.
Qed.

Lemma dkreachable_inv s : dkreachable s -> dkinv s.
Proof.
  intros [l H]. revert s H. induction l as [|e l IH] using rev_ind; intros s H.
  - inversion H; subst. split; simpl; discriminate.
  - rewrite dkrun_app in H. destruct (dkrun false dkinit l) as [s0|] eqn:E; [|discriminate].
    simpl in H. destruct (dkstep false s0 e) eqn:E2; [|discriminate]. inversion H; subst.
    eapply dkinv_step; [apply IH; reflexivity|exact E2].
Qed.

(* a fired timer's notification is delivered or stays pending in the send: never dropped *)
Lemma notification_not_dropped s : dkreachable s -> dk_pending s = true -> dk_timer s = true \/ dk_sending s = true.
Proof. intros Hr. apply (proj1 (dkreachable_inv s Hr)). Qed.

(* ... and it can always be delivered: at most an expiry and a delivery, no further notification *)
Lemma delivery_progress s : dkreachable s -> dk_pending s = true ->
  exists l s', length l <= 2 /\ (forall e, In e l -> e = DExpire \/ e = DDeliver) /\
               dkrun false s l = Some s' /\ dk_pending s' = false /\ dk_out s' = N.succ (dk_out s).
Proof.
  intros Hr Hp. destruct (dkreachable_inv s Hr) as [I1 I2]. destruct (dk_sending s) eqn:S.
  - exists [DDeliver]. eexists. split; [simpl; lia|]. split; [intros e [<-|[]]; auto|].
    simpl. rewrite S. split; [reflexivity|]. split; reflexivity.
  - destruct (I1 Hp) as [T|X]; [|congruence].
    exists [DExpire; DDeliver]. eexists. split; [simpl; lia|]. split; [intros e [<-|[<-|[]]]; auto|].
    simpl. rewrite T, S. simpl. split; [reflexivity|]. split; reflexivity.
Qed.

(* the two-step model refines the atomic one (KFire = the delivery) *)
Lemma dk_refines_from s0 l s : dkinv s0 -> dkrun false s0 l = Some s -> krun (dk_abs s0) (dk_collapse l) = Some (dk_abs s).
Proof.
  revert s0; induction l as [|e l IH]; intros s0 Hi H; simpl in *.
  - inversion H; subst; reflexivity.
  - destruct (dkstep false s0 e) as [s1|] eqn:E; [|discriminate].
    pose proof (dkinv_step _ _ _ Hi E) as Hi1. specialize (IH _ Hi1 H). destruct Hi as [_ I2].
    destruct e; simpl in E.
    + destruct (dk_sending s0); [discriminate|]. inversion E; subst. simpl. exact IH.
    + destruct (dk_timer s0) eqn:T; destruct (dk_sending s0) eqn:S; simpl in E; try discriminate.
      inversion E; subst. unfold dk_abs in *. simpl in *. rewrite T, S. exact IH.
    + destruct (dk_sending s0) eqn:S; [|discriminate]. inversion E; subst. simpl.
      unfold dk_abs at 1. simpl. rewrite S, orb_true_r. unfold dk_abs in IH. simpl in IH.
      rewrite (I2 eq_refl) in IH. exact IH.
    + discriminate.
Qed.

Lemma dk_refines l s : dkrun false dkinit l = Some s -> krun kinit (dk_collapse l) = Some (dk_abs s).
Proof. apply (dk_refines_from dkinit). split; simpl; discriminate. Qed.

(* what a non-blocking send adds: a run that ends with a pending notification, no timer, nothing in flight *)
Lemma dropping_send_loses_notification :
  exists s, dkrun true dkinit [DNotify; DExpire; DDrop] = Some s /\
            dk_pending s = true /\ dk_timer s = false /\ dk_sending s = false /\ dk_out s = 0%N /\
            forall e, e <> DNotify -> dkstep true s e = None.
Proof.
  eexists. split; [reflexivity|]. simpl. repeat split. intros e He. destruct e; try reflexivity. congruence.
Qed.

(* ---------- frr-k8s path end to end ---------- *)
Lemma option_eq_dec_cfg (a b : option cfg) : {a = b} + {a <> b}.
Proof. decide equality. apply N.eq_dec. Qed.

Lemma rkrun_app s l1 l2 :
  rkrun s (l1 ++ l2) = match rkrun s l1 with Some s' => rkrun s' l2 | None => None end.
Proof.
  revert s; induction l1 as [|e l1 IH]; intros s; simpl; [reflexivity|].
  destruct (rkstep s e); [apply IH|reflexivity].
Qed.

(* whenever the API differs from the desired configuration, work is pending somewhere *)
Definition rkinv (s : rkst) : Prop :=
  dkinv (rk_d s) /\
  (rk_api s <> rk_desired s ->
   rk_locked s = true \/ dk_pending (rk_d s) = true \/ rk_queue s = true).

Lemma rkinv_step s e s' : rkinv s -> rkstep s e = Some s' -> rkinv s'.
Proof.
  intros [Id I] H. destruct e; cbn [rkstep] in H.
  - destruct (rk_locked s); [discriminate|]. inversion H; subst; simpl. split; [assumption|]. auto.
  - destruct (rk_locked s) eqn:L; [|discriminate]. destruct (dkstep false (rk_d s) DNotify) as [d|] eqn:E; [|discriminate].
    inversion H; subst; simpl. split; [eapply dkinv_step; eauto|]. intros _. right; left.
    simpl in E. destruct (dk_sending (rk_d s)); [discriminate|]. inversion E; reflexivity.
  - destruct (dkstep false (rk_d s) DExpire) as [d|] eqn:E; [|discriminate]. inversion H; subst; simpl.
    split; [eapply dkinv_step; eauto|]. intros Hne. destruct (I Hne) as [A|[A|A]]; auto. right; left.
    simpl in E. destruct (dk_timer (rk_d s) && negb (dk_sending (rk_d s))); [|discriminate]. inversion E; subst; simpl. assumption.
  - destruct (dkstep false (rk_d s) DDeliver) as [d|] eqn:E; [|discriminate]. inversion H; subst; simpl.
    split; [eapply dkinv_step; eauto|]. auto.
  - destruct (rk_queue s && negb (rk_locked s)); [|discriminate]. inversion H; subst; simpl. split; [assumption|]. intros X. exfalso. apply X. reflexivity.
Qed.

Lemma rk_reachable_inv l s : rkrun rkinit l = Some s -> rkinv s.
Proof.
  revert s. induction l as [|e l IH] using rev_ind; intros s H.
  - inversion H; subst. split; [split; simpl; discriminate|]. simpl. congruence.
  - rewrite rkrun_app in H. destruct (rkrun rkinit l) as [s0|] eqn:E; [|discriminate].
    simpl in H. destruct (rkstep s0 e) eqn:E2; [|discriminate]. inversion H; subst.
    eapply rkinv_step; [apply IH; reflexivity|exact E2].
Qed.

Lemma rk_desired_is_last l : forall s s', rkrun s l = Some s' -> rk_desired s' = last_written (rk_desired s) l.
Proof.
  induction l as [|e l IH]; intros s s' H; simpl in H.
  - inversion H; reflexivity.
  - destruct (rkstep s e) as [s1|] eqn:E; [|discriminate]. rewrite (IH _ _ H). destruct e; cbn [rkstep last_written] in *.
    + destruct (rk_locked s); inversion E; subst; reflexivity.
    + destruct (rk_locked s); [|discriminate]. destruct (dkstep false (rk_d s) DNotify); inversion E; subst; reflexivity.
    + destruct (dkstep false (rk_d s) DExpire); inversion E; subst; reflexivity.
    + destruct (dkstep false (rk_d s) DDeliver); inversion E; subst; reflexivity.
    + destruct (rk_queue s && negb (rk_locked s)); inversion E; subst; reflexivity.
Qed.

(* latest wins: at quiescence the API holds the most recently submitted configuration *)
Lemma rk_latest_wins l s : rkrun rkinit l = Some s -> rk_quiet s = true ->
  rk_api s = last_written None l /\ rk_desired s = last_written None l.
Proof.
  intros H Q. pose proof (rk_desired_is_last _ _ _ H) as D. simpl in D. split; [|exact D]. rewrite <- D.
  destruct (rk_reachable_inv _ _ H) as [[Ip _] I]. unfold rk_quiet in Q.
  repeat (apply andb_true_iff in Q as [Q ?]). apply negb_true_iff in Q, H0, H1, H2.
  destruct (option_eq_dec_cfg (rk_api s) (rk_desired s)) as [E|N]; [exact E|].
  exfalso. destruct (I N) as [A|[A|A]]; try congruence. destruct (Ip A); congruence.
Qed.

(* progress: from any reachable state a finite continuation without a new write reaches quiescence *)
Lemma rk_progress l s : rkrun rkinit l = Some s ->
  exists cont s', length cont <= 5 /\ (forall e, In e cont -> forall c, e <> RWrite c) /\
                  rkrun s cont = Some s' /\ rk_quiet s' = true.
Proof.
  intros H. destruct (rk_reachable_inv _ _ H) as [[Ip Is] _].
  destruct s as [[t sd p o] des api lk q]. simpl in *.
  assert (NW: forall (cont : list rkev), (forall e, In e cont -> e = RNotified \/ e = RExpire \/ e = RDeliver \/ e = RReconcile) ->
              forall e, In e cont -> forall c, e <> RWrite c).
  { intros cont Hc e He c. destruct (Hc e He) as [-> | [-> | [-> | ->]]]; discriminate. }
  destruct sd.
  - (* in the send: timer is false *)
    rewrite (Is eq_refl) in *. destruct lk.
    + exists [RDeliver; RNotified; RExpire; RDeliver; RReconcile]. eexists. split; [simpl; lia|].
      split; [apply NW; simpl; intuition|]. split; reflexivity.
    + exists [RDeliver; RReconcile]. eexists. split; [simpl; lia|]. split; [apply NW; simpl; intuition|]. split; reflexivity.
  - destruct lk.
    + exists [RNotified; RExpire; RDeliver; RReconcile]. eexists. split; [simpl; lia|].
      split; [apply NW; simpl; intuition|]. split; reflexivity.
    + destruct t.
      * exists [RExpire; RDeliver; RReconcile]. eexists. split; [simpl; lia|]. split; [apply NW; simpl; intuition|]. split; reflexivity.
      * destruct q.
        -- exists [RReconcile]. eexists. split; [simpl; lia|]. split; [apply NW; simpl; intuition|]. split; reflexivity.
        -- exists []. eexists. split; [simpl; lia|]. split; [intros e []|]. split; reflexivity.
Qed.

(* ---------- (1t) deadlines ---------- *)
Definition tinv (s : tst) : Prop := timer (t_st s) = true <-> t_deadline s <> None.

Lemma tinv_init : tinv tinit.
Proof. unfold tinv; simpl; split; [discriminate|congruence]. Qed.

Lemma tstep_erase iv rt s x s' : tstep iv rt s x = Some s' -> step (t_st s) (snd x) = Some (t_st s').
Proof.
  destruct x as [now e]; unfold tstep; simpl. destruct (step (t_st s) e) as [s1|]; [|discriminate].
  destruct e as [c| |ok].
  - intros H; inversion H; reflexivity.
  - intros H; inversion H; reflexivity.
  - destruct (t_deadline s) as [d|]; [|discriminate]. destruct (N.leb d now); [|discriminate]. intros H; inversion H; reflexivity.
Qed.

Lemma trun_erase iv rt s l s' : trun iv rt s l = Some s' -> run (t_st s) (map snd l) = Some (t_st s').
Proof.
  revert s; induction l as [|x l IH]; intros s H; simpl in *.
  - inversion H; reflexivity.
  - destruct (tstep iv rt s x) as [s1|] eqn:E; [|discriminate]. rewrite (tstep_erase _ _ _ _ _ E). apply IH, H.
Qed.

Lemma tinv_step iv rt s x s' : tinv s -> tstep iv rt s x = Some s' -> tinv s'.
Proof.
  unfold tinv; intros I H. destruct x as [now e]; unfold tstep in H.
  destruct (step (t_st s) e) as [s1|] eqn:E; [|discriminate].
  destruct e as [c| |ok].
  - inversion H; subst; clear H; simpl.
    assert (K : timer (t_st s) = true -> timer s1 = true).
    { intros T. simpl in E. destruct (ocfg_eqb (config (t_st s)) (Some c)); inversion E; subst; simpl; auto. }
    destruct (timer (t_st s)) eqn:T.
    + rewrite (K eq_refl). split; intros _; [apply I; reflexivity|reflexivity].
    + destruct (timer s1); split; congruence.
  - inversion H; subst; clear H; simpl.
    assert (K : timer (t_st s) = true -> timer s1 = true).
    { intros T. simpl in E. destruct (config (t_st s)); inversion E; subst; simpl; auto. }
    destruct (timer (t_st s)) eqn:T.
    + rewrite (K eq_refl). split; intros _; [apply I; reflexivity|reflexivity].
    + destruct (timer s1); split; congruence.
  - destruct (t_deadline s) as [d|]; [|discriminate]. destruct (N.leb d now); [|discriminate].
    inversion H; subst; clear H; simpl. simpl in E. destruct (timer (t_st s)); [|discriminate].
    inversion E; subst; simpl. destruct ok; simpl; split; congruence.
Qed.

Lemma tinv_run iv rt s l s' : tinv s -> trun iv rt s l = Some s' -> tinv s'.
Proof.
  revert s; induction l as [|x l IH]; intros s I H; simpl in *.
  - inversion H; subst; assumption.
  - destruct (tstep iv rt s x) as [s1|] eqn:E; [|discriminate]. eapply IH; [eapply tinv_step; eassumption|exact H].
Qed.

(* events other than Fire never move a pending deadline *)
Lemma deadline_kept iv rt s l s' d : no_fire (map snd l) = true -> trun iv rt s l = Some s' ->
  timer (t_st s) = true -> t_deadline s = Some d -> timer (t_st s') = true /\ t_deadline s' = Some d.
Proof.
  revert s; induction l as [|x l IH]; intros s Hn H T D; simpl in *.
  - inversion H; subst; auto.
  - apply andb_true_iff in Hn as [He Hl]. destruct (tstep iv rt s x) as [s1|] eqn:E; [|discriminate].
    destruct x as [now e]; simpl in He. unfold tstep in E.
    destruct (step (t_st s) e) as [s2|] eqn:E2; [|discriminate].
    assert (K : timer s2 = true).
    { destruct e as [c| |ok]; simpl in *; try discriminate.
      - destruct (ocfg_eqb (config (t_st s)) (Some c)); inversion E2; subst; simpl; auto.
      - destruct (config (t_st s)); inversion E2; subst; simpl; auto. }
    destruct e as [c| |ok]; simpl in He; try discriminate;
      rewrite T in E; inversion E; subst; clear E; refine (IH _ Hl H _ _); simpl; auto.
Qed.

(* the timer case of the select is enabled from the deadline on *)
Lemma fire_enabled_from_deadline iv rt s d now ok : timer (t_st s) = true -> t_deadline s = Some d ->
  (d <= now)%N -> exists s', tstep iv rt s (now, Fire ok) = Some s'.
Proof.
  intros T D L. unfold tstep; simpl. rewrite T, D. apply N.leb_le in L. rewrite L. eauto.
Qed.

(* ... and not before *)
Lemma fire_not_early iv rt s d now ok : t_deadline s = Some d -> (now < d)%N -> tstep iv rt s (now, Fire ok) = None.
Proof.
  intros D L. unfold tstep; simpl. destruct (timer (t_st s)); [|reflexivity]. rewrite D.
  apply N.leb_gt in L. rewrite L. reflexivity.
Qed.

Lemma failed_fire_deadline iv rt s now s1 : tstep iv rt s (now, Fire false) = Some s1 ->
  timer (t_st s1) = true /\ t_deadline s1 = Some (now + rt)%N.
Proof.
  unfold tstep; simpl. destruct (timer (t_st s)); [|discriminate]. destruct (t_deadline s) as [d|]; [|discriminate].
  destruct (N.leb d now); [|discriminate]. intros H; inversion H; subst; simpl; auto.
Qed.

Lemma arming_deadline iv rt s now e s1 : is_fire e = false -> timer (t_st s) = false ->
  tstep iv rt s (now, e) = Some s1 -> timer (t_st s1) = true -> t_deadline s1 = Some (now + iv)%N.
Proof.
  intros F T H T1. unfold tstep in H. destruct (step (t_st s) e) as [s2|]; [|discriminate].
  destruct e as [c| |ok]; simpl in F; try discriminate; rewrite T in H; inversion H; subst; simpl in *; rewrite T1; reflexivity.
Qed.

(* a failed attempt at [now] is retried from [now + rt] on, whatever is submitted in between *)
Lemma retry_not_starved iv rt s now s1 subs s2 :
  tstep iv rt s (now, Fire false) = Some s1 -> no_fire (map snd subs) = true -> trun iv rt s1 subs = Some s2 ->
  t_deadline s2 = Some (now + rt)%N
  /\ (forall t ok, (now + rt <= t)%N -> exists s3, tstep iv rt s2 (t, Fire ok) = Some s3)
  /\ (forall t ok, (t < now + rt)%N -> tstep iv rt s2 (t, Fire ok) = None).
Proof.
  intros F Hn R. destruct (failed_fire_deadline _ _ _ _ _ F) as [T D].
  destruct (deadline_kept _ _ _ _ _ _ Hn R T D) as [T2 D2]. split; [exact D2|]. split.
  - intros t ok L. eapply fire_enabled_from_deadline; eassumption.
  - intros t ok L. eapply fire_not_early; eassumption.
Qed.

(* the first change of a window at [now] is loaded from [now + iv] on, whatever is submitted after it *)
Lemma debounce_not_postponed iv rt s now e s1 subs s2 :
  timer (t_st s) = false -> is_fire e = false -> tstep iv rt s (now, e) = Some s1 -> timer (t_st s1) = true ->
  no_fire (map snd subs) = true -> trun iv rt s1 subs = Some s2 ->
  t_deadline s2 = Some (now + iv)%N
  /\ (forall t ok, (now + iv <= t)%N -> exists s3, tstep iv rt s2 (t, Fire ok) = Some s3)
  /\ (forall t ok, (t < now + iv)%N -> tstep iv rt s2 (t, Fire ok) = None).
Proof.
  intros T0 F E T Hn R. pose proof (arming_deadline _ _ _ _ _ _ F T0 E T) as D.
  destruct (deadline_kept _ _ _ _ _ _ Hn R T D) as [T2 D2]. split; [exact D2|]. split.
  - intros t ok L. eapply fire_enabled_from_deadline; eassumption.
  - intros t ok L. eapply fire_not_early; eassumption.
Qed.

Lemma timed_refines iv rt l s : trun iv rt tinit l = Some s -> run init (map snd l) = Some (t_st s).
Proof. intros H. exact (trun_erase _ _ _ _ _ H). Qed.

(* the deadlines restrict no history of the untimed model: every run has a timing *)
Lemma timed_total_from iv rt l : forall s B u, tinv s -> (forall d, t_deadline s = Some d -> (d <= B)%N) ->
  run (t_st s) l = Some u -> exists tl s', map snd tl = l /\ trun iv rt s tl = Some s' /\ t_st s' = u.
Proof.
  induction l as [|e l IH]; intros s B u I Hb H; simpl in *.
  - inversion H; subst. exists [], s. auto.
  - destruct (step (t_st s) e) as [s1|] eqn:E; [|discriminate].
    assert (X : exists s1', tstep iv rt s (B, e) = Some s1' /\ t_st s1' = s1 /\ (forall d, t_deadline s1' = Some d -> (d <= B + iv + rt)%N)).
    { unfold tstep. rewrite E. destruct e as [c| |ok].
      - eexists; split; [reflexivity|]. split; [reflexivity|]. simpl. intros d.
        destruct (timer (t_st s)); [intros Hd; apply Hb in Hd; lia|]. destruct (timer s1); [|discriminate].
        intros Hd; inversion Hd; lia.
      - eexists; split; [reflexivity|]. split; [reflexivity|]. simpl. intros d.
        destruct (timer (t_st s)); [intros Hd; apply Hb in Hd; lia|]. destruct (timer s1); [|discriminate].
        intros Hd; inversion Hd; lia.
      - simpl in E. destruct (timer (t_st s)) eqn:T; [|discriminate].
        destruct (t_deadline s) as [d0|] eqn:D; [|exfalso; apply (proj1 I T); exact D].
        pose proof (Hb _ eq_refl) as L. apply N.leb_le in L. rewrite L.
        eexists; split; [reflexivity|]. split; [reflexivity|]. simpl. intros d. destruct ok; [discriminate|].
        intros Hd; inversion Hd; lia. }
    destruct X as (s1' & E1 & E2 & Hb1). subst s1.
    destruct (IH s1' (B + iv + rt)%N u (tinv_step _ _ _ _ _ I E1) Hb1 H) as (tl & s' & M & R & U).
    exists ((B, e) :: tl), s'. split; [simpl; rewrite M; reflexivity|]. split; [|exact U].
    change (match tstep iv rt s (B, e) with Some s0 => trun iv rt s0 tl | None => None end = Some s'). rewrite E1. exact R.
Qed.

Lemma timed_total iv rt l u : run init l = Some u ->
  exists tl s', map snd tl = l /\ trun iv rt tinit tl = Some s' /\ t_st s' = u.
Proof.
  intros H. apply (timed_total_from iv rt l tinit 0%N u tinv_init); [simpl; discriminate|exact H].
Qed.

(* ---------- (2t) the frr-k8s debouncer with deadlines ---------- *)
Lemma tkstep_erase iv s x s' : tkstep iv s x = Some s' -> kstep (tk_st s) (snd x) = Some (tk_st s').
Proof.
  destruct x as [now e]; unfold tkstep; simpl. destruct (kstep (tk_st s) e) as [s1|]; [|discriminate].
  destruct e.
  - intros H; inversion H; reflexivity.
  - destruct (tk_deadline s) as [d|]; [|discriminate]. destruct (N.leb d now); [|discriminate]. intros H; inversion H; reflexivity.
Qed.

Lemma tkrun_erase iv s l s' : tkrun iv s l = Some s' -> krun (tk_st s) (map snd l) = Some (tk_st s').
Proof.
  revert s; induction l as [|x l IH]; intros s H; simpl in *.
  - inversion H; reflexivity.
  - destruct (tkstep iv s x) as [s1|] eqn:E; [|discriminate]. rewrite (tkstep_erase _ _ _ _ E). apply IH, H.
Qed.

Lemma tk_refines iv l s : tkrun iv tkinit l = Some s -> krun kinit (map snd l) = Some (tk_st s).
Proof. intros H. exact (tkrun_erase _ _ _ _ H). Qed.

(* notifications never move a pending deadline *)
Lemma k_deadline_kept iv s l s' d : k_all_notify l = true -> tkrun iv s l = Some s' ->
  k_timer (tk_st s) = true -> tk_deadline s = Some d -> k_timer (tk_st s') = true /\ tk_deadline s' = Some d.
Proof.
  revert s; induction l as [|x l IH]; intros s Hn H T D; simpl in *.
  - inversion H; subst; auto.
  - apply andb_true_iff in Hn as [He Hl]. destruct x as [now e]; simpl in He. destruct e; [|discriminate].
    unfold tkstep in H. simpl in H. rewrite T in H. refine (IH _ Hl H _ _); simpl; auto.
Qed.

(* the event owed to the first notification of a window, taken at [now] with the timer off, is enabled from
   [now + iv] on and not before, however many notifications follow *)
Lemma k_debounce_not_postponed iv s now s1 l s2 :
  k_timer (tk_st s) = false -> tkstep iv s (now, KNotify) = Some s1 ->
  k_all_notify l = true -> tkrun iv s1 l = Some s2 ->
  tk_deadline s2 = Some (now + iv)%N
  /\ (forall t, (now + iv <= t)%N -> exists s3, tkstep iv s2 (t, KFire) = Some s3 /\ k_out (tk_st s3) = N.succ (k_out (tk_st s2)))
  /\ (forall t, (t < now + iv)%N -> tkstep iv s2 (t, KFire) = None).
Proof.
  intros T0 E Hn R. unfold tkstep in E; simpl in E. rewrite T0 in E. inversion E; subst; clear E.
  destruct (k_deadline_kept iv _ l s2 (now + iv)%N Hn R eq_refl eq_refl) as [T2 D2].
  split; [exact D2|]. split.
  - intros t L. unfold tkstep; simpl. rewrite T2, D2. apply N.leb_le in L. rewrite L. eexists; split; reflexivity.
  - intros t L. unfold tkstep; simpl. rewrite T2, D2. apply N.leb_gt in L. rewrite L. reflexivity.
Qed.
