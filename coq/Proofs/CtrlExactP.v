(* What a run of convergeBalancer records in memory is exactly - in this order - the
   status it leaves (Services without explicitly requested addresses; with them the
   status is sorted by sort2 while memory keeps the assignment order).  With that the
   hypothesis of the restart theorem ("the recorded statuses are jointly admissible")
   is derived for every quiescent reachable world: a controller that restarts at a
   quiescent point finds statuses it will re-assign exactly. *)
From Coq Require Import List NArith Bool Lia.
From Verif Require Import Model.Net Model.Alloc Model.Ctrl Proofs.NetP Proofs.AllocP Proofs.AllocPolicyP
  Proofs.AllocMonoP Proofs.CtrlP Proofs.CtrlWorldP Proofs.CtrlThmP Proofs.CtrlStarveP Proofs.CtrlRestartP
  Proofs.CtrlStableP Proofs.CtrlPostP Proofs.CtrlTotalP Proofs.CtrlProgressP.
Import ListNotations.
Local Open Scope N_scope.

Section Exact.
Variable rank : ip -> N.
Variable s : svc.

Definition QX (c : cv) (lb : list ip) : Prop := ips_of (cv_mem c) s = lb.

Lemma QX_clear c : QX (clear c s) [].
Proof. unfold QX, ips_of. cbn. rewrite get_alloc_unassign_same. reflexivity. Qed.

Lemma stageB_QX c0 o c1 lb1 : o_want o = WNone -> stageA c0 s o = (c1, lb1) ->
  match stageB rank c1 lb1 s o with inl (c3, lb3) => QX c3 lb3 | inr _ => True end.
Proof.
  intros Hw HA. unfold stageA in HA.
  assert (Hcases : (lb1 = [] /\ c1 = clear c0 s) \/ (lb1 <> [] /\ c1 = c0)).
  { destruct (o_status o) as [|x l] eqn:Es; [injection HA as <- <-; left; auto|].
    destruct (family_changed _ _ _); injection HA as <- <-; [left; auto|right; split; congruence]. }
  destruct Hcases as [[-> ->]|(Hne & ->)].
  - cbn. apply QX_clear.
  - unfold stageB. destruct lb1 as [|x l]; [congruence|]. rewrite Hw.
    destruct (assign (cv_mem c0) s (o_req o) (x :: l)) as [a' [i|e|]] eqn:E.
    + apply assign_ok_holds in E. destruct E as (_ & Hips & _).
      destruct (o_want_pool o) as [p|].
      * destruct (opt_pool_eqb _ _); [exact Hips|apply QX_clear].
      * exact Hips.
    + destruct (o_want_pool o); apply QX_clear.
    + destruct (o_want_pool o); apply QX_clear.
Qed.

Lemma stageC_QX c3 lb3 r k c4 lb4 : QX c3 lb3 -> stageC c3 lb3 s r k = Some (c4, lb4) -> QX c4 lb4.
Proof.
  intros Q3. unfold stageC. destruct lb3 as [|have [|y l]]; try (intros [= <- <-]; exact Q3).
  destruct (additional_applies r [have]); [|intros [= <- <-]; exact Q3].
  destruct (pool_of (cv_mem c3) s) as [pn|]; [|intros [= <- <-]; exact Q3].
  destruct (alloc_op (cv_mem c3) (OAdditional s r have pn (the_additional have k))) as [[a' res]|] eqn:E; [|discriminate].
  apply alloc_op_some in E. destruct E as [E Hnm].
  destruct res as [out|e|].
  - destruct (step_additional_ok _ _ _ _ _ _ _ _ E) as [x [-> Hips]].
    intros [= <- <-]. exact Hips.
  - apply failed_op_no_change in E. subst a'. intros [= <- <-]. exact Q3.
  - exfalso. apply Hnm. reflexivity.
Qed.

Lemma stageD_QX c4 lb4 o k res : o_want o = WNone -> QX c4 lb4 -> stageD c4 lb4 s o k = Some res ->
  match res with inl (c5, lb5) => QX c5 lb5 | inr c5 => ips_of (cv_mem c5) s = [] /\ cv_status c5 = cv_status c4 end.
Proof.
  intros Hw Q4. unfold stageD. destruct lb4 as [|x l]; [|intros [= <-]; exact Q4]. rewrite Hw.
  set (o' := match o_want_pool o with
             | Some p => OAllocateFromPool s (o_req o) p (option_map snd (k_final k))
             | None => OAllocate s (o_req o) (k_final k)
             end).
  destruct (alloc_op (cv_mem c4) o') as [[a' r]|] eqn:E; [|discriminate].
  apply alloc_op_some in E. destruct E as [E Hnm].
  destruct r as [ips|e|].
  - intros [= <-]. unfold QX. cbn [cv_mem].
    unfold o' in E. destruct (o_want_pool o); [eapply step_frompool_ok|eapply step_allocate_ok]; exact E.
  - apply failed_op_no_change in E. subst a'. intros [= <-]. split; [exact Q4|reflexivity].
  - exfalso. apply Hnm. reflexivity.
Qed.

Theorem converge_exact a o k v ok : o_want o = WNone ->
  converge rank a s o k = CR v ok -> ips_of (cv_mem v) s = cv_status v.
Proof.
  intros Hw. unfold converge.
  set (c0 := {| cv_mem := a; cv_status := o_status o; cv_annot := o_annot o |}).
  assert (Hcl : forall c, ips_of (cv_mem (clear c s)) s = cv_status (clear c s)) by (intros c; apply QX_clear).
  destruct (negb (o_lb o)); [intros [= <- _]; apply Hcl|].
  destruct (match by_name (s_pools a) with [] => true | _ => false end); [intros [= <- _]; apply Hcl|].
  destruct (negb (o_cluster_ok o)); [intros [= <- _]; apply Hcl|].
  destruct (is_require _ && _); [intros [= <- _]; apply Hcl|].
  destruct (stageA c0 s o) as [c1 lb1] eqn:EA.
  pose proof (stageB_Q rank s c0 o c1 lb1 eq_refl EA) as QB.
  pose proof (stageB_QX c0 o c1 lb1 Hw EA) as XB.
  pose proof (stageB_NilNone rank s c1 lb1 o (stageA_NilNone s _ _ _ _ EA)) as NB.
  destruct (stageB rank c1 lb1 s o) as [[c3 lb3]|c3]; [|intros _; congruence].
  destruct (stageC c3 lb3 s (o_req o) k) as [[c4 lb4]|] eqn:EC; [|discriminate].
  pose proof (stageC_Q _ _ _ _ _ _ _ QB EC) as QC.
  pose proof (stageC_QX _ _ _ _ _ _ XB EC) as XC.
  destruct (stageD c4 lb4 s o k) as [res|] eqn:ED; [|discriminate].
  pose proof (stageD_QX _ _ _ _ _ Hw XC ED) as XD.
  destruct res as [[c5 lb5]|c5].
  - unfold stageE. destruct lb5 as [|x l]; [intros [= <- _]; apply Hcl|].
    destruct (pool_of (cv_mem c5) s) as [pn|]; [|intros [= <- _]; apply Hcl].
    destruct (find_pool _ pn); intros [= <- _]; [exact XD|apply Hcl].
  - intros [= <- _]. destruct XD as [X1 X2]. rewrite X1, X2.
    destruct lb4 as [|x l].
    + symmetry. exact (proj2 QC eq_refl).
    + pose proof (stageD_nonempty s _ _ _ _ _ _ ED) as Hx. discriminate.
Qed.
End Exact.

(* ---------- at every quiescent point ---------- *)
Section Quiescent.
Variable rank : ip -> N.

Definition post_exact (_ : pools) (ga : option alloc) (o : svcobj) : Prop :=
  o_want o = WNone -> match ga with Some al => a_ips al | None => [] end = o_status o.
Lemma converge_post_exact a s o k v ok : minv a -> converge rank a s o k = CR v ok ->
  post_exact (s_pools a) (get_alloc (cv_mem v) s) (with_status o (cv_status v) (cv_annot v)).
Proof. intros _ EC Hw. cbn in *. exact (converge_exact rank s a o k v ok Hw EC). Qed.

Definition post_settled (ps : pools) (ga : option alloc) (o : svcobj) : Prop :=
  names_unique ps -> pools_disjoint (by_name ps) -> o_want o = WNone -> empty ga o \/ good rank ps ga o.
Lemma converge_post_settled a s o k v ok : minv a -> converge rank a s o k = CR v ok ->
  post_settled (s_pools a) (get_alloc (cv_mem v) s) (with_status o (cv_status v) (cv_annot v)).
Proof. intros Hm EC Hnu Hdj Hw. exact (converge_settles rank a s o k v ok Hm Hnu Hdj Hw EC). Qed.

(* at quiescence every Service (without explicit request) is settled: it holds nothing, or
   addresses its request and the configuration admit, recorded exactly as in its status *)
Theorem quiescent_settled evs w s o :
  wrun rank evs world0 = Some w -> quiescent w -> aget (w_api w) s = Some o ->
  pools_wf (w_ctl w) -> o_want o = WNone ->
  (pempty w s o \/ pgood rank w s o) /\
  match get_alloc (c_mem (w_ctl w)) s with Some al => a_ips al | None => [] end = o_status o.
Proof.
  intros Hr Hq Ho [Hnu Hdj] Hw. split.
  - exact (quiescent_post rank post_settled converge_post_settled evs w Hr Hq s o Ho Hnu Hdj Hw).
  - exact (quiescent_post rank post_exact converge_post_exact evs w Hr Hq s o Ho Hw).
Qed.

(* the API never lists a Service twice *)
Lemma NoDup_api_put (l : list (svc * svcobj)) s o : NoDup (map fst l) -> NoDup (map fst (api_put l s o)).
Proof.
  intros H. unfold api_put. cbn [map fst]. constructor.
  - intros Hin. apply in_map_iff in Hin. destruct Hin as ([t ot] & Et & Hin). cbn in Et. subst t.
    apply filter_In in Hin. destruct Hin as [_ Hf]. cbn in Hf. rewrite N.eqb_refl in Hf. discriminate.
  - induction l as [|[t ot] l IH]; [constructor|]. cbn [map fst] in H. inversion H as [|? ? Hni Hnd]; subst.
    cbn [filter fst]. destruct (negb (t =? s)); [|exact (IH Hnd)].
    cbn [map fst]. constructor; [|exact (IH Hnd)].
    intros Hin. apply Hni. apply in_map_iff in Hin. destruct Hin as ([u ou] & Eu & Hin). cbn in Eu. subst u.
    apply filter_In in Hin. apply in_map_iff. exists (t, ou). split; [reflexivity|tauto].
Qed.

Lemma NoDup_api_del (l : list (svc * svcobj)) s : NoDup (map fst l) -> NoDup (map fst (api_del l s)).
Proof.
  unfold api_del. induction l as [|[t ot] l IH]; [constructor|]. cbn [map fst]. intros H. inversion H as [|? ? Hni Hnd]; subst.
  cbn [filter fst]. destruct (negb (t =? s)); [|exact (IH Hnd)].
  cbn [map fst]. constructor; [|exact (IH Hnd)].
  intros Hin. apply Hni. apply in_map_iff in Hin. destruct Hin as ([u ou] & Eu & Hin). cbn in Eu. subst u.
  apply filter_In in Hin. apply in_map_iff. exists (t, ou). split; [reflexivity|tauto].
Qed.

Lemma handler_api_NoDup w s k w1 r : apply_handler rank w s k = Some (w1, r) ->
  NoDup (map fst (w_api w)) -> NoDup (map fst (w_api w1)).
Proof.
  unfold apply_handler. destruct (set_balancer rank (w_ctl w) s (api_get w s) k) as [oc|]; [|discriminate].
  intros [= <- _] H. cbn [w_api]. destruct (oc_write oc) as [[st an]|]; [|exact H].
  destruct (api_get w s); [|exact H]. destruct (k_write k); [apply NoDup_api_put|]; exact H.
Qed.

Lemma pass_api_NoDup order : forall ks w retry acc w' retry' rs,
  reload_pass rank w order ks retry acc = Some (w', retry', rs) ->
  NoDup (map fst (w_api w)) -> NoDup (map fst (w_api w')).
Proof.
  induction order as [|s order IH]; intros ks w retry acc w' retry' rs H Hnd.
  - cbn in H. injection H as <- _ _. exact Hnd.
  - cbn [reload_pass] in H. destruct ks as [|k ks]; [discriminate|].
    destruct (apply_handler rank w s k) as [[w1 r]|] eqn:EH; [|discriminate].
    eapply IH; [exact H|]. eapply handler_api_NoDup; eassumption.
Qed.

Lemma wstep_api_NoDup w e w' : wstep rank w e = Some w' -> NoDup (map fst (w_api w)) -> NoDup (map fst (w_api w')).
Proof.
  unfold wstep. destruct e as [s o|s|ps|s k|order ks| |]; cbn [wstep_t option_map fst].
  - intros [= <-] H. cbn [w_api]. apply NoDup_api_put. exact H.
  - intros [= <-] H. cbn [w_api]. apply NoDup_api_del. exact H.
  - intros [= <-] H. exact H.
  - destruct (negb (memN s (w_queue w))); [discriminate|].
    destruct (negb (w_gate w) && _); [intros [= <-] H; exact H|].
    destruct (apply_handler rank w s k) as [[w1 r]|] eqn:EH; [|discriminate].
    cbn [option_map fst]. intros [= <-] H. cbn [w_api]. eapply handler_api_NoDup; eassumption.
  - destruct (negb (w_reload w)); [discriminate|]. destruct (negb _); [discriminate|].
    destruct (reload_pass rank w order ks false []) as [[[w1 retry] rs]|] eqn:EP; [|discriminate].
    cbn [option_map fst]. intros [= <-] H. cbn [w_api]. eapply pass_api_NoDup; eassumption.
  - destruct (negb _); [discriminate|]. intros [= <-] H. exact H.
  - intros [= <-] H. exact H.
Qed.

Lemma wrun_api_NoDup evs : forall w w', wrun rank evs w = Some w' -> NoDup (map fst (w_api w)) -> NoDup (map fst (w_api w')).
Proof.
  induction evs as [|e evs IH]; intros w w' H Hnd; cbn in H.
  - injection H as <-. exact Hnd.
  - unfold wrun in IH. destruct (wstep rank w e) as [w1|] eqn:E.
    + eapply IH; [exact H|]. eapply wstep_api_NoDup; eassumption.
    + rewrite wrun_none in H. discriminate.
Qed.

(* the hypothesis of the restart theorem, derived: at a quiescent reachable world every
   recorded status is admissible in, and recorded exactly by, the controller's memory *)
Theorem quiescent_recorded_ok evs w :
  wrun rank evs world0 = Some w -> quiescent w -> pools_wf (w_ctl w) ->
  forall s o, recd (w_api w) s o -> o_want o = WNone ->
    additional_applies (o_req o) (o_status o) = false ->
    recorded_ok rank (c_mem (w_ctl w)) s o.
Proof.
  intros Hr Hq Hwf s o [Ho Hst] Hw Hna.
  destruct (quiescent_settled evs w s o Hr Hq Ho Hwf Hw) as [[[_ He]|Hg] Hex]; [congruence|].
  pose proof (wrun_WInv rank evs world0 w WInv_world0 Hr) as [[HI HP] _ _ _ _].
  constructor.
  - apply good_admissible; [exact HI|exact Hg].
  - destruct Hg as [_ (al & Hga & _ & Hpo & Hk)]. unfold pgood in *. exists al. rewrite Hga in Hex. auto.
  - exact Hna.
Qed.

(* so: a controller that restarts at a quiescent point and is given the same
   configuration again keeps every recorded address (Services without explicit requests;
   PreferDualStack Services holding one address excluded - F14) *)
Theorem restart_at_quiescence_keeps_all evs0 w evs order ks wc wp we w' :
  wrun rank evs0 world0 = Some w -> quiescent w -> pools_wf (w_ctl w) ->
  (forall s o, aget (w_api w) s = Some o -> o_want o = WNone) ->
  (forall s o, aget (w_api w) s = Some o -> o_status o <> [] -> additional_applies (o_req o) (o_status o) = false) ->
  wstep rank w ECrash = Some wc -> wstep rank wc (EPools (s_pools (c_mem (w_ctl w)))) = Some wp ->
  (forall s k, In (s, k) evs -> aget (w_api w) s <> None) -> early rank wp evs = Some we ->
  wstep rank we (EReload order ks) = Some w' ->
  forall s o, aget (w_api w) s = Some o -> o_status o <> [] ->
    (exists o', aget (w_api w') s = Some o' /\ same_ips (o_status o') (o_status o)) /\
    same_ips (ips_of (c_mem (w_ctl w')) s) (o_status o).
Proof.
  intros Hr Hq Hwf Hreg Hna Hc Hp Hex Hea Hre.
  pose proof (wrun_WInv rank evs0 world0 w WInv_world0 Hr) as [[HI HP] _ _ _ _].
  apply (restart_keeps_recorded rank (c_mem (w_ctl w)) w _ evs order ks wc wp we w' HI HP eq_refl); try assumption.
  - apply (wrun_api_NoDup evs0 world0 w Hr). constructor.
  - intros s o Hrec. apply (quiescent_recorded_ok evs0 w Hr Hq Hwf s o Hrec).
    + exact (Hreg s o (proj1 Hrec)).
    + exact (Hna s o (proj1 Hrec) (proj2 Hrec)).
Qed.
End Quiescent.

(* ---------- C03, last clause: the run after a run writes nothing ---------- *)
Section SecondRun.
Variable rank : ip -> N.

(* what one run of convergeBalancer leaves is a fixpoint of the next run, unless a
   PreferDualStack Service with one address can still gain the other family *)
Theorem second_run_fixpoint a s o k v ok k2 v2 ok2 :
  minv a -> names_unique (s_pools a) -> pools_disjoint (by_name (s_pools a)) -> o_want o = WNone ->
  converge rank a s o k = CR v ok -> cv_status v <> [] ->
  additional_applies (o_req o) (cv_status v) = false ->
  converge rank (cv_mem v) s (with_status o (cv_status v) (cv_annot v)) k2 = CR v2 ok2 ->
  ok2 = true /\ cv_status v2 = cv_status v /\ cv_annot v2 = cv_annot v /\
  same_ips (ips_of (cv_mem v2) s) (cv_status v).
Proof.
  intros Hm Hnu Hdj Hw EC Hst Hna EC2.
  set (o' := with_status o (cv_status v) (cv_annot v)) in *.
  destruct (converge_frame _ _ _ _ _ _ _ EC) as [_ Hpools].
  destruct (converge_settles rank a s o k v ok Hm Hnu Hdj Hw EC) as [[_ He]|Hg]; [cbn in He; congruence|].
  fold o' in Hg.
  assert (HI : Inv (cv_mem v)) by (eapply converge_Inv; [exact EC|exact (proj1 Hm)]).
  assert (HPC : PoolCoh (cv_mem v)) by (eapply converge_PoolCoh; [exact EC|exact (proj2 Hm)]).
  rewrite <- Hpools in Hg.
  pose proof (good_admissible rank (cv_mem v) s o' HI Hg) as (Hlb & Hps & Hcl & Hrq & Hst' & Hfam & a' & Has & Hwp & Hwant).
  assert (Hok : ok = true).
  { destruct ok; [reflexivity|]. destruct (converge_fail_status rank _ _ _ _ _ EC); congruence. }
  subst ok.
  destruct (converge_ok_annot rank s _ _ _ _ EC Hlb) as (_ & Han & _).
  pose proof (converge_exact rank s a o k v true Hw EC) as Hex.
  assert (Hann : o_annot o' = pool_of a' s).
  { cbn [o' with_status o_annot]. rewrite Han.
    pose proof Has as Has'. apply assign_ok_inv in Has'. destruct Has' as (p & Hck & _ & ->).
    apply assign_check_spec in Hck. destruct Hck as (Hpf & _).
    unfold pool_of at 2. rewrite get_alloc_do_assign_same. cbn [option_map a_pool].
    unfold pool_of, ips_of in *. destruct (get_alloc (cv_mem v) s) as [al|] eqn:Hg'.
    - cbn [option_map]. f_equal.
      destruct (HPC (s, al)) as (q & Hq & Hn); [apply get_alloc_In; [exact (proj1 HI)|exact Hg']|].
      cbn [snd] in Hq, Hn. rewrite Hex in Hq. cbn [o' with_status o_status] in Hpf. rewrite Hpf in Hq. injection Hq as <-. congruence.
    - exfalso. apply Hst. symmetry. exact Hex. }
  destruct (converged_fixpoint_gen rank (cv_mem v) s o' k2 v2 ok2 a' Hlb Hps Hcl Hrq Hst' Hfam Has Hwp Hwant Hna
              (or_introl Hw) Hann EC2) as (H1 & H2 & H3 & H4).
  split; [exact H1|]. split; [exact H2|]. split; [exact H3|].
  rewrite H4. apply assign_ok_holds in Has. destruct Has as (_ & Hips & _). rewrite Hips. apply same_ips_refl.
Qed.

(* SetBalancer level: the call after a call writes nothing and asks for nothing *)
Theorem second_call_writes_nothing c s o k oc k2 oc2 :
  c_have_pools c = true -> mem_inv c -> pools_wf c -> o_want o = WNone ->
  set_balancer rank c s (Some o) k = Some oc ->
  forall st an, (oc_write oc = Some (st, an) \/ (oc_write oc = None /\ st = o_status o /\ an = o_annot o)) ->
  st <> [] -> additional_applies (o_req o) st = false ->
  set_balancer rank (oc_state oc) s (Some (with_status o st an)) k2 = Some oc2 ->
  oc_write oc2 = None.
Proof.
  intros Hp Hm [Hnu Hdj] Hw ES st an Hwr Hst Hna ES2.
  destruct (set_balancer_mem rank _ _ _ _ _ ES Hp) as (v & ok & EC & Hmem & Hwrite).
  assert (Est : st = cv_status v /\ an = cv_annot v).
  { destruct Hwr as [Hwr|(Hwr & -> & ->)]; rewrite Hwr in Hwrite; [exact Hwrite|destruct Hwrite; auto]. }
  destruct Est as [-> ->].
  pose proof (set_balancer_spec rank _ _ _ _ _ ES) as (_ & Hps & Hhp & _).
  destruct (set_balancer_mem rank _ _ _ _ _ ES2 (Hhp Hp)) as (v2 & ok2 & EC2 & _ & Hwrite2).
  rewrite Hmem in EC2.
  destruct (second_run_fixpoint (c_mem c) s o k v ok k2 v2 ok2 Hm Hnu Hdj Hw EC Hst Hna EC2) as (_ & H2 & H3 & _).
  revert ES2. unfold set_balancer. rewrite (Hhp Hp). cbn [negb]. rewrite Hmem, EC2, H2, H3.
  cbn [with_status o_status o_annot].
  assert (E1 : ips_eqb (cv_status v) (cv_status v) = true) by (apply ips_eqb_eq; reflexivity).
  assert (E2 : opt_pool_eqb (cv_annot v) (cv_annot v) = true) by (destruct (cv_annot v); cbn; [apply N.eqb_refl|reflexivity]).
  rewrite E1, E2. cbn [negb orb]. intros [= <-]. reflexivity.
Qed.
End SecondRun.
