(* Lemmas about Model/Session.v: invariant I, abort_folds, convergence,
   refusal of a wrong AS number, silence after Close, last-wins of Set, and the
   justification of every emitted message by the desired set. *)
From Coq Require Import List Arith NArith Bool Lia ZifyN ZifyNat ZifyBool.
From Verif Require Import Model.Session.
Import ListNotations.
Local Open Scope N_scope.

Definition teq (a b : table) : Prop := forall k, a k = b k.
Definition teq_on (U : list key) (a b : table) : Prop := forall k, In k U -> a k = b k.

Lemma mem_In k l : mem k l = true <-> In k l.
Proof.
  unfold mem. rewrite existsb_exists. split.
  - intros (x & Hx & E). apply N.eqb_eq in E. subst. assumption.
  - intros H. exists k. split; [assumption | apply N.eqb_refl].
Qed.

Lemma oeqb_eq a b : oeqb a b = true <-> a = b.
Proof.
  destruct a, b; cbn; split; intros H; try discriminate; try reflexivity.
  - apply N.eqb_eq in H. congruence.
  - inversion H. apply N.eqb_refl.
Qed.

Lemma upd_same t k v : upd t k v k = v.
Proof. unfold upd. rewrite N.eqb_refl. reflexivity. Qed.
Lemma upd_other t k v x : x <> k -> upd t k v x = t x.
Proof. intros H. unfold upd. apply N.eqb_neq in H. rewrite H. reflexivity. Qed.

(* ------------------------------------------------------------ Set: last wins *)
Lemma fold_upd_app l : forall t k v,
  fold_left (fun t p => upd t (fst p) (Some (snd p))) (l ++ [(k, v)]) t k = Some v.
Proof. intros. rewrite fold_left_app. cbn. apply upd_same. Qed.

Lemma set_last_wins_app l k v : map_of (l ++ [(k, v)]) k = Some v.
Proof. apply fold_upd_app. Qed.

Lemma fold_upd_spec l : forall t x,
  fold_left (fun t p => upd t (fst p) (Some (snd p))) l t x =
  match find (fun p => fst p =? x) (rev l) with Some p => Some (snd p) | None => t x end.
Proof.
  induction l as [|[k v] l IH] using rev_ind; intros t x; [reflexivity|].
  rewrite fold_left_app, rev_app_distr. cbn [rev app fold_left find fst snd].
  unfold upd at 1. rewrite (N.eqb_sym x k). destruct (k =? x); [reflexivity|]. apply IH.
Qed.

(* the value of a key is that of the LAST pair with this key in the argument list *)
Lemma set_last_wins l x :
  map_of l x = match find (fun p => fst p =? x) (rev l) with Some p => Some (snd p) | None => None end.
Proof. apply fold_upd_spec. Qed.

(* ------------------------------------------------------------ messages applied by the peer *)
Lemma apply_msgs_app t a b : apply_msgs t (a ++ b) = apply_msgs (apply_msgs t a) b.
Proof. apply fold_left_app. Qed.

Lemma wdr_spec ks : forall t x,
  fold_left (fun t k => upd t k None) ks t x = if mem x ks then None else t x.
Proof.
  induction ks as [|k ks IH]; intros t x; [reflexivity|].
  cbn [fold_left mem existsb]. rewrite IH. fold (mem x ks).
  destruct (mem x ks); [rewrite orb_true_r; reflexivity|]. rewrite orb_false_r.
  unfold upd. destruct (x =? k); reflexivity.
Qed.

Lemma first_msgs_spec adv ord : forall t x,
  apply_msgs t (first_msgs adv ord) x = if mem x ord && is_some (adv x) then adv x else t x.
Proof.
  induction ord as [|k ord IH]; intros t x; [reflexivity|].
  unfold first_msgs. cbn [flat_map]. rewrite apply_msgs_app. fold (first_msgs adv ord). rewrite IH.
  cbn [mem existsb]. fold (mem x ord).
  destruct (x =? k) eqn:E.
  - apply N.eqb_eq in E. subst k. cbn [orb].
    destruct (adv x) as [v|] eqn:Ex; cbn [is_some andb apply_msgs fold_left apply_msg].
    + rewrite upd_same. destruct (mem x ord); reflexivity.
    + rewrite andb_false_r. reflexivity.
  - cbn [orb]. destruct (mem x ord && is_some (adv x)); [reflexivity|].
    destruct (adv k); cbn [apply_msgs fold_left apply_msg]; [|reflexivity].
    apply upd_other. apply N.eqb_neq. assumption.
Qed.

Definition upd_part (adv new : table) (o1 : list key) : list smsg :=
  flat_map (fun k => match new k with
                     | Some v => if oeqb (adv k) (Some v) then [] else [MUpd k v]
                     | None => [] end) o1.

Lemma upd_part_spec adv new o1 : forall t x,
  apply_msgs t (upd_part adv new o1) x =
  if mem x o1 && is_some (new x) && negb (oeqb (adv x) (new x)) then new x else t x.
Proof.
  induction o1 as [|k o1 IH]; intros t x; [reflexivity|].
  unfold upd_part. cbn [flat_map]. rewrite apply_msgs_app. fold (upd_part adv new o1). rewrite IH.
  cbn [mem existsb]. fold (mem x o1).
  destruct (x =? k) eqn:E.
  - apply N.eqb_eq in E. subst k. cbn [orb].
    destruct (new x) as [v|] eqn:Ex; cbn [is_some andb].
    + destruct (oeqb (adv x) (Some v)) eqn:Eo; cbn [negb andb apply_msgs fold_left apply_msg].
      * rewrite !andb_false_r. reflexivity.
      * rewrite upd_same. destruct (mem x o1); reflexivity.
    + rewrite !andb_false_r. reflexivity.
  - cbn [orb]. destruct (mem x o1 && is_some (new x) && negb (oeqb (adv x) (new x))); [reflexivity|].
    destruct (new k) as [v|]; [|reflexivity].
    destruct (oeqb (adv k) (Some v)); cbn [apply_msgs fold_left apply_msg]; [reflexivity|].
    apply upd_other. apply N.eqb_neq. assumption.
Qed.

Lemma mem_filter x f l : mem x (filter f l) = mem x l && f x.
Proof.
  induction l as [|k l IH]; [reflexivity|]. cbn [filter].
  destruct (f k) eqn:Ef; cbn [mem existsb]; fold (mem x (filter f l)); fold (mem x l); rewrite IH.
  - destruct (x =? k) eqn:E; [|reflexivity]. apply N.eqb_eq in E. subst. rewrite Ef. reflexivity.
  - destruct (x =? k) eqn:E; [|reflexivity]. apply N.eqb_eq in E. subst. rewrite Ef.
    rewrite andb_false_r. reflexivity.
Qed.

(* a diff flush turns a table that agrees with [adv] at x into [new] at x *)
Lemma diff_msgs_spec adv new o1 o2 t x :
  t x = adv x ->
  (is_some (new x) = true -> mem x o1 = true) ->
  (is_some (adv x) = true -> mem x o2 = true) ->
  apply_msgs t (diff_msgs adv new o1 o2) x = new x.
Proof.
  intros Ht H1 H2. unfold diff_msgs. fold (upd_part adv new o1). rewrite apply_msgs_app.
  set (t1 := apply_msgs t (upd_part adv new o1)).
  assert (Ht1 : t1 x = match new x with Some v => Some v | None => adv x end).
  { unfold t1. rewrite upd_part_spec.
    destruct (new x) as [v|] eqn:En; cbn [is_some] in *.
    - rewrite H1 by reflexivity. cbn [andb]. destruct (oeqb (adv x) (Some v)) eqn:Eo; cbn [negb]; [|reflexivity].
      apply oeqb_eq in Eo. congruence.
    - rewrite andb_false_r. cbn [andb]. assumption. }
  set (f := fun k => is_some (adv k) && negb (is_some (new k))).
  destruct (filter f o2) as [|w0 w] eqn:Ew.
  - cbn [apply_msgs fold_left]. rewrite Ht1.
    destruct (new x) eqn:En; [reflexivity|].
    destruct (adv x) eqn:Ea; [|reflexivity]. exfalso.
    assert (Hm : mem x (filter f o2) = true).
    { rewrite mem_filter, H2 by reflexivity. unfold f. rewrite Ea, En. reflexivity. }
    rewrite Ew in Hm. discriminate.
  - rewrite <- Ew. cbn [apply_msgs fold_left apply_msg]. rewrite wdr_spec, mem_filter. unfold f.
    rewrite Ht1. destruct (new x) eqn:En; cbn [is_some negb].
    + rewrite !andb_false_r. reflexivity.
    + destruct (adv x) eqn:Ea; cbn [is_some andb].
      * rewrite H2 by reflexivity. reflexivity.
      * rewrite andb_false_r. reflexivity.
Qed.

(* ------------------------------------------------------------ emitted messages are justified *)
Definition justified (adv new : table) (m : smsg) : Prop :=
  match m with
  | MUpd k v => new k = Some v
  | MWdr ks => ks <> [] /\ forall k, In k ks -> new k = None /\ adv k <> None
  end.

Lemma first_msgs_justified adv ord m : In m (first_msgs adv ord) -> justified empty adv m.
Proof.
  unfold first_msgs. rewrite in_flat_map. intros (k & _ & H).
  destruct (adv k) eqn:E; [|contradiction]. destruct H as [<-|[]]. exact E.
Qed.

Lemma diff_msgs_justified adv new o1 o2 m : In m (diff_msgs adv new o1 o2) -> justified adv new m.
Proof.
  unfold diff_msgs. rewrite in_app_iff, in_flat_map. intros [(k & _ & H) | H].
  - destruct (new k) eqn:E; [|contradiction]. destruct (oeqb (adv k) (Some a)); [contradiction|].
    destruct H as [<-|[]]. exact E.
  - set (f := fun k => is_some (adv k) && negb (is_some (new k))) in *.
    destruct (filter f o2) as [|w0 w] eqn:Ew; [contradiction|]. destruct H as [<-|[]].
    split; [discriminate|]. intros k Hk. rewrite <- Ew in Hk. apply filter_In in Hk. destruct Hk as [_ Hk].
    unfold f in Hk. destruct (adv k), (new k); cbn in Hk; try discriminate. split; [reflexivity | discriminate].
Qed.

(* ------------------------------------------------------------ invariant *)
Record Inv (c : cfg) (w : world) : Prop := {
  I_des : match pending (ws w) with
          | Some p => teq p (desired w)
          | None => teq (advertised (ws w)) (desired w) end;
  I_sync : forall id, conn (ws w) = Some id -> up (wp w) = Some id -> synced (ws w) = true ->
           teq_on (universe c) (ptable (wp w)) (advertised (ws w));
  I_fresh : forall id, conn (ws w) = Some id -> up (wp w) = Some id -> synced (ws w) = false ->
            teq_on (universe c) (ptable (wp w)) empty;
  I_closed : closed (ws w) = true -> conn (ws w) = None;
  (* the session's capability flag is the one of the CURRENT connection *)
  I_cap : forall id, conn (ws w) = Some id -> up (wp w) = Some id -> fbasn (ws w) = pcap (wp w) }.

Lemma inv0 c : Inv c world0.
Proof. constructor; cbn; intros; try discriminate; try reflexivity. intros k. reflexivity. Qed.

(* abort folds the pending set: afterwards advertised is the desired set *)
Lemma abort_folds c w : Inv c w ->
  pending (abort (ws w)) = None /\ teq (advertised (abort (ws w))) (desired w) /\ conn (abort (ws w)) = None.
Proof.
  intros [Hd _ _ _ _]. unfold abort. cbn. repeat split. destruct (pending (ws w)); assumption.
Qed.

Lemma inv_abort c w : Inv c w -> Inv c (with_sess w (abort (ws w))).
Proof.
  intros H. destruct (abort_folds c w H) as (Hp & Ha & Hc).
  constructor; cbn [with_sess ws wp desired]; try (rewrite Hc; discriminate).
  - rewrite Hp. assumption.
  - intros; assumption.
Qed.

Lemma covers_spec c need ord k : covers c need ord = true -> In k (universe c) -> need k = true -> mem k ord = true.
Proof.
  unfold covers. rewrite forallb_forall. intros H Hk Hn. specialize (H k Hk). rewrite Hn in H. exact H.
Qed.

Lemma deliver_same p id ms : up p = Some id -> deliver p id ms = {| up := up p; ptable := apply_msgs (ptable p) ms; pcap := pcap p |}.
Proof. intros H. unfold deliver. rewrite H, N.eqb_refl. reflexivity. Qed.
Lemma deliver_up p id ms : up (deliver p id ms) = up p.
Proof. unfold deliver. destruct (up p) as [c'|] eqn:E; [|assumption]. destruct (c' =? id); [reflexivity | assumption]. Qed.

Lemma deliver_pcap p id ms : pcap (deliver p id ms) = pcap p.
Proof. unfold deliver. destruct (up p) as [c'|]; [|reflexivity]. destruct (c' =? id); reflexivity. Qed.

Lemma step_inv c w e w' : Inv c w -> step c w e = Some w' -> Inv c w'.
Proof.
  intros HI. pose proof HI as [Hd Hs Hf Hc Hcap]. destruct w as [s p d]. cbn [ws wp desired] in *.
  destruct e; cbn [step ws wp desired].
  - (* ESet *)
    destruct (forallb _ l); [|discriminate]. intros [= <-].
    constructor; cbn; auto. intros k; reflexivity.
  - intros [= <-]. exact HI.
  - (* EHandshake *)
    destruct (closed s || is_some (conn s)) eqn:E1; [discriminate|].
    destruct (negb (Bool.eqb acc (hs_accept c asn fb))); [discriminate|].
    destruct acc; intros [= <-]; [|exact HI].
    constructor; cbn; try discriminate; auto. intros id _ _ _ k _. reflexivity.
  - destruct (closed s || is_some (conn s)); [discriminate|]. intros [= <-]. exact HI.
  - (* EFirstFlush *)
    destruct (conn s) as [id|] eqn:Ec; [|discriminate].
    destruct (closed s || synced s) eqn:E1; [discriminate|]. apply orb_false_iff in E1. destruct E1 as [Ecl Esy].
    set (adv := match pending s with Some p0 => p0 | None => advertised s end) in *.
    destruct (negb (covers c (fun k => is_some (adv k)) ord)) eqn:Ecov; [discriminate|]. apply negb_false_iff in Ecov.
    assert (Hadv : teq adv d) by (unfold adv; destruct (pending s); assumption).
    destruct sent as [n|]; intros [= <-]; constructor; cbn; try discriminate; auto; try solve [intros id' [= <-] Hup; rewrite deliver_up in Hup; rewrite deliver_pcap; apply (Hcap id eq_refl Hup)].
    intros id' [= <-] Hup _ k Hk. rewrite deliver_up in Hup. rewrite deliver_same by assumption. cbn [ptable].
    rewrite first_msgs_spec.
    destruct (is_some (adv k)) eqn:Ek.
    + rewrite (covers_spec _ _ _ _ Ecov Hk Ek). reflexivity.
    + rewrite andb_false_r. rewrite (Hf id eq_refl Hup Esy k Hk). destruct (adv k); [discriminate | reflexivity].
  - (* EDiffFlush *)
    destruct (conn s) as [id|] eqn:Ec; [|discriminate].
    destruct (pending s) as [new|] eqn:Ep; [|discriminate].
    destruct (closed s || negb (synced s)) eqn:E1; [discriminate|]. apply orb_false_iff in E1. destruct E1 as [Ecl Esy].
    apply negb_false_iff in Esy.
    destruct (negb (covers c (fun k => is_some (new k)) o1 && covers c (fun k => is_some (advertised s k)) o2)) eqn:Ecov;
      [discriminate|]. apply negb_false_iff, andb_true_iff in Ecov. destruct Ecov as [Ec1 Ec2].
    destruct sent as [n|]; intros [= <-].
    + constructor; cbn; try discriminate; auto. rewrite Ep. assumption.
    + constructor; cbn; try discriminate; auto; try solve [intros id' [= <-] Hup; rewrite deliver_up in Hup; rewrite deliver_pcap; apply (Hcap id eq_refl Hup)].
      intros id' [= <-] Hup _ k Hk. rewrite deliver_up in Hup. rewrite deliver_same by assumption. cbn [ptable].
      apply diff_msgs_spec.
      * apply (Hs id eq_refl Hup Esy k Hk).
      * intros Hn. apply (covers_spec _ _ _ _ Ec1 Hk Hn).
      * intros Hn. apply (covers_spec _ _ _ _ Ec2 Hk Hn).
  - (* EReaderDrop *)
    destruct (conn s) as [id'|] eqn:Ec; [|intros [= <-]; exact HI].
    destruct (id' =? c0); intros [= <-]; [|exact HI]. apply (inv_abort c _ HI).
  - destruct (closed s || negb (is_some (conn s))); [discriminate|]. intros [= <-]. apply (inv_abort c _ HI).
  - (* EPeerDrop *)
    intros [= <-]. constructor; cbn; auto; discriminate.
  - (* EClose *)
    intros [= <-]. constructor; cbn; auto; try discriminate. destruct (pending s); assumption.
Qed.

Lemma run_inv c es : forall w w', Inv c w -> run c w es = Some w' -> Inv c w'.
Proof.
  induction es as [|e es IH]; intros w w' HI H; cbn in H.
  - inversion H; subst. assumption.
  - destruct (step c w e) as [w1|] eqn:E; [|discriminate]. eapply IH; [|eassumption]. eapply step_inv; eassumption.
Qed.

(* ------------------------------------------------------------ the theorems *)
Theorem converges c es w : run c world0 es = Some w -> stable w ->
  forall k, In k (universe c) -> ptable (wp w) k = desired w k.
Proof.
  intros Hr (id & Hc & Hu & Hs & Hp) k Hk.
  pose proof (run_inv c es _ _ (inv0 c) Hr) as [Hd Hsy _ _ _].
  rewrite Hp in Hd. rewrite (Hsy id Hc Hu Hs k Hk). apply Hd.
Qed.

(* desired is the last Set of the history (empty before the first one) *)
Fixpoint last_set (es : list sev) (acc : table) : table :=
  match es with
  | [] => acc
  | ESet l :: r => last_set r (map_of l)
  | _ :: r => last_set r acc
  end.

Lemma run_desired c es : forall w w', run c w es = Some w' -> desired w' = last_set es (desired w).
Proof.
  induction es as [|e es IH]; intros w w' H; cbn in H.
  - inversion H; reflexivity.
  - destruct (step c w e) as [w1|] eqn:E; [|discriminate]. rewrite (IH _ _ H).
    destruct e; cbn [last_set]; try (f_equal; revert E; cbn [step]).
    + destruct (forallb _ l); [|discriminate]. intros [= <-]. reflexivity.
    + intros [= <-]; reflexivity.
    + destruct (closed (ws w) || is_some (conn (ws w))); [discriminate|].
      destruct (negb _); [discriminate|]. destruct acc; intros [= <-]; reflexivity.
    + destruct (closed (ws w) || is_some (conn (ws w))); [discriminate|]. intros [= <-]; reflexivity.
    + destruct (conn (ws w)); [|discriminate]. destruct (closed (ws w) || synced (ws w)); [discriminate|].
      destruct (negb _); [discriminate|]. destruct sent; intros [= <-]; reflexivity.
    + destruct (conn (ws w)); [|discriminate]. destruct (pending (ws w)); [|discriminate].
      destruct (closed (ws w) || negb (synced (ws w))); [discriminate|].
      destruct (negb _); [discriminate|]. destruct sent; intros [= <-]; reflexivity.
    + destruct (conn (ws w)) as [id'|]; [|intros [= <-]; reflexivity].
      destruct (id' =? c0); intros [= <-]; reflexivity.
    + destruct (closed (ws w) || negb (is_some (conn (ws w)))); [discriminate|]. intros [= <-]; reflexivity.
    + intros [= <-]; reflexivity.
    + intros [= <-]; reflexivity.
Qed.

Theorem converges_last_set c es w : run c world0 es = Some w -> stable w ->
  forall k, In k (universe c) -> ptable (wp w) k = last_set es empty k.
Proof.
  intros Hr Hs k Hk. rewrite (converges c es w Hr Hs k Hk). rewrite (run_desired c es _ _ Hr). reflexivity.
Qed.

Theorem wrong_asn_refused c w id asn fb acc w' :
  step c w (EHandshake id asn fb acc) = Some w' -> asn <> peer_asn c -> acc = false /\ w' = w.
Proof.
  cbn [step]. destruct (closed (ws w) || is_some (conn (ws w))); [discriminate|].
  unfold hs_accept, hs_accept_gen. intros H Hne. apply N.eqb_neq in Hne. rewrite Hne in H. cbn [andb] in H.
  destruct acc; cbn in H; [discriminate|]. inversion H. auto.
Qed.

Theorem closed_silent c w e w' : Inv c w -> closed (ws w) = true -> step c w e = Some w' ->
  closed (ws w') = true /\ conn (ws w') = None /\ emitted c w e = [] /\ dials e = false /\ wp w' = match e with EPeerDrop => wp w' | _ => wp w end.
Proof.
  intros HI Hcl. pose proof (I_closed c w HI Hcl) as Hc. destruct w as [s p d]. cbn [ws wp desired] in *.
  destruct e; cbn [step ws wp desired emitted dials]; rewrite ?Hcl, ?Hc; cbn [orb is_some negb]; try discriminate.
  - destruct (forallb _ l); [|discriminate]. intros [= <-]. cbn. auto.
  - intros [= <-]. cbn. auto.
  - intros [= <-]. cbn. auto.
  - intros [= <-]. cbn. auto.
  - intros [= <-]. cbn. auto.
Qed.

Lemma In_firstn {A} n (l : list A) x : In x (firstn n l) -> In x l.
Proof.
  revert n. induction l as [|a l IH]; intros n H; destruct n; cbn in *; try contradiction.
  destruct H as [->|H]; [left; reflexivity | right; eapply IH; eassumption].
Qed.

Lemma emitted_justified c w e m :
  In m (emitted c w e) ->
  exists adv new, justified adv new m /\
    (match pending (ws w) with Some p => new = p | None => new = advertised (ws w) end).
Proof.
  unfold emitted. destruct e; try contradiction.
  - intros H. exists empty. eexists. split.
    + eapply first_msgs_justified. destruct sent; [eapply In_firstn; exact H | exact H].
    + destruct (pending (ws w)); reflexivity.
  - destruct (pending (ws w)) as [new|]; [|contradiction]. intros H.
    exists (advertised (ws w)), new. split; [|reflexivity].
    eapply diff_msgs_justified. destruct sent; [eapply In_firstn; exact H | exact H].
Qed.

(* ------------------------------------------------------------ per-connection capability *)
(* an accepted handshake sets the session's flag to what THIS OPEN announced *)
Theorem handshake_sets_capability c w id asn fb w' :
  step c w (EHandshake id asn fb true) = Some w' ->
  fbasn (ws w') = fb /\ pcap (wp w') = fb /\ conn (ws w') = Some id /\ up (wp w') = Some id.
Proof.
  cbn [step]. destruct (closed (ws w) || is_some (conn (ws w))); [discriminate|].
  destruct (negb (Bool.eqb true (hs_accept c asn fb))); [discriminate|]. intros [= <-]. cbn. auto.
Qed.

(* every flush encodes with the capability of the connection it writes to *)
Theorem flush_uses_connection_capability c es w id :
  run c world0 es = Some w -> conn (ws w) = Some id -> up (wp w) = Some id ->
  emit_width w = pcap (wp w).
Proof.
  intros Hr Hc Hu. pose proof (run_inv c es _ _ (inv0 c) Hr) as [_ _ _ _ Hcap]. exact (Hcap id Hc Hu).
Qed.

(* ------------------------------------------------------------ nothing after Close *)
Fixpoint run_emitted (c : cfg) (w : world) (es : list sev) : list smsg :=
  match es with
  | [] => []
  | e :: r => emitted c w e ++ match step c w e with Some w' => run_emitted c w' r | None => [] end
  end.

Lemma run_app c es1 : forall es2 w w', run c w (es1 ++ es2) = Some w' ->
  exists w1, run c w es1 = Some w1 /\ run c w1 es2 = Some w'.
Proof.
  induction es1 as [|e es1 IH]; intros es2 w w' H; cbn in *.
  - eauto.
  - destruct (step c w e) as [w0|]; [|discriminate]. apply IH. assumption.
Qed.

Lemma silent_when_closed c es : forall w w', Inv c w -> closed (ws w) = true -> run c w es = Some w' ->
  run_emitted c w es = [] /\ forallb (fun e => negb (dials e)) es = true /\ closed (ws w') = true /\ conn (ws w') = None.
Proof.
  induction es as [|e es IH]; intros w w' HI Hcl H; cbn in H.
  - inversion H; subst. repeat split; auto. apply (I_closed c w' HI Hcl).
  - destruct (step c w e) as [w1|] eqn:E; [|discriminate].
    destruct (closed_silent c w e w1 HI Hcl E) as (Hcl1 & _ & Hem & Hd & _).
    destruct (IH w1 w' (step_inv c w e w1 HI E) Hcl1 H) as (H1 & H2 & H3 & H4).
    cbn [run_emitted forallb]. rewrite E, Hem, Hd, H1, H2. auto.
Qed.

(* over ALL interleavings: whatever happened before Close and whatever is
   attempted after it (Set, reader events, peer events, handshakes, flushes,
   keepalives): after the Close step no message is written and nothing dials;
   in particular no handshake step (dial + OPEN exchange + accepting KEEPALIVE,
   one critical section of s.mu in connect()) is enabled any more *)
Theorem no_message_after_close c es1 es2 w :
  run c world0 (es1 ++ EClose :: es2) = Some w ->
  exists w1, run c world0 (es1 ++ [EClose]) = Some w1 /\ closed (ws w1) = true /\
             run_emitted c w1 es2 = [] /\ forallb (fun e => negb (dials e)) es2 = true /\
             closed (ws w) = true /\ conn (ws w) = None.
Proof.
  intros H. replace (es1 ++ EClose :: es2) with ((es1 ++ [EClose]) ++ es2) in H by (rewrite <- app_assoc; reflexivity).
  apply run_app in H. destruct H as (w1 & H1 & H2). exists w1. split; [assumption|].
  assert (Hcl : closed (ws w1) = true).
  { apply run_app in H1. destruct H1 as (w0 & _ & H1). cbn in H1. inversion H1; subst. reflexivity. }
  split; [assumption|]. apply (silent_when_closed c es2 w1 w (run_inv c _ _ _ (inv0 c) H1) Hcl H2).
Qed.

(* ------------------------------------------------------------ backoff *)
Lemma bo_after_closed k : bo_after (S k) = N.min (1000 * 2 ^ N.of_nat k) bo_max.
Proof.
  induction k as [|k IH]; [reflexivity|].
  change (bo_after (S (S k))) with (snd (bo_duration (bo_after (S k)))). rewrite IH.
  unfold bo_duration, bo_max. cbn [snd].
  rewrite Nat2N.inj_succ, N.pow_succ_r'.
  assert (1 <= 2 ^ N.of_nat k) by (pose proof (N.pow_nonzero 2 (N.of_nat k) ltac:(discriminate)); lia).
  set (x := 2 ^ N.of_nat k) in *.
  destruct (N.min (1000 * x) 120000 =? 0) eqn:E; lia.
Qed.

(* first retry immediately, then 1 s, doubling, never more than 2 minutes *)
Theorem backoff_delay_spec k :
  bo_delay k = match k with O => 0 | S j => N.min (1000 * 2 ^ N.of_nat j) bo_max end.
Proof. unfold bo_delay, bo_duration. cbn [fst]. destruct k; [reflexivity | apply bo_after_closed]. Qed.

Theorem backoff_monotone k : bo_delay k <= bo_delay (S k) /\ bo_delay k <= bo_max.
Proof.
  rewrite !backoff_delay_spec. destruct k as [|k]; [unfold bo_max; split; lia|].
  rewrite Nat2N.inj_succ, N.pow_succ_r'. unfold bo_max.
  assert (1 <= 2 ^ N.of_nat k) by (pose proof (N.pow_nonzero 2 (N.of_nat k) ltac:(discriminate)); lia).
  set (x := 2 ^ N.of_nat k) in *. lia.
Qed.

(* a success (Reset) starts the streak afresh: the next failure is retried at once *)
Theorem backoff_reset ops1 ops2 b :
  bo_run b (ops1 ++ false :: ops2) = bo_run b ops1 ++ bo_run bo_reset ops2.
Proof.
  revert b. induction ops1 as [|o ops1 IH]; intros b; [reflexivity|].
  destruct o; cbn [app bo_run]; rewrite IH; reflexivity.
Qed.

Theorem backoff_streak k : bo_run bo_reset (repeat true k) = map bo_delay (seq 0 k).
Proof.
  assert (H : forall j, bo_run (bo_after j) (repeat true k) = map bo_delay (seq j k)).
  { induction k as [|k IH]; intros j; [reflexivity|].
    cbn [repeat bo_run seq map]. f_equal. apply (IH (S j)). }
  exact (H O).
Qed.

(* ------------------------------------------------------------ enabledness / progress of the sender *)
Lemma covers_universe c need : covers c need (universe c) = true.
Proof.
  unfold covers. apply forallb_forall. intros k Hk. destruct (need k); [|reflexivity].
  cbn [implb]. apply mem_In. assumption.
Qed.

(* the sender steps: a flush that writes all its messages *)
Definition is_full_flush (e : sev) : Prop :=
  match e with EFirstFlush _ None | EDiffFlush _ _ None => True | _ => False end.

(* From EVERY reachable state in which the connection is up on both sides (the
   peer is reading), at most ONE sender step -- a complete flush, enabled right
   there, in the iteration order [universe c] -- leads to a stable state, without
   any new Set; the desired set is unchanged.  (What is NOT proved: that the
   scheduler runs the sender goroutine and that TCP lets the write complete.) *)
Theorem sender_progress c w id : Inv c w ->
  conn (ws w) = Some id -> up (wp w) = Some id ->
  exists es' w', (length es' <= 1)%nat /\ Forall is_full_flush es' /\
                 run c w es' = Some w' /\ stable w' /\ desired w' = desired w.
Proof.
  intros HI Hc Hu. pose proof HI as [_ _ _ Hcl _].
  assert (Hclosed : closed (ws w) = false).
  { destruct (closed (ws w)) eqn:E; [|reflexivity]. rewrite (Hcl eq_refl) in Hc. discriminate. }
  destruct w as [s p d]. cbn [ws wp desired] in *.
  destruct (synced s) eqn:Es.
  - destruct (pending s) as [new|] eqn:Ep.
    + exists [EDiffFlush (universe c) (universe c) None]. eexists. split; [cbn; auto|].
      split; [repeat constructor|].
      cbn [run step ws wp desired]. rewrite Hc, Ep, Hclosed, Es. cbn [orb negb].
      rewrite !covers_universe. cbn [andb negb].
      split; [reflexivity|]. split; [|reflexivity].
      exists id. cbn. rewrite deliver_up. auto.
    + exists []. eexists. split; [cbn; auto|]. split; [constructor|]. split; [reflexivity|].
      split; [|reflexivity]. exists id. cbn. auto.
  - exists [EFirstFlush (universe c) None]. eexists. split; [cbn; auto|].
    split; [repeat constructor|].
    cbn [run step ws wp desired]. rewrite Hc, Hclosed, Es. cbn [orb].
    rewrite covers_universe. cbn [negb].
    split; [reflexivity|]. split; [|reflexivity].
    exists id. cbn. rewrite deliver_up. auto.
Qed.

Theorem sender_progress_reachable c es w id : run c world0 es = Some w ->
  conn (ws w) = Some id -> up (wp w) = Some id ->
  exists es' w', (length es' <= 1)%nat /\ Forall is_full_flush es' /\
                 run c w es' = Some w' /\ stable w' /\
                 forall k, In k (universe c) -> ptable (wp w') k = last_set es empty k.
Proof.
  intros Hr Hc Hu. pose proof (run_inv c es _ _ (inv0 c) Hr) as HI.
  destruct (sender_progress c w id HI Hc Hu) as (es' & w' & Hl & Hf & Hr' & Hs & Hd).
  exists es', w'. repeat split; try assumption.
  intros k Hk. destruct Hs as (id' & Hc' & Hu' & Hs' & Hp').
  pose proof (run_inv c es' _ _ HI Hr') as [Hdes Hsy _ _ _].
  rewrite Hp' in Hdes. rewrite (Hsy id' Hc' Hu' Hs' k Hk), Hdes, Hd.
  rewrite (run_desired c es _ _ Hr). reflexivity.
Qed.

(* ------------------------------------------------------------ justification with the table pinned down *)
(* the table a message is judged against: for a diff flush what the peer holds
   (advertised), for the first flush of a connection the empty table *)
Definition adv_of (w : world) (e : sev) : table :=
  match e with EDiffFlush _ _ _ => advertised (ws w) | _ => empty end.
Definition new_of (w : world) : table :=
  match pending (ws w) with Some p => p | None => advertised (ws w) end.

Theorem emitted_justified_strong c w e m : In m (emitted c w e) -> justified (adv_of w e) (new_of w) m.
Proof.
  unfold emitted, adv_of, new_of. destruct e; try contradiction.
  - intros H. eapply first_msgs_justified. destruct sent; [eapply In_firstn; exact H | exact H].
  - destruct (pending (ws w)) as [new|]; [|contradiction]. intros H.
    eapply diff_msgs_justified. destruct sent; [eapply In_firstn; exact H | exact H].
Qed.

(* in a reachable state the set being moved to IS the last Set: an emitted
   UPDATE k v carries the attributes last requested for k; a withdrawn k is
   absent from the last Set and (diff flush) present in what the peer was sent *)
Theorem emitted_is_last_set c es w e m : run c world0 es = Some w -> In m (emitted c w e) ->
  match m with
  | MUpd k v => last_set es empty k = Some v
  | MWdr ks => ks <> [] /\ forall k, In k ks -> last_set es empty k = None /\ adv_of w e k <> None
  end.
Proof.
  intros Hr Hin. pose proof (emitted_justified_strong c w e m Hin) as Hj.
  pose proof (run_inv c es _ _ (inv0 c) Hr) as [Hd _ _ _ _].
  assert (Hnew : forall k, new_of w k = last_set es empty k).
  { intros k. pose proof (run_desired c es _ _ Hr) as Hdes. change (desired world0) with empty in Hdes.
    rewrite <- Hdes. unfold new_of.
    destruct (pending (ws w)); apply Hd. }
  destruct m as [k v | ks]; cbn [justified] in Hj.
  - rewrite <- Hnew. exact Hj.
  - destruct Hj as [Hne Hall]. split; [assumption|]. intros k Hk. destruct (Hall k Hk) as [H1 H2].
    split; [rewrite <- Hnew; exact H1 | exact H2].
Qed.

(* ------------------------------------------------------------ a rejected Set changes nothing *)
(* Set() returning an error (validate: non-IPv4 prefix, > 63 communities) leaves
   the session -- in particular a pending, already accepted request -- exactly
   as it was: inserting such a call anywhere in a history changes neither the
   state reached nor the set the peer must converge to. *)
Theorem rejected_set_is_noop c es1 : forall es2 w,
  run c w (es1 ++ ESetRejected :: es2) = run c w (es1 ++ es2) /\
  forall acc, last_set (es1 ++ ESetRejected :: es2) acc = last_set (es1 ++ es2) acc.
Proof.
  induction es1 as [|e es1 IH]; intros es2 w.
  - split; reflexivity.
  - split.
    + cbn [app run]. destruct (step c w e) as [w1|]; [apply IH | reflexivity].
    + intros acc. cbn [app]. destruct e; cbn [last_set]; apply IH; exact w.
Qed.

Theorem rejected_set_keeps_pending c w w' : step c w ESetRejected = Some w' ->
  w' = w /\ pending (ws w') = pending (ws w) /\ desired w' = desired w.
Proof. cbn [step]. intros [= <-]. auto. Qed.
