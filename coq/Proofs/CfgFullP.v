(* Lemmas about Model/CfgFull.v (the whole config.For / toConfig): permutation invariance of
   the whole configuration value, the reasons for refusal, the rules of validateConfig,
   uniqueness of names in an accepted configuration, BFD references. *)
From Coq Require Import NArith Bool List Lia ZifyN ZifyBool Permutation Sorted.
From Verif Require Import Model.CfgFull Proofs.NetP Proofs.CfgSortP Proofs.CfgP.
Local Open Scope N_scope.

(* ------------------------------------------------------------------ toConfig *)
Lemma fcanon_perm srt a b : hsort srt -> fnodup a -> fperm a b -> fcanon srt a = fcanon srt b.
Proof.
  intros H (N1 & N2 & N3 & N4 & N5 & N6 & N7 & N8) (P1 & P2 & P3 & P4 & P5 & P6 & P7 & P8 & E1 & E2).
  unfold fcanon. rewrite E1, E2. f_equal; apply (hsort_canonical srt H); assumption.
Qed.

Lemma fcanon_sorter_indep srt srt' a : hsort srt -> hsort srt' -> fnodup a -> fcanon srt a = fcanon srt' a.
Proof.
  intros H H' (N1 & N2 & N3 & N4 & N5 & N6 & N7 & N8).
  unfold fcanon. f_equal; apply (hsort_unique srt srt' H H'); assumption.
Qed.

Lemma full_for_iter_indep iter iter' m fr : map_order iter -> map_order iter' ->
  full_for iter m fr = full_for iter' m fr.
Proof.
  intros H H'. unfold full_for. destruct (validate m fr); [|reflexivity].
  destruct (bfds_for _); [|reflexivity]. destruct (peers_for _ _ _); [|reflexivity].
  destruct (comms_for _); [|reflexivity]. destruct (resolve_bgp _ _); [|reflexivity].
  rewrite (pools_for_iter_indep iter iter' _ H H'). reflexivity.
Qed.

Lemma full_to_config_deterministic srt srt' iter iter' m a b :
  hsort srt -> hsort srt' -> map_order iter -> map_order iter' -> fnodup a -> fperm a b ->
  full_to_config srt iter m a = full_to_config srt' iter' m b.
Proof.
  intros H H' I I' ND P. unfold full_to_config.
  rewrite (fcanon_sorter_indep srt srt' a H H' ND), (fcanon_perm srt' a b H' ND P).
  apply full_for_iter_indep; assumption.
Qed.

(* ------------------------------------------------------------------ reasons for refusal *)
(* config.For refuses exactly when the validator refuses, a BFD profile / peer / community /
   advertisement community is malformed or duplicated, poolsFor refuses, or validateConfig
   finds an IPv6-containing pool advertised to a BFD-echo peer *)
Inductive stage_result (iter : list pool -> list pool) (m : vmode) (fr : fresources) : option fconfig -> Prop :=
| sr_validator : validate m fr = false -> stage_result iter m fr None
| sr_bfds : bfds_for (f_bfds fr) = None -> stage_result iter m fr None
| sr_peers bfds : bfds_for (f_bfds fr) = Some bfds -> peers_for (f_secrets fr) bfds (f_peers fr) = None ->
    stage_result iter m fr None
| sr_comms : comms_for (f_comms fr) = None -> stage_result iter m fr None
| sr_advcomms tbl : comms_for (f_comms fr) = Some tbl -> resolve_bgp tbl (f_bgp fr) = None ->
    stage_result iter m fr None
| sr_pools tbl bgp : comms_for (f_comms fr) = Some tbl -> resolve_bgp tbl (f_bgp fr) = Some bgp ->
    pools_for iter (base_of fr bgp) = None -> stage_result iter m fr None
| sr_echo bfds peers tbl bgp po :
    bfds_for (f_bfds fr) = Some bfds -> peers_for (f_secrets fr) bfds (f_peers fr) = Some peers ->
    comms_for (f_comms fr) = Some tbl -> resolve_bgp tbl (f_bgp fr) = Some bgp ->
    pools_for iter (base_of fr bgp) = Some po ->
    validate_config {| fc_pools := po; fc_peers := peers; fc_bfds := bfds; fc_extras := f_extras fr |} = false ->
    stage_result iter m fr None
| sr_ok bfds peers tbl bgp po :
    validate m fr = true -> bfds_for (f_bfds fr) = Some bfds ->
    peers_for (f_secrets fr) bfds (f_peers fr) = Some peers -> comms_for (f_comms fr) = Some tbl ->
    resolve_bgp tbl (f_bgp fr) = Some bgp -> pools_for iter (base_of fr bgp) = Some po ->
    validate_config {| fc_pools := po; fc_peers := peers; fc_bfds := bfds; fc_extras := f_extras fr |} = true ->
    stage_result iter m fr (Some {| fc_pools := po; fc_peers := peers; fc_bfds := bfds; fc_extras := f_extras fr |}).

Lemma full_for_stages iter m fr : stage_result iter m fr (full_for iter m fr).
Proof.
  unfold full_for.
  destruct (validate m fr) eqn:V; [|apply sr_validator; assumption].
  destruct (bfds_for (f_bfds fr)) as [bfds|] eqn:B; [|apply sr_bfds; assumption].
  destruct (peers_for _ bfds _) as [peers|] eqn:P; [|eapply sr_peers; eassumption].
  destruct (comms_for _) as [tbl|] eqn:C; [|apply sr_comms; assumption].
  destruct (resolve_bgp tbl _) as [bgp|] eqn:R; [|eapply sr_advcomms; eassumption].
  destruct (pools_for iter _) as [po|] eqn:PF; [|eapply sr_pools; eassumption].
  destruct (validate_config _) eqn:VC; [|eapply sr_echo; eassumption].
  eapply sr_ok; eassumption.
Qed.

Lemma full_for_some iter m fr c : full_for iter m fr = Some c ->
  exists tbl bgp, validate m fr = true /\ bfds_for (f_bfds fr) = Some (fc_bfds c) /\
    peers_for (f_secrets fr) (fc_bfds c) (f_peers fr) = Some (fc_peers c) /\
    comms_for (f_comms fr) = Some tbl /\ resolve_bgp tbl (f_bgp fr) = Some bgp /\
    pools_for iter (base_of fr bgp) = Some (fc_pools c) /\ validate_config c = true /\
    fc_extras c = f_extras fr.
Proof.
  intros H. pose proof (full_for_stages iter m fr) as S. rewrite H in S.
  inversion S as [| | | | | | |bfds peers tbl bgp po V B P C R PF VC E]; subst.
  exists tbl, bgp. cbn. repeat split; assumption.
Qed.

(* ------------------------------------------------------------------ validateConfig *)
Lemma pool_has_v6_spec p : pool_has_v6 p = true <-> exists c, In c (p_cidrs p) /\ pfam c = F6.
Proof.
  unfold pool_has_v6. rewrite existsb_exists. split; intros [c [H1 H2]]; exists c; split; auto;
    apply fam_eqb_eq; assumption.
Qed.

(* what "the advertisement reaches a BFD-echo peer" means *)
Definition reaches_echo (bfds : list bfd) (peers : list peer) (a : bgpadv) : Prop :=
  (ba_peers a = [] /\ exists q, In q peers /\ peer_echo bfds q = true) \/
  (exists n q, In n (ba_peers a) /\ find (fun q => p_pname q =? n) peers = Some q /\ peer_echo bfds q = true).

Lemma adv_reaches_echo_spec bfds peers a : adv_reaches_echo bfds peers a = true <-> reaches_echo bfds peers a.
Proof.
  unfold adv_reaches_echo, reaches_echo. destruct (ba_peers a) as [|n0 r] eqn:E.
  - rewrite existsb_exists. split.
    + intros [q H]. left. split; [reflexivity|exists q; exact H].
    + intros [[_ [q H]]|[n [q [[] _]]]]. exists q. exact H.
  - rewrite existsb_exists. split.
    + intros [n [Hn H]]. right. destruct (find _ peers) as [q|] eqn:F; [|discriminate]. exists n, q. auto.
    + intros [[H _]|[n [q [Hn [F H]]]]]; [discriminate|]. exists n. split; [assumption|]. rewrite F. assumption.
Qed.

Lemma validate_config_spec c : validate_config c = true <->
  forall p a, In p (po_pools (fc_pools c)) -> pool_has_v6 p = true -> In a (p_bgp p) ->
              ~ reaches_echo (fc_bfds c) (fc_peers c) a.
Proof.
  unfold validate_config. rewrite negb_true_iff, existsb_false. split.
  - intros H p a Hp H6 Ha R. specialize (H p Hp). rewrite H6 in H. cbn in H.
    rewrite existsb_false in H. apply adv_reaches_echo_spec in R. rewrite (H a Ha) in R. discriminate.
  - intros H p Hp. destruct (pool_has_v6 p) eqn:H6; [|reflexivity]. cbn. apply existsb_false.
    intros a Ha. destruct (adv_reaches_echo _ _ a) eqn:R; [|reflexivity].
    exfalso. apply (H p a Hp H6 Ha). apply adv_reaches_echo_spec. assumption.
Qed.

(* accepted => no pool containing IPv6 is advertised to a peer whose BFD profile has echo mode *)
Theorem accepted_no_echo_towards_v6 iter m fr c : full_for iter m fr = Some c ->
  forall p a, In p (po_pools (fc_pools c)) -> (exists x, In x (p_cidrs p) /\ pfam x = F6) -> In a (p_bgp p) ->
              ~ reaches_echo (fc_bfds c) (fc_peers c) a.
Proof.
  intros H p a Hp H6 Ha. destruct (full_for_some _ _ _ _ H) as (tbl & bgp & _ & _ & _ & _ & _ & _ & VC & _).
  apply (proj1 (validate_config_spec c) VC p a Hp); [apply pool_has_v6_spec|]; assumption.
Qed.

(* ------------------------------------------------------------------ unique names *)
Lemma bfds_loop_inv l : forall acc bs, bfds_loop l acc = Some bs -> NoDup (map b_name acc) ->
  NoDup (map b_name bs) /\ map b_name bs = map b_name acc ++ map bf_name l.
Proof.
  induction l as [|c r IH]; intros acc bs; cbn [bfds_loop].
  - intros [= <-] ND. rewrite app_nil_r. auto.
  - destruct (parse_bfd c) as [b|] eqn:P; [|discriminate].
    destruct (memN (b_name b) (map b_name acc)) eqn:M; [discriminate|]. intros H ND.
    assert (Hn : b_name b = bf_name c).
    { unfold parse_bfd in P. destruct (_ && _); [|discriminate]. injection P as <-. reflexivity. }
    destruct (IH _ _ H) as [ND' E].
    + rewrite map_app. cbn. apply NoDup_app_snoc; [assumption|]. intros Hin. apply memN_in in Hin. congruence.
    + split; [assumption|]. rewrite E, map_app, <- app_assoc. cbn. rewrite Hn. reflexivity.
Qed.

Lemma bfds_for_names l bs : bfds_for l = Some bs ->
  NoDup (map bf_name l) /\ NoDup (map b_name bs) /\ Permutation (map b_name bs) (map bf_name l).
Proof.
  unfold bfds_for. destruct (bfds_loop l []) as [bs0|] eqn:E; [|discriminate]. intros [= <-].
  destruct (bfds_loop_inv _ _ _ E (NoDup_nil _)) as [ND Eq]. cbn in Eq.
  assert (P : Permutation (map b_name (ksort b_name bs0)) (map b_name bs0)) by (apply Permutation_map, ksort_perm).
  split; [rewrite <- Eq; assumption|]. split.
  - eapply Permutation_NoDup; [symmetry; exact P|assumption].
  - rewrite <- Eq. assumption.
Qed.

Lemma comms_loop_inv l : forall acc tbl, comms_loop l acc = Some tbl -> NoDup (map fst acc) ->
  tbl = acc ++ l /\ NoDup (map fst tbl) /\ Forall (fun av => cval_ok (snd av) = true) l.
Proof.
  induction l as [|[a v] r IH]; intros acc tbl; cbn [comms_loop].
  - intros [= <-] ND. rewrite app_nil_r. auto.
  - destruct (cval_ok v && negb (memN a (map fst acc))) eqn:E; [|discriminate].
    apply andb_true_iff in E. destruct E as [E1 E2]. apply negb_true_iff in E2. intros H ND.
    destruct (IH _ _ H) as (-> & ND' & F).
    + rewrite map_app. cbn. apply NoDup_app_snoc; [assumption|]. intros Hin. apply memN_in in Hin. congruence.
    + split; [rewrite <- app_assoc; reflexivity|]. split; [assumption|]. constructor; assumption.
Qed.

(* accepted => alias names are unique over all Community resources and every value parses *)
Lemma comms_for_names cs tbl : comms_for cs = Some tbl ->
  tbl = flat_map cm_aliases cs /\ NoDup (map fst (flat_map cm_aliases cs)) /\
  Forall (fun av => cval_ok (snd av) = true) (flat_map cm_aliases cs).
Proof.
  unfold comms_for. intros H. destruct (comms_loop_inv _ _ _ H (NoDup_nil _)) as (E & ND & F).
  cbn in E. subst tbl. auto.
Qed.

(* ------------------------------------------------------------------ peers *)
Definition peer_ok (bfds : list bfd) (p : peer) : Prop := p_bfd p <> 0 -> In (p_bfd p - 1) (map b_name bfds).

Lemma filter_names_nodup (acc : list peer) n :
  NoDup (map p_pname acc) -> NoDup (map p_pname (filter (fun q => negb (p_pname q =? n)) acc)) /\
  ~ In n (map p_pname (filter (fun q => negb (p_pname q =? n)) acc)).
Proof.
  induction acc as [|q r IH]; cbn; intros ND; [split; [constructor|tauto]|].
  inversion ND as [|? ? Hq ND']; subst. destruct (IH ND') as [I1 I2].
  destruct (p_pname q =? n) eqn:E; cbn; [auto|]. apply N.eqb_neq in E. split.
  - constructor; [|assumption]. intros Hin. apply Hq. apply in_map_iff in Hin.
    destruct Hin as [x [Ex Hx]]. apply filter_In in Hx. rewrite <- Ex. apply in_map. tauto.
  - intros [H|H]; [congruence|auto].
Qed.

Lemma peers_loop_inv secrets bfds l : forall acc ps, peers_loop secrets bfds l acc = Some ps ->
  NoDup (map p_pname acc) -> Forall (peer_ok bfds) acc ->
  NoDup (map p_pname ps) /\ Forall (peer_ok bfds) ps.
Proof.
  induction l as [|c r IH]; intros acc ps; cbn [peers_loop].
  - intros [= <-]. auto.
  - destruct (parse_peer secrets c) as [p|]; [|discriminate].
    destruct (negb (p_bfd p =? 0) && negb (memN (p_bfd p - 1) (map b_name bfds))) eqn:B; [discriminate|].
    destruct (existsb (peer_eqb p) acc); [discriminate|]. intros H ND OK.
    destruct (filter_names_nodup acc (p_pname p) ND) as [F1 F2].
    apply (IH _ _ H).
    + rewrite map_app. cbn. apply NoDup_app_snoc; assumption.
    + apply Forall_app. split.
      * apply Forall_forall. intros q Hq. apply filter_In in Hq. rewrite Forall_forall in OK. apply OK. tauto.
      * constructor; [|constructor]. intros Hne. apply andb_false_iff in B.
        destruct B as [B|B]; [apply negb_false_iff, N.eqb_eq in B; contradiction|].
        apply negb_false_iff in B. apply memN_in. assumption.
Qed.

(* accepted => peer names are unique and every BFD profile a peer refers to exists *)
Lemma peers_for_ok secrets bfds l ps : peers_for secrets bfds l = Some ps ->
  NoDup (map p_pname ps) /\ Forall (peer_ok bfds) ps.
Proof.
  unfold peers_for. destruct (peers_loop secrets bfds l []) as [ps0|] eqn:E; [|discriminate]. intros [= <-].
  destruct (peers_loop_inv _ _ _ _ _ E (NoDup_nil _) (Forall_nil _)) as [ND OK].
  pose proof (ksort_perm p_pname ps0) as P. split.
  - eapply Permutation_NoDup; [symmetry; apply Permutation_map; exact P|assumption].
  - eapply Permutation_Forall; [symmetry; exact P|assumption].
Qed.

(* accepted => pool names are unique among the IPAddressPool resources *)
Lemma accepted_pool_names_nodup iter r out : pools_for iter r = Some out -> NoDup (map pl_name (r_pools r)).
Proof.
  intros H. destruct (pools_for_accepted _ _ _ H) as (ps0 & ps2 & A).
  pose proof (af_nodup _ _ _ _ A) as ND. pose proof (af_parsed _ _ _ _ A) as F.
  assert (E : map pl_name (r_pools r) = map p_name ps0).
  { clear - F. induction F as [|c p l l' Hp F IH]; cbn; [reflexivity|]. rewrite IH.
    apply parse_pool_spec in Hp. destruct Hp as [Hn _]. rewrite Hn. reflexivity. }
  rewrite E. assumption.
Qed.

Theorem accepted_names_unique iter m fr c : full_for iter m fr = Some c ->
  NoDup (map pl_name (f_pools fr)) /\ NoDup (map bf_name (f_bfds fr)) /\
  NoDup (map fst (flat_map cm_aliases (f_comms fr))) /\ NoDup (map p_pname (fc_peers c)) /\
  NoDup (map b_name (fc_bfds c)) /\ Forall (peer_ok (fc_bfds c)) (fc_peers c).
Proof.
  intros H. destruct (full_for_some _ _ _ _ H) as (tbl & bgp & _ & B & P & C & _ & PF & _ & _).
  destruct (bfds_for_names _ _ B) as (N1 & N2 & _). destruct (comms_for_names _ _ C) as (_ & N3 & _).
  destruct (peers_for_ok _ _ _ _ P) as [N4 OK]. pose proof (accepted_pool_names_nodup _ _ _ PF) as N5.
  repeat split; assumption.
Qed.

Lemma full_acceptance_order_independent srt iter iter' m a b :
  hsort srt -> map_order iter -> map_order iter' -> fnodup a -> fperm a b ->
  (full_to_config srt iter m a = None <-> full_to_config srt iter' m b = None).
Proof.
  intros H I I' N P. rewrite (full_to_config_deterministic srt srt iter iter' m a b H H I I' N P). tauto.
Qed.

Lemma full_pools_are_pools_for iter m fr c : full_for iter m fr = Some c ->
  exists tbl bgp, comms_for (f_comms fr) = Some tbl /\ resolve_bgp tbl (f_bgp fr) = Some bgp /\
                  pools_for iter (base_of fr bgp) = Some (fc_pools c).
Proof.
  intros H. destruct (full_for_some _ _ _ _ H) as (tbl & bgp & _ & _ & _ & C & R & P & _).
  exists tbl, bgp. auto.
Qed.

(* end to end: once a configuration computed from one listing is remembered, an event after which
   the API server lists the same objects in any other order (and Go iterates its maps in any
   other order) neither calls the handler nor forces a re-sync *)
Lemma permuted_listing_never_reloads srt iter iter' m a b pv (ceq : fconfig -> fconfig -> bool) st c h :
  hsort srt -> map_order iter -> map_order iter' -> fnodup a -> fperm a b ->
  full_to_config srt iter m a = Some c -> rs_cur st = Some c -> ceq c c = true ->
  reconcile pv ceq st (full_to_config srt iter' m b) h = st.
Proof.
  intros H I I' N P E R X.
  rewrite <- (full_to_config_deterministic srt srt iter iter' m a b H H I I' N P), E.
  apply reconcile_skips_equal; assumption.
Qed.

(* a snapshot that is refused leaves the reconciler untouched whatever the order *)
Lemma refused_listing_keeps_state srt iter iter' m a b pv (ceq : fconfig -> fconfig -> bool) st h :
  hsort srt -> map_order iter -> map_order iter' -> fnodup a -> fperm a b ->
  full_to_config srt iter m a = None -> reconcile pv ceq st (full_to_config srt iter' m b) h = st.
Proof.
  intros H I I' N P E.
  rewrite <- (full_to_config_deterministic srt srt iter iter' m a b H H I I' N P), E. reflexivity.
Qed.

(* ------------------------------------------------------------------ the equality is reflexive *)
Lemma list_eqb_refl {A} (e : A -> A -> bool) l : (forall x, e x x = true) -> list_eqb e l l = true.
Proof. intros H. induction l; cbn; [reflexivity|]. rewrite H, IHl. reflexivity. Qed.
Lemma lN_eqb_refl l : lN_eqb l l = true.
Proof. apply list_eqb_refl, N.eqb_refl. Qed.
Lemma kv_eqb_refl x : kv_eqb x x = true.
Proof. unfold kv_eqb. rewrite !N.eqb_refl. reflexivity. Qed.
Lemma sel_eqb_refl s : sel_eqb s s = true.
Proof. apply list_eqb_refl, kv_eqb_refl. Qed.
Lemma prefix_eqb_refl p : prefix_eqb p p = true.
Proof. unfold prefix_eqb. rewrite fam_eqb_refl, !N.eqb_refl. reflexivity. Qed.
Lemma oN_eqb_refl o : oN_eqb o o = true.
Proof. destruct o; cbn; [apply N.eqb_refl|reflexivity]. Qed.
Lemma oip_eqb_refl o : oip_eqb o o = true.
Proof. destruct o as [x|]; cbn; [|reflexivity]. apply ip_eqb_eq. reflexivity. Qed.
Lemma beqb_refl b : Bool.eqb b b = true.
Proof. destruct b; reflexivity. Qed.

Lemma peer_eqb_refl p : peer_eqb p p = true.
Proof.
  unfold peer_eqb. rewrite !N.eqb_refl, !oip_eqb_refl, !oN_eqb_refl, !beqb_refl.
  rewrite (list_eqb_refl sel_eqb _ sel_eqb_refl). reflexivity.
Qed.
Lemma bfd_eqb_refl b : bfd_eqb b b = true.
Proof. unfold bfd_eqb. rewrite !N.eqb_refl, !oN_eqb_refl, !beqb_refl. reflexivity. Qed.
Lemma pool_eqb_refl p : pool_eqb p p = true.
Proof.
  unfold pool_eqb. rewrite N.eqb_refl, !beqb_refl, (list_eqb_refl prefix_eqb _ prefix_eqb_refl).
  rewrite (list_eqb_refl bgpadv_eqb).
  2:{ intros a. unfold bgpadv_eqb. rewrite !N.eqb_refl, !lN_eqb_refl. reflexivity. }
  rewrite (list_eqb_refl l2adv_same).
  2:{ intros a. unfold l2adv_same. rewrite beqb_refl, !lN_eqb_refl. reflexivity. }
  destruct (p_alloc p) as [a|]; cbn; [|reflexivity].
  unfold salloc_eqb. rewrite N.eqb_refl, lN_eqb_refl, (list_eqb_refl sel_eqb _ sel_eqb_refl). reflexivity.
Qed.
Lemma out_eqb_refl o : out_eqb o o = true.
Proof.
  unfold out_eqb. rewrite (list_eqb_refl pool_eqb _ pool_eqb_refl), lN_eqb_refl.
  rewrite list_eqb_refl; [reflexivity|]. intros x. rewrite N.eqb_refl, lN_eqb_refl. reflexivity.
Qed.
Lemma fconfig_eqb_refl c : fconfig_eqb c c = true.
Proof.
  unfold fconfig_eqb. rewrite out_eqb_refl, (list_eqb_refl peer_eqb _ peer_eqb_refl),
    (list_eqb_refl bfd_eqb _ bfd_eqb_refl), N.eqb_refl. reflexivity.
Qed.

(* the end-to-end statement with the model's own equality: no hypothesis on [ceq] *)
Lemma permuted_listing_never_reloads_eqb srt iter iter' m a b pv st c h :
  hsort srt -> map_order iter -> map_order iter' -> fnodup a -> fperm a b ->
  full_to_config srt iter m a = Some c -> rs_cur st = Some c ->
  reconcile pv fconfig_eqb st (full_to_config srt iter' m b) h = st.
Proof.
  intros H I I' N P E R.
  apply (permuted_listing_never_reloads srt iter iter' m a b pv fconfig_eqb st c h H I I' N P E R (fconfig_eqb_refl c)).
Qed.

(* ... and derived from a run: the first reconcile of listing [a] from the empty state stores
   the configuration (handler answer not an error), every later reconcile of any permuted
   listing leaves calls and reloads as they are *)
Lemma first_then_permuted srt iter iter' m a b pv c h h' :
  hsort srt -> map_order iter -> map_order iter' -> fnodup a -> fperm a b ->
  full_to_config srt iter m a = Some c -> (h = SSuccess \/ h = SReprocessAll) ->
  let st0 := {| rs_cur := None; rs_calls := 0; rs_reloads := 0 |} in
  let st1 := reconcile pv fconfig_eqb st0 (full_to_config srt iter m a) h in
  rs_calls st1 = 1%nat /\ reconcile pv fconfig_eqb st1 (full_to_config srt iter' m b) h' = st1.
Proof.
  intros H I I' N P E Hh st0 st1.
  assert (R : rs_cur st1 = Some c /\ rs_calls st1 = 1%nat).
  { unfold st1, st0. rewrite E. cbn. destruct Hh as [-> | ->]; cbn; auto. }
  destruct R as [R1 R2]. split; [assumption|].
  exact (permuted_listing_never_reloads_eqb srt iter iter' m a b pv st1 c h' H I I' N P E R1).
Qed.
