(* Lemmas about Model/Announcer.v, part 2: the solicited-node multicast group
   counters of the NDP responders and the socket membership follow the set of
   announced IPv6 addresses. *)
From Coq Require Import List NArith ZArith Bool Lia ZifyN ZifyNat ZifyBool.
From Verif Require Import Model.Net Proofs.NetP Model.Announcer Proofs.AnnouncerP.
Import ListNotations.
Local Open Scope Z_scope.

Definition in_group (g : N) (i : ip) : bool :=
  match sn_group i with Some g' => N.eqb g' g | None => false end.
Definition Fg (s : st) (g : N) (i : ip) : Z := if (0 <? rc s i) && in_group g i then 1 else 0.
Fixpoint zsum (f : ip -> Z) (U : list ip) : Z :=
  match U with [] => 0 | i :: r => f i + zsum f r end.
Definition covers (s : st) (U : list ip) : Prop := forall i, rc s i <> 0 -> In i U.

Definition ndp_inv (s : st) : Prop :=
  (forall intf g U, In intf (ndps s) -> NoDup U -> covers s U -> grp s intf g = zsum (Fg s g) U) /\
  (forall intf g, In intf (ndps s) -> mem s intf g = if 0 <? grp s intf g then 1 else 0).

Lemma ndp_inv_ext s s' : refcnt s = refcnt s' -> groups s = groups s' -> member s = member s' ->
  ndps s = ndps s' -> ndp_inv s -> ndp_inv s'.
Proof.
  destruct s, s'. cbn. intros -> -> -> ->. unfold ndp_inv, covers, Fg, rc, grp, mem. cbn. auto.
Qed.

(* ---------- sums ---------- *)
Lemma zsum_ext f f' U : (forall i, In i U -> f' i = f i) -> zsum f' U = zsum f U.
Proof.
  induction U as [|j U IH]; cbn; intros H; [reflexivity|]. rewrite H by auto. rewrite IH; [reflexivity|]. auto.
Qed.

Lemma zsum_notin f f' U i0 : ~ In i0 U -> (forall i, i <> i0 -> f' i = f i) -> zsum f' U = zsum f U.
Proof. intros HN H. apply zsum_ext. intros i Hi. apply H. intros ->. contradiction. Qed.

Lemma zsum_update f f' U i0 : NoDup U -> In i0 U -> (forall i, i <> i0 -> f' i = f i) ->
  zsum f' U = zsum f U + (f' i0 - f i0).
Proof.
  induction U as [|j U IH]; cbn; intros ND HI H; [contradiction|]. inversion ND; subst.
  destruct (ip_dec j i0) as [->|Hne].
  - rewrite (zsum_notin f f' U i0) by assumption. lia.
  - destruct HI as [E|HI]; [contradiction|]. rewrite IH by assumption. rewrite (H j Hne). lia.
Qed.

Lemma zsum_filter (f : ip -> Z) (p : ip -> bool) U : (forall i, In i U -> f i = if p i then 1 else 0) ->
  zsum f U = Z.of_nat (length (filter p U)).
Proof.
  induction U as [|j U IH]; cbn [zsum filter]; intros H; [reflexivity|]. rewrite H by (left; reflexivity).
  rewrite IH by (intros; apply H; right; assumption). destruct (p j); cbn [length]; [rewrite Nat2Z.inj_succ|]; lia.
Qed.

(* ---------- one Watch / Unwatch round over the responders ---------- *)
Definition gm_t : Type := (list ((N * N) * Z) * list ((N * N) * Z))%type.
Definition g1 (gm : gm_t) (intf g : N) : Z := zget pair_eqb (intf, g) (fst gm).
Definition g2 (gm : gm_t) (intf g : N) : Z := zget pair_eqb (intf, g) (snd gm).

Lemma watch1_unch i gm intf intf' g : intf' <> intf \/ in_group g i = false ->
  g1 (watch1 i gm intf) intf' g = g1 gm intf' g /\ g2 (watch1 i gm intf) intf' g = g2 gm intf' g.
Proof.
  unfold watch1, in_group, g1, g2. destruct (sn_group i) as [g'|]; [|auto]. intros H. cbn [fst snd].
  assert (X : pair_eqb (intf', g) (intf, g') = false).
  { apply pair_eqb_neq. intros E. inversion E; subst. destruct H as [H|H]; [congruence|]. rewrite N.eqb_refl in H. discriminate. }
  split; [rewrite zget_zset, X; reflexivity|].
  destruct (_ =? 0); [rewrite zget_zset, X|]; reflexivity.
Qed.

Lemma watch1_hit i gm intf g : in_group g i = true ->
  g1 (watch1 i gm intf) intf g = g1 gm intf g + 1 /\
  g2 (watch1 i gm intf) intf g = if g1 gm intf g =? 0 then g2 gm intf g + 1 else g2 gm intf g.
Proof.
  unfold watch1, in_group, g1, g2. destruct (sn_group i) as [g'|]; [|discriminate]. intros H. apply N.eqb_eq in H. subst g'.
  cbn [fst snd]. split; [rewrite zget_zset, pair_eqb_refl; reflexivity|].
  destruct (_ =? 0); [rewrite zget_zset, pair_eqb_refl|]; reflexivity.
Qed.

Lemma unwatch1_unch i gm intf intf' g : intf' <> intf \/ in_group g i = false ->
  g1 (unwatch1 i gm intf) intf' g = g1 gm intf' g /\ g2 (unwatch1 i gm intf) intf' g = g2 gm intf' g.
Proof.
  unfold unwatch1, in_group, g1, g2. destruct (sn_group i) as [g'|]; [|auto]. intros H. cbn [fst snd].
  assert (X : pair_eqb (intf', g) (intf, g') = false).
  { apply pair_eqb_neq. intros E. inversion E; subst. destruct H as [H|H]; [congruence|]. rewrite N.eqb_refl in H. discriminate. }
  split; [rewrite zget_zset, X; reflexivity|].
  destruct (_ =? 0); [rewrite zget_zset, X|]; reflexivity.
Qed.

Lemma unwatch1_hit i gm intf g : in_group g i = true ->
  g1 (unwatch1 i gm intf) intf g = g1 gm intf g - 1 /\
  g2 (unwatch1 i gm intf) intf g = if g1 gm intf g - 1 =? 0 then g2 gm intf g - 1 else g2 gm intf g.
Proof.
  unfold unwatch1, in_group, g1, g2. destruct (sn_group i) as [g'|]; [|discriminate]. intros H. apply N.eqb_eq in H. subst g'.
  cbn [fst snd]. split; [rewrite zget_zset, pair_eqb_refl; reflexivity|].
  destruct (_ =? 0); [rewrite zget_zset, pair_eqb_refl|]; reflexivity.
Qed.

Lemma fold_watch_unch i l gm intf g : ~ In intf l \/ in_group g i = false ->
  g1 (fold_left (watch1 i) l gm) intf g = g1 gm intf g /\ g2 (fold_left (watch1 i) l gm) intf g = g2 gm intf g.
Proof.
  revert gm. induction l as [|x l IH]; intros gm H; cbn [fold_left]; [auto|].
  destruct (IH (watch1 i gm x)) as [A B]. { destruct H as [H|H]; [left; intros HI; apply H; right; exact HI|right; exact H]. }
  rewrite A, B. apply watch1_unch. destruct H as [H|H]; [left; intros ->; apply H; left; reflexivity|right; exact H].
Qed.

Lemma fold_watch_hit i l gm intf g : NoDup l -> In intf l -> in_group g i = true ->
  g1 (fold_left (watch1 i) l gm) intf g = g1 gm intf g + 1 /\
  g2 (fold_left (watch1 i) l gm) intf g = if g1 gm intf g =? 0 then g2 gm intf g + 1 else g2 gm intf g.
Proof.
  revert gm. induction l as [|x l IH]; intros gm ND HI G; [contradiction|]. cbn [fold_left]. inversion ND; subst.
  destruct (N.eq_dec x intf) as [->|Hne].
  - destruct (fold_watch_unch i l (watch1 i gm intf) intf g) as [A B]; [left; assumption|]. rewrite A, B.
    apply watch1_hit. exact G.
  - destruct HI as [E|HI]; [contradiction|]. destruct (IH (watch1 i gm x) H2 HI G) as [A B]. rewrite A, B.
    destruct (watch1_unch i gm x intf g) as [C D]; [left; congruence|]. rewrite C, D. auto.
Qed.

Lemma fold_unwatch_unch i l gm intf g : ~ In intf l \/ in_group g i = false ->
  g1 (fold_left (unwatch1 i) l gm) intf g = g1 gm intf g /\ g2 (fold_left (unwatch1 i) l gm) intf g = g2 gm intf g.
Proof.
  revert gm. induction l as [|x l IH]; intros gm H; cbn [fold_left]; [auto|].
  destruct (IH (unwatch1 i gm x)) as [A B]. { destruct H as [H|H]; [left; intros HI; apply H; right; exact HI|right; exact H]. }
  rewrite A, B. apply unwatch1_unch. destruct H as [H|H]; [left; intros ->; apply H; left; reflexivity|right; exact H].
Qed.

Lemma fold_unwatch_hit i l gm intf g : NoDup l -> In intf l -> in_group g i = true ->
  g1 (fold_left (unwatch1 i) l gm) intf g = g1 gm intf g - 1 /\
  g2 (fold_left (unwatch1 i) l gm) intf g = if g1 gm intf g - 1 =? 0 then g2 gm intf g - 1 else g2 gm intf g.
Proof.
  revert gm. induction l as [|x l IH]; intros gm ND HI G; [contradiction|]. cbn [fold_left]. inversion ND; subst.
  destruct (N.eq_dec x intf) as [->|Hne].
  - destruct (fold_unwatch_unch i l (unwatch1 i gm intf) intf g) as [A B]; [left; assumption|]. rewrite A, B.
    apply unwatch1_hit. exact G.
  - destruct HI as [E|HI]; [contradiction|]. destruct (IH (unwatch1 i gm x) H2 HI G) as [A B]. rewrite A, B.
    destruct (unwatch1_unch i gm x intf g) as [C D]; [left; congruence|]. rewrite C, D. auto.
Qed.

(* ---------- inc1 / dec1 keep the invariant ---------- *)
Lemma ndps_inc1 s i : ndps (inc1 i s) = ndps s. Proof. reflexivity. Qed.
Lemma ndps_dec1 s i : ndps (dec1 s i) = ndps s. Proof. reflexivity. Qed.

Lemma grp_inc1 s i intf g :
  grp (inc1 i s) intf g = if (1 <? rc s i + 1) then grp s intf g
                          else g1 (fold_left (watch1 i) (ndps s) (groups s, member s)) intf g.
Proof. unfold inc1, grp. cbn [groups]. destruct (1 <? rc s i + 1); reflexivity. Qed.
Lemma mem_inc1 s i intf g :
  mem (inc1 i s) intf g = if (1 <? rc s i + 1) then mem s intf g
                          else g2 (fold_left (watch1 i) (ndps s) (groups s, member s)) intf g.
Proof. unfold inc1, mem. cbn [member]. destruct (1 <? rc s i + 1); reflexivity. Qed.
Lemma grp_dec1 s i intf g :
  grp (dec1 s i) intf g = if (0 <? rc s i - 1) then grp s intf g
                          else g1 (fold_left (unwatch1 i) (ndps s) (groups s, member s)) intf g.
Proof. unfold dec1, grp. cbn [groups]. destruct (0 <? rc s i - 1); reflexivity. Qed.
Lemma mem_dec1 s i intf g :
  mem (dec1 s i) intf g = if (0 <? rc s i - 1) then mem s intf g
                          else g2 (fold_left (unwatch1 i) (ndps s) (groups s, member s)) intf g.
Proof. unfold dec1, mem. cbn [member]. destruct (0 <? rc s i - 1); reflexivity. Qed.

Lemma Fg_other s s' g j : rc s' j = rc s j -> Fg s' g j = Fg s g j.
Proof. unfold Fg. intros ->. reflexivity. Qed.

Lemma ndp_inv_inc1 s i : NoDup (ndps s) -> 0 <= rc s i -> ndp_inv s -> ndp_inv (inc1 i s).
Proof.
  intros ND Hrc [IG IM].
  assert (RC : forall j, rc (inc1 i s) j = if ip_eqb j i then rc s i + 1 else rc s j) by (intros; apply rc_inc1).
  assert (RCo : forall j, j <> i -> rc (inc1 i s) j = rc s j).
  { intros j Hj. rewrite RC. apply ip_eqb_neq in Hj. rewrite Hj. reflexivity. }
  assert (RCi : rc (inc1 i s) i = rc s i + 1) by (rewrite RC, ip_eqb_refl; reflexivity).
  (* the group counters, for every interface and group *)
  assert (G : forall intf g, In intf (ndps s) ->
            grp (inc1 i s) intf g = grp s intf g + (if (rc s i =? 0) && in_group g i then 1 else 0) /\
            mem (inc1 i s) intf g = if (rc s i =? 0) && in_group g i && (grp s intf g =? 0) then mem s intf g + 1 else mem s intf g).
  { intros intf g HI. rewrite grp_inc1, mem_inc1. destruct (1 <? rc s i + 1) eqn:E.
    - assert (rc s i =? 0 = false) as -> by lia. cbn. split; lia.
    - assert (rc s i =? 0 = true) as -> by lia. cbn [andb]. destruct (in_group g i) eqn:GI.
      + destruct (fold_watch_hit i (ndps s) (groups s, member s) intf g ND HI GI) as [A B]. rewrite A, B.
        unfold g1, g2, grp, mem. cbn [fst snd andb]. split; reflexivity.
      + destruct (fold_watch_unch i (ndps s) (groups s, member s) intf g) as [A B]; [right; exact GI|]. rewrite A, B.
        unfold g1, g2, grp, mem. cbn [fst snd andb]. split; lia. }
  split.
  - intros intf g U HI NDU CV. rewrite ndps_inc1 in HI. destruct (G intf g HI) as [-> _].
    assert (HiU : In i U) by (apply CV; rewrite RCi; lia).
    assert (CV0 : covers s U).
    { intros j Hj. destruct (ip_dec j i) as [->|Hne]; [exact HiU|]. apply CV. rewrite RCo by exact Hne. exact Hj. }
    rewrite (IG intf g U HI NDU CV0).
    rewrite (zsum_update (Fg s g) (Fg (inc1 i s) g) U i NDU HiU) by (intros j Hj; apply Fg_other, RCo, Hj).
    unfold Fg. rewrite RCi. destruct (in_group g i); destruct (rc s i =? 0) eqn:E;
      destruct (0 <? rc s i + 1) eqn:E1; destruct (0 <? rc s i) eqn:E2; cbn [andb]; lia.
  - intros intf g HI. rewrite ndps_inc1 in HI. destruct (G intf g HI) as [-> ->]. rewrite (IM intf g HI).
    destruct (in_group g i); destruct (rc s i =? 0) eqn:E; cbn [andb];
      destruct (grp s intf g =? 0) eqn:E1; destruct (0 <? grp s intf g) eqn:E2; cbn [andb];
      try destruct (0 <? grp s intf g + 1) eqn:E3; try destruct (0 <? grp s intf g + 0) eqn:E4; lia.
Qed.

Lemma ndp_inv_dec1 s i : NoDup (ndps s) -> 1 <= rc s i -> ndp_inv s -> ndp_inv (dec1 s i).
Proof.
  intros ND Hrc [IG IM].
  assert (RC : forall j, rc (dec1 s i) j = if ip_eqb j i then rc s i - 1 else rc s j) by (intros; apply rc_dec1).
  assert (RCo : forall j, j <> i -> rc (dec1 s i) j = rc s j).
  { intros j Hj. rewrite RC. apply ip_eqb_neq in Hj. rewrite Hj. reflexivity. }
  assert (RCi : rc (dec1 s i) i = rc s i - 1) by (rewrite RC, ip_eqb_refl; reflexivity).
  assert (G : forall intf g, In intf (ndps s) ->
            grp (dec1 s i) intf g = grp s intf g - (if (rc s i =? 1) && in_group g i then 1 else 0) /\
            mem (dec1 s i) intf g = if (rc s i =? 1) && in_group g i && (grp s intf g - 1 =? 0) then mem s intf g - 1 else mem s intf g).
  { intros intf g HI. rewrite grp_dec1, mem_dec1. destruct (0 <? rc s i - 1) eqn:E.
    - assert (rc s i =? 1 = false) as -> by lia. cbn. split; lia.
    - assert (rc s i =? 1 = true) as -> by lia. cbn [andb]. destruct (in_group g i) eqn:GI.
      + destruct (fold_unwatch_hit i (ndps s) (groups s, member s) intf g ND HI GI) as [A B]. rewrite A, B.
        unfold g1, g2, grp, mem. cbn [fst snd andb]. split; reflexivity.
      + destruct (fold_unwatch_unch i (ndps s) (groups s, member s) intf g) as [A B]; [right; exact GI|]. rewrite A, B.
        unfold g1, g2, grp, mem. cbn [fst snd andb]. split; lia. }
  split.
  - intros intf g U HI NDU CV. rewrite ndps_dec1 in HI. destruct (G intf g HI) as [-> _].
    destruct (in_dec ip_dec i U) as [HiU|HiU].
    + assert (CV0 : covers s U).
      { intros j Hj. destruct (ip_dec j i) as [->|Hne]; [exact HiU|]. apply CV. rewrite RCo by exact Hne. exact Hj. }
      rewrite (IG intf g U HI NDU CV0).
      rewrite (zsum_update (Fg s g) (Fg (dec1 s i) g) U i NDU HiU) by (intros j Hj; apply Fg_other, RCo, Hj).
      unfold Fg. rewrite RCi. destruct (in_group g i); destruct (rc s i =? 1) eqn:E;
        destruct (0 <? rc s i - 1) eqn:E1; destruct (0 <? rc s i) eqn:E2; cbn [andb]; lia.
    + assert (CV0 : covers s (i :: U)).
      { intros j Hj. destruct (ip_dec j i) as [->|Hne]; [left; reflexivity|]. right. apply CV. rewrite RCo by exact Hne. exact Hj. }
      assert (R0 : rc s i = 1).
      { destruct (Z.eq_dec (rc (dec1 s i) i) 0) as [E|E]; [lia|]. exfalso. apply HiU, CV, E. }
      rewrite (IG intf g (i :: U) HI (NoDup_cons _ HiU NDU) CV0). cbn [zsum].
      rewrite (zsum_notin (Fg s g) (Fg (dec1 s i) g) U i HiU) by (intros j Hj; apply Fg_other, RCo, Hj).
      unfold Fg at 1. rewrite R0. change (0 <? 1) with true. change (1 =? 1) with true.
      destruct (in_group g i); cbn [andb]; lia.
  - intros intf g HI. rewrite ndps_dec1 in HI. destruct (G intf g HI) as [-> ->]. rewrite (IM intf g HI).
    destruct (in_group g i); destruct (rc s i =? 1) eqn:E; cbn [andb];
      destruct (grp s intf g - 1 =? 0) eqn:E1; destruct (0 <? grp s intf g) eqn:E2; cbn [andb];
      try destruct (0 <? grp s intf g - 1) eqn:E3; try destruct (0 <? grp s intf g - 0) eqn:E4; lia.
Qed.

Lemma ndps_fold_dec1 l s : ndps (fold_left dec1 l s) = ndps s.
Proof. revert s. induction l as [|i l IH]; intros s; cbn; [reflexivity|]. rewrite IH. reflexivity. Qed.

Lemma ndp_inv_fold_dec1 l s : NoDup l -> (forall i, In i l -> 1 <= rc s i) -> NoDup (ndps s) ->
  ndp_inv s -> ndp_inv (fold_left dec1 l s).
Proof.
  revert s. induction l as [|i l IH]; intros s ND H NDn I; cbn [fold_left]; [exact I|].
  inversion ND; subst. apply IH; [assumption| |rewrite ndps_dec1; exact NDn|].
  - intros j Hj. rewrite rc_dec1. destruct (ip_eqb j i) eqn:E.
    + apply ip_eqb_eq in E. subst. contradiction.
    + apply H. right. exact Hj.
  - apply ndp_inv_dec1; [exact NDn|apply H; left; reflexivity|exact I].
Qed.

(* ---------- the whole invariant over histories ---------- *)
Definition full_inv (s : st) : Prop := inv s /\ NoDup (ndps s) /\ ndp_inv s.

Lemma ndp_inv_init a n : ndp_inv (init a n).
Proof.
  split.
  - intros intf g U _ _ _. unfold grp, init, zget. cbn. symmetry.
    induction U as [|j U IH]; cbn; [reflexivity|]. rewrite IH. unfold Fg, rc, zget. cbn. reflexivity.
  - intros intf g _. reflexivity.
Qed.

Lemma full_inv_init a n : NoDup n -> full_inv (init a n).
Proof. intros ND. split; [apply inv_init|]. split; [exact ND|apply ndp_inv_init]. Qed.

Lemma full_inv_set name a s : full_inv s -> full_inv (set_balancer name a s).
Proof.
  intros [I [ND NI]]. split; [apply inv_set_balancer; exact I|].
  unfold set_balancer. destruct (existsb (same_ip a) (cur_advs s name)).
  - split; [exact ND|]. eapply ndp_inv_ext; [| | | |exact NI]; reflexivity.
  - split; [exact ND|]. apply ndp_inv_inc1; [exact ND|apply (rc_nonneg s _ I)|].
    eapply ndp_inv_ext; [| | | |exact NI]; reflexivity.
Qed.

Lemma full_inv_delete name s : full_inv s -> full_inv (delete_balancer name s).
Proof.
  intros [I [ND NI]]. split; [apply inv_delete_balancer; exact I|].
  unfold delete_balancer. destruct (lookup name (ips s)) as [advs|] eqn:L; [|split; assumption].
  split; [rewrite ndps_fold_dec1; exact ND|].
  apply ndp_inv_fold_dec1.
  - eapply inv_once; [exact I|apply lookup_in; exact L].
  - intros i Hi. change (rc (with_ips s (remove name (ips s))) i) with (rc s i). rewrite (inv_rc _ I).
    assert (0 < count (ips s) i); [|lia]. eapply count_ex_pos; [apply lookup_in; exact L|apply holds_ip_in; exact Hi].
  - exact ND.
  - eapply ndp_inv_ext; [| | | |exact NI]; reflexivity.
Qed.

Lemma full_inv_run us s : full_inv s -> full_inv (run us s).
Proof.
  revert s. induction us as [|u us IH]; intros s I; cbn; [exact I|]. apply IH.
  destruct u; cbn; [apply full_inv_set|apply full_inv_delete]; exact I.
Qed.

(* the distinct announced addresses *)
Definition announced (s : st) : list ip := nodup ip_dec (map a_ip (all_advs s)).

Lemma announced_rc s i : inv s -> (In i (announced s) <-> 0 < rc s i).
Proof.
  intros I. unfold announced. rewrite nodup_In, in_map_iff, (rc_pos_iff _ _ I). split.
  - intros [a [E H]]. apply (holds_all_advs _ _ I) in H. destruct H as [svc H]. exists svc, a. auto.
  - intros [svc [a [H E]]]. exists a. split; [exact E|]. apply (holds_all_advs _ _ I). eauto.
Qed.

Lemma groups_balanced s intf g : full_inv s -> In intf (ndps s) ->
  grp s intf g = Z.of_nat (length (filter (in_group g) (announced s))) /\
  mem s intf g = if 0 <? grp s intf g then 1 else 0.
Proof.
  intros [I [ND [IG IM]]] HI. split; [|apply IM; exact HI].
  rewrite (IG intf g (announced s) HI).
  - apply zsum_filter. intros i Hi. apply (announced_rc _ _ I) in Hi. unfold Fg.
    assert (0 <? rc s i = true) as -> by lia. reflexivity.
  - apply NoDup_nodup.
  - intros i Hi. apply (announced_rc _ _ I). pose proof (rc_nonneg s i I). lia.
Qed.
