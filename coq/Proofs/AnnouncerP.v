(* Lemmas about Model/Announcer.v, part 1: association lists, the reference
   count invariant, shouldAnnounce, withdraw / announce, ARP decision, atomicity. *)
From Coq Require Import List NArith ZArith Bool Lia ZifyN ZifyNat ZifyBool Permutation.
From Verif Require Import Model.Net Proofs.NetP Model.Announcer.
Import ListNotations.
Local Open Scope Z_scope.

(* ---------- equality tests ---------- *)
Lemma ip_eqb_refl i : ip_eqb i i = true.
Proof. apply ip_eqb_eq. reflexivity. Qed.
Lemma ip_eqb_neq a b : ip_eqb a b = false <-> a <> b.
Proof. rewrite <- ip_eqb_eq. destruct (ip_eqb a b); split; congruence. Qed.
Lemma ip_eqb_sym a b : ip_eqb a b = ip_eqb b a.
Proof.
  destruct (ip_eqb a b) eqn:E.
  - apply ip_eqb_eq in E. subst. symmetry. apply ip_eqb_refl.
  - apply ip_eqb_neq in E. symmetry. apply ip_eqb_neq. congruence.
Qed.
Definition ip_dec (a b : ip) : {a = b} + {a <> b}.
Proof. destruct (ip_eqb a b) eqn:E; [left; apply ip_eqb_eq; exact E | right; apply ip_eqb_neq; exact E]. Defined.

Lemma pair_eqb_eq a b : pair_eqb a b = true <-> a = b.
Proof.
  unfold pair_eqb. rewrite andb_true_iff, !N.eqb_eq. destruct a, b; cbn. split.
  - intros [-> ->]. reflexivity.
  - intros E. inversion E. auto.
Qed.
Lemma pair_eqb_refl a : pair_eqb a a = true.
Proof. apply pair_eqb_eq. reflexivity. Qed.
Lemma pair_eqb_neq a b : pair_eqb a b = false <-> a <> b.
Proof. rewrite <- pair_eqb_eq. destruct (pair_eqb a b); split; congruence. Qed.

(* ---------- zget / zset ---------- *)
Lemma zget_zset {K} (eqb : K -> K -> bool) k k' v m :
  zget eqb k (zset k' v m) = if eqb k k' then v else zget eqb k m.
Proof. unfold zget, zset. cbn. destruct (eqb k k'); reflexivity. Qed.

Lemma rc_zset s i j v :
  zget ip_eqb i (zset j v (refcnt s)) = if ip_eqb i j then v else rc s i.
Proof. apply zget_zset. Qed.

(* ---------- the ips map ---------- *)
Definition keys (m : list (N * list adv)) : list N := map fst m.

Lemma lookup_in k m v : lookup k m = Some v -> In (k, v) m.
Proof.
  unfold lookup. destruct (find _ m) eqn:E; [|discriminate]. intros H. inversion H; subst.
  apply find_some in E. destruct E as [E1 E2]. apply N.eqb_eq in E2. destruct p; cbn in *. subst. exact E1.
Qed.

Lemma in_lookup k m v : NoDup (keys m) -> In (k, v) m -> lookup k m = Some v.
Proof.
  unfold lookup. induction m as [|[k' v'] m IH]; cbn; intros ND HI; [contradiction|].
  inversion ND; subst. destruct HI as [E|HI].
  - inversion E; subst. rewrite N.eqb_refl. reflexivity.
  - destruct (N.eqb k k') eqn:E.
    + apply N.eqb_eq in E. subst. exfalso. apply H1. change k' with (fst (k', v)). apply in_map. exact HI.
    + apply IH; assumption.
Qed.

Lemma lookup_none k m : lookup k m = None -> forall v, ~ In (k, v) m.
Proof.
  unfold lookup. destruct (find _ m) eqn:E; [discriminate|]. intros _ v HI.
  eapply find_none in E; [|exact HI]. cbn in E. rewrite N.eqb_refl in E. discriminate.
Qed.

Lemma in_remove k m k' v : In (k', v) (remove k m) <-> k' <> k /\ In (k', v) m.
Proof.
  unfold remove. rewrite filter_In. cbn. rewrite negb_true_iff, N.eqb_neq. intuition congruence.
Qed.

Lemma keys_remove_in k m x : In x (keys (remove k m)) -> x <> k /\ In x (keys m).
Proof.
  unfold keys. rewrite in_map_iff. intros [[k' v] [E HI]]. cbn in E. subst.
  apply in_remove in HI. destruct HI as [H1 H2]. split; [exact H1|].
  change x with (fst (x, v)). apply in_map. exact H2.
Qed.

Lemma nodup_remove k m : NoDup (keys m) -> NoDup (keys (remove k m)).
Proof.
  unfold keys, remove. induction m as [|[k' v] m IH]; cbn; intros ND; [constructor|].
  inversion ND; subst. destruct (N.eqb k k'); cbn; [apply IH; assumption|].
  constructor; [|apply IH; assumption].
  intros HI. apply H1. apply (keys_remove_in k m k'). exact HI.
Qed.

Lemma nodup_insert k v m : NoDup (keys m) -> NoDup (keys (insert k v m)).
Proof.
  intros ND. unfold insert. cbn. constructor; [|apply nodup_remove; exact ND].
  intros HI. apply keys_remove_in in HI. destruct HI as [H _]. congruence.
Qed.

Lemma in_insert k v m k' v' : In (k', v') (insert k v m) <-> (k' = k /\ v' = v) \/ (k' <> k /\ In (k', v') m).
Proof.
  unfold insert. cbn. rewrite in_remove. split.
  - intros [E|H]; [left; inversion E; auto | right; exact H].
  - intros [[-> ->]|H]; [left; reflexivity | right; exact H].
Qed.

(* ---------- counting services that hold an address ---------- *)
Definition holds_ip (advs : list adv) (i : ip) : bool := existsb (fun a => ip_eqb (a_ip a) i) advs.
Definition count (m : list (N * list adv)) (i : ip) : Z :=
  Z.of_nat (length (filter (fun p => holds_ip (snd p) i) m)).

Lemma holds_ip_in advs i : holds_ip advs i = true <-> In i (map a_ip advs).
Proof.
  unfold holds_ip. rewrite existsb_exists, in_map_iff. split.
  - intros [a [H1 H2]]. apply ip_eqb_eq in H2. exists a. auto.
  - intros [a [H1 H2]]. exists a. split; [exact H2|]. apply ip_eqb_eq. exact H1.
Qed.

Lemma holds_ip_snoc l a i : holds_ip (l ++ [a]) i = holds_ip l i || ip_eqb (a_ip a) i.
Proof. unfold holds_ip. rewrite existsb_app. cbn. rewrite orb_false_r. reflexivity. Qed.

Lemma count_nonneg m i : 0 <= count m i.
Proof. unfold count. lia. Qed.

Lemma count_cons k v m i : count ((k, v) :: m) i = Z.b2z (holds_ip v i) + count m i.
Proof.
  unfold count. cbn [filter snd]. destruct (holds_ip v i); cbn [length Z.b2z]; [rewrite Nat2Z.inj_succ|]; lia.
Qed.

Lemma count_remove_absent k m i : ~ In k (keys m) -> count (remove k m) i = count m i.
Proof.
  unfold remove, keys. induction m as [|[k' v] m IH]; cbn; intros H; [reflexivity|].
  destruct (N.eqb k k') eqn:E.
  - apply N.eqb_eq in E. subst. exfalso. apply H. left. reflexivity.
  - cbn [negb filter]. rewrite !count_cons. rewrite IH; [reflexivity|]. intros HI. apply H. right. exact HI.
Qed.

(* split off the entry of one service *)
Lemma count_split k m i : NoDup (keys m) ->
  count m i = Z.b2z (holds_ip (match lookup k m with Some l => l | None => [] end) i) + count (remove k m) i.
Proof.
  unfold keys. induction m as [|[k' v] m IH]; intros ND; [reflexivity|].
  inversion ND; subst. unfold lookup, remove. cbn [find filter fst snd].
  destruct (N.eqb k k') eqn:E.
  - apply N.eqb_eq in E. subst. cbn [negb]. rewrite count_cons.
    fold (remove k' m). rewrite count_remove_absent; [reflexivity|exact H1].
  - cbn [negb]. rewrite !count_cons. fold (remove k m). specialize (IH H2). unfold lookup in IH.
    rewrite IH. lia.
Qed.

Lemma count_pos_ex m i : 0 < count m i -> exists k advs, In (k, advs) m /\ holds_ip advs i = true.
Proof.
  unfold count. intros H. destruct (filter (fun p => holds_ip (snd p) i) m) as [|[k v] r] eqn:E; [cbn in H; lia|].
  assert (HI : In (k, v) (filter (fun p => holds_ip (snd p) i) m)) by (rewrite E; left; reflexivity).
  apply filter_In in HI. exists k, v. exact HI.
Qed.

Lemma count_ex_pos m i k advs : In (k, advs) m -> holds_ip advs i = true -> 0 < count m i.
Proof.
  intros HI Hh. unfold count.
  assert (HF : In (k, advs) (filter (fun p => holds_ip (snd p) i) m)) by (apply filter_In; auto).
  destruct (filter _ m); [contradiction|]. cbn [length]. lia.
Qed.

(* ---------- override ---------- *)
Lemma override_ips a l : map a_ip (override a l) = map a_ip l.
Proof.
  induction l as [|b r IH]; [reflexivity|]. cbn. unfold same_ip. destruct (ip_eqb (a_ip a) (a_ip b)) eqn:E; cbn.
  - apply ip_eqb_eq in E. congruence.
  - rewrite IH. reflexivity.
Qed.

Lemma holds_ip_override a l i : holds_ip (override a l) i = holds_ip l i.
Proof.
  destruct (holds_ip (override a l) i) eqn:E; symmetry.
  - apply holds_ip_in. rewrite <- (override_ips a). apply holds_ip_in. exact E.
  - destruct (holds_ip l i) eqn:E2; [|reflexivity]. apply holds_ip_in in E2.
    rewrite <- (override_ips a) in E2. apply holds_ip_in in E2. congruence.
Qed.

Lemma override_in a l : existsb (same_ip a) l = true -> In a (override a l).
Proof.
  induction l as [|b r IH]; cbn; [discriminate|]. destruct (same_ip a b); cbn; [auto|]. intros H. right. apply IH. exact H.
Qed.

Lemma override_in_inv a l b : In b (override a l) -> b = a \/ In b l.
Proof.
  induction l as [|c r IH]; cbn; [contradiction|]. destruct (same_ip a c); cbn.
  - intros [E|H]; [left; congruence | right; right; exact H].
  - intros [E|H]; [right; left; exact E|]. destruct (IH H); [left|right; right]; assumption.
Qed.

(* with distinct addresses the overridden entry is the only one with that address *)
Lemma override_unique a l b : NoDup (map a_ip l) -> existsb (same_ip a) l = true ->
  In b (override a l) -> a_ip b = a_ip a -> b = a.
Proof.
  induction l as [|c r IH]; cbn; [discriminate|]. intros ND. inversion ND; subst.
  unfold same_ip at 1 3. destruct (ip_eqb (a_ip a) (a_ip c)) eqn:E; cbn.
  - intros _ [E2|H] Hip; [congruence|]. apply ip_eqb_eq in E. exfalso. apply H1. rewrite <- E, <- Hip. apply in_map. exact H.
  - intros Hex [E2|H] Hip.
    + subst. apply ip_eqb_neq in E. congruence.
    + apply IH; assumption.
Qed.

Lemma existsb_same_ip a l : existsb (same_ip a) l = holds_ip l (a_ip a).
Proof.
  unfold holds_ip, same_ip. induction l as [|b r IH]; [reflexivity|]. cbn. rewrite IH, (ip_eqb_sym (a_ip a)). reflexivity.
Qed.

Lemma NoDup_app_one {A} (l : list A) x : NoDup l -> ~ In x l -> NoDup (l ++ [x]).
Proof.
  induction l as [|y l IH]; cbn; intros ND H; [constructor; [intros []|constructor]|].
  inversion ND; subst. constructor.
  - rewrite in_app_iff. cbn. intuition.
  - apply IH; [assumption|]. intros HI. apply H. right. exact HI.
Qed.

(* ---------- the reference-count invariant ---------- *)
Record inv (s : st) : Prop := {
  inv_keys : NoDup (keys (ips s));
  inv_once : forall k advs, In (k, advs) (ips s) -> NoDup (map a_ip advs);
  inv_rc : forall i, rc s i = count (ips s) i }.

Lemma inv_init a n : inv (init a n).
Proof. split; cbn; [constructor|contradiction|reflexivity]. Qed.

Lemma cur_advs_nodup s name : inv s -> NoDup (map a_ip (cur_advs s name)).
Proof.
  intros I. unfold cur_advs. destruct (lookup name (ips s)) eqn:E; [|constructor].
  apply lookup_in in E. eapply inv_once; eauto.
Qed.

Lemma rc_inc1 s i j : rc (inc1 i s) j = if ip_eqb j i then rc s i + 1 else rc s j.
Proof. unfold inc1, rc at 1. cbn [refcnt]. apply rc_zset. Qed.
Lemma ips_inc1 s i : ips (inc1 i s) = ips s.
Proof. reflexivity. Qed.
Lemma rc_dec1 s i j : rc (dec1 s i) j = if ip_eqb j i then rc s i - 1 else rc s j.
Proof. unfold dec1, rc at 1. cbn [refcnt]. apply rc_zset. Qed.
Lemma ips_dec1 s i : ips (dec1 s i) = ips s.
Proof. reflexivity. Qed.

Lemma ips_fold_dec1 l s : ips (fold_left dec1 l s) = ips s.
Proof. revert s. induction l as [|i l IH]; intros s; cbn; [reflexivity|]. rewrite IH. reflexivity. Qed.

Definition memb (i : ip) (l : list ip) : bool := existsb (ip_eqb i) l.
Lemma memb_in i l : memb i l = true <-> In i l.
Proof.
  unfold memb. rewrite existsb_exists. split.
  - intros [x [H1 H2]]. apply ip_eqb_eq in H2. subst. exact H1.
  - intros H. exists i. split; [exact H|apply ip_eqb_refl].
Qed.

Lemma rc_fold_dec1 l s j : NoDup l -> rc (fold_left dec1 l s) j = rc s j - Z.b2z (memb j l).
Proof.
  revert s. induction l as [|i l IH]; intros s ND; cbn [fold_left memb existsb]; [cbn; lia|].
  inversion ND; subst. rewrite IH by assumption. rewrite rc_dec1. fold (memb j l).
  destruct (ip_eqb j i) eqn:E; cbn [orb].
  - apply ip_eqb_eq in E. subst. destruct (memb i l) eqn:M; [apply memb_in in M; contradiction|]. cbn. lia.
  - cbn. lia.
Qed.

Lemma inv_set_balancer name a s : inv s -> inv (set_balancer name a s).
Proof.
  intros I. pose proof (inv_keys _ I) as K. unfold set_balancer.
  pose proof (count_split name (ips s)) as CS.
  destruct (existsb (same_ip a) (cur_advs s name)) eqn:E.
  - split; cbn [ips with_ips].
    + apply nodup_insert. exact K.
    + intros k advs HI. apply in_insert in HI. destruct HI as [[-> ->]|[_ HI]].
      * rewrite override_ips. apply cur_advs_nodup. exact I.
      * eapply inv_once; eauto.
    + intros i. unfold rc. cbn [refcnt with_ips]. fold (rc s i). rewrite (inv_rc _ I).
      unfold insert. rewrite count_cons, holds_ip_override. rewrite (CS i K). reflexivity.
  - split.
    + rewrite ips_inc1. cbn [ips with_ips]. apply nodup_insert. exact K.
    + rewrite ips_inc1. cbn [ips with_ips]. intros k advs HI. apply in_insert in HI. destruct HI as [[-> ->]|[_ HI]].
      * rewrite map_app. cbn. apply NoDup_app_one. { apply cur_advs_nodup. exact I. }
        rewrite existsb_same_ip in E. intros HI. apply holds_ip_in in HI. congruence.
      * eapply inv_once; eauto.
    + intros i. rewrite rc_inc1, ips_inc1. cbn [ips with_ips]. unfold rc at 1 2. cbn [refcnt with_ips].
      fold (rc s (a_ip a)). fold (rc s i). rewrite !(inv_rc _ I).
      unfold insert. rewrite count_cons. rewrite (CS i K), (CS (a_ip a) K).
      fold (cur_advs s name). rewrite existsb_same_ip in E.
      rewrite holds_ip_snoc. rewrite (ip_eqb_sym (a_ip a) i).
      destruct (ip_eqb i (a_ip a)) eqn:Ei.
      * apply ip_eqb_eq in Ei. subst i. rewrite E. cbn [orb Z.b2z]. lia.
      * rewrite orb_false_r. reflexivity.
Qed.

Lemma count_remove k m i advs : NoDup (keys m) -> lookup k m = Some advs ->
  count (remove k m) i = count m i - Z.b2z (holds_ip advs i).
Proof. intros ND L. rewrite (count_split k m i ND), L. lia. Qed.

Lemma inv_delete_balancer name s : inv s -> inv (delete_balancer name s).
Proof.
  intros I. pose proof (inv_keys _ I) as K. unfold delete_balancer.
  destruct (lookup name (ips s)) as [advs|] eqn:L; [|exact I].
  assert (ND : NoDup (map a_ip advs)) by (eapply inv_once; [exact I|apply lookup_in; exact L]).
  split.
  - rewrite ips_fold_dec1. cbn [ips with_ips]. apply nodup_remove. exact K.
  - rewrite ips_fold_dec1. cbn [ips with_ips]. intros k l HI. apply in_remove in HI. destruct HI as [_ HI].
    eapply inv_once; eauto.
  - intros i. rewrite rc_fold_dec1 by exact ND. rewrite ips_fold_dec1. cbn [ips with_ips].
    unfold rc. cbn [refcnt with_ips]. fold (rc s i). rewrite (inv_rc _ I).
    rewrite (count_remove name (ips s) i advs K L).
    replace (memb i (map a_ip advs)) with (holds_ip advs i); [reflexivity|].
    destruct (holds_ip advs i) eqn:E; symmetry.
    + apply memb_in. apply holds_ip_in. exact E.
    + destruct (memb i (map a_ip advs)) eqn:M; [|reflexivity]. apply memb_in, holds_ip_in in M. congruence.
Qed.

Lemma inv_apply s u : inv s -> inv (apply_upd s u).
Proof. destruct u; cbn; [apply inv_set_balancer|apply inv_delete_balancer]. Qed.

Lemma inv_run us s : inv s -> inv (run us s).
Proof. revert s. induction us as [|u us IH]; intros s I; cbn; [exact I|]. apply IH, inv_apply, I. Qed.

(* ---------- who holds what ---------- *)
Definition holds (s : st) (svc : N) (a : adv) : Prop :=
  exists advs, lookup svc (ips s) = Some advs /\ In a advs.

Lemma in_all_advs s a : In a (all_advs s) <-> exists k advs, In (k, advs) (ips s) /\ In a advs.
Proof.
  unfold all_advs. rewrite in_concat. split.
  - intros [l [H1 H2]]. apply in_map_iff in H1. destruct H1 as [[k advs] [E H1]]. cbn in E. subst. eauto.
  - intros [k [advs [H1 H2]]]. exists advs. split; [|exact H2]. change advs with (snd (k, advs)). apply in_map. exact H1.
Qed.

Lemma holds_all_advs s a : inv s -> (In a (all_advs s) <-> exists svc, holds s svc a).
Proof.
  intros I. rewrite in_all_advs. unfold holds. split.
  - intros [k [advs [H1 H2]]]. exists k, advs. split; [|exact H2]. apply in_lookup; [apply (inv_keys _ I)|exact H1].
  - intros [k [advs [H1 H2]]]. exists k, advs. split; [apply lookup_in; exact H1|exact H2].
Qed.

(* ---------- shouldAnnounce ---------- *)
Lemma scan_none i intf l f :
  scan i intf l f = DNone <-> exists a, In a l /\ a_ip a = i /\ match_intf a intf = true.
Proof.
  revert f. induction l as [|a r IH]; intros f; cbn.
  - split; [destruct f; discriminate | intros [a [[] _]]].
  - destruct (ip_eqb (a_ip a) i) eqn:E.
    + apply ip_eqb_eq in E. destruct (match_intf a intf) eqn:M.
      * split; [intros _; exists a; auto | reflexivity].
      * rewrite IH. split; intros [b [H1 [H2 H3]]]; [exists b; cbn; auto|].
        destruct H1 as [->|H1]; [congruence|exists b; auto].
    + rewrite IH. apply ip_eqb_neq in E. split; intros [b [H1 [H2 H3]]]; [exists b; cbn; auto|].
      destruct H1 as [->|H1]; [congruence|exists b; auto].
Qed.

Lemma scan_announce_ip i intf l f :
  scan i intf l f = DAnnounceIP <-> f = false /\ forall a, In a l -> a_ip a <> i.
Proof.
  revert f. induction l as [|a r IH]; intros f; cbn.
  - destruct f; (split; [try discriminate|]).
    + intros [H _]. discriminate.
    + intros _. split; [reflexivity|intros a []].
    + reflexivity.
  - destruct (ip_eqb (a_ip a) i) eqn:E.
    + apply ip_eqb_eq in E. destruct (match_intf a intf).
      * split; [discriminate|]. intros [_ H]. exfalso. apply (H a); auto.
      * rewrite IH. split; [intros [H _]; discriminate|]. intros [_ H]. exfalso. apply (H a); auto.
    + apply ip_eqb_neq in E. rewrite IH. split; intros [H1 H2]; (split; [exact H1|]).
      * intros b [->|Hb]; auto.
      * intros b Hb. apply H2. auto.
Qed.

Lemma scan_range i intf l f :
  scan i intf l f = DNone \/ scan i intf l f = DAnnounceIP \/ scan i intf l f = DNotMatchIntf.
Proof.
  revert f. induction l as [|a r IH]; intros f; cbn; [destruct f; auto|].
  destruct (ip_eqb (a_ip a) i); [destruct (match_intf a intf)|]; auto.
Qed.

(* the verdict depends only on the set of advertisements (map iteration order is irrelevant) *)
Lemma scan_set_ext i intf l l' :
  (forall a, In a l <-> In a l') -> scan i intf l false = scan i intf l' false.
Proof.
  intros H.
  destruct (scan_range i intf l false) as [E|[E|E]]; rewrite E; symmetry.
  - apply scan_none. apply scan_none in E. destruct E as [a [H1 H2]]. exists a. split; [apply H; exact H1|exact H2].
  - apply scan_announce_ip. apply scan_announce_ip in E. destruct E as [_ E]. split; [reflexivity|].
    intros a Ha. apply E, H, Ha.
  - destruct (scan_range i intf l' false) as [E'|[E'|E']]; [| |exact E']; exfalso.
    + apply scan_none in E'. destruct E' as [a [H1 H2]].
      assert (X : scan i intf l false = DNone) by (apply scan_none; exists a; split; [apply H; exact H1|exact H2]). congruence.
    + apply scan_announce_ip in E'. destruct E' as [_ E'].
      assert (X : scan i intf l false = DAnnounceIP) by (apply scan_announce_ip; split; [reflexivity|]; intros a Ha; apply E', H, Ha). congruence.
Qed.

Lemma answer_iff_raw s i intf :
  should_announce s i intf = DNone <->
  exists k advs a, In (k, advs) (ips s) /\ In a advs /\ a_ip a = i /\ match_intf a intf = true.
Proof.
  unfold should_announce. rewrite scan_none. split.
  - intros [a [H1 H2]]. apply in_all_advs in H1. destruct H1 as [k [advs [H3 H4]]]. exists k, advs, a. auto.
  - intros [k [advs [a [H1 [H2 H3]]]]]. exists a. split; [|exact H3]. apply in_all_advs. eauto.
Qed.

Lemma answer_iff s i intf : inv s ->
  (should_announce s i intf = DNone <-> exists svc a, holds s svc a /\ a_ip a = i /\ match_intf a intf = true).
Proof.
  intros I. unfold should_announce. rewrite scan_none. split.
  - intros [a [H1 H2]]. apply (holds_all_advs _ _ I) in H1. destruct H1 as [svc H1]. exists svc, a. auto.
  - intros [svc [a [H1 H2]]]. exists a. split; [|exact H2]. apply (holds_all_advs _ _ I). eauto.
Qed.

Lemma not_held_iff s i intf : inv s ->
  (should_announce s i intf = DAnnounceIP <-> forall svc a, holds s svc a -> a_ip a <> i).
Proof.
  intros I. unfold should_announce. rewrite scan_announce_ip. split.
  - intros [_ H] svc a Hh. apply H. apply (holds_all_advs _ _ I). eauto.
  - intros H. split; [reflexivity|]. intros a Ha. apply (holds_all_advs _ _ I) in Ha. destruct Ha as [svc Ha]. eapply H; eauto.
Qed.

(* refcount zero <-> nobody holds the address *)
Lemma rc_pos_iff s i : inv s -> (0 < rc s i <-> exists svc a, holds s svc a /\ a_ip a = i).
Proof.
  intros I. rewrite (inv_rc _ I). split.
  - intros H. apply count_pos_ex in H. destruct H as [k [advs [H1 H2]]].
    apply holds_ip_in, in_map_iff in H2. destruct H2 as [a [H2 H3]].
    exists k, a. split; [|exact H2]. exists advs. split; [|exact H3]. apply in_lookup; [apply (inv_keys _ I)|exact H1].
  - intros [svc [a [[advs [H1 H2]] H3]]]. eapply count_ex_pos; [apply lookup_in; exact H1|].
    apply holds_ip_in. subst i. apply in_map. exact H2.
Qed.

Lemma rc_nonneg s i : inv s -> 0 <= rc s i.
Proof. intros I. rewrite (inv_rc _ I). apply count_nonneg. Qed.

(* ---------- effect of the two updates on [holds] ---------- *)
Lemma holds_delete name s svc a : inv s ->
  (holds (delete_balancer name s) svc a <-> svc <> name /\ holds s svc a).
Proof.
  intros I. pose proof (inv_keys _ I) as K.
  pose proof (inv_keys _ (inv_delete_balancer name s I)) as K'.
  unfold holds, delete_balancer in *. destruct (lookup name (ips s)) as [advs0|] eqn:L.
  - rewrite ips_fold_dec1 in *. cbn [ips with_ips] in *. split.
    + intros [advs [H1 H2]]. apply lookup_in, in_remove in H1. destruct H1 as [H0 H1]. split; [exact H0|].
      exists advs. split; [apply in_lookup; assumption|exact H2].
    + intros [H0 [advs [H1 H2]]]. exists advs. split; [|exact H2]. apply in_lookup; [exact K'|].
      apply in_remove. split; [exact H0|apply lookup_in; exact H1].
  - split; [|intros [_ H]; exact H]. intros [advs [H1 H2]]. split; [|eauto]. intros ->. congruence.
Qed.

Lemma lookup_insert_same k v m : lookup k (insert k v m) = Some v.
Proof. unfold lookup, insert. cbn. rewrite N.eqb_refl. reflexivity. Qed.

Lemma lookup_insert_other k k' v m : NoDup (keys m) -> k' <> k -> lookup k' (insert k v m) = lookup k' m.
Proof.
  intros ND Hne. destruct (lookup k' m) as [l|] eqn:L.
  - apply in_lookup; [apply nodup_insert; exact ND|]. apply in_insert. right. split; [exact Hne|apply lookup_in; exact L].
  - destruct (lookup k' (insert k v m)) as [l|] eqn:L2; [|reflexivity]. exfalso.
    apply lookup_in, in_insert in L2. destruct L2 as [[H _]|[_ H]]; [congruence|]. eapply lookup_none; eauto.
Qed.

Lemma ips_set_balancer name a s :
  ips (set_balancer name a s) =
  insert name (if existsb (same_ip a) (cur_advs s name) then override a (cur_advs s name) else cur_advs s name ++ [a]) (ips s).
Proof. unfold set_balancer. destruct (existsb (same_ip a) (cur_advs s name)); reflexivity. Qed.

Lemma holds_set_other name a s svc b : inv s -> svc <> name ->
  (holds (set_balancer name a s) svc b <-> holds s svc b).
Proof.
  intros I Hne. unfold holds. rewrite ips_set_balancer, lookup_insert_other; [reflexivity|apply (inv_keys _ I)|exact Hne].
Qed.

Lemma holds_set_self name a s : holds (set_balancer name a s) name a.
Proof.
  unfold holds. rewrite ips_set_balancer, lookup_insert_same. eexists. split; [reflexivity|].
  destruct (existsb (same_ip a) (cur_advs s name)) eqn:E; [apply override_in; exact E|].
  apply in_or_app. right. left. reflexivity.
Qed.

(* after (re-)announcing, the service's only advertisement of that address is the new one *)
Lemma holds_set_self_unique name a s b : inv s ->
  holds (set_balancer name a s) name b -> a_ip b = a_ip a -> b = a.
Proof.
  intros I [advs [H1 H2]] Hip. rewrite ips_set_balancer, lookup_insert_same in H1. inversion H1; subst advs; clear H1.
  destruct (existsb (same_ip a) (cur_advs s name)) eqn:E.
  - eapply override_unique; eauto. apply cur_advs_nodup. exact I.
  - apply in_app_or in H2. destruct H2 as [H2|[H2|[]]]; [|congruence]. exfalso.
    rewrite existsb_same_ip in E. assert (X : holds_ip (cur_advs s name) (a_ip a) = true); [|congruence].
    apply holds_ip_in. rewrite <- Hip. apply in_map. exact H2.
Qed.

(* other addresses of the same service are untouched *)
Lemma holds_set_self_other name a s b : a_ip b <> a_ip a ->
  (holds (set_balancer name a s) name b <-> holds s name b).
Proof.
  intros Hne. unfold holds. rewrite ips_set_balancer, lookup_insert_same. unfold cur_advs.
  destruct (lookup name (ips s)) as [cur|] eqn:L.
  - split.
    + intros [advs [H1 H2]]. inversion H1; subst advs; clear H1. exists cur. split; [reflexivity|].
      destruct (existsb (same_ip a) cur).
      * apply override_in_inv in H2. destruct H2 as [->|H2]; [congruence|exact H2].
      * apply in_app_or in H2. destruct H2 as [H2|[->|[]]]; [exact H2|congruence].
    + intros [advs [H1 H2]]. inversion H1; subst advs; clear H1. eexists. split; [reflexivity|].
      destruct (existsb (same_ip a) cur) eqn:E.
      * clear E L. induction cur as [|c r IH]; [contradiction|]. cbn. unfold same_ip at 1.
        destruct (ip_eqb (a_ip a) (a_ip c)) eqn:E2.
        -- apply ip_eqb_eq in E2. destruct H2 as [->|H2]; [congruence|right; exact H2].
        -- destruct H2 as [->|H2]; [left; reflexivity|right; apply IH; exact H2].
      * apply in_or_app. left. exact H2.
  - split.
    + intros [advs [H1 H2]]. inversion H1; subst advs; clear H1. cbn in H2. destruct H2 as [->|[]]. congruence.
    + intros [advs [H1 _]]. discriminate.
Qed.

(* ---------- ARP / NDP decision ---------- *)
Lemma arp_reply_iff s intf mac op dst t :
  arp_process s intf mac op dst t = DNone <->
  op = 1%N /\ (dst = bcast \/ dst = mac) /\ should_announce s t intf = DNone.
Proof.
  unfold arp_process. destruct (N.eqb op 1) eqn:E1; cbn [negb].
  - apply N.eqb_eq in E1. destruct (N.eqb dst bcast) eqn:E2; cbn [negb andb].
    + apply N.eqb_eq in E2. intuition.
    + destruct (N.eqb dst mac) eqn:E3; cbn [negb].
      * apply N.eqb_eq in E3. intuition.
      * apply N.eqb_neq in E2, E3. split; [discriminate|]. intros [_ [[H|H] _]]; contradiction.
  - apply N.eqb_neq in E1. split; [discriminate|]. intros [H _]. contradiction.
Qed.

Lemma arp_frame_reply_iff s intf mac f :
  arp_process_frame s intf mac f = DNone <->
  f_op f = 1%N /\ (f_eth_dst f = bcast \/ f_eth_dst f = mac) /\ should_announce s (f_target f) intf = DNone.
Proof. unfold arp_process_frame. apply arp_reply_iff. Qed.

Lemma arp_frame_tha_irrelevant s intf mac f tha :
  arp_process_frame s intf mac (mk_arp_frame (f_eth_dst f) (f_op f) tha (f_target f)) = arp_process_frame s intf mac f.
Proof. reflexivity. Qed.

Lemma ndp_reply_iff s intf ns ll t :
  ndp_process s intf ns ll t = DNone <-> ns = true /\ ll = true /\ should_announce s t intf = DNone.
Proof. unfold ndp_process. destruct ns, ll; cbn; intuition discriminate. Qed.

(* ---------- which drop label is reported is free among the applicable reasons ---------- *)
Lemma drop_eqb_eq a b : drop_eqb a b = true <-> a = b.
Proof. destruct a, b; cbn; split; intro H; try reflexivity; try discriminate. Qed.

Lemma reason_of_nil d : reason_of d = [] <-> d = DNone.
Proof. destruct d; cbn; split; intro H; try reflexivity; discriminate. Qed.

Lemma reason_of_no_none d : ~ In DNone (reason_of d).
Proof. destruct d; cbn; intuition discriminate. Qed.

Lemma admissible_none rs : ~ In DNone rs -> forall d, admissible rs d = true -> (d = DNone <-> rs = []).
Proof.
  intros NI d A. destruct rs as [|r rs'].
  - cbn in A. apply drop_eqb_eq in A. intuition.
  - split; [|discriminate]. intros ->. exfalso. apply NI.
    unfold admissible in A. apply existsb_exists in A. destruct A as [x [Hx E]].
    apply drop_eqb_eq in E. subst x. exact Hx.
Qed.

Lemma arp_reasons_no_none s intf mac op dst t : ~ In DNone (arp_reasons s intf mac op dst t).
Proof.
  unfold arp_reasons. intro H. apply in_app_or in H. destruct H as [H|H].
  - destruct (negb (N.eqb op 1)); cbn in H; intuition discriminate.
  - apply in_app_or in H. destruct H as [H|H].
    + destruct (negb (N.eqb dst bcast) && negb (N.eqb dst mac)); cbn in H; intuition discriminate.
    + exact (reason_of_no_none _ H).
Qed.

Lemma arp_reasons_nil_iff s intf mac op dst t :
  arp_reasons s intf mac op dst t = [] <-> arp_process s intf mac op dst t = DNone.
Proof.
  unfold arp_reasons, arp_process.
  destruct (negb (N.eqb op 1)); cbn [app]; [split; discriminate|].
  destruct (negb (N.eqb dst bcast) && negb (N.eqb dst mac)); cbn [app]; [split; discriminate|].
  apply reason_of_nil.
Qed.

(* the label the model reports is one of the admissible ones *)
Lemma arp_process_admissible s intf mac op dst t :
  admissible (arp_reasons s intf mac op dst t) (arp_process s intf mac op dst t) = true.
Proof.
  unfold arp_reasons, arp_process.
  destruct (negb (N.eqb op 1)); cbn [app]; [reflexivity|].
  destruct (negb (N.eqb dst bcast) && negb (N.eqb dst mac)); cbn [app]; [reflexivity|].
  destruct (should_announce s t intf); reflexivity.
Qed.

(* whatever admissible label an implementation reports, it answers exactly when the model does *)
Lemma arp_label_free s intf mac op dst t d :
  admissible (arp_reasons s intf mac op dst t) d = true ->
  (d = DNone <-> arp_process s intf mac op dst t = DNone).
Proof.
  intro A. rewrite <- arp_reasons_nil_iff. apply admissible_none; [apply arp_reasons_no_none|exact A].
Qed.

Lemma ndp_reasons_no_none s intf ns ll t : ~ In DNone (ndp_reasons s intf ns ll t).
Proof.
  unfold ndp_reasons. intro H. apply in_app_or in H. destruct H as [H|H].
  - destruct (negb ns); cbn in H; intuition discriminate.
  - apply in_app_or in H. destruct H as [H|H].
    + destruct (negb ll); cbn in H; intuition discriminate.
    + exact (reason_of_no_none _ H).
Qed.

Lemma ndp_reasons_nil_iff s intf ns ll t :
  ndp_reasons s intf ns ll t = [] <-> ndp_process s intf ns ll t = DNone.
Proof.
  unfold ndp_reasons, ndp_process. destruct ns, ll; cbn [negb app]; try (split; discriminate).
  apply reason_of_nil.
Qed.

Lemma ndp_process_admissible s intf ns ll t :
  admissible (ndp_reasons s intf ns ll t) (ndp_process s intf ns ll t) = true.
Proof.
  unfold ndp_reasons, ndp_process. destruct ns, ll; cbn [negb app]; try reflexivity.
  destruct (should_announce s t intf); reflexivity.
Qed.

Lemma ndp_label_free s intf ns ll t d :
  admissible (ndp_reasons s intf ns ll t) d = true ->
  (d = DNone <-> ndp_process s intf ns ll t = DNone).
Proof.
  intro A. rewrite <- ndp_reasons_nil_iff. apply admissible_none; [apply ndp_reasons_no_none|exact A].
Qed.

(* ---------- the responder loop: a malformed frame is a no-op ---------- *)
Lemma arp_process_not_closed s intf mac op dst t : arp_process s intf mac op dst t <> DClosed.
Proof.
  unfold arp_process. destruct (negb (N.eqb op 1)); [discriminate|].
  destruct (negb (N.eqb dst bcast) && negb (N.eqb dst mac)); [discriminate|].
  unfold should_announce.
  destruct (scan_range t intf (all_advs s) false) as [E|[E|E]]; rewrite E; discriminate.
Qed.

Lemma rx_drop_closed s intf mac r : rx_drop s intf mac r = DClosed <-> r = RxClosed.
Proof.
  destruct r; cbn; split; intro H; try reflexivity; try discriminate.
  exfalso. exact (arp_process_not_closed _ _ _ _ _ _ H).
Qed.

(* as long as the socket is not closed, the loop processes EVERY frame, and the verdict of a
   well-formed frame is the one of processRequest on that frame alone: malformed frames before it
   change nothing *)
Lemma arp_run_all s intf mac rs :
  ~ In RxClosed rs -> arp_run s intf mac rs = map (rx_drop s intf mac) rs.
Proof.
  induction rs as [|r t IH]; intro NI; [reflexivity|]. cbn [arp_run map].
  destruct (drop_eqb (rx_drop s intf mac r) DClosed) eqn:E.
  - apply drop_eqb_eq in E. apply rx_drop_closed in E. subst r. exfalso. apply NI. left. reflexivity.
  - f_equal. apply IH. intro H. apply NI. right. exact H.
Qed.

Lemma arp_run_frame s intf mac rs i f :
  ~ In RxClosed rs -> nth_error rs i = Some (RxFrame f) ->
  nth_error (arp_run s intf mac rs) i = Some (arp_process_frame s intf mac f).
Proof.
  intros NI H. rewrite (arp_run_all _ _ _ _ NI). rewrite nth_error_map, H. reflexivity.
Qed.

(* the variant that takes a malformed frame for the end of the socket stops answering: whatever
   follows the first malformed frame is never processed *)
Lemma arp_run_exit_stops s intf mac pre post :
  ~ In RxClosed pre -> ~ In RxMalformed pre ->
  length (arp_run_exit s intf mac (pre ++ RxMalformed :: post)) = S (length pre).
Proof.
  induction pre as [|r t IH]; intros NC NM; [reflexivity|]. cbn [app arp_run_exit length].
  destruct (drop_eqb (rx_drop_exit s intf mac r) DClosed) eqn:E.
  - exfalso. apply drop_eqb_eq in E. destruct r; cbn in E.
    + apply NC. left. reflexivity.
    + apply NM. left. reflexivity.
    + exact (arp_process_not_closed _ _ _ _ _ _ E).
  - f_equal. apply IH; intro H; [apply NC|apply NM]; right; exact H.
Qed.

(* ---------- gratuitous ---------- *)
Lemma gratuitous_guard s a : inv s ->
  (forall svc b, holds s svc b -> a_ip b <> a_ip a) -> gratuitous s a = [].
Proof.
  intros I H. unfold gratuitous. destruct (rc s (a_ip a) <=? 0) eqn:E; [reflexivity|]. exfalso.
  assert (P : 0 < rc s (a_ip a)) by lia. apply (rc_pos_iff _ _ I) in P. destruct P as [svc [b [H1 H2]]]. eapply H; eauto.
Qed.

Lemma gratuitous_sent s a x : inv s -> In x (gratuitous s a) ->
  (exists svc b, holds s svc b /\ a_ip b = a_ip a) /\ match_intf a (snd x) = true.
Proof.
  intros I. unfold gratuitous. destruct (rc s (a_ip a) <=? 0) eqn:E; [intros []|]. intros HI. split.
  - apply (rc_pos_iff _ _ I). lia.
  - destruct (a_ip a); apply in_map_iff in HI; destruct HI as [y [<- HI]]; apply filter_In in HI; apply HI.
Qed.

Lemma gratuitous_held s a : inv s -> (exists svc b, holds s svc b /\ a_ip b = a_ip a) ->
  gratuitous s a = match a_ip a with
                   | V4 _ => map (pair true) (filter (match_intf a) (arps s))
                   | V6 _ => map (pair false) (filter (match_intf a) (ndps s))
                   end.
Proof.
  intros I H. apply (rc_pos_iff _ _ I) in H. unfold gratuitous.
  destruct (rc s (a_ip a) <=? 0) eqn:E; [lia|reflexivity].
Qed.

(* ---------- atomic sections ---------- *)
Lemma run_app us vs s : run (us ++ vs) s = run vs (run us s).
Proof. unfold run. apply fold_left_app. Qed.

Lemma exec_serial evs done s0 :
  exec evs (run done s0) = (run (done ++ updates evs) s0, serial_answers evs done s0).
Proof.
  revert done. induction evs as [|e evs IH]; intros done; cbn.
  - rewrite app_nil_r. reflexivity.
  - destruct e as [u|q]; cbn.
    + replace (apply_upd (run done s0) u) with (run (done ++ [u]) s0) by (rewrite run_app; reflexivity).
      rewrite IH. rewrite <- app_assoc. reflexivity.
    + rewrite IH. reflexivity.
Qed.

(* every answer of [serial_answers] is [ask] on the state after a prefix of the updates *)
Lemma serial_answers_prefix evs done s0 ans :
  In ans (serial_answers evs done s0) ->
  exists pre post q, updates evs = pre ++ post /\ ans = ask (run (done ++ pre) s0) q.
Proof.
  revert done. induction evs as [|e evs IH]; intros done; cbn [serial_answers]; [intros []|].
  destruct e as [u|q]; cbn [serial_answers In].
  - intros H. apply IH in H. destruct H as [pre [post [q [E1 E2]]]].
    exists (u :: pre), post, q. split; [change (updates (EUpd u :: evs)) with (u :: updates evs); rewrite E1; reflexivity|]. rewrite <- app_assoc in E2. exact E2.
  - intros [<-|H].
    + exists [], (updates evs), q. split; [reflexivity|]. rewrite app_nil_r. reflexivity.
    + apply IH. exact H.
Qed.
