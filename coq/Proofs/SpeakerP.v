From Verif Require Import Model.Speaker.
