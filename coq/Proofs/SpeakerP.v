(* C09: the speaker's announcements are a function of the current cluster state. *)
From Coq Require Import List NArith Bool Lia.
From Verif Require Import Model.Speaker Proofs.NetP Proofs.ElectP Proofs.BgpAdsP Proofs.BgpAdsElig.
Local Open Scope N_scope.

Lemma ip_eq_dec (a b : ip) : {a = b} + {a <> b}.
Proof. decide equality; apply N.eq_dec. Qed.

Section S.
Variable ev : env.
Let me := en_me ev.

(* ---------------------------------------------------------------- vocabulary *)
Definition cfg_peers (c : option config) : list pcfg := match c with Some c => cf_peers c | None => [] end.
Definition my_labels (nodes : list nodeinfo) : option (list (N * N)) :=
  match find_node me nodes with Some n => Some (nd_labels n) | None => None end.
(* the BGP controller is in a reachable state consistent with configuration and node labels *)
Definition Bg (b : bstate) (c : option config) (nodes : list nodeinfo) : Prop :=
  exists bevs, binv me bevs b /\ last_cfg bevs = cfg_peers c /\ last_labels me bevs = my_labels nodes.

Definition mk_ent (adv : bool * list N) (x : ip) : l2ent := {| le_ip := x; le_all := fst adv; le_ifs := snd adv |}.

Record Bk (st : sstate) : Prop := {
  k_b : forall n, s_annb st n = false -> bs_ads (s_bgp st) n = None;
  k_l : forall n, s_annl st n = false -> s_l2 st n = None;
  k_none : forall n, s_ips st n = None -> s_annb st n = false /\ s_annl st n = false;
  k_some : forall n, s_annb st n = false -> s_annl st n = false -> s_ips st n = None;
  k_ips : forall n ents, s_l2 st n = Some ents ->
            NoDup (map le_ip ents) /\ exists old, s_ips st n = Some old /\ forall e, In e ents -> In (le_ip e) old;
  k_cfg : s_cfg st = None -> forall n, s_annb st n = false /\ s_annl st n = false;
  k_bg : Bg (s_bgp st) (s_cfg st) (s_nodes st)
}.

(* everything about the other services is untouched *)
Definition frame (name : N) (st st' : sstate) : Prop :=
  s_cfg st' = s_cfg st /\ s_nodes st' = s_nodes st /\ s_spk st' = s_spk st /\
  forall n, n <> name ->
    s_annb st' n = s_annb st n /\ s_annl st' n = s_annl st n /\ s_ips st' n = s_ips st n /\
    bs_ads (s_bgp st') n = bs_ads (s_bgp st) n /\ s_l2 st' n = s_l2 st n.

Lemma frame_refl name st : frame name st st.
Proof. unfold frame. auto 10. Qed.
Lemma frame_trans name a b c : frame name a b -> frame name b c -> frame name a c.
Proof.
  intros [A1 [A2 [A3 A4]]] [B1 [B2 [B3 B4]]]. repeat split; try congruence;
    destruct (A4 n H) as [? [? [? [? ?]]]]; destruct (B4 n H) as [? [? [? [? ?]]]]; congruence.
Qed.

(* ---------------------------------------------------------------- BGP controller facts *)
Lemma sync_ads cr f b : bs_ads (sync_peers_gen cr f b) = bs_ads b.
Proof. rewrite sync_unfold. cbv zeta. destruct (_ || _); reflexivity. Qed.
Lemma bset_ads name ips advs b n :
  bs_ads (bset_balancer me name ips advs b) n = if n =? name then Some (make_ads me ips advs) else bs_ads b n.
Proof. reflexivity. Qed.
Lemma bdelete_ads name b n : bs_ads (bdelete name b) n = if n =? name then None else bs_ads b n.
Proof.
  unfold bdelete. destruct (bs_ads b name) eqn:E; cbn; unfold upd.
  - reflexivity.
  - destruct (N.eqb_spec n name); congruence.
Qed.
Lemma bcfg_ads cfgs b : bs_ads (bset_config_gen true cfgs b) = bs_ads b.
Proof. unfold bset_config_gen. destruct (diff_peers cfgs (bs_peers b)). rewrite sync_ads. reflexivity. Qed.
Lemma bnode_ads n l b : bs_ads (bset_node_gen true me n l b) = bs_ads b.
Proof.
  unfold bset_node_gen. destruct (negb (n =? me)); [reflexivity|].
  destruct (bs_labels b); [destruct (lbl_eqb _ _); [reflexivity|]|]; rewrite sync_ads; reflexivity.
Qed.

Lemma Bg_step b c nodes e :
  Bg b c nodes ->
  match e with BCfg _ | BNode _ _ => False | _ => True end ->
  Bg (bstep me b e) c nodes.
Proof.
  intros [bevs [I [H1 H2]]] He. exists (bevs ++ [e]). split; [apply binv_step; exact I|].
  rewrite last_cfg_snoc, last_labels_snoc. destruct e; try contradiction; auto.
Qed.
Lemma Bg_set b c nodes name ips advs : Bg b c nodes -> Bg (bset_balancer me name ips advs b) c nodes.
Proof. intros H. apply (Bg_step b c nodes (BSet name ips advs) H I). Qed.
Lemma Bg_del b c nodes name : Bg b c nodes -> Bg (bdelete name b) c nodes.
Proof. intros H. apply (Bg_step b c nodes (BDel name) H I). Qed.

(* ---------------------------------------------------------------- announcer facts *)
Lemma ann_put_spec e l :
  NoDup (map le_ip l) ->
  NoDup (map le_ip (ann_put e l)) /\
  forall e', In e' (ann_put e l) <-> e' = e \/ (In e' l /\ le_ip e' <> le_ip e).
Proof.
  induction l as [|x r IH]; intros Hnd; cbn [ann_put].
  - split; [cbn; constructor; [tauto|constructor]|]. intros e'. cbn. intuition.
  - inversion Hnd as [|? ? Hx Hr]; subst. destruct (ip_eqb (le_ip x) (le_ip e)) eqn:E.
    + apply ip_eqb_eq in E. split.
      * cbn. rewrite <- E. exact Hnd.
      * intros e'. cbn. split.
        -- intros [H|H]; [left; auto|right]. split; [right; exact H|]. intros Heq. apply Hx. rewrite E, <- Heq. apply in_map. exact H.
        -- intros [H|[[H|H] Hne]]; [left; auto| |right; exact H]. subst. congruence.
    + assert (Hne : le_ip x <> le_ip e) by (intros H; apply ip_eqb_eq in H; congruence).
      destruct (IH Hr) as [IH1 IH2]. split.
      * cbn. constructor; [|exact IH1]. intros Hin. apply in_map_iff in Hin. destruct Hin as [y [Hy Hin]].
        apply IH2 in Hin. destruct Hin as [->|[Hin _]]; [congruence|]. apply Hx. rewrite <- Hy. apply in_map. exact Hin.
      * intros e'. cbn. rewrite IH2. split.
        -- intros [H|[H|[H1 H2]]]; [subst; right; auto|left; auto|right; auto].
        -- intros [H|[[H|H] Hn]]; [right; left; auto|left; auto|right; right; auto].
Qed.

Definition cur (l2 : N -> option (list l2ent)) (name : N) : list l2ent := match l2 name with Some l => l | None => [] end.

Lemma l2_set_spec name p ips : forall l2,
  match_ifs (ip_adv_for me (pl_l2 p)) (en_ifs ev) = true ->
  NoDup (map le_ip (cur l2 name)) ->
  let adv := ip_adv_for me (pl_l2 p) in
  let l2' := l2_set_balancer ev name ips p l2 in
  (forall n, n <> name -> l2' n = l2 n) /\
  NoDup (map le_ip (cur l2' name)) /\
  (ips <> [] -> l2' name <> None) /\
  (ips = [] -> l2' name = l2 name) /\
  forall e, In e (cur l2' name) <->
            (exists x, In x ips /\ e = mk_ent adv x) \/ (In e (cur l2 name) /\ forall x, In x ips -> le_ip e <> x).
Proof.
  unfold l2_set_balancer. fold me. intros l2 Hm. rewrite Hm. cbv zeta.
  revert l2. induction ips as [|x r IH]; intros l2 Hnd; cbn [fold_left].
  - split; [auto|]. split; [exact Hnd|]. split; [congruence|]. split; [auto|]. intros e. split.
    + intros H. right. split; [exact H|]. intros x [].
    + intros [[x [[] _]]|[H _]]; exact H.
  - set (e0 := {| le_ip := x; le_all := fst (ip_adv_for me (pl_l2 p)); le_ifs := snd (ip_adv_for me (pl_l2 p)) |}).
    set (l2a := ann_set l2 name e0).
    assert (Hcur : cur l2a name = ann_put e0 (cur l2 name)).
    { unfold cur, l2a, ann_set. rewrite upd_eq. reflexivity. }
    destruct (ann_put_spec e0 (cur l2 name) Hnd) as [P1 P2].
    assert (Hnd' : NoDup (map le_ip (cur l2a name))) by (rewrite Hcur; exact P1).
    destruct (IH l2a Hnd') as [I1 [I2 [I3 [I4 I5]]]]. split; [|split; [|split; [|split; [|intros e; split]]]].
    + intros n Hn. rewrite (I1 n Hn). unfold l2a, ann_set. apply upd_neq. exact Hn.
    + exact I2.
    + intros _. destruct r as [|y r'].
      * rewrite (I4 eq_refl). unfold l2a, ann_set. rewrite upd_eq. discriminate.
      * apply I3. discriminate.
    + discriminate.
    + intros H. apply I5 in H. destruct H as [[y [Hy ->]]|[H Hall]].
      * left. exists y. split; [right; exact Hy|reflexivity].
      * rewrite Hcur in H. apply P2 in H. destruct H as [->|[H Hne]].
        -- left. exists x. split; [left; reflexivity|reflexivity].
        -- right. split; [exact H|]. intros y [<-|Hy]; [exact Hne|apply Hall; exact Hy].
    + intros [[y [[<-|Hy] ->]]|[H Hall]].
      * apply I5. destruct (in_dec ip_eq_dec x r) as [Hin|Hnin].
        -- left. exists x. split; [exact Hin|reflexivity].
        -- right. split.
           ++ rewrite Hcur. apply P2. left. reflexivity.
           ++ intros y Hy. cbn. intros <-. contradiction.
      * apply I5. left. exists y. auto.
      * apply I5. right. split.
        -- rewrite Hcur. apply P2. right. split; [exact H|]. cbn. apply Hall. left. reflexivity.
        -- intros y Hy. apply Hall. right. exact Hy.
Qed.

(* ---------------------------------------------------------------- deleteBalancerProtocol *)
Ltac sp := cbn [s_cfg s_nodes s_spk s_annb s_annl s_ips s_ipkeys s_bgp s_l2
                set_cfg set_nodes set_spk set_annb set_annl set_ips set_bgp set_l2 ann] in *.

Lemma l2_set_nomatch name p ips l2 :
  match_ifs (ip_adv_for me (pl_l2 p)) (en_ifs ev) = false -> l2_set_balancer ev name ips p l2 = l2.
Proof.
  unfold l2_set_balancer. fold me. intros ->. induction ips as [|x r IH]; cbn [fold_left]; [reflexivity|exact IH].
Qed.

Lemma l2_delete_spec name l2 n : l2_delete name l2 n = if n =? name then None else l2 n.
Proof.
  unfold l2_delete. destruct (l2 name) eqn:E; unfold upd.
  - reflexivity.
  - destruct (N.eqb_spec n name); congruence.
Qed.

Definition other_same (P : proto) (name : N) (st st' : sstate) : Prop :=
  match P with
  | PBgp => s_annl st' name = s_annl st name /\ s_l2 st' name = s_l2 st name
  | PL2 => s_annb st' name = s_annb st name /\ bs_ads (s_bgp st') name = bs_ads (s_bgp st) name
  end.

Lemma del_proto_spec P name st :
  Bk st ->
  Bk (del_proto P name st) /\ frame name st (del_proto P name st) /\ ann P (del_proto P name st) name = false /\
  other_same P name st (del_proto P name st) /\
  (s_ips (del_proto P name st) name = s_ips st name \/ s_ips (del_proto P name st) name = None).
Proof.
  intros [K1 K2 K3 K3' K4 K5 K6]. unfold del_proto. destruct (ann P st name) eqn:Ea; cbn [negb].
  2:{ split; [constructor; assumption|]. split; [apply frame_refl|]. split; [exact Ea|]. split; [destruct P; split; reflexivity|left; reflexivity]. }
  destruct P; sp.
  - (* BGP *)
    rewrite upd_eq. cbn [orb]. destruct (s_annl st name) eqn:El; sp.
    + split; [|split; [|split; [apply upd_eq|split; [split; reflexivity|first [left; reflexivity|right; apply upd_eq]]]]].
      * constructor; sp.
        -- intros n. rewrite bdelete_ads. unfold upd. destruct (n =? name); [reflexivity|apply K1].
        -- exact K2.
        -- intros n H. destruct (K3 n H) as [A B]. split; [|exact B]. unfold upd. destruct (n =? name); [reflexivity|exact A].
        -- intros n. unfold upd. destruct (N.eqb_spec n name) as [->|Hne]; [congruence|apply K3'].
        -- exact K4.
        -- intros H n. destruct (K5 H n) as [A B]. split; [|exact B]. unfold upd. destruct (n =? name); [reflexivity|exact A].
        -- apply Bg_del. exact K6.
      * unfold frame; sp. split; [reflexivity|]. split; [reflexivity|]. split; [reflexivity|]. intros n H.
        rewrite bdelete_ads. unfold upd. destruct (N.eqb_spec n name); [contradiction|]. auto.
    + split; [|split; [|split; [apply upd_eq|split; [split; reflexivity|first [left; reflexivity|right; apply upd_eq]]]]].
      * constructor; sp.
        -- intros n. rewrite bdelete_ads. unfold upd. destruct (n =? name); [reflexivity|apply K1].
        -- exact K2.
        -- intros n. unfold upd. destruct (N.eqb_spec n name) as [->|Hne]; [intros _; split; [reflexivity|exact El]|].
           intros H. destruct (K3 n H) as [A B]. split; assumption.
        -- intros n. unfold upd. destruct (N.eqb_spec n name) as [->|Hne]; [reflexivity|apply K3'].
        -- intros n ents H. destruct (N.eqb_spec n name) as [->|Hne]; [rewrite (K2 name El) in H; discriminate|].
           unfold upd. destruct (N.eqb_spec n name); [contradiction|]. apply K4. exact H.
        -- intros H n. destruct (K5 H n) as [A B]. split; [|exact B]. unfold upd. destruct (n =? name); [reflexivity|exact A].
        -- apply Bg_del. exact K6.
      * unfold frame; sp. split; [reflexivity|]. split; [reflexivity|]. split; [reflexivity|]. intros n H.
        rewrite bdelete_ads. unfold upd. destruct (N.eqb_spec n name); [contradiction|]. auto.
  - (* layer 2 *)
    rewrite upd_eq. rewrite orb_false_r. destruct (s_annb st name) eqn:Eb; sp.
    + split; [|split; [|split; [apply upd_eq|split; [split; reflexivity|first [left; reflexivity|right; apply upd_eq]]]]].
      * constructor; sp.
        -- exact K1.
        -- intros n. rewrite l2_delete_spec. unfold upd. destruct (n =? name); [reflexivity|apply K2].
        -- intros n H. destruct (K3 n H) as [A B]. split; [exact A|]. unfold upd. destruct (n =? name); [reflexivity|exact B].
        -- intros n. unfold upd. destruct (N.eqb_spec n name) as [->|Hne]; [congruence|apply K3'].
        -- intros n ents. rewrite l2_delete_spec. destruct (n =? name); [discriminate|apply K4].
        -- intros H n. destruct (K5 H n) as [A B]. split; [exact A|]. unfold upd. destruct (n =? name); [reflexivity|exact B].
        -- exact K6.
      * unfold frame; sp. split; [reflexivity|]. split; [reflexivity|]. split; [reflexivity|]. intros n H.
        rewrite l2_delete_spec. unfold upd. destruct (N.eqb_spec n name); [contradiction|]. auto.
    + split; [|split; [|split; [apply upd_eq|split; [split; reflexivity|first [left; reflexivity|right; apply upd_eq]]]]].
      * constructor; sp.
        -- exact K1.
        -- intros n. rewrite l2_delete_spec. unfold upd. destruct (n =? name); [reflexivity|apply K2].
        -- intros n. unfold upd. destruct (N.eqb_spec n name) as [->|Hne]; [intros _; split; [exact Eb|reflexivity]|].
           intros H. destruct (K3 n H) as [A B]. split; assumption.
        -- intros n. unfold upd. destruct (N.eqb_spec n name) as [->|Hne]; [reflexivity|apply K3'].
        -- intros n ents. rewrite l2_delete_spec. unfold upd. destruct (N.eqb_spec n name); [discriminate|apply K4].
        -- intros H n. destruct (K5 H n) as [A B]. split; [exact A|]. unfold upd. destruct (n =? name); [reflexivity|exact B].
        -- exact K6.
      * unfold frame; sp. split; [reflexivity|]. split; [reflexivity|]. split; [reflexivity|]. intros n H.
        rewrite l2_delete_spec. unfold upd. destruct (N.eqb_spec n name); [contradiction|]. auto.
Qed.

Lemma del_all_spec name st :
  Bk st ->
  Bk (del_all name st) /\ frame name st (del_all name st) /\
  s_annb (del_all name st) name = false /\ s_annl (del_all name st) name = false /\ s_ips (del_all name st) name = None.
Proof.
  intros B. unfold del_all.
  destruct (del_proto_spec PBgp name st B) as [B1 [F1 [A1 [[O1 O1'] _]]]].
  destruct (del_proto_spec PL2 name _ B1) as [B2 [F2 [A2 [[O2 O2'] _]]]]. sp.
  assert (Hb : s_annb (del_proto PL2 name (del_proto PBgp name st)) name = false) by congruence.
  split; [exact B2|]. split; [eapply frame_trans; eassumption|]. split; [exact Hb|]. split; [exact A2|].
  apply (k_some _ B2); assumption.
Qed.

(* ---------------------------------------------------------------- handleService *)
Definition should_of (P : proto) (st : sstate) (p : pool) (s : svc) (ips : list ip) : bool :=
  match P with
  | PBgp => bgp_should ev (s_nodes st) p s
  | PL2 => l2_should ev (s_nodes st) (s_spk st) p s ips
  end.
Definition target (P : proto) (name : N) (ips : list ip) (p : pool) (st' : sstate) : Prop :=
  match P with
  | PBgp => bs_ads (s_bgp st') name = Some (make_ads me ips (pl_bgp p))
  | PL2 => exists ents, s_l2 st' name = Some ents /\
             forall e, In e ents <-> exists x, In x ips /\ e = mk_ent (ip_adv_for me (pl_l2 p)) x
  end.
Definition pre_ips (name : N) (ips : list ip) (st : sstate) : Prop :=
  forall old, s_ips st name = Some old -> forall x, In x ips <-> In x old.

Lemma handle_spec P name ips s p st :
  Bk st -> pre_ips name ips st -> ips <> [] -> s_cfg st <> None ->
  let st' := handle ev P name ips s p st in
  Bk st' /\ frame name st st' /\ pre_ips name ips st' /\ ann P st' name = should_of P st p s ips /\
  (should_of P st p s ips = true ->
   (P = PL2 -> match_ifs (ip_adv_for me (pl_l2 p)) (en_ifs ev) = true) -> target P name ips p st') /\
  other_same P name st st'.
Proof.
  intros B Hpre Hne Hcfg. cbv zeta. unfold handle. fold (should_of P st p s ips).
  destruct (should_of P st p s ips) eqn:Es.
  2:{ destruct (del_proto_spec P name st B) as [B1 [F1 [A1 [O1 I1]]]].
      split; [exact B1|]. split; [exact F1|]. split; [|split; [exact A1|split; [discriminate|exact O1]]].
      intros old Ho. destruct I1 as [I1|I1]; [apply Hpre; congruence|congruence]. }
  destruct B as [K1 K2 K3 K3' K4 K5 K6]. destruct P; unfold target, other_same; sp; fold me.
  - (* BGP *)
    destruct (s_annb st name) eqn:Ea; sp.
    + split; [|split; [|split; [exact Hpre|split; [exact Ea|split; [intros _ _; rewrite bset_ads, N.eqb_refl; reflexivity|split; reflexivity]]]]].
      * constructor; sp; auto.
        -- intros n H. rewrite bset_ads. destruct (N.eqb_spec n name); [congruence|apply K1; exact H].
        -- apply Bg_set. exact K6.
      * unfold frame; sp. repeat split; try reflexivity. rewrite bset_ads. destruct (N.eqb_spec n name); congruence.
    + split; [|split; [|split; [|split; [apply upd_eq|split; [intros _ _; rewrite bset_ads, N.eqb_refl; reflexivity|split; reflexivity]]]]].
      * constructor; sp.
        -- intros n. unfold upd. rewrite bset_ads. destruct (N.eqb_spec n name); [discriminate|apply K1].
        -- exact K2.
        -- intros n. unfold upd. destruct (N.eqb_spec n name); [discriminate|apply K3].
        -- intros n. unfold upd. destruct (N.eqb_spec n name); [discriminate|apply K3'].
        -- intros n ents H. destruct (K4 n ents H) as [Hnd [old [Ho Hin]]]. split; [exact Hnd|].
           unfold upd. destruct (N.eqb_spec n name) as [->|Hn]; [|exists old; auto].
           exists ips. split; [reflexivity|]. intros e He. apply (Hpre old Ho). apply Hin. exact He.
        -- intros H. contradiction.
        -- apply Bg_set. exact K6.
      * unfold frame; sp. split; [reflexivity|]. split; [reflexivity|]. split; [reflexivity|]. intros n H.
        rewrite bset_ads. unfold upd. destruct (N.eqb_spec n name); [contradiction|]. auto.
      * intros old. sp. rewrite upd_eq. intros [= <-]. tauto.
  - (* layer 2 *)
    destruct (match_ifs (ip_adv_for me (pl_l2 p)) (en_ifs ev)) eqn:Hifs.
    2:{ (* F9: no local interface matches, layer2Controller.SetBalancer skips every address *)
        rewrite (l2_set_nomatch name p ips (s_l2 st) Hifs).
        destruct (s_annl st name) eqn:Ea; sp.
        - split; [constructor; sp; auto|]. split; [unfold frame; sp; auto 10|]. split; [exact Hpre|]. split; [exact Ea|].
          split; [intros _ H; specialize (H eq_refl); discriminate|split; reflexivity].
        - split; [|split; [|split; [|split; [apply upd_eq|split; [intros _ H; specialize (H eq_refl); discriminate|split; reflexivity]]]]].
          + constructor; sp.
            * exact K1.
            * intros n. unfold upd. destruct (N.eqb_spec n name); [discriminate|apply K2].
            * intros n. unfold upd. destruct (N.eqb_spec n name); [discriminate|apply K3].
            * intros n. unfold upd. destruct (N.eqb_spec n name); [discriminate|apply K3'].
            * intros n ents H. unfold upd. destruct (N.eqb_spec n name) as [->|Hn]; [rewrite (K2 name Ea) in H; discriminate|apply K4; exact H].
            * intros H. contradiction.
            * exact K6.
          + unfold frame; sp. split; [reflexivity|]. split; [reflexivity|]. split; [reflexivity|]. intros n H.
            unfold upd. destruct (N.eqb_spec n name); [contradiction|]. auto.
          + intros old. sp. rewrite upd_eq. intros [= <-]. tauto. }
    assert (Hnd : NoDup (map le_ip (cur (s_l2 st) name))).
    { unfold cur. destruct (s_l2 st name) as [ents|] eqn:E; [apply (K4 name ents E)|constructor]. }
    destruct (l2_set_spec name p ips (s_l2 st) Hifs Hnd) as [L1 [L2 [L3 [_ L5]]]].
    set (l2' := l2_set_balancer ev name ips p (s_l2 st)) in *.
    destruct (l2' name) as [ents'|] eqn:E'; [|exfalso; apply (L3 Hne); reflexivity].
    assert (Hents : forall e, In e ents' <-> exists x, In x ips /\ e = mk_ent (ip_adv_for me (pl_l2 p)) x).
    { intros e. unfold cur in L5. rewrite E' in L5. rewrite L5. split; [|intros H; left; exact H].
      intros [H|[H Hall]]; [exact H|exfalso].
      destruct (s_l2 st name) as [ents|] eqn:E; [|destruct H].
      destruct (K4 name ents E) as [_ [old [Ho Hin]]]. apply (Hall (le_ip e)); [|reflexivity].
      apply (Hpre old Ho). apply Hin. exact H. }
    assert (Hnd' : NoDup (map le_ip ents')) by (unfold cur in L2; rewrite E' in L2; exact L2).
    destruct (s_annl st name) eqn:Ea; sp.
    + split; [|split; [|split; [exact Hpre|split; [exact Ea|split; [intros _ _; exists ents'; split; [exact E'|exact Hents]|split; reflexivity]]]]].
      * constructor; sp; auto.
        -- intros n H. destruct (N.eqb_spec n name) as [->|Hn]; [congruence|]. rewrite (L1 n Hn). apply K2. exact H.
        -- intros n ents H. destruct (N.eqb_spec n name) as [->|Hn]; [|rewrite (L1 n Hn) in H; apply K4; exact H].
           rewrite E' in H. injection H as <-. split; [exact Hnd'|].
           destruct (s_ips st name) as [old|] eqn:Eo; [|destruct (K3 name Eo); congruence].
           exists old. split; [reflexivity|]. intros e He. apply Hents in He. destruct He as [x [Hx ->]]. cbn. apply (Hpre old Eo). exact Hx.
      * unfold frame; sp. repeat split; try reflexivity. apply L1. exact H.
    + split; [|split; [|split; [|split; [apply upd_eq|split; [intros _ _; exists ents'; split; [exact E'|exact Hents]|split; reflexivity]]]]].
      * constructor; sp.
        -- exact K1.
        -- intros n. unfold upd. destruct (N.eqb_spec n name) as [->|Hn]; [discriminate|]. rewrite (L1 n Hn). apply K2.
        -- intros n. unfold upd. destruct (N.eqb_spec n name); [discriminate|apply K3].
        -- intros n. unfold upd. destruct (N.eqb_spec n name); [discriminate|apply K3'].
        -- intros n ents H. unfold upd. destruct (N.eqb_spec n name) as [->|Hn]; [|rewrite (L1 n Hn) in H; apply K4; exact H].
           rewrite E' in H. injection H as <-. split; [exact Hnd'|]. exists ips. split; [reflexivity|].
           intros e He. apply Hents in He. destruct He as [x [Hx ->]]. exact Hx.
        -- intros H. contradiction.
        -- exact K6.
      * unfold frame; sp. split; [reflexivity|]. split; [reflexivity|]. split; [reflexivity|]. intros n H.
        unfold upd. destruct (N.eqb_spec n name); [contradiction|]. rewrite (L1 n H). auto.
      * intros old. sp. rewrite upd_eq. intros [= <-]. tauto.
Qed.

(* ---------------------------------------------------------------- controller.SetBalancer *)
Lemma nodup_ips_spec l : nodup_ips l = true -> NoDup l.
Proof.
  induction l as [|x r IH]; cbn; [constructor|]. rewrite andb_true_iff, negb_true_iff. intros [H1 H2].
  constructor; [|apply IH; exact H2]. intros Hin.
  assert (existsb (ip_eqb x) r = true); [|congruence]. apply existsb_exists. exists x. split; [exact Hin|apply ip_eqb_eq; reflexivity].
Qed.

Lemma compare_ips_spec a b : compare_ips a b = true -> NoDup a -> forall x, In x a <-> In x b.
Proof.
  unfold compare_ips. rewrite andb_true_iff, N.eqb_eq. intros [Hl Hs] Hnd.
  assert (Hincl : incl a b).
  { intros x Hx. rewrite forallb_forall in Hs. specialize (Hs x Hx). apply existsb_exists in Hs.
    destruct Hs as [y [Hy He]]. apply ip_eqb_eq in He. subst. exact Hy. }
  assert (Hlen : (length b <= length a)%nat) by lia.
  pose proof (NoDup_length_incl Hnd Hlen Hincl) as Hincl'.
  intros x. split; [apply Hincl|apply Hincl'].
Qed.

Definition plan (c : option config) (os : option svc) : option (svc * list ip * pool) :=
  match os with
  | Some s =>
    if sv_lb s then
      match c with
      | Some cfg => match sv_ips s with
                    | Some (x :: r) => match pool_for cfg (x :: r) with Some p => Some (s, x :: r, p) | None => None end
                    | _ => None
                    end
      | None => None
      end
    else None
  | None => None
  end.

(* the service [name] is announced exactly as the current state of the cluster prescribes *)
Definition nf_name (st : sstate) (name : N) (os : option svc) : Prop :=
  match plan (s_cfg st) os with
  | None => s_annb st name = false /\ s_annl st name = false
  | Some (s, ips, p) =>
      s_annb st name = should_of PBgp st p s ips /\ s_annl st name = should_of PL2 st p s ips /\
      (should_of PBgp st p s ips = true -> target PBgp name ips p st) /\
      (should_of PL2 st p s ips = true -> match_ifs (ip_adv_for me (pl_l2 p)) (en_ifs ev) = true -> target PL2 name ips p st)
  end.

Lemma should_of_frame name a b P p s ips : frame name a b -> should_of P b p s ips = should_of P a p s ips.
Proof. intros [_ [H2 [H3 _]]]. unfold should_of. rewrite H2, H3. reflexivity. Qed.

Lemma l2_should_selects nodes spk p s ips :
  l2_should ev nodes spk p s ips = true -> existsb (fun a => mem me (la_nodes a)) (pl_l2 p) = true.
Proof.
  unfold l2_should. destruct ips as [|x r]; [discriminate|]. unfold decide. rewrite !andb_true_iff.
  intros [[_ H] _]. unfold pool_matches, elect_view in H. cbn [v_advs] in H. fold me in H.
  apply existsb_exists in H. destruct H as [l [Hl Hm]]. apply in_map_iff in Hl. destruct Hl as [a [<- Ha]].
  apply existsb_exists. exists a. auto.
Qed.

Definition cfg_good (st : sstate) : Prop := forall c, s_cfg st = Some c -> cfg_ifs_ok ev c = true.

Lemma set_balancer_spec name os st :
  Bk st -> (forall s, os = Some s -> svc_ok s = true) ->
  Bk (set_balancer ev name os st) /\ frame name st (set_balancer ev name os st) /\ nf_name (set_balancer ev name os st) name os.
Proof.
  intros B Hsvc.
  assert (Hdel : forall os', plan (s_cfg st) os' = None ->
            Bk (del_all name st) /\ frame name st (del_all name st) /\ nf_name (del_all name st) name os').
  { intros os' Hp. destruct (del_all_spec name st B) as [B1 [F1 [A1 [A2 _]]]]. split; [exact B1|]. split; [exact F1|].
    unfold nf_name. destruct F1 as [F1 _]. rewrite F1, Hp. auto. }
  unfold set_balancer. destruct os as [s|]; [|apply Hdel; reflexivity].
  destruct (sv_lb s) eqn:Elb; cbn [negb]; [|apply Hdel; cbn [plan]; rewrite Elb; reflexivity].
  destruct (s_cfg st) as [cfg|] eqn:Ec.
  2:{ split; [exact B|]. split; [apply frame_refl|]. unfold nf_name. rewrite Ec. cbn [plan]. rewrite Elb. apply (k_cfg _ B Ec). }
  destruct (sv_ips s) as [[|x r]|] eqn:Ei; try (apply Hdel; cbn [plan]; rewrite Elb, Ei; reflexivity).
  destruct (pool_for cfg (x :: r)) as [p|] eqn:Ep; [|apply Hdel; cbn [plan]; rewrite Elb, Ei, Ep; reflexivity].
  set (ips := x :: r) in *.
  assert (Hnd : NoDup ips).
  { specialize (Hsvc s eq_refl). unfold svc_ok in Hsvc. rewrite Ei in Hsvc. apply nodup_ips_spec. exact Hsvc. }
  set (st1 := match s_ips st name with Some old => if compare_ips ips old then st else del_all name st | None => st end).
  assert (H1 : Bk st1 /\ frame name st st1 /\ pre_ips name ips st1).
  { unfold st1. destruct (s_ips st name) as [old|] eqn:Eo.
    - destruct (compare_ips ips old) eqn:Ecmp.
      + split; [exact B|]. split; [apply frame_refl|]. intros old' Ho'. rewrite Eo in Ho'. injection Ho' as <-.
        apply compare_ips_spec; assumption.
      + destruct (del_all_spec name st B) as [B1 [F1 [_ [_ I1]]]]. split; [exact B1|]. split; [exact F1|].
        intros old' Ho'. congruence.
    - split; [exact B|]. split; [apply frame_refl|]. intros old' Ho'. congruence. }
  destruct H1 as [B1 [F1 P1]].
  assert (Hc1 : s_cfg st1 = Some cfg) by (destruct F1 as [F1 _]; congruence).
  destruct (handle_spec PBgp name ips s p st1 B1 P1 ltac:(discriminate) ltac:(congruence))
    as [B2 [F2 [P2 [A2 [T2 _]]]]].
  set (st2 := handle ev PBgp name ips s p st1) in *.
  assert (Hc2 : s_cfg st2 = Some cfg) by (destruct F2 as [F2 _]; congruence).
  destruct (handle_spec PL2 name ips s p st2 B2 P2 ltac:(discriminate) ltac:(congruence))
    as [B3 [F3 [P3 [A3 [T3 [O3 O3']]]]]].
  set (st3 := handle ev PL2 name ips s p st2) in *.
  pose proof (frame_trans _ _ _ _ F1 F2) as F12. pose proof (frame_trans _ _ _ _ F12 F3) as F13.
  split; [exact B3|]. split; [exact F13|].
  unfold nf_name. destruct F13 as [Fc _]. rewrite Fc, Ec. cbn [plan]. rewrite Elb, Ei. unfold ips at 1. cbv beta iota. fold ips. rewrite Ep.
  rewrite (should_of_frame name st2 st3 PBgp p s ips F3), (should_of_frame name st2 st3 PL2 p s ips F3).
  sp. split; [rewrite O3, A2; symmetry; apply (should_of_frame name st1 st2 PBgp p s ips F2)|].
  split; [exact A3|]. split; [|intros Hs Hm; apply T3; [exact Hs|intros _; exact Hm]].
  intros Hs. unfold target. rewrite O3'. apply T2; [|discriminate]. rewrite <- (should_of_frame name st1 st2 PBgp p s ips F2). exact Hs.
Qed.

(* ---------------------------------------------------------------- the cluster list *)
Definition knodup (K : cluster) : Prop := NoDup (map fst K).
Definition Kok (K : cluster) : Prop := forall n s, In (n, s) K -> svc_ok s = true.

Lemma klookup_none K name : klookup K name = None <-> ~ In name (map fst K).
Proof.
  unfold klookup. destruct (find (fun x => fst x =? name) K) as [x|] eqn:F.
  - apply find_some in F. destruct F as [Hin He]. apply N.eqb_eq in He. split; [discriminate|].
    intros H. exfalso. apply H. rewrite <- He. apply in_map. exact Hin.
  - split; [intros _|reflexivity]. intros Hin. apply in_map_iff in Hin. destruct Hin as [x [Hx Hin]].
    pose proof (find_none _ _ F x Hin) as H. cbn in H. rewrite Hx, N.eqb_refl in H. discriminate.
Qed.
Lemma klookup_in K name s : knodup K -> (klookup K name = Some s <-> In (name, s) K).
Proof.
  unfold knodup, klookup. induction K as [|[n0 s0] K IH]; cbn [find map fst]; intros Hnd.
  - split; [discriminate|intros []].
  - inversion Hnd as [|? ? Hn Hr]; subst. cbn [fst]. destruct (N.eqb_spec n0 name) as [->|Hne].
    + cbn [snd]. split; [intros [= ->]; left; reflexivity|]. intros [[= ->]|Hin]; [reflexivity|].
      exfalso. apply Hn. change name with (fst (name, s)). apply in_map. exact Hin.
    + rewrite (IH Hr). split; [intros H; right; exact H|]. intros [[= -> ->]|H]; [contradiction|exact H].
Qed.
Lemma in_kdel name K x : In x (kdel name K) <-> In x K /\ fst x <> name.
Proof. unfold kdel. rewrite filter_In, negb_true_iff, N.eqb_neq. tauto. Qed.
Lemma knodup_kdel name K : knodup K -> knodup (kdel name K).
Proof.
  unfold knodup, kdel. induction K as [|x K IH]; cbn; [auto|]. intros Hnd. inversion Hnd as [|? ? Hn Hr]; subst.
  destruct (negb (fst x =? name)); cbn; [|apply IH; exact Hr]. constructor; [|apply IH; exact Hr].
  intros Hin. apply Hn. apply in_map_iff in Hin. destruct Hin as [y [Hy Hin]]. apply filter_In in Hin. rewrite <- Hy. apply in_map. tauto.
Qed.
Lemma NoDup_snoc {A} (l : list A) x : NoDup l -> ~ In x l -> NoDup (l ++ [x]).
Proof.
  induction l as [|y l IH]; cbn; intros Hnd Hx; [constructor; [tauto|constructor]|].
  inversion Hnd; subst. constructor.
  - rewrite in_app_iff. cbn. intuition.
  - apply IH; [assumption|tauto].
Qed.
Lemma knodup_kput name s K : knodup K -> knodup (kput name s K).
Proof.
  intros H. unfold kput, knodup. rewrite map_app. cbn. apply NoDup_snoc; [apply (knodup_kdel name K H)|].
  intros Hin. apply in_map_iff in Hin. destruct Hin as [x [Hx Hin]]. apply in_kdel in Hin. tauto.
Qed.
Lemma in_kput name s K x : In x (kput name s K) <-> (In x K /\ fst x <> name) \/ x = (name, s).
Proof. unfold kput. rewrite in_app_iff, in_kdel. cbn. intuition. Qed.

(* ---------------------------------------------------------------- frames over sets of names *)
Definition frameS (names : list N) (st st' : sstate) : Prop :=
  s_cfg st' = s_cfg st /\ s_nodes st' = s_nodes st /\ s_spk st' = s_spk st /\
  forall n, ~ In n names ->
    s_annb st' n = s_annb st n /\ s_annl st' n = s_annl st n /\ s_ips st' n = s_ips st n /\
    bs_ads (s_bgp st') n = bs_ads (s_bgp st) n /\ s_l2 st' n = s_l2 st n.

Lemma frame_frameS name a b : frame name a b -> frameS [name] a b.
Proof. intros [H1 [H2 [H3 H4]]]. repeat split; auto; apply H4; intros ->; apply H; left; reflexivity. Qed.
Lemma frameS_refl a : frameS [] a a.
Proof. unfold frameS. auto 10. Qed.
Lemma frameS_trans l1 l2 a b c : frameS l1 a b -> frameS l2 b c -> frameS (l1 ++ l2) a c.
Proof.
  intros [A1 [A2 [A3 A4]]] [B1 [B2 [B3 B4]]]. repeat split; try congruence;
    (assert (H1 : ~ In n l1) by (intros X; apply H; apply in_or_app; left; exact X));
    (assert (H2 : ~ In n l2) by (intros X; apply H; apply in_or_app; right; exact X));
    destruct (A4 n H1) as [? [? [? [? ?]]]]; destruct (B4 n H2) as [? [? [? [? ?]]]]; congruence.
Qed.

Lemma nf_frameS names a b name os : frameS names a b -> ~ In name names -> nf_name a name os -> nf_name b name os.
Proof.
  intros [H1 [H2 [H3 H4]]] Hn. destruct (H4 name Hn) as [E1 [E2 [_ [E4 E5]]]].
  unfold nf_name. rewrite H1. destruct (plan (s_cfg a) os) as [[[s ips] p]|]; [|congruence].
  unfold should_of, target. rewrite H2, H3, E1, E2, E4, E5. tauto.
Qed.

Definition NF (K : cluster) (st : sstate) : Prop := forall name, nf_name st name (klookup K name).
Definition Dinv (K : cluster) (st : sstate) : Prop :=
  forall name, klookup K name = None -> s_annb st name = false /\ s_annl st name = false.

Lemma cfg_good_frame names a b : frameS names a b -> cfg_good a -> cfg_good b.
Proof. intros [H1 _] G c Hc. apply G. congruence. Qed.

Lemma resync_spec K : forall st,
  Bk st -> Kok K ->
  Bk (resync ev K st) /\ frameS (map fst K) st (resync ev K st) /\
  (knodup K -> forall name s, In (name, s) K -> nf_name (resync ev K st) name (Some s)).
Proof.
  induction K as [|[n0 s0] K IH]; intros st B Hok; cbn [resync fold_left map fst snd].
  - split; [exact B|]. split; [apply frameS_refl|]. intros _ name s [].
  - destruct (set_balancer_spec n0 (Some s0) st B) as [B1 [F1 N1]].
    { intros s [= <-]. apply (Hok n0 s0). left. reflexivity. }
    set (st1 := set_balancer ev n0 (Some s0) st) in *. apply frame_frameS in F1.
    destruct (IH st1 B1) as [B2 [F2 N2]].
    { intros n s H. apply (Hok n s). right. exact H. }
    fold (resync ev K st1). split; [exact B2|]. split; [apply (frameS_trans [n0] (map fst K) _ _ _ F1 F2)|].
    intros Hnd name s [[= -> ->]|Hin].
    + inversion Hnd; subst. apply (nf_frameS (map fst K) st1); assumption.
    + inversion Hnd; subst. apply N2; assumption.
Qed.

Lemma resync_NF K st :
  Bk st -> Kok K -> knodup K -> Dinv K st ->
  Bk (resync ev K st) /\ NF K (resync ev K st) /\ Dinv K (resync ev K st) /\
  s_cfg (resync ev K st) = s_cfg st /\ s_nodes (resync ev K st) = s_nodes st /\ s_spk (resync ev K st) = s_spk st.
Proof.
  intros B Hok Hnd D. destruct (resync_spec K st B Hok) as [B1 [F1 N1]].
  assert (D1 : Dinv K (resync ev K st)).
  { intros name Hn. pose proof Hn as Hn'. apply klookup_none in Hn'. destruct F1 as [_ [_ [_ F4]]].
    destruct (F4 name Hn') as [E1 [E2 _]]. rewrite E1, E2. apply D. exact Hn. }
  split; [exact B1|]. split; [|split; [exact D1|destruct F1 as [? [? [? _]]]; auto]].
  intros name. destruct (klookup K name) as [s|] eqn:E.
  - apply N1; [exact Hnd|]. apply klookup_in; assumption.
  - unfold nf_name. destruct (plan _ None) eqn:Ep; [discriminate|]. apply D1. exact E.
Qed.

(* ---------------------------------------------------------------- SetConfig / SetNode *)
Definition pn_same (a b : sstate) : Prop :=
  forall n, s_annb b n = s_annb a n /\ s_annl b n = s_annl a n /\ s_ips b n = s_ips a n /\
            bs_ads (s_bgp b) n = bs_ads (s_bgp a) n /\ s_l2 b n = s_l2 a n.

Lemma find_put n nodes k : find_node k (put_node n nodes) = if nd_id n =? k then Some n else find_node k nodes.
Proof.
  unfold find_node. induction nodes as [|x r IH]; cbn [put_node find].
  - destruct (nd_id n =? k); reflexivity.
  - destruct (N.eqb_spec (nd_id x) (nd_id n)) as [E|E]; cbn [find].
    + destruct (N.eqb_spec (nd_id n) k) as [E'|E']; [reflexivity|].
      destruct (N.eqb_spec (nd_id x) k); [congruence|reflexivity].
    + destruct (N.eqb_spec (nd_id x) k) as [E'|E'].
      * destruct (N.eqb_spec (nd_id n) k); [congruence|reflexivity].
      * exact IH.
Qed.

Lemma map_put {B} (f : nodeinfo -> B) n nodes old :
  find_node (nd_id n) nodes = Some old -> f old = f n -> map f (put_node n nodes) = map f nodes.
Proof.
  unfold find_node. induction nodes as [|x r IH]; cbn [put_node find map]; [discriminate|].
  destruct (N.eqb_spec (nd_id x) (nd_id n)) as [E|E].
  - intros [= <-] Hf. cbn [map]. congruence.
  - intros H Hf. cbn [map]. f_equal. apply IH; assumption.
Qed.

Lemma set_config_spec c st :
  Bk st ->
  (snd (set_config ev c st) = false -> fst (set_config ev c st) = st) /\
  (snd (set_config ev c st) = true ->
     Bk (fst (set_config ev c st)) /\ pn_same st (fst (set_config ev c st)) /\
     s_cfg (fst (set_config ev c st)) = Some c /\ s_nodes (fst (set_config ev c st)) = s_nodes st /\
     s_spk (fst (set_config ev c st)) = s_spk st /\ s_ipkeys (fst (set_config ev c st)) = s_ipkeys st).
Proof.
  intros [K1 K2 K3 K3' K4 K5 K6]. unfold set_config. destruct (existsb _ (s_ipkeys st)); cbn [fst snd].
  - split; [reflexivity|discriminate].
  - split; [discriminate|]. intros _. unfold pn_same. sp. split; [|split; [intros n; rewrite bcfg_ads; auto|auto]].
    constructor; sp; auto.
    + intros n. rewrite bcfg_ads. apply K1.
    + discriminate.
    + destruct K6 as [bevs [I [H1 H2]]]. exists (bevs ++ [BCfg (cf_peers c)]). split; [apply (binv_step me bevs _ (BCfg (cf_peers c)) I)|].
      rewrite last_cfg_snoc, last_labels_snoc. split; [reflexivity|exact H2].
Qed.

Lemma set_node_spec n st :
  Bk st ->
  Bk (fst (set_node ev n st)) /\ pn_same st (fst (set_node ev n st)) /\
  s_cfg (fst (set_node ev n st)) = s_cfg st /\ s_nodes (fst (set_node ev n st)) = put_node n (s_nodes st) /\
  s_spk (fst (set_node ev n st)) = s_spk st /\ s_ipkeys (fst (set_node ev n st)) = s_ipkeys st.
Proof.
  intros [K1 K2 K3 K3' K4 K5 K6]. unfold set_node, pn_same. cbn [fst]. sp. fold me.
  split; [|split; [intros k; rewrite bnode_ads; auto|auto]].
  constructor; sp; auto.
  - intros k. rewrite bnode_ads. apply K1.
  - destruct K6 as [bevs [I [H1 H2]]]. exists (bevs ++ [BNode (nd_id n) (nd_labels n)]).
    split; [apply (binv_step me bevs _ (BNode (nd_id n) (nd_labels n)) I)|].
    rewrite last_cfg_snoc, last_labels_snoc. split; [exact H1|].
    unfold my_labels. rewrite find_put. destruct (nd_id n =? me); [reflexivity|exact H2].
Qed.

Lemma nf_env a b name os :
  pn_same a b -> s_cfg b = s_cfg a ->
  (forall P p s ips, should_of P b p s ips = should_of P a p s ips) ->
  nf_name a name os -> nf_name b name os.
Proof.
  intros Hp Hc Hs. destruct (Hp name) as [E1 [E2 [_ [E4 E5]]]]. unfold nf_name. rewrite Hc.
  destruct (plan (s_cfg a) os) as [[[s ips] p]|]; [|congruence].
  rewrite !Hs. unfold target. rewrite E1, E2, E4, E5. tauto.
Qed.

Lemma should_of_put P n st st' p s ips old :
  s_nodes st' = put_node n (s_nodes st) -> s_spk st' = s_spk st ->
  find_node (nd_id n) (s_nodes st) = Some old -> nd_unavail old = nd_unavail n -> nd_excl old = nd_excl n ->
  should_of P st' p s ips = should_of P st p s ips.
Proof.
  intros Hn Hs Hf Hu Hx. unfold should_of. rewrite Hn, Hs. destruct P.
  - unfold bgp_should, bgp_view. rewrite find_put. destruct (N.eqb_spec (nd_id n) (en_me ev)) as [E|E]; [|reflexivity].
    rewrite <- E, Hf, Hu, Hx. reflexivity.
  - unfold l2_should, elect_view.
    rewrite (map_put (fun n0 => {| ni_id := nd_id n0; ni_unavail := nd_unavail n0; ni_excl := nd_excl n0 |}) n (s_nodes st) old Hf).
    + reflexivity.
    + unfold find_node in Hf. apply find_some in Hf. destruct Hf as [_ Hid]. apply N.eqb_eq in Hid. congruence.
Qed.

Lemma put_node_ids n nodes : NoDup (map nd_id nodes) -> NoDup (map nd_id (put_node n nodes)).
Proof.
  induction nodes as [|x r IH]; cbn [put_node map]; intros Hnd; [constructor; [intros H; destruct H|constructor]|].
  inversion Hnd as [|? ? Hx Hr]; subst. destruct (N.eqb_spec (nd_id x) (nd_id n)) as [E|E]; cbn [map].
  - rewrite <- E. exact Hnd.
  - constructor; [|apply IH; exact Hr]. intros Hin. apply in_map_iff in Hin. destruct Hin as [y [Hy Hin]].
    assert (Hy' : In (nd_id y) (map nd_id r) \/ y = n).
    { clear - Hin. induction r as [|z r IH]; cbn [put_node] in Hin.
      - destruct Hin as [<-|[]]. right. reflexivity.
      - destruct (nd_id z =? nd_id n); cbn in Hin.
        + destruct Hin as [<-|Hin]; [right; reflexivity|left; right; apply in_map; exact Hin].
        + destruct Hin as [<-|Hin]; [left; left; reflexivity|]. destruct (IH Hin) as [H|H]; [left; right; exact H|right; exact H]. }
    destruct Hy' as [H| ->]; [apply Hx; rewrite <- Hy; exact H|congruence].
Qed.

(* ---------------------------------------------------------------- the invariant of a run *)
Record Inv (K : cluster) (st : sstate) (stale : bool) : Prop := {
  v_bk : Bk st; v_nd : knodup K; v_ok : Kok K; v_d : Dinv K st;
  v_nodes : NoDup (map nd_id (s_nodes st));
  v_nf : stale = false -> NF K st
}.

Lemma klookup_kdel name K n : klookup (kdel name K) n = if n =? name then None else klookup K n.
Proof.
  unfold klookup, kdel. induction K as [|x K IH]; cbn [filter find]; [destruct (n =? name); reflexivity|].
  destruct (N.eqb_spec (fst x) name) as [E|E]; cbn [negb find].
  - rewrite IH. destruct (N.eqb_spec n name) as [Hn|Hn]; [reflexivity|]. destruct (N.eqb_spec (fst x) n); [congruence|reflexivity].
  - destruct (N.eqb_spec (fst x) n) as [E'|E'].
    + destruct (N.eqb_spec n name); [congruence|reflexivity].
    + exact IH.
Qed.
Lemma klookup_app K1 K2 n : klookup (K1 ++ K2) n = match klookup K1 n with Some s => Some s | None => klookup K2 n end.
Proof.
  unfold klookup. induction K1 as [|x K IH]; cbn [app find]; [reflexivity|].
  destruct (fst x =? n); [reflexivity|exact IH].
Qed.
Lemma klookup_kput name s K n : klookup (kput name s K) n = if n =? name then Some s else klookup K n.
Proof.
  unfold kput. rewrite klookup_app, klookup_kdel. destruct (N.eqb_spec n name) as [->|Hn].
  - unfold klookup. cbn. rewrite N.eqb_refl. reflexivity.
  - destruct (klookup K n); [reflexivity|]. unfold klookup. cbn. destruct (N.eqb_spec name n); [congruence|reflexivity].
Qed.

Lemma Inv_resync K st : 
  Bk st -> knodup K -> Kok K -> Dinv K st -> NoDup (map nd_id (s_nodes st)) ->
  Inv K (resync ev K st) false.
Proof.
  intros B Hnd Hok D Hn. destruct (resync_NF K st B Hok Hnd D) as [B1 [N1 [D1 [E1 [E2 E3]]]]].
  constructor; auto.
  - rewrite E2. exact Hn.
Qed.

Lemma Dinv_pn K a b : pn_same a b -> Dinv K a -> Dinv K b.
Proof. intros Hp D name Hk. destruct (Hp name) as [E1 [E2 _]]. rewrite E1, E2. apply D. exact Hk. Qed.

Lemma Inv_step K st stale e :
  esvc_ok e = true -> Inv K st stale ->
  Inv (fst (sstep ev (K, st) e)) (snd (sstep ev (K, st) e))
      (if requests_resync ev st e then false else stale || first_node_event st K e).
Proof.
  intros He [B Hnd Hok D Hn NFh]. destruct e as [name [s|]|c|n|l| |dn]; cbn [sstep requests_resync first_node_event esvc_ok fst snd] in *.
  - (* service add / update *)
    rewrite orb_false_r. destruct (set_balancer_spec name (Some s) st B) as [B1 [F1 N1]]; [intros s' [= <-]; exact He|].
    apply frame_frameS in F1. constructor; auto.
    + apply knodup_kput. exact Hnd.
    + intros k s' Hin. apply in_kput in Hin. destruct Hin as [[Hin _]|[= -> ->]]; [apply (Hok k s' Hin)|exact He].
    + intros k Hk. rewrite klookup_kput in Hk. destruct (N.eqb_spec k name) as [Hkn|Hne]; [discriminate|].
      destruct F1 as [_ [_ [_ F4]]]. destruct (F4 k) as [E1 [E2 _]]; [intros [<-|[]]; congruence|]. rewrite E1, E2. apply D. exact Hk.
    + destruct F1 as [_ [F2 _]]. rewrite F2. exact Hn.
    + intros Hs k. rewrite klookup_kput. destruct (N.eqb_spec k name) as [Hkn|Hne]; [rewrite Hkn; exact N1|].
      apply (nf_frameS [name] st); [exact F1|intros [<-|[]]; congruence|apply NFh; exact Hs].
  - (* service delete *)
    rewrite orb_false_r. destruct (set_balancer_spec name None st B) as [B1 [F1 N1]]; [discriminate|].
    apply frame_frameS in F1. constructor; auto.
    + apply knodup_kdel. exact Hnd.
    + intros k s' Hin. apply in_kdel in Hin. apply (Hok k s'). tauto.
    + intros k Hk. rewrite klookup_kdel in Hk. destruct (N.eqb_spec k name) as [Hkn|Hne].
      * rewrite Hkn. unfold nf_name in N1. destruct (plan _ None) eqn:Ep; [discriminate|]. exact N1.
      * destruct F1 as [_ [_ [_ F4]]]. destruct (F4 k) as [E1 [E2 _]]; [intros [<-|[]]; congruence|]. rewrite E1, E2. apply D. exact Hk.
    + destruct F1 as [_ [F2 _]]. rewrite F2. exact Hn.
    + intros Hs k. rewrite klookup_kdel. destruct (N.eqb_spec k name) as [Hkn|Hne]; [rewrite Hkn; exact N1|].
      apply (nf_frameS [name] st); [exact F1|intros [<-|[]]; congruence|apply NFh; exact Hs].
  - (* configuration *)
    destruct (set_config_spec c st B) as [S1 S2]. destruct (set_config ev c st) as [st' ok] eqn:Ec. cbn [fst snd] in *.
    destruct ok.
    + destruct (S2 eq_refl) as [B1 [P1 [C1 [C2 [C3 _]]]]]. apply Inv_resync; auto.
      * eapply Dinv_pn; eassumption.
      * rewrite C2. exact Hn.
    + rewrite (S1 eq_refl). rewrite orb_false_r. constructor; auto.
  - (* node *)
    destruct (set_node_spec n st B) as [B1 [P1 [C1 [C2 [C3 _]]]]].
    unfold set_node in *. cbn [fst snd] in *.
    set (st' := set_nodes (put_node n (s_nodes st)) (set_bgp (bset_node_gen true (en_me ev) (nd_id n) (nd_labels n) (s_bgp st)) st)) in *.
    assert (N1 : NoDup (map nd_id (s_nodes st'))) by (rewrite C2; apply put_node_ids; exact Hn).
    assert (D1 : Dinv K st') by (eapply Dinv_pn; eassumption).
    destruct (find_node (nd_id n) (s_nodes st)) as [old|] eqn:Ef.
    + destruct (xorb (nd_unavail old) (nd_unavail n) || xorb (nd_excl old) (nd_excl n)) eqn:Ech.
      * apply Inv_resync; auto.
      * rewrite orb_false_r. apply orb_false_iff in Ech. destruct Ech as [Eu Ex].
        apply xorb_eq in Eu. apply xorb_eq in Ex. constructor; auto.
        intros Hs k. apply (nf_env st st'); auto.
        -- intros P p s ips. eapply should_of_put; eassumption.
        -- apply NFh. exact Hs.
    + destruct K as [|x K'].
      * rewrite orb_false_r. constructor; auto.
      * rewrite orb_true_r. constructor; auto. discriminate.
  - (* speakers *)
    apply Inv_resync; auto.
    + destruct B as [K1 K2 K3 K3' K4 K5 K6]. constructor; sp; auto.
  - (* re-sync *)
    apply Inv_resync; auto.
  - (* node object deleted: the speaker does not hear of it *)
    rewrite orb_false_r. constructor; auto.
Qed.

Lemma sinit_Bk spk : Bk (sinit spk).
Proof.
  constructor; cbn; auto; try discriminate.
  exists []. split; [apply binv_init|]. split; reflexivity.
Qed.

Lemma Inv_init spk : Inv [] (sinit spk) false.
Proof.
  constructor.
  - apply sinit_Bk.
  - constructor.
  - intros n s [].
  - intros name _. split; reflexivity.
  - constructor.
  - intros _ name. cbn. split; reflexivity.
Qed.

Lemma Inv_run h : forall ws stale,
  forallb esvc_ok h = true -> Inv (fst ws) (snd ws) stale ->
  Inv (fst (fold_left (sstep ev) h ws)) (snd (fold_left (sstep ev) h ws)) (stale_after ev ws stale h).
Proof.
  induction h as [|e h IH]; intros [K st] stale Hok I; cbn [fold_left stale_after]; [exact I|].
  cbn [forallb] in Hok. apply andb_true_iff in Hok. destruct Hok as [He Hh].
  apply IH; [exact Hh|]. cbn [fst snd] in *. apply Inv_step; assumption.
Qed.

(* ---------------------------------------------------------------- a fresh speaker *)
Lemma put_node_new n acc : ~ In (nd_id n) (map nd_id acc) -> put_node n acc = acc ++ [n].
Proof.
  induction acc as [|x r IH]; cbn [put_node map app]; intros H; [reflexivity|].
  destruct (N.eqb_spec (nd_id x) (nd_id n)) as [E|E]; [exfalso; apply H; left; exact E|].
  f_equal. apply IH. intros Hin. apply H. right. exact Hin.
Qed.

Lemma fold_put l : forall acc, NoDup (map nd_id (acc ++ l)) -> fold_left (fun a n => put_node n a) l acc = acc ++ l.
Proof.
  induction l as [|n l IH]; intros acc Hnd; cbn [fold_left]; [rewrite app_nil_r; reflexivity|].
  assert (Hn : ~ In (nd_id n) (map nd_id acc)).
  { rewrite map_app in Hnd. cbn in Hnd. apply NoDup_remove_2 in Hnd. intros H. apply Hnd. apply in_or_app. left. exact H. }
  rewrite (put_node_new n acc Hn). rewrite IH; rewrite <- app_assoc; [reflexivity|exact Hnd].
Qed.

Lemma fold_set_node l : forall a,
  Bk a ->
  let r := fold_left (fun a n => fst (set_node ev n a)) l a in
  Bk r /\ pn_same a r /\ s_cfg r = s_cfg a /\ s_spk r = s_spk a /\ s_ipkeys r = s_ipkeys a /\
  s_nodes r = fold_left (fun acc n => put_node n acc) l (s_nodes a).
Proof.
  induction l as [|n l IH]; intros a B; cbn [fold_left].
  - split; [exact B|]. split; [intros k; auto|auto].
  - destruct (set_node_spec n a B) as [B1 [P1 [C1 [C2 [C3 C4]]]]].
    destruct (IH _ B1) as [B2 [P2 [D1 [D3 [D4 D2]]]]]. cbv zeta in *.
    split; [exact B2|]. split; [|rewrite D1, D3, D4, D2, C2; auto].
    intros k. destruct (P1 k) as [? [? [? [? ?]]]]. destruct (P2 k) as [? [? [? [? ?]]]]. repeat split; congruence.
Qed.

Lemma fresh_spec K st stale :
  Inv K st stale ->
  Bk (fresh ev st K) /\ NF K (fresh ev st K) /\
  s_cfg (fresh ev st K) = s_cfg st /\ s_nodes (fresh ev st K) = s_nodes st /\ s_spk (fresh ev st K) = s_spk st.
Proof.
  intros [B Hnd Hok D Hn _]. unfold fresh, fresh_of.
  destruct (fold_set_node (s_nodes st) (sinit (s_spk st)) (sinit_Bk _)) as [B1 [P1 [C1 [C3 [C4 C2]]]]]. cbv zeta in *.
  set (st1 := fold_left (fun a n => fst (set_node ev n a)) (s_nodes st) (sinit (s_spk st))) in *.
  assert (C2' : s_nodes st1 = s_nodes st).
  { rewrite C2. cbn [sinit s_nodes]. rewrite fold_put; [reflexivity|exact Hn]. }
  assert (Hoff : forall k, s_annb st1 k = false /\ s_annl st1 k = false).
  { intros k. destruct (P1 k) as [E1 [E2 _]]. rewrite E1, E2. split; reflexivity. }
  destruct (s_cfg st) as [c|] eqn:Ec.
  - destruct (set_config_spec c st1 B1) as [_ S2].
    assert (Hacc : snd (set_config ev c st1) = true).
    { unfold set_config. rewrite C4. reflexivity. }
    destruct (S2 Hacc) as [B2 [P2 [E1 [E2 [E3 _]]]]].
    set (st2 := fst (set_config ev c st1)) in *.
    destruct (resync_NF K st2 B2) as [B3 [N3 [_ [F1 [F2 F3]]]]]; auto.
    + intros k _. destruct (P2 k) as [A1 [A2 _]]. rewrite A1, A2. apply Hoff.
    + split; [exact B3|]. split; [exact N3|]. rewrite F1, F2, F3, E1, E2, E3, C2', C3. auto.
  - destruct (resync_NF K st1 B1) as [B3 [N3 [_ [F1 [F2 F3]]]]]; auto.
    + intros k _. apply Hoff.
    + split; [exact B3|]. split; [exact N3|]. rewrite F1, F2, F3, C1, C2', C3. auto.
Qed.

(* ---------------------------------------------------------------- normal form => same announcements *)
Lemma all_ads_char bevs b ad :
  binv me bevs b -> (In ad (all_ads b) <-> exists k l, bs_ads b k = Some l /\ In ad l).
Proof.
  intros I. rewrite in_all_ads. unfold svc_ads. split.
  - intros [k [_ H]]. destruct (bs_ads b k) as [l|] eqn:E; [|destruct H]. exists k, l. auto.
  - intros [k [l [E H]]]. exists k. split; [apply (i_keys _ _ _ I); congruence|]. rewrite E. exact H.
Qed.

Lemma find_cfg p : forall ps ps',
  map ps_cfg ps = map ps_cfg ps' ->
  match find (fun q => pc_name (ps_cfg q) =? p) ps, find (fun q => pc_name (ps_cfg q) =? p) ps' with
  | Some q, Some q' => ps_cfg q = ps_cfg q' /\ In q ps /\ In q' ps'
  | None, None => True
  | _, _ => False
  end.
Proof.
  induction ps as [|x r IH]; intros [|y r']; cbn [map find]; try discriminate; [auto|].
  intros [= Hc Hr]. rewrite <- Hc. destruct (pc_name (ps_cfg x) =? p).
  - split; [exact Hc|split; left; reflexivity].
  - specialize (IH r' Hr). destruct (find _ r), (find _ r'); try contradiction; [|exact I].
    destruct IH as [? [? ?]]. split; [assumption|split; right; assumption].
Qed.

Lemma sess_equiv bevs bevs' b b' p :
  binv me bevs b -> binv me bevs' b' ->
  last_cfg bevs = last_cfg bevs' -> last_labels me bevs = last_labels me bevs' ->
  (forall n, bs_ads b n = bs_ads b' n) ->
  opt_set_equiv (sess_of b p) (sess_of b' p).
Proof.
  intros Ib Ib' Hc Hl Hads. unfold sess_of.
  pose proof (find_cfg p (bs_peers b) (bs_peers b')) as H.
  rewrite (i_cfg _ _ _ Ib), (i_cfg _ _ _ Ib'), Hc in H. specialize (H eq_refl).
  destruct (find _ (bs_peers b)) as [q|], (find _ (bs_peers b')) as [q'|]; try contradiction; [|exact I].
  destruct H as [Hq [Hin Hin']].
  pose proof (i_live _ _ _ Ib q Hin) as L. pose proof (i_live _ _ _ Ib' q' Hin') as L'.
  rewrite (i_labels _ _ _ Ib) in L. rewrite (i_labels _ _ _ Ib'), <- Hl, <- Hq in L'. unfold live in *.
  destruct (ps_sess q) as [l|] eqn:E, (ps_sess q') as [l'|] eqn:E'; cbn.
  - intros x. rewrite (i_fresh _ _ _ Ib q l Hin E), (i_fresh _ _ _ Ib' q' l' Hin' E'), Hq. unfold ads_for_peer.
    rewrite !filter_In, (all_ads_char _ _ x Ib), (all_ads_char _ _ x Ib').
    split; intros [[k [l0 [Hk Hx]]] Hm]; (split; [exists k, l0; split; [congruence|exact Hx]|exact Hm]).
  - assert (X : @None (list adv) <> None) by (apply L'; apply L; discriminate). congruence.
  - assert (X : @None (list adv) <> None) by (apply L; apply L'; discriminate). congruence.
  - exact I.
Qed.

Lemma match_of_good st os s ips p :
  cfg_good st -> plan (s_cfg st) os = Some (s, ips, p) -> should_of PL2 st p s ips = true ->
  match_ifs (ip_adv_for me (pl_l2 p)) (en_ifs ev) = true.
Proof.
  intros G Hp Hs. unfold plan in Hp. destruct os as [s0|]; [|discriminate]. destruct (sv_lb s0); [|discriminate].
  destruct (s_cfg st) as [cfg|] eqn:Ec; [|discriminate]. destruct (sv_ips s0) as [[|x r]|]; try discriminate.
  destruct (pool_for cfg (x :: r)) as [p0|] eqn:Ep; [|discriminate]. injection Hp as <- <- <-.
  assert (Hin : In p0 (cf_pools cfg)) by (unfold pool_for in Ep; apply find_some in Ep; tauto).
  pose proof (G cfg Ec) as Hg. unfold cfg_ifs_ok in Hg. rewrite forallb_forall in Hg. specialize (Hg p0 Hin).
  unfold should_of in Hs. apply l2_should_selects in Hs. unfold pool_ifs_ok in Hg. fold me in Hg. rewrite Hs in Hg. exact Hg.
Qed.

Lemma equiv_of_NF K a b :
  Bk a -> Bk b -> NF K a -> NF K b -> cfg_good a ->
  s_cfg a = s_cfg b -> s_nodes a = s_nodes b -> s_spk a = s_spk b ->
  announced_equiv a b.
Proof.
  intros Ba Bb Na Nb Ga Hc Hn Hs.
  assert (Hsh : forall P p s ips, should_of P a p s ips = should_of P b p s ips).
  { intros. unfold should_of. rewrite Hn, Hs. reflexivity. }
  assert (Hper : forall name, bs_ads (s_bgp a) name = bs_ads (s_bgp b) name /\ opt_set_equiv (s_l2 a name) (s_l2 b name)).
  { intros name. specialize (Na name). specialize (Nb name). unfold nf_name in Na, Nb. rewrite <- Hc in Nb.
    pose proof (match_of_good a (klookup K name)) as Hm.
    destruct (plan (s_cfg a) (klookup K name)) as [[[s ips] p]|].
    - rewrite <- !Hsh in Nb. destruct Na as [A1 [A2 [A3 A4]]]. destruct Nb as [B1 [B2 [B3 B4]]]. split.
      + destruct (should_of PBgp a p s ips).
        * specialize (A3 eq_refl). specialize (B3 eq_refl). unfold target in *. congruence.
        * rewrite (k_b _ Ba name A1), (k_b _ Bb name B1). reflexivity.
      + destruct (should_of PL2 a p s ips) eqn:Es2.
        * specialize (Hm s ips p Ga eq_refl Es2).
          destruct (A4 eq_refl Hm) as [e1 [E1 H1]]. destruct (B4 eq_refl Hm) as [e2 [E2 H2]]. rewrite E1, E2. cbn.
          intros x. rewrite H1, H2. tauto.
        * rewrite (k_l _ Ba name A2), (k_l _ Bb name B2). exact I.
    - destruct Na as [A1 A2]. destruct Nb as [B1 B2]. split.
      + rewrite (k_b _ Ba name A1), (k_b _ Bb name B1). reflexivity.
      + rewrite (k_l _ Ba name A2), (k_l _ Bb name B2). exact I. }
  split; [intros name; apply Hper|].
  intros p. destruct (k_bg _ Ba) as [bevs [I1 [C1 L1]]]. destruct (k_bg _ Bb) as [bevs' [I2 [C2 L2]]].
  apply (sess_equiv bevs bevs'); auto; try congruence. intros n. apply Hper.
Qed.

(* ---------------------------------------------------------------- the theorems *)
Lemma resync_normal_form K st stale :
  Inv K st stale -> cfg_good st ->
  announced_equiv (resync ev K st) (fresh ev st K).
Proof.
  intros V G. pose proof V as [B Hnd Hok D Hn _].
  destruct (resync_NF K st B Hok Hnd D) as [B1 [N1 [_ [E1 [E2 E3]]]]].
  destruct (fresh_spec K st stale V) as [B2 [N2 [F1 [F2 F3]]]].
  apply (equiv_of_NF K); auto; try congruence. intros c Hc. apply G. congruence.
Qed.

Lemma final_cfg_good st : final_cfg_ok ev st = true -> cfg_good st.
Proof. unfold final_cfg_ok. intros H c Hc. rewrite Hc in H. exact H. Qed.

(* every history: only the Services' addresses must be duplicate-free, only the FINAL configuration
   must be free of F9, and no first node event may be left without a re-sync (F25) *)
Lemma history_independent spk h :
  forallb esvc_ok h = true ->
  final_cfg_ok ev (snd (srun ev spk h)) = true ->
  stale_after ev ([], sinit spk) false h = false ->
  announced_equiv (snd (srun ev spk h)) (fresh ev (snd (srun ev spk h)) (fst (srun ev spk h))).
Proof.
  intros Hok Hf Hst. pose proof (Inv_run h ([], sinit spk) false Hok (Inv_init spk)) as V. rewrite Hst in V.
  fold (srun ev spk h) in V. destruct (fresh_spec _ _ _ V) as [B2 [N2 [F1 [F2 F3]]]].
  apply (equiv_of_NF (fst (srun ev spk h))); auto.
  - apply (v_bk _ _ _ V).
  - apply (v_nf _ _ _ V). reflexivity.
  - apply final_cfg_good. exact Hf.
Qed.

(* ---------------------------------------------------------------- against the CLUSTER's final state *)
Lemma sstep_spk K st stale e a :
  esvc_ok e = true -> Inv K st stale -> s_spk st = api_spk a ->
  s_spk (snd (sstep ev (K, st) e)) = api_spk (api_step a e).
Proof.
  intros He [B Hnd Hok D Hn _] Hs.
  assert (Hre : forall st0, Bk st0 -> s_spk (resync ev K st0) = s_spk st0).
  { intros st0 B0. destruct (resync_spec K st0 B0 Hok) as [_ [[_ [_ [F3 _]]] _]]. exact F3. }
  destruct e as [name [s|]|c|n|l| |dn]; cbn [sstep api_step esvc_ok fst snd api_spk] in *.
  - destruct (set_balancer_spec name (Some s) st B) as [_ [[_ [_ [F3 _]]] _]]; [intros s' [= <-]; exact He|]. congruence.
  - destruct (set_balancer_spec name None st B) as [_ [[_ [_ [F3 _]]] _]]; [discriminate|]. congruence.
  - destruct (set_config_spec c st B) as [S1 S2]. destruct (set_config ev c st) as [st' ok] eqn:Ec. cbn [fst snd] in *.
    destruct ok.
    + destruct (S2 eq_refl) as [B1 [_ [_ [_ [C3 _]]]]]. rewrite (Hre st' B1). congruence.
    + rewrite (S1 eq_refl). exact Hs.
  - destruct (set_node_spec n st B) as [B1 [_ [_ [_ [C3 _]]]]]. unfold set_node in *. cbn [fst snd] in *.
    destruct (match find_node (nd_id n) (s_nodes st) with Some old => _ | None => false end); [rewrite (Hre _ B1)|]; congruence.
  - rewrite Hre; [reflexivity|]. destruct B as [K1 K2 K3 K3' K4 K5 K6]. constructor; sp; auto.
  - rewrite (Hre st B). exact Hs.
  - exact Hs.
Qed.

Lemma run_spk h : forall ws a stale,
  forallb esvc_ok h = true -> Inv (fst ws) (snd ws) stale -> s_spk (snd ws) = api_spk a ->
  s_spk (snd (fold_left (sstep ev) h ws)) = api_spk (fold_left api_step h a).
Proof.
  induction h as [|e h IH]; intros [K st] a stale Hok V Hs; cbn [fold_left]; [exact Hs|].
  cbn [forallb] in Hok. apply andb_true_iff in Hok. destruct Hok as [He Hh]. cbn [fst snd] in *.
  eapply IH; [exact Hh| |].
  - apply (Inv_step K st stale e He V).
  - apply (sstep_spk K st stale e a He V Hs).
Qed.

(* the statement against what the API server holds at the end: additionally the speaker must be in sync
   with it (no refused configuration pending, no remembered node deleted) *)
Lemma history_independent_cluster spk h :
  forallb esvc_ok h = true ->
  final_cfg_ok ev (snd (srun ev spk h)) = true ->
  stale_after ev ([], sinit spk) false h = false ->
  in_sync (api_run spk h) (snd (srun ev spk h)) ->
  announced_equiv (snd (srun ev spk h)) (fresh_cluster ev (api_run spk h) (fst (srun ev spk h))).
Proof.
  intros Hok Hf Hst [Hc Hn].
  assert (Hs : s_spk (snd (srun ev spk h)) = api_spk (api_run spk h)).
  { unfold srun, api_run. apply (run_spk h ([], sinit spk) _ false Hok (Inv_init spk)). reflexivity. }
  unfold fresh_cluster. rewrite <- Hc, <- Hn, <- Hs. apply history_independent; assumption.
Qed.

(* any reachable state: a full re-sync brings the speaker to the fresh speaker's announcements *)
Lemma resync_normal_form_run spk h :
  forallb esvc_ok h = true ->
  final_cfg_ok ev (snd (srun ev spk h)) = true ->
  let ws := srun ev spk h in
  announced_equiv (resync ev (fst ws) (snd ws)) (fresh ev (snd ws) (fst ws)).
Proof.
  intros Hok Hf. cbv zeta. pose proof (Inv_run h ([], sinit spk) false Hok (Inv_init spk)) as V.
  fold (srun ev spk h) in V. eapply resync_normal_form; [exact V|apply final_cfg_good; exact Hf].
Qed.

(* nothing remains announced for a service that is gone / not a LoadBalancer /
   without address / outside the pools, once it was processed *)
Lemma nothing_for_gone_service spk h name os :
  forallb esvc_ok (h ++ [ESvc name os]) = true ->
  plan (s_cfg (snd (srun ev spk (h ++ [ESvc name os])))) os = None ->
  let st := snd (srun ev spk (h ++ [ESvc name os])) in
  s_l2 st name = None /\ bs_ads (s_bgp st) name = None.
Proof.
  intros Hok Hp. cbv zeta. unfold srun in *. rewrite fold_left_app in *. cbn [fold_left] in *.
  rewrite forallb_app in Hok. apply andb_true_iff in Hok. destruct Hok as [Hok1 Hok2].
  pose proof (Inv_run h ([], sinit spk) false Hok1 (Inv_init spk)) as V.
  destruct (fold_left (sstep ev) h ([], sinit spk)) as [K st] eqn:E. cbn [fst snd] in V.
  destruct V as [B _ _ _ _ _].
  assert (Hs : forall s, os = Some s -> svc_ok s = true).
  { intros s ->. cbn in Hok2. rewrite andb_true_r in Hok2. exact Hok2. }
  destruct (set_balancer_spec name os st B Hs) as [B1 [_ N1]].
  assert (Est : snd (sstep ev (K, st) (ESvc name os)) = set_balancer ev name os st) by (destruct os; reflexivity).
  rewrite Est in *. unfold nf_name in N1. rewrite Hp in N1. destruct N1 as [A1 A2].
  split; [apply (k_l _ B1 name A2)|apply (k_b _ B1 name A1)].
Qed.

(* ---------------------------------------------------------------- C10 lifted to reachable states *)
Lemma bgp_should_iff nodes p s : bgp_should ev nodes p s = true <-> c10_code me (bgp_view ev nodes p s).
Proof.
  unfold bgp_should. fold me. rewrite <- bgp_should_announce_iff.
  destruct (bgp_decide me (bgp_view ev nodes p s)); cbn; split; congruence.
Qed.

(* in a normal-form state a Service has BGP advertisements iff the statement's eligibility holds *)
Lemma announced_over_bgp_state K st name :
  Bk st -> NF K st ->
  (bs_ads (s_bgp st) name <> None <->
   exists s ips p, plan (s_cfg st) (klookup K name) = Some (s, ips, p) /\ c10_code me (bgp_view ev (s_nodes st) p s)) /\
  (forall s ips p, plan (s_cfg st) (klookup K name) = Some (s, ips, p) -> c10_code me (bgp_view ev (s_nodes st) p s) ->
     bs_ads (s_bgp st) name = Some (make_ads me ips (pl_bgp p))).
Proof.
  intros B N. specialize (N name). unfold nf_name in N.
  destruct (plan (s_cfg st) (klookup K name)) as [[[s ips] p]|].
  - destruct N as [A1 [_ [A3 _]]]. unfold should_of in A1, A3. split.
    + split.
      * intros H. exists s, ips, p. split; [reflexivity|]. apply bgp_should_iff.
        destruct (bgp_should ev (s_nodes st) p s) eqn:E; [reflexivity|]. exfalso. apply H. apply (k_b _ B name). exact A1.
      * intros [s' [ips' [p' [[= <- <- <-] Hc]]]]. apply bgp_should_iff in Hc. rewrite (A3 Hc). discriminate.
    + intros s' ips' p' [= <- <- <-] Hc. apply bgp_should_iff in Hc. exact (A3 Hc).
  - destruct N as [A1 _]. split.
    + split; [intros H; exfalso; apply H; apply (k_b _ B name A1)|intros [s [ips [p [H _]]]]; discriminate].
    + intros s ips p H. discriminate.
Qed.

(* ... and every live session carries exactly the routes of the eligible Services that name its peer *)
Lemma session_routes_state K st q l :
  Bk st -> NF K st -> In q (bs_peers (s_bgp st)) -> ps_sess q = Some l ->
  forall ad, In ad l <->
    exists name s ips p, plan (s_cfg st) (klookup K name) = Some (s, ips, p) /\
      c10_code me (bgp_view ev (s_nodes st) p s) /\ In ad (make_ads me ips (pl_bgp p)) /\
      matches_peer (pc_name (ps_cfg q)) ad = true.
Proof.
  intros B N Hq Hl ad. destruct (k_bg _ B) as [bevs [Ib _]].
  rewrite (i_fresh _ _ _ Ib q l Hq Hl). unfold ads_for_peer. rewrite filter_In, (all_ads_char _ _ ad Ib). split.
  - intros [[k [l0 [Hk Hin]]] Hm].
    destruct (announced_over_bgp_state K st k B N) as [[H1 _] H2].
    destruct H1 as [s [ips [p [Hp Hc]]]]; [congruence|]. exists k, s, ips, p.
    rewrite (H2 s ips p Hp Hc) in Hk. injection Hk as <-. auto.
  - intros [k [s [ips [p [Hp [Hc [Hin Hm]]]]]]]. split; [|exact Hm].
    destruct (announced_over_bgp_state K st k B N) as [_ H2]. exists k, (make_ads me ips (pl_bgp p)). split; [apply (H2 s ips p Hp Hc)|exact Hin].
Qed.

Lemma announced_over_bgp_iff spk h name :
  forallb esvc_ok h = true -> stale_after ev ([], sinit spk) false h = false ->
  let K := fst (srun ev spk h) in let st := snd (srun ev spk h) in
  bs_ads (s_bgp st) name <> None <->
  exists s ips p, plan (s_cfg st) (klookup K name) = Some (s, ips, p) /\ c10_code me (bgp_view ev (s_nodes st) p s).
Proof.
  intros Hok Hst. cbv zeta. pose proof (Inv_run h ([], sinit spk) false Hok (Inv_init spk)) as V. rewrite Hst in V.
  fold (srun ev spk h) in V. apply (announced_over_bgp_state _ _ name (v_bk _ _ _ V) (v_nf _ _ _ V eq_refl)).
Qed.

Lemma session_routes_iff spk h q l :
  forallb esvc_ok h = true -> stale_after ev ([], sinit spk) false h = false ->
  let K := fst (srun ev spk h) in let st := snd (srun ev spk h) in
  In q (bs_peers (s_bgp st)) -> ps_sess q = Some l ->
  forall ad, In ad l <->
    exists name s ips p, plan (s_cfg st) (klookup K name) = Some (s, ips, p) /\
      c10_code me (bgp_view ev (s_nodes st) p s) /\ In ad (make_ads me ips (pl_bgp p)) /\
      matches_peer (pc_name (ps_cfg q)) ad = true.
Proof.
  intros Hok Hst. cbv zeta. pose proof (Inv_run h ([], sinit spk) false Hok (Inv_init spk)) as V. rewrite Hst in V.
  fold (srun ev spk h) in V. apply (session_routes_state _ _ q l (v_bk _ _ _ V) (v_nf _ _ _ V eq_refl)).
Qed.

(* ---------------------------------------------------------------- C04 lifted to reachable states *)
(* in a normal-form state (final configuration free of F9) the announcer holds a Service iff
   this node wins the election on the current view *)
Lemma l2_announced_state K st name :
  Bk st -> NF K st -> cfg_good st ->
  (s_l2 st name <> None <->
   exists s ips p, plan (s_cfg st) (klookup K name) = Some (s, ips, p) /\
                   l2_should ev (s_nodes st) (s_spk st) p s ips = true).
Proof.
  intros B N G. specialize (N name). unfold nf_name in N. pose proof (match_of_good st (klookup K name)) as Hm.
  destruct (plan (s_cfg st) (klookup K name)) as [[[s ips] p]|].
  - destruct N as [_ [A2 [_ A4]]]. unfold should_of in A2, A4. split.
    + intros H. exists s, ips, p. split; [reflexivity|].
      destruct (l2_should ev (s_nodes st) (s_spk st) p s ips) eqn:E; [reflexivity|]. exfalso. apply H. apply (k_l _ B name). exact A2.
    + intros [s' [ips' [p' [[= <- <- <-] Hs]]]]. destruct (A4 Hs (Hm s ips p G eq_refl Hs)) as [ents [E _]]. congruence.
  - destruct N as [_ A2]. split; [intros H; exfalso; apply H; apply (k_l _ B name A2)|intros [s [ips [p [H _]]]]; discriminate].
Qed.

Lemma l2_announced_iff spk h name :
  forallb esvc_ok h = true -> final_cfg_ok ev (snd (srun ev spk h)) = true ->
  stale_after ev ([], sinit spk) false h = false ->
  let K := fst (srun ev spk h) in let st := snd (srun ev spk h) in
  s_l2 st name <> None <->
  exists s ips p, plan (s_cfg st) (klookup K name) = Some (s, ips, p) /\
                  l2_should ev (s_nodes st) (s_spk st) p s ips = true.
Proof.
  intros Hok Hf Hst. cbv zeta. pose proof (Inv_run h ([], sinit spk) false Hok (Inv_init spk)) as V. rewrite Hst in V.
  fold (srun ev spk h) in V.
  apply (l2_announced_state _ _ name (v_bk _ _ _ V) (v_nf _ _ _ V eq_refl) (final_cfg_good _ Hf)).
Qed.

(* SetConfig refusal: a configuration that orphans a recorded address changes nothing
   (true by unfolding set_config; the content is in setconfig_refused_iff) *)
Lemma setconfig_refusal c st :
  snd (set_config ev c st) = false -> fst (set_config ev c st) = st.
Proof. unfold set_config. destruct (existsb _ _); cbn; [reflexivity|discriminate]. Qed.

(* WHEN a configuration is refused: some Service with recorded addresses has no pool under it *)
Lemma setconfig_refused_iff c st :
  snd (set_config ev c st) = false <->
  exists name ips, In name (s_ipkeys st) /\ s_ips st name = Some ips /\ pool_for c ips = None.
Proof.
  unfold set_config. destruct (existsb _ (s_ipkeys st)) eqn:E; cbn [snd].
  - split; [intros _|reflexivity]. apply existsb_exists in E. destruct E as [name [Hin H]].
    destruct (s_ips st name) as [ips|] eqn:Ei; [|discriminate]. exists name, ips. split; [exact Hin|]. split; [exact Ei|].
    destruct (pool_for c ips); [discriminate|reflexivity].
  - split; [discriminate|]. intros [name [ips [Hin [Hi Hp]]]]. exfalso.
    assert (X : existsb (fun name0 => match s_ips st name0 with
                                      | Some ips0 => match pool_for c ips0 with None => true | Some _ => false end
                                      | None => false end) (s_ipkeys st) = true).
    { apply existsb_exists. exists name. split; [exact Hin|]. rewrite Hi, Hp. reflexivity. }
    congruence.
Qed.
(* recorded addresses exist exactly for the Services announced by some protocol (invariant Bk) *)
Lemma recorded_iff_announced st name :
  Bk st -> (s_ips st name <> None <-> s_annb st name = true \/ s_annl st name = true).
Proof.
  intros B. split.
  - intros H. destruct (s_annb st name) eqn:Eb; [left; reflexivity|]. destruct (s_annl st name) eqn:El; [right; reflexivity|].
    exfalso. apply H. apply (k_some _ B name Eb El).
  - intros H Hn. destruct (k_none _ B name Hn) as [A1 A2]. destruct H; congruence.
Qed.

End S.

(* ---------------------------------------------------------------- several speakers sharing one view *)
(* Speakers on different nodes (same ignore flag and hash) whose controllers are in normal form for the
   same cluster K and share configuration, nodes and speaker list: a Service that the election can
   give to somebody is held by the announcer of exactly one of them. *)
Lemma one_l2_announcer (evs : N -> env) (sts : N -> sstate) K name s x r p :
  (forall n, en_me (evs n) = n /\ en_ignore (evs n) = en_ignore (evs 0) /\ en_hash (evs n) = en_hash (evs 0)) ->
  (forall n, Bk (evs n) (sts n) /\ NF (evs n) K (sts n) /\ cfg_good (evs n) (sts n) /\
             s_cfg (sts n) = s_cfg (sts 0) /\ s_nodes (sts n) = s_nodes (sts 0) /\ s_spk (sts n) = s_spk (sts 0)) ->
  plan (s_cfg (sts 0)) (klookup K name) = Some (s, x :: r, p) ->
  (exists n, eligible (elect_view (evs 0) (s_nodes (sts 0)) (s_spk (sts 0)) p s) n) ->
  exists w, s_l2 (sts w) name <> None /\ forall n, s_l2 (sts n) name <> None -> n = w.
Proof.
  intros He Hs Hp Hel.
  set (v := elect_view (evs 0) (s_nodes (sts 0)) (s_spk (sts 0)) p s) in *.
  assert (Hiff : forall n, s_l2 (sts n) name <> None <-> decide (en_hash (evs 0) x) v n = true).
  { intros n. destruct (Hs n) as [B [Nf [G [Ec [En Es]]]]]. destruct (He n) as [Hme [Hig Hh]].
    rewrite (l2_announced_state (evs n) K (sts n) name B Nf G). rewrite Ec, En, Es, Hp. split.
    - intros [s' [ips' [p' [[= <- <- <-] Hd]]]]. unfold l2_should in Hd. rewrite Hme, Hh in Hd.
      unfold elect_view in Hd. rewrite Hig in Hd. exact Hd.
    - intros Hd. exists s, (x :: r), p. split; [reflexivity|]. unfold l2_should. rewrite Hme, Hh.
      unfold elect_view. rewrite Hig. exact Hd. }
  destruct (exactly_one (en_hash (evs 0) x) v Hel) as [w [Hw Hu]].
  exists w. split; [apply Hiff; exact Hw|]. intros n Hn. apply Hu. apply Hiff. exact Hn.
Qed.

Lemma no_l2_announcer_without_eligible (evs : N -> env) (sts : N -> sstate) K name s x r p n :
  en_me (evs n) = n -> Bk (evs n) (sts n) -> NF (evs n) K (sts n) -> cfg_good (evs n) (sts n) ->
  plan (s_cfg (sts n)) (klookup K name) = Some (s, x :: r, p) ->
  (forall m, ~ eligible (elect_view (evs n) (s_nodes (sts n)) (s_spk (sts n)) p s) m) ->
  s_l2 (sts n) name = None.
Proof.
  intros Hme B Nf G Hp Hno. destruct (s_l2 (sts n) name) eqn:E; [|reflexivity]. exfalso.
  assert (H : s_l2 (sts n) name <> None) by congruence.
  apply (l2_announced_state (evs n) K (sts n) name B Nf G) in H. destruct H as [s' [ips' [p' [Hp' Hd]]]].
  rewrite Hp in Hp'. injection Hp' as <- <- <-. unfold l2_should in Hd.
  pose proof (none_when_no_eligible (en_hash (evs n) x) _ Hno (en_me (evs n))) as Hf. congruence.
Qed.

