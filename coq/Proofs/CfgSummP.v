(* ipaddr.Summarize (Model/Cfg.v [grow], [summ], [summarize]): the prefixes returned for
   [s,e] tile the range exactly: nothing added, nothing lost, aligned, pairwise disjoint. *)
From Coq Require Import NArith Bool List Lia ZifyN ZifyBool.
From Verif Require Import Model.Cfg Proofs.NetP.
Local Open Scope N_scope.

Definition blk (w n : N) : N := 2 ^ (w - n).
Lemma blk_pos w n : 0 < blk w n.
Proof. apply pow2_pos. Qed.

(* block (fi,n) is aligned and ends at or before li *)
Definition fits (w fi li n : N) : Prop := fi mod blk w n = 0 /\ fi + blk w n - 1 <= li.

Lemma grow_le w fi li fuel n : grow w fi li fuel n <= n.
Proof.
  revert n. induction fuel as [|f IH]; intros n; cbn [grow]; [lia|].
  destruct (n =? 0); [lia|].
  destruct ((fi mod 2 ^ (w - (n - 1)) =? 0) && (fi + 2 ^ (w - (n - 1)) - 1 <=? li)); [|lia].
  specialize (IH (n - 1)). lia.
Qed.

Lemma grow_fits w fi li fuel n : fits w fi li n -> fits w fi li (grow w fi li fuel n).
Proof.
  revert n. induction fuel as [|f IH]; intros n H; cbn [grow]; [assumption|].
  destruct (n =? 0); [assumption|].
  destruct ((fi mod 2 ^ (w - (n - 1)) =? 0) && (fi + 2 ^ (w - (n - 1)) - 1 <=? li)) eqn:E; [|assumption].
  apply IH. apply andb_true_iff in E. destruct E as [E1 E2].
  apply N.eqb_eq in E1. apply N.leb_le in E2. split; assumption.
Qed.

Lemma fits_full w fi li : fi <= li -> fits w fi li w.
Proof.
  intros H. unfold fits, blk. rewrite N.sub_diag. cbn. split; [apply N.mod_1_r|lia].
Qed.

(* maximality: the block one step larger does not fit (unless n = 0) *)
Lemma grow_max w fi li fuel n : (N.to_nat n <= fuel)%nat ->
  let n' := grow w fi li fuel n in n' = 0 \/ ~ fits w fi li (n' - 1).
Proof.
  revert n. induction fuel as [|f IH]; intros n Hf; cbn [grow].
  - left. lia.
  - destruct (n =? 0) eqn:E0; [left; apply N.eqb_eq; assumption|].
    destruct ((fi mod 2 ^ (w - (n - 1)) =? 0) && (fi + 2 ^ (w - (n - 1)) - 1 <=? li)) eqn:E.
    + apply IH. apply N.eqb_neq in E0. lia.
    + right. intros [H1 H2]. unfold blk in *. apply andb_false_iff in E.
      destruct E as [E|E]; [apply N.eqb_neq in E|apply N.leb_gt in E]; lia.
Qed.

(* the blocks (start, length) tile [fi, li] from left to right *)
Inductive tiles (w : N) : N -> N -> list (N * N) -> Prop :=
| tiles_nil fi li : li < fi -> tiles w fi li []
| tiles_last fi li n : n <= w -> fi mod blk w n = 0 -> fi + blk w n - 1 = li -> tiles w fi li [(fi, n)]
| tiles_cons fi li n r : n <= w -> fi mod blk w n = 0 -> fi + blk w n - 1 <= li ->
    tiles w (fi + blk w n) li r -> tiles w fi li ((fi, n) :: r).

Lemma summ_tiles w fuel : forall fi li ps, li < 2 ^ w -> summ w fuel fi li = Some ps -> tiles w fi li ps.
Proof.
  induction fuel as [|f IH]; intros fi li ps Hli; cbn [summ]; [discriminate|].
  destruct (li <? fi) eqn:E.
  - intros [= <-]. constructor. apply N.ltb_lt. assumption.
  - apply N.ltb_ge in E.
    set (n := grow w fi li (N.to_nat w) w).
    assert (Hn : n <= w) by apply grow_le.
    assert (Hf : fits w fi li n) by (apply grow_fits, fits_full; assumption).
    destruct Hf as [Ha Hb]. fold (blk w n).
    destruct (fi + blk w n - 1 =? 2 ^ w - 1) eqn:EE.
    + apply N.eqb_eq in EE. intros [= <-]. apply tiles_last; auto. lia.
    + destruct (summ w f (fi + blk w n - 1 + 1) li) eqn:ES; [|discriminate].
      intros [= <-]. apply tiles_cons; auto.
      pose proof (blk_pos w n). replace (fi + blk w n) with (fi + blk w n - 1 + 1) by lia.
      apply IH; assumption.
Qed.

Definition in_block (w : N) (p : N * N) (x : N) : Prop := fst p <= x <= fst p + blk w (snd p) - 1.

Lemma tiles_exact w fi li ps : tiles w fi li ps ->
  forall x, (exists p, In p ps /\ in_block w p x) <-> fi <= x <= li.
Proof.
  induction 1 as [fi li H|fi li n Hn Ha He|fi li n r Hn Ha Hl Ht IH]; intros x.
  - split; [intros [p [[] _]]|lia].
  - split.
    + intros [p [[<-|[]] Hp]]. unfold in_block in Hp. cbn in Hp. lia.
    + intros Hx. exists (fi, n). split; [left; reflexivity|]. unfold in_block. cbn. lia.
  - pose proof (blk_pos w n). split.
    + intros [p [[<-|Hp] Hb]].
      * unfold in_block in Hb. cbn in Hb. lia.
      * assert (fi + blk w n <= x <= li) by (apply IH; exists p; auto). lia.
    + intros Hx. destruct (N.lt_ge_cases x (fi + blk w n)) as [L|G].
      * exists (fi, n). split; [left; reflexivity|]. unfold in_block. cbn. lia.
      * destruct (proj2 (IH x) ltac:(lia)) as [p [Hp Hb]]. exists p. split; [right|]; assumption.
Qed.

Lemma tiles_forall w fi li ps : tiles w fi li ps ->
  Forall (fun p => snd p <= w /\ fst p mod blk w (snd p) = 0 /\ fi <= fst p /\ fst p + blk w (snd p) - 1 <= li) ps.
Proof.
  induction 1 as [fi li H|fi li n Hn Ha He|fi li n r Hn Ha Hl Ht IH].
  - constructor.
  - constructor; [cbn; lia|constructor].
  - pose proof (blk_pos w n). constructor; [cbn; lia|].
    eapply Forall_impl; [|exact IH]. cbn. intros p (A & B & C & D). lia.
Qed.

(* blocks of a tiling are pairwise disjoint: each later block starts after the earlier ends *)
Lemma tiles_ordered w fi li ps : tiles w fi li ps ->
  ForallOrdPairs (fun p q => fst p + blk w (snd p) - 1 < fst q) ps.
Proof.
  induction 1 as [fi li H|fi li n Hn Ha He|fi li n r Hn Ha Hl Ht IH].
  - constructor.
  - constructor; constructor.
  - constructor; [|assumption]. pose proof (blk_pos w n).
    eapply Forall_impl; [|apply (tiles_forall _ _ _ _ Ht)]. cbn. intros p (A & B & C & D). lia.
Qed.

(* ---- lifting to prefixes *)
Definition mkp (f : fam) (p : N * N) : prefix := {| pfam := f; pbase := fst p; plen := snd p |}.

Lemma aligned_pfirst p : pbase p mod block p = 0 -> pfirst p = pbase p.
Proof.
  intros H. unfold pfirst. pose proof (block_pos p).
  pose proof (N.div_mod (pbase p) (block p) ltac:(lia)). lia.
Qed.

Lemma contains_mkp f p x : fst p mod blk (width f) (snd p) = 0 ->
  (contains (mkp f p) x = true <-> ip_fam x = f /\ in_block (width f) p (ip_val x)).
Proof.
  intros Ha. rewrite contains_in_range. unfold in_range, plast. rewrite aligned_pfirst by exact Ha.
  unfold block, mkp, in_block, blk. cbn [pfam pbase plen].
  rewrite andb_true_iff, !N.leb_le. intuition congruence.
Qed.

Theorem summarize_exact f s e ps : e < 2 ^ width f -> summarize f s e = Some ps ->
  (forall x, in_prefixes ps x <-> ip_fam x = f /\ s <= ip_val x <= e) /\
  ForallOrdPairs disjoint ps /\
  Forall (fun p => aligned p /\ wf_prefix p /\ pfam p = f /\ s <= pbase p /\ plast p <= e) ps.
Proof.
  intros He. unfold summarize.
  destruct (summ (width f) _ s e) as [l|] eqn:E; [|discriminate]. intros [= <-].
  pose proof (summ_tiles _ _ _ _ _ He E) as T.
  pose proof (tiles_forall _ _ _ _ T) as F. pose proof (tiles_exact _ _ _ _ T) as X.
  pose proof (tiles_ordered _ _ _ _ T) as O.
  fold (mkp f). split; [|split].
  - intros x. unfold in_prefixes. split.
    + intros [p [Hp Hc]]. apply in_map_iff in Hp. destruct Hp as [q [<- Hq]].
      rewrite Forall_forall in F. destruct (F _ Hq) as (A & B & _).
      apply contains_mkp in Hc; [|exact B]. destruct Hc as [Hf Hb]. split; [assumption|].
      apply X. exists q. auto.
    + intros [Hf Hx]. apply X in Hx. destruct Hx as [q [Hq Hb]].
      exists (mkp f q). split; [apply in_map; assumption|].
      rewrite Forall_forall in F. destruct (F _ Hq) as (A & B & _).
      apply contains_mkp; auto.
  - clear X T E. induction O as [|q r HF HO IH]; cbn; [constructor|].
    inversion F as [|? ? Fq Fr]; subst. constructor; [|apply IH; assumption].
    rewrite Forall_forall in HF, Fr. apply Forall_forall. intros p' Hp'.
    apply in_map_iff in Hp'. destruct Hp' as [q' [<- Hq']].
    intros x C1 C2. destruct Fq as (_ & Bq & _). destruct (Fr _ Hq') as (_ & Bq' & _).
    apply contains_mkp in C1; [|assumption]. apply contains_mkp in C2; [|assumption].
    specialize (HF _ Hq'). unfold in_block in *. lia.
  - apply Forall_forall. intros p Hp. apply in_map_iff in Hp. destruct Hp as [q [<- Hq]].
    rewrite Forall_forall in F. destruct (F _ Hq) as (A & B & C & D).
    assert (Al : aligned (mkp f q)) by exact B.
    split; [exact Al|]. split; [|split; [reflexivity|split; [exact C|]]].
    + unfold wf_prefix, mkp. cbn [pfam pbase plen]. split; [exact A|].
      pose proof (blk_pos (width f) (snd q)). lia.
    + unfold plast. rewrite aligned_pfirst by exact Al. exact D.
Qed.
