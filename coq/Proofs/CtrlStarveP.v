(* C07 at the level of whole histories: whenever the reconciler has no pending
   work, a LoadBalancer Service with valid cluster IPs that has no address has no
   admissible assignment in the controller's current memory.

   Part 1 (this section): one handler call.  A call that leaves the Service
   without an address leaves it because nothing was admissible in the memory it
   ended with. *)
From Coq Require Import List NArith Bool Lia.
From Verif Require Import Model.Net Model.Alloc Model.Ctrl Proofs.NetP Proofs.AllocP Proofs.AllocPolicyP
  Proofs.AllocMonoP Proofs.CtrlP Proofs.CtrlWorldP Proofs.CtrlThmP.
Import ListNotations.
Local Open Scope N_scope.

Definition eligible (o : svcobj) : Prop :=
  o_lb o = true /\ o_cluster_ok o = true /\
  (is_require (r_pol (o_req o)) && negb (is_dual (r_fam (o_req o)))) = false.

(* the explicitly requested addresses can be assigned *)
Definition wips_ok (a : st) (s : svc) (o : svcobj) (d : list ip) : bool :=
  match alloc_fam d with Some f => sfam_eqb f (r_fam (o_req o)) | None => false end &&
  match assign_check a s (o_req o) d with
  | inl p => match o_want_pool o with Some wp => p_name p =? wp | None => true end
  | inr _ => false
  end.

(* "no admissible assignment exists": the requested addresses are unavailable /
   the requested pool has nothing / no pinned or unpinned auto-assign pool has
   anything (allocate_complete spells the last two out address by address) *)
Definition no_offer (a : st) (s : svc) (o : svcobj) : Prop :=
  match o_want o with
  | WInvalid => True
  | WIps d => wips_ok a s o d = false
  | WNone => match o_want_pool o with
             | Some p => from_pool_spec a s (o_req o) p None = true
             | None => allocate_spec a s (o_req o) None = true
             end
  end.

Lemma no_offer_covers a a' s o : Inv a -> Inv a' -> covers a a' -> no_offer a s o -> no_offer a' s o.
Proof.
  intros Ia Ia' E. unfold no_offer. destruct (o_want o) as [|d|]; [|auto|auto].
  - destruct (o_want_pool o); [apply (from_pool_none_anti a a' Ia Ia' E)|apply (allocate_none_anti a a' Ia Ia' E)].
  - unfold wips_ok. destruct (match alloc_fam d with Some f => sfam_eqb f (r_fam (o_req o)) | None => false end); [|auto].
    cbn [andb]. destruct (assign_check a' s (o_req o) d) as [p'|e'] eqn:E'; [|auto].
    rewrite (assign_check_anti a a' Ia Ia' E s (o_req o) d p' E'). auto.
Qed.

Lemma no_offer_anti t a a' s o : Inv a -> Inv a' -> ext t a a' -> no_offer a s o -> no_offer a' s o.
Proof. intros Ia Ia' E. apply no_offer_covers; [exact Ia|exact Ia'|eapply ext_covers; eassumption]. Qed.

Definition minv (a : st) : Prop := Inv a /\ PoolCoh a.
Definition MI (x y : st) : Prop := minv x -> minv y.
Lemma MI_refl a : MI a a. Proof. intros H; exact H. Qed.
Lemma MI_trans a b c : MI a b -> MI b c -> MI a c. Proof. unfold MI. auto. Qed.
Lemma MI_unassign s a : MI a (unassign a s).
Proof. intros [H1 H2]. split; [apply Inv_unassign|apply PoolCoh_unassign]; assumption. Qed.
Lemma MI_assign s a r ips : MI a (fst (assign a s r ips)).
Proof. intros [H1 H2]. split; [apply Inv_assign|apply PoolCoh_assign]; assumption. Qed.
Lemma MI_step s a o : targets o s -> MI a (fst (step a o)).
Proof. intros _ [H1 H2]. split; [apply step_Inv|apply step_PoolCoh]; assumption. Qed.

Lemma remove_svc_absent s (l : list (svc * alloc)) :
  find (fun e => fst e =? s) l = None -> remove_svc s l = l.
Proof.
  unfold remove_svc. induction l as [|e l IH]; [reflexivity|]. cbn [find filter].
  match goal with |- context [if ?b then Some _ else _] => destruct b eqn:E end; cbn [negb]; cbv iota; intros H; [discriminate H|].
  f_equal. exact (IH H).
Qed.

Lemma get_alloc_none_find a s : get_alloc a s = None -> find (fun e => fst e =? s) (allocated a) = None.
Proof. unfold get_alloc. destruct (find _ _); [discriminate|reflexivity]. Qed.

Lemma offer_ok_nonempty a s r p : offer_ok a s r p [] = false.
Proof. unfold offer_ok. cbn. destruct (r_fam r); reflexivity. Qed.

Section Handler.
Variable rank : ip -> N.
Variable s : svc.

Definition NilNone (c : cv) (lb : list ip) : Prop := lb = [] -> get_alloc (cv_mem c) s = None.

Lemma NilNone_clear c : NilNone (clear c s) [].
Proof. intros _. cbn. apply get_alloc_unassign_same. Qed.
Lemma NilNone_cons c x l : NilNone c (x :: l).
Proof. intros H. discriminate. Qed.

Lemma stageA_NilNone c0 o c1 lb1 : stageA c0 s o = (c1, lb1) -> NilNone c1 lb1.
Proof.
  unfold stageA. destruct (o_status o) as [|x l]; [intros [= <- <-]; apply NilNone_clear|].
  destruct (family_changed _ _ _); intros [= <- <-]; [apply NilNone_clear|apply NilNone_cons].
Qed.

Lemma sort2_cons x l : exists y l', sort2 rank (x :: l) = y :: l'.
Proof.
  unfold sort2. destruct l as [|y [|z t]]; eauto. destruct (rank y <? rank x); eauto.
Qed.

Lemma stageB_NilNone c1 lb1 o : NilNone c1 lb1 ->
  match stageB rank c1 lb1 s o with
  | inl (c3, lb3) => NilNone c3 lb3
  | inr _ => o_want o = WInvalid
  end.
Proof.
  intros H1. unfold stageB. destruct lb1 as [|x l]; [exact H1|].
  assert (W : forall c lb, NilNone c lb ->
     match match o_want o with
           | WInvalid => inr c
           | WIps d => if equal_ips rank lb d then inl (c, sort2 rank lb) else inl (clear c s, [])
           | WNone => inl (c, lb)
           end with
     | inl (c3, lb3) => NilNone c3 lb3
     | inr _ => o_want o = WInvalid
     end).
  { intros c lb Hc. destruct (o_want o) as [|d|]; [exact Hc| |reflexivity].
    destruct (equal_ips rank lb d); [|apply NilNone_clear].
    destruct lb as [|y l']; [exact Hc|]. destruct (sort2_cons y l') as (z & l'' & ->). apply NilNone_cons. }
  destruct (assign (cv_mem c1) s (o_req o) (x :: l)) as [a' [i|e|]].
  - destruct (o_want_pool o) as [p|].
    + destruct (opt_pool_eqb _ _); apply W; [apply NilNone_cons|apply NilNone_clear].
    + apply W. apply NilNone_cons.
  - destruct (o_want_pool o); apply W; apply NilNone_clear.
  - destruct (o_want_pool o); apply W; apply NilNone_clear.
Qed.

Lemma stageC_NilNone c3 lb3 r k c4 lb4 : NilNone c3 lb3 -> stageC c3 lb3 s r k = Some (c4, lb4) -> NilNone c4 lb4.
Proof.
  intros H3. unfold stageC. destruct lb3 as [|have [|y l]]; try (intros [= <- <-]; exact H3).
  destruct (additional_applies r [have]); [|intros [= <- <-]; exact H3].
  destruct (pool_of (cv_mem c3) s); [|intros [= <- <-]; exact H3].
  destruct (alloc_op _ _) as [[a' [[|x [|? ?]]|e|]]|]; try discriminate; intros [= <- <-]; apply NilNone_cons.
Qed.

(* Allocate / AllocateFromPool for a service that holds nothing fail only when the spec says "nothing" *)
Lemma step_allocate_err a r c a' e : get_alloc a s = None ->
  step a (OAllocate s r c) = (a', RErr e) -> a' = a /\ allocate_spec a s r None = true.
Proof.
  intros Hg. cbn [step]. rewrite Hg. destruct (allocate_spec a s r c) eqn:Es; [|discriminate].
  destruct c as [[pn ips]|].
  - destruct (assign a s r ips) as [a1 [i|e1|]]; discriminate.
  - intros [= <- _]. auto.
Qed.

Lemma step_frompool_err a r pn c a' e : get_alloc a s = None ->
  step a (OAllocateFromPool s r pn c) = (a', RErr e) -> a' = a /\ from_pool_spec a s r pn None = true.
Proof.
  intros Hg. cbn [step]. rewrite Hg. destruct (from_pool_spec a s r pn c) eqn:Es; [|discriminate].
  destruct c as [ips|].
  - destruct (assign a s r ips) as [a1 [i|e1|]]; discriminate.
  - intros [= <- _]. auto.
Qed.

Lemma step_allocate_ok_nonempty a r c a' ips : get_alloc a s = None ->
  step a (OAllocate s r c) = (a', ROk ips) -> ips <> [].
Proof.
  intros Hg. cbn [step]. rewrite Hg. destruct (allocate_spec a s r c) eqn:Es; [|discriminate].
  destruct c as [[pn ips']|]; [|discriminate].
  destruct (assign a s r ips') as [a1 [i|e1|]] eqn:Ea; try discriminate. intros [= <- <-].
  apply assign_ok_holds in Ea. destruct Ea as (-> & _).
  unfold allocate_spec in Es. destruct (find_pool (s_pools a) pn) as [p|]; [|discriminate].
  apply andb_true_iff in Es. destruct Es as [Es _]. intros ->. rewrite offer_ok_nonempty in Es. discriminate.
Qed.

Lemma step_frompool_ok_nonempty a r pn c a' ips : get_alloc a s = None ->
  step a (OAllocateFromPool s r pn c) = (a', ROk ips) -> ips <> [].
Proof.
  intros Hg. cbn [step]. rewrite Hg. destruct (from_pool_spec a s r pn c) eqn:Es; [|discriminate].
  destruct c as [ips'|]; [|discriminate].
  destruct (assign a s r ips') as [a1 [i|e1|]] eqn:Ea; try discriminate. intros [= <- <-].
  apply assign_ok_holds in Ea. destruct Ea as (-> & _).
  unfold from_pool_spec in Es. destruct (find_pool (s_pools a) pn) as [p|]; [|discriminate].
  apply andb_true_iff in Es. destruct Es as [Es _]. intros ->. rewrite offer_ok_nonempty in Es. discriminate.
Qed.

Lemma unassign_do_assign_absent a al : get_alloc a s = None -> unassign (do_assign a s al) s = a.
Proof.
  intros Hg. unfold unassign, do_assign. cbn [s_pools allocated].
  destruct a as [ps l]. cbn [s_pools allocated] in *. f_equal.
  apply get_alloc_none_find in Hg. cbn [allocated] in Hg.
  unfold remove_svc at 1. cbn [filter]. rewrite N.eqb_refl. cbn [negb].
  change (filter (fun e => negb (fst e =? s)) (remove_svc s l)) with (remove_svc s (remove_svc s l)).
  rewrite (remove_svc_absent s l Hg). apply remove_svc_absent. exact Hg.
Qed.

(* stage D entered with nothing recorded: either an address was obtained, or nothing is admissible *)
Lemma stageD_unserved c4 o k res : get_alloc (cv_mem c4) s = None ->
  stageD c4 [] s o k = Some res ->
  match res with
  | inl (_, lb5) => lb5 <> []
  | inr c5 => no_offer (cv_mem c5) s o
  end.
Proof.
  intros Hg. unfold stageD, no_offer. destruct (o_want o) as [|d|].
  - destruct (o_want_pool o) as [p|].
    + destruct (alloc_op (cv_mem c4) (OAllocateFromPool s (o_req o) p (option_map snd (k_final k)))) as [[a' r]|] eqn:E; [|discriminate].
      apply alloc_op_some in E. destruct E as [E Hnm]. destruct r as [ips|e|].
      * intros [= <-]. eapply step_frompool_ok_nonempty; eassumption.
      * intros [= <-]. cbn [cv_mem]. destruct (step_frompool_err _ _ _ _ _ _ Hg E) as [-> H]. exact H.
      * exfalso. apply Hnm. reflexivity.
    + destruct (alloc_op (cv_mem c4) (OAllocate s (o_req o) (k_final k))) as [[a' r]|] eqn:E; [|discriminate].
      apply alloc_op_some in E. destruct E as [E Hnm]. destruct r as [ips|e|].
      * intros [= <-]. eapply step_allocate_ok_nonempty; eassumption.
      * intros [= <-]. cbn [cv_mem]. destruct (step_allocate_err _ _ _ _ _ Hg E) as [-> H]. exact H.
      * exfalso. apply Hnm. reflexivity.
  - unfold wips_ok.
    destruct (match alloc_fam d with Some f => sfam_eqb f (r_fam (o_req o)) | None => false end) eqn:Ef; cbn [negb andb].
    2:{ intros [= <-]. reflexivity. }
    unfold assign. destruct (assign_check (cv_mem c4) s (o_req o) d) as [p|e] eqn:Ec.
    + set (al := {| a_pool := p_name p; a_ips := d; a_ports := r_ports (o_req o); a_key := r_key (o_req o) |}).
      assert (Hd : d <> []) by (intros ->; discriminate Ef).
      assert (Hpo : pool_of (do_assign (cv_mem c4) s al) s = Some (p_name p)).
      { unfold pool_of. rewrite get_alloc_do_assign_same. reflexivity. }
      destruct (o_want_pool o) as [wp|]; [|intros [= <-]; exact Hd].
      rewrite Hpo. cbn [opt_pool_eqb]. destruct (p_name p =? wp) eqn:Ew; intros [= <-]; [exact Hd|].
      cbn [cv_mem]. rewrite (unassign_do_assign_absent _ al Hg), Ec, Ew. reflexivity.
    + intros [= <-]. rewrite Ec. reflexivity.
  - intros [= <-]. exact I.
Qed.

Lemma stageD_nonempty c4 x l o k res : stageD c4 (x :: l) s o k = Some res -> res = inl (c4, x :: l).
Proof. unfold stageD. intros [= <-]. reflexivity. Qed.

(* stage E with something recorded writes it *)
Lemma stageE_served c5 lb5 v ok : lb5 <> [] -> Q s c5 lb5 -> minv (cv_mem c5) ->
  stageE c5 lb5 s = CR v ok -> cv_status v = lb5.
Proof.
  intros Hne [Q1 _] [HI HP]. unfold stageE. destruct lb5 as [|x l]; [congruence|].
  unfold pool_of. destruct (get_alloc (cv_mem c5) s) as [al|] eqn:Hg.
  - cbn [option_map]. destruct (HP (s, al)) as (p & Hp & Hn).
    { apply get_alloc_In; [exact (proj1 HI)|exact Hg]. }
    cbn in Hp, Hn. apply pool_for_spec in Hp. destruct Hp as [Hin _].
    destruct (find_pool_exists (s_pools (cv_mem c5)) p Hin) as [q Hq]. rewrite Hn in Hq. rewrite Hq.
    intros [= <- _]. reflexivity.
  - exfalso. unfold ips_of in Q1. rewrite Hg in Q1. destruct (Q1 x) as [_ H]. apply H. left. reflexivity.
Qed.

(* one run of convergeBalancer that leaves the Service without an address *)
Theorem converge_unserved a o k v ok :
  minv a -> eligible o -> by_name (s_pools a) <> [] ->
  converge rank a s o k = CR v ok -> cv_status v = [] -> no_offer (cv_mem v) s o.
Proof.
  intros Hm (Hlb & Hck & Hrq) Hps. unfold converge.
  set (c0 := {| cv_mem := a; cv_status := o_status o; cv_annot := o_annot o |}).
  rewrite Hlb, Hck, Hrq. cbn [negb]. destruct (by_name (s_pools a)) as [|p0 pr] eqn:Ebn; [congruence|].
  destruct (stageA c0 s o) as [c1 lb1] eqn:EA.
  pose proof (stageA_NilNone _ _ _ _ EA) as NA.
  pose proof (stageA_rel s MI MI_refl (MI_unassign s) _ _ _ _ EA) as MA. cbn [cv_mem c0] in MA.
  pose proof (stageB_Q rank s c0 o c1 lb1 eq_refl EA) as QB.
  pose proof (stageB_NilNone c1 lb1 o NA) as NB.
  pose proof (stageB_rel rank s MI MI_refl MI_trans (MI_unassign s) (MI_assign s) c1 lb1 o) as MB.
  destruct (stageB rank c1 lb1 s o) as [[c3 lb3]|c3].
  2:{ intros [= <- _] _. unfold no_offer. rewrite NB. exact I. }
  destruct (stageC c3 lb3 s (o_req o) k) as [[c4 lb4]|] eqn:EC; [|discriminate].
  pose proof (stageC_Q _ _ _ _ _ _ _ QB EC) as QC.
  pose proof (stageC_NilNone _ _ _ _ _ _ NB EC) as NC.
  pose proof (stageC_rel s MI MI_refl (MI_step s) _ _ _ _ _ _ EC) as MC.
  destruct (stageD c4 lb4 s o k) as [res|] eqn:ED; [|discriminate].
  pose proof (stageD_Q _ _ _ _ _ _ QC ED) as QD.
  pose proof (stageD_rel s MI MI_refl MI_trans (MI_unassign s) (MI_assign s) (MI_step s) _ _ _ _ _ ED) as MD.
  destruct lb4 as [|x l].
  - pose proof (stageD_unserved _ _ _ _ (NC eq_refl) ED) as UD.
    destruct res as [[c5 lb5]|c5].
    + intros HE Hst. exfalso. rewrite (stageE_served _ _ _ _ UD QD (MD (MC (MB (MA Hm)))) HE) in Hst. exact (UD Hst).
    + intros [= <- _] _. exact UD.
  - rewrite (stageD_nonempty _ _ _ _ _ _ ED) in *. intros HE Hst. exfalso.
    assert (Hne : x :: l <> []) by discriminate.
    rewrite (stageE_served _ _ _ _ Hne QD (MD (MC (MB (MA Hm)))) HE) in Hst. discriminate.
Qed.
End Handler.

(* ---------- the allocation a handler call leaves carries the Service's current ports and key ---------- *)
Section Attrs.
Variable rank : ip -> N.
Variable s : svc.
Variable r : req.

Definition AT (a : st) : Prop :=
  forall al, get_alloc a s = Some al ->
    a_ports al = r_ports r /\ a_key al = r_key r /\
    exists p, pool_for (by_name (s_pools a)) (a_ips al) = Some p /\ p_name p = a_pool al /\ compatible p r = true.

Lemma AT_unassign a : AT (unassign a s).
Proof. intros al H. rewrite get_alloc_unassign_same in H. discriminate. Qed.

Lemma AT_assign a ips : AT a -> AT (fst (assign a s r ips)).
Proof.
  intros H. unfold assign. destruct (assign_check a s r ips) as [p|e] eqn:Hck; cbn [fst]; [|exact H].
  intros al Hg. rewrite get_alloc_do_assign_same in Hg. injection Hg as <-. cbn.
  apply assign_check_spec in Hck. destruct Hck as (Hpf & Hc & _). split; [reflexivity|]. split; [reflexivity|]. exists p. auto.
Qed.

Lemma assign_fst a ips a' res : assign a s r ips = (a', res) -> a' = fst (assign a s r ips).
Proof. intros ->. reflexivity. Qed.

Lemma AT_step a o : AT a ->
  match o with
  | OAllocate s' r' _ | OAllocateFromPool s' r' _ _ | OAdditional s' r' _ _ _ => s' = s /\ r' = r
  | _ => False
  end -> AT (fst (step a o)).
Proof.
  intros H Ho. destruct o as [| |s' r' c|s' r' pn c|s' r' have pn c|]; try contradiction; destruct Ho as [-> ->]; cbn [step].
  - destruct (get_alloc a s) as [al|].
    + destruct (assign a s r (a_ips al)) as [a1 [i|e|]] eqn:Ea.
      * destruct c as [[? ips]|]; [|exact H]. destruct (ips_eqb ips (a_ips al)); [|exact H].
        cbn [fst]. rewrite (assign_fst _ _ _ _ Ea). apply AT_assign. exact H.
      * destruct c; [exact H|]. cbn [fst]. rewrite (assign_fst _ _ _ _ Ea). apply AT_assign. exact H.
      * destruct c; [exact H|]. cbn [fst]. rewrite (assign_fst _ _ _ _ Ea). apply AT_assign. exact H.
    + destruct (allocate_spec a s r c); [|exact H]. destruct c as [[? ips]|]; [|exact H].
      destruct (assign a s r ips) as [a1 [i|e|]] eqn:Ea; try exact H.
      cbn [fst]. rewrite (assign_fst _ _ _ _ Ea). apply AT_assign. exact H.
  - destruct (get_alloc a s) as [al|].
    + destruct (alloc_fam (a_ips al)); [|destruct c; exact H].
      destruct (negb _ && negb _); [destruct c; exact H|].
      destruct (assign a s r (a_ips al)) as [a1 [i|e|]] eqn:Ea.
      * destruct c as [ips|]; [|exact H]. destruct (ips_eqb ips (a_ips al)); [|exact H].
        cbn [fst]. rewrite (assign_fst _ _ _ _ Ea). apply AT_assign. exact H.
      * destruct c; [exact H|]. cbn [fst]. rewrite (assign_fst _ _ _ _ Ea). apply AT_assign. exact H.
      * destruct c; [exact H|]. cbn [fst]. rewrite (assign_fst _ _ _ _ Ea). apply AT_assign. exact H.
    + destruct (from_pool_spec a s r pn c); [|exact H]. destruct c as [ips|]; [|exact H].
      destruct (assign a s r ips) as [a1 [i|e|]] eqn:Ea; try exact H.
      cbn [fst]. rewrite (assign_fst _ _ _ _ Ea). apply AT_assign. exact H.
  - destruct (additional_spec a s r have pn c); [|exact H]. destruct c as [x|]; [|exact H].
    destruct (assign a s r [have; x]) as [a1 [i|e|]] eqn:Ea; try exact H.
    cbn [fst]. rewrite (assign_fst _ _ _ _ Ea). apply AT_assign. exact H.
Qed.
End Attrs.

Section ConvergeAttrs.
Variable rank : ip -> N.
Variable s : svc.

Lemma AT_assign_ok r a ips a' out : assign a s r ips = (a', ROk out) -> AT s r a'.
Proof.
  intros H. apply assign_ok_inv in H. destruct H as (p & Hck & _ & ->).
  intros al Hg. rewrite get_alloc_do_assign_same in Hg. injection Hg as <-. cbn.
  apply assign_check_spec in Hck. destruct Hck as (Hpf & Hc & _). split; [reflexivity|]. split; [reflexivity|]. exists p. auto.
Qed.

Lemma AT_clear r c : AT s r (cv_mem (clear c s)).
Proof. cbn. apply AT_unassign. Qed.

Lemma stageB_AT c1 lb1 o : (lb1 = [] -> AT s (o_req o) (cv_mem c1)) ->
  match stageB rank c1 lb1 s o with inl (c3, _) | inr c3 => AT s (o_req o) (cv_mem c3) end.
Proof.
  intros H1. unfold stageB. destruct lb1 as [|x l]; [apply H1; reflexivity|].
  assert (W : forall c lb, AT s (o_req o) (cv_mem c) ->
     match match o_want o with
           | WInvalid => inr c
           | WIps d => if equal_ips rank lb d then inl (c, sort2 rank lb) else inl (clear c s, [])
           | WNone => inl (c, lb)
           end with
     | inl (c3, _) | inr c3 => AT s (o_req o) (cv_mem c3)
     end).
  { intros c lb Hc. destruct (o_want o) as [|d|]; [exact Hc| |exact Hc].
    destruct (equal_ips rank lb d); [exact Hc|apply AT_clear]. }
  destruct (assign (cv_mem c1) s (o_req o) (x :: l)) as [a' [i|e|]] eqn:Ea.
  - pose proof (AT_assign_ok _ _ _ _ _ Ea) as Ha.
    destruct (o_want_pool o) as [p|].
    + destruct (opt_pool_eqb _ _); apply W; [exact Ha|apply AT_clear].
    + apply W. exact Ha.
  - destruct (o_want_pool o); apply W; apply AT_clear.
  - destruct (o_want_pool o); apply W; apply AT_clear.
Qed.

Lemma stageC_AT c3 lb3 r k c4 lb4 : AT s r (cv_mem c3) -> stageC c3 lb3 s r k = Some (c4, lb4) -> AT s r (cv_mem c4).
Proof.
  intros H3. unfold stageC. destruct lb3 as [|have [|y l]]; try (intros [= <- _]; exact H3).
  destruct (additional_applies r [have]); [|intros [= <- _]; exact H3].
  destruct (pool_of (cv_mem c3) s) as [pn|]; [|intros [= <- _]; exact H3].
  destruct (alloc_op (cv_mem c3) (OAdditional s r have pn (the_additional have k))) as [[a' res]|] eqn:E; [|discriminate].
  apply alloc_op_some in E. destruct E as [E _].
  assert (Ha : AT s r a').
  { replace a' with (fst (step (cv_mem c3) (OAdditional s r have pn (the_additional have k)))) by (rewrite E; reflexivity).
    apply AT_step; [exact H3|auto]. }
  destruct res as [[|x [|? ?]]|e|]; intros [= <- _]; exact Ha.
Qed.

Lemma stageD_AT c4 lb4 o k res : AT s (o_req o) (cv_mem c4) -> stageD c4 lb4 s o k = Some res ->
  match res with inl (c5, _) | inr c5 => AT s (o_req o) (cv_mem c5) end.
Proof.
  intros H4. unfold stageD. destruct lb4 as [|x l]; [|intros [= <-]; exact H4].
  destruct (o_want o) as [|d|].
  - set (o' := match o_want_pool o with
               | Some p => OAllocateFromPool s (o_req o) p (option_map snd (k_final k))
               | None => OAllocate s (o_req o) (k_final k)
               end).
    destruct (alloc_op (cv_mem c4) o') as [[a' r]|] eqn:E; [|discriminate].
    apply alloc_op_some in E. destruct E as [E _].
    assert (Ha : AT s (o_req o) a').
    { replace a' with (fst (step (cv_mem c4) o')) by (rewrite E; reflexivity).
      apply AT_step; [exact H4|]. unfold o'. destruct (o_want_pool o); auto. }
    destruct r; intros [= <-]; exact Ha.
  - destruct (negb _); [intros [= <-]; exact H4|].
    destruct (assign (cv_mem c4) s (o_req o) d) as [a' [i|e|]] eqn:Ea; try (intros [= <-]; exact H4).
    pose proof (AT_assign_ok _ _ _ _ _ Ea) as Ha.
    destruct (o_want_pool o) as [p|]; [|intros [= <-]; exact Ha].
    destruct (opt_pool_eqb _ _); intros [= <-]; [exact Ha|apply AT_unassign].
  - intros [= <-]. exact H4.
Qed.

Theorem converge_attrs a o k v ok : converge rank a s o k = CR v ok -> AT s (o_req o) (cv_mem v).
Proof.
  unfold converge.
  set (c0 := {| cv_mem := a; cv_status := o_status o; cv_annot := o_annot o |}).
  destruct (negb (o_lb o)); [intros [= <- _]; apply AT_clear|].
  destruct (match by_name (s_pools a) with [] => true | _ => false end); [intros [= <- _]; apply AT_clear|].
  destruct (negb (o_cluster_ok o)); [intros [= <- _]; apply AT_clear|].
  destruct (is_require _ && _); [intros [= <- _]; apply AT_clear|].
  destruct (stageA c0 s o) as [c1 lb1] eqn:EA.
  assert (HA : lb1 = [] -> AT s (o_req o) (cv_mem c1)).
  { intros ->. intros al Hg. rewrite (stageA_NilNone s _ _ _ _ EA eq_refl) in Hg. discriminate. }
  pose proof (stageB_AT c1 lb1 o HA) as HB.
  destruct (stageB rank c1 lb1 s o) as [[c3 lb3]|c3]; [|intros [= <- _]; exact HB].
  destruct (stageC c3 lb3 s (o_req o) k) as [[c4 lb4]|] eqn:EC; [|discriminate].
  pose proof (stageC_AT _ _ _ _ _ _ HB EC) as HC.
  destruct (stageD c4 lb4 s o k) as [res|] eqn:ED; [|discriminate].
  pose proof (stageD_AT _ _ _ _ _ HC ED) as HD.
  destruct res as [[c5 lb5]|c5]; [|intros [= <- _]; exact HD].
  unfold stageE. destruct lb5; [intros [= <- _]; apply AT_clear|].
  destruct (pool_of (cv_mem c5) s) as [pn|]; [|intros [= <- _]; apply AT_clear].
  destruct (find_pool _ pn); intros [= <- _]; [exact HD|apply AT_clear].
Qed.
End ConvergeAttrs.

(* ---------- SetBalancer: a call that does not ask for a reprocess only extends what the Service holds ---------- *)
Section SB.
Variable rank : ip -> N.
Lemma set_balancer_ext c s o k oc :
  set_balancer rank c s (Some o) k = Some oc -> c_have_pools c = true -> minv (c_mem c) ->
  oc_sync oc <> ReprocessAll ->
  (forall al, get_alloc (c_mem c) s = Some al -> a_ports al = r_ports (o_req o)) ->
  ext s (c_mem c) (c_mem (oc_state oc)).
Proof.
  unfold set_balancer. intros H Hp. rewrite Hp in H. cbn [negb] in H.
  destruct (converge rank (c_mem c) s o k) as [v ok|] eqn:EC; [|discriminate].
  match type of H with context [if ?b then ReprocessAll else ?e] => set (B := b) in H; set (E0 := e) in H end.
  intros Hm Hsync Hports.
  assert (HB : B = false /\ skey_eqb (key_of (c_mem c) s) (key_of (cv_mem v) s) = true).
  { destruct (negb _) in H; injection H as <-; cbn [oc_sync] in Hsync.
    - destruct B; [congruence|]. split; [reflexivity|]. unfold E0 in Hsync. destruct (skey_eqb _ _); [reflexivity|congruence].
    - destruct B; [destruct (k_write k); congruence|]. split; [reflexivity|].
      unfold E0 in Hsync. destruct (skey_eqb _ _); [reflexivity|destruct (k_write k); congruence]. }
  destruct HB as [HB Hkey].
  assert (Hst : c_mem (oc_state oc) = cv_mem v).
  { destruct (negb _) in H; injection H as <-; reflexivity. }
  rewrite Hst. clear H Hst.
  destruct (converge_frame _ _ _ _ _ _ _ EC) as [HF1 HF2].
  split; [exact HF2|]. split; [exact HF1|].
  intros al Hg Hne.
  unfold B in HB. apply orb_false_iff in HB. destruct HB as [HB _].
  assert (Hprev : ips_of (c_mem c) s = a_ips al) by (unfold ips_of; rewrite Hg; reflexivity).
  rewrite Hprev in HB.
  destruct (a_ips al) as [|x l] eqn:Eips; [congruence|]. rewrite <- Eips in *.
  apply andb_false_iff in HB.
  destruct Hm as [HI HP].
  destruct (HP (s, al)) as (p & Hpf & _); [apply get_alloc_In; [exact (proj1 HI)|exact Hg]|]. cbn [snd] in Hpf.
  rewrite HF2, Hpf in HB.
  destruct HB as [HB|HB]; [|discriminate]. apply negb_false_iff in HB.
  assert (Hincl : incl (a_ips al) (ips_of (cv_mem v) s)).
  { intros y Hy. unfold subset_ips in HB. apply mem_ip_In. exact (proj1 (forallb_forall _ _) HB y Hy). }
  unfold ips_of in Hincl. destruct (get_alloc (cv_mem v) s) as [al'|] eqn:Hg'.
  2:{ exfalso. rewrite Eips in Hincl. exact (Hincl x (or_introl eq_refl)). }
  exists al'. split; [reflexivity|]. split; [exact Hincl|].
  destruct (converge_attrs rank s _ _ _ _ _ EC al' Hg') as (Hpo & Hke & _).
  split; [rewrite Hpo; symmetry; apply Hports; exact Hg|].
  unfold key_of in Hkey. rewrite Hg, Hg' in Hkey. unfold skey_eqb in Hkey.
  apply andb_true_iff in Hkey. destruct Hkey as [K1 K2]. apply N.eqb_eq in K1. apply N.eqb_eq in K2.
  destruct (a_key al), (a_key al'). cbn in *. congruence.
Qed.
End SB.

Section HandlerPools.
Variable rank : ip -> N.
Lemma apply_handler_pools w s k w1 r :
  apply_handler rank w s k = Some (w1, r) -> s_pools (c_mem (w_ctl w1)) = s_pools (c_mem (w_ctl w)).
Proof.
  unfold apply_handler. destruct (set_balancer rank (w_ctl w) s (api_get w s) k) as [oc|] eqn:ES; [|discriminate].
  intros [= <- _]. cbn. exact (proj1 (proj2 (set_balancer_spec rank _ _ _ _ _ ES))).
Qed.
End HandlerPools.

(* ---------- Part 2: the reconciler ---------- *)
Lemma omap_all_none {A B} (f : A -> option B) l : (forall x, f x = None) -> omap f l = [].
Proof. intros H. induction l as [|x l IH]; cbn; [reflexivity|]. rewrite H. exact IH. Qed.

Lemma no_offer_no_pools a s o : by_name (s_pools a) = [] -> no_offer a s o.
Proof.
  intros Hn. unfold no_offer. destruct (o_want o) as [|d|]; [|auto|auto].
  - assert (Hf : forall n, find_pool (s_pools a) n = None) by (intros n; unfold find_pool; rewrite Hn; reflexivity).
    destruct (o_want_pool o) as [p|].
    + unfold from_pool_spec. rewrite Hf. reflexivity.
    + unfold allocate_spec, pinned_pools, unpinned_pools. rewrite Hn.
      rewrite !omap_all_none by (intros n; unfold usable_pinned; rewrite Hf; reflexivity). reflexivity.
  - unfold wips_ok, assign_check. rewrite Hn. cbn. apply andb_false_r.
Qed.

Section SB2.
Variable rank : ip -> N.

Lemma opt_pool_eqb_eq x y : opt_pool_eqb x y = true -> x = y.
Proof. destruct x, y; cbn; try discriminate; try reflexivity. intros H. apply N.eqb_eq in H. congruence. Qed.

Lemma set_balancer_mem c s o k oc :
  set_balancer rank c s (Some o) k = Some oc -> c_have_pools c = true ->
  exists v ok, converge rank (c_mem c) s o k = CR v ok /\ c_mem (oc_state oc) = cv_mem v /\
    match oc_write oc with
    | None => cv_status v = o_status o /\ cv_annot v = o_annot o
    | Some (st, an) => st = cv_status v /\ an = cv_annot v
    end.
Proof.
  unfold set_balancer. intros H Hp. rewrite Hp in H. cbn [negb] in H.
  destruct (converge rank (c_mem c) s o k) as [v ok|] eqn:EC; [|discriminate].
  exists v, ok. split; [reflexivity|].
  destruct (negb (negb (ips_eqb (cv_status v) (o_status o)) || negb (opt_pool_eqb (cv_annot v) (o_annot o)))) eqn:Hch;
    injection H as <-; cbn; split; try reflexivity; try (split; reflexivity).
  apply negb_true_iff, orb_false_iff in Hch. destruct Hch as [H1 H2]. apply negb_false_iff, ips_eqb_eq in H1.
  apply negb_false_iff, opt_pool_eqb_eq in H2. auto.
Qed.

Lemma set_balancer_self c s o k oc :
  set_balancer rank c s (Some o) k = Some oc -> c_have_pools c = true -> minv (c_mem c) -> eligible o ->
  match oc_write oc with Some (st, _) => st | None => o_status o end = [] ->
  no_offer (c_mem (oc_state oc)) s o.
Proof.
  intros H Hp Hm He Hst. destruct (set_balancer_mem _ _ _ _ _ H Hp) as (v & ok & EC & -> & Hw).
  assert (Hv : cv_status v = []).
  { destruct (oc_write oc) as [[st an]|]; [destruct Hw|destruct Hw]; congruence. }
  destruct (by_name (s_pools (c_mem c))) as [|p0 pr] eqn:Ebn.
  - apply no_offer_no_pools. destruct (converge_frame _ _ _ _ _ _ _ EC) as [_ HF2]. rewrite HF2. exact Ebn.
  - eapply converge_unserved; try eassumption. rewrite Ebn. discriminate.
Qed.
End SB2.

Section WorldStarve.
Variable rank : ip -> N.
Variable ports_of : svc -> list port.

Definition ports_ev (e : ev) : Prop :=
  match e with UPut s o => r_ports (o_req o) = ports_of s | _ => True end.
Definition api_ports (w : world) : Prop :=
  forall s o, aget (w_api w) s = Some o -> r_ports (o_req o) = ports_of s.
Definition mem_ports (a : st) : Prop :=
  forall s al, get_alloc a s = Some al -> a_ports al = ports_of s.

(* if t is an eligible Service without address, nothing is admissible for it *)
Definition P (w : world) (t : svc) : Prop :=
  forall o, aget (w_api w) t = Some o -> eligible o -> o_status o = [] -> no_offer (c_mem (w_ctl w)) t o.

Lemma no_offer_with_status a s o st an : no_offer a s (with_status o st an) <-> no_offer a s o.
Proof. unfold no_offer, wips_ok. cbn. tauto. Qed.
Lemma eligible_with_status o st an : eligible (with_status o st an) <-> eligible o.
Proof. unfold eligible. cbn. tauto. Qed.

Lemma handler_starve w s k w1 r :
  apply_handler rank w s k = Some (w1, r) ->
  minv (c_mem (w_ctl w)) -> (aget (w_api w) s <> None -> c_have_pools (w_ctl w) = true) ->
  api_ports w -> mem_ports (c_mem (w_ctl w)) ->
  api_ports w1 /\ mem_ports (c_mem (w_ctl w1)) /\
  (r <> ReprocessAll -> forall t, t <> s -> P w t -> P w1 t) /\
  (r <> ReprocessAll -> r <> Error -> P w1 s).
Proof.
  unfold apply_handler. rewrite api_get_aget.
  destruct (set_balancer rank (w_ctl w) s (aget (w_api w) s) k) as [oc|] eqn:ES; [|discriminate].
  intros [= <- <-] Hm Hhp HAP HMP.
  destruct (aget (w_api w) s) as [o|] eqn:Eo.
  - (* the Service exists *)
    assert (Hp : c_have_pools (w_ctl w) = true) by (apply Hhp; discriminate).
    pose proof (set_balancer_spec rank _ _ _ _ _ ES) as (HF1 & HF2 & _ & HM & _).
    destruct (set_balancer_mem _ _ _ _ _ _ ES Hp) as (v & ok & EC & Hmem & Hw).
    assert (Hapi : forall t, t <> s ->
       aget (match oc_write oc with
             | Some (st, an) => if k_write k then api_put (w_api w) s (with_status o st an) else w_api w
             | None => w_api w end) t = aget (w_api w) t).
    { intros t Ht. destruct (oc_write oc) as [[st an]|]; [|reflexivity].
      destruct (k_write k); [apply aget_put_other; exact Ht|reflexivity]. }
    match goal with |- context [{| w_api := ?x; w_ctl := _; w_gate := _; w_reload := _; w_queue := _ |}] => set (api' := x) end.
    assert (Eapi : api' = match oc_write oc with
             | Some (st, an) => if k_write k then api_put (w_api w) s (with_status o st an) else w_api w
             | None => w_api w end) by (unfold api'; destruct (oc_write oc) as [[? ?]|]; reflexivity).
    clearbody api'. subst api'.
    unfold api_ports, mem_ports, P in *. cbn [w_api w_ctl]. split; [|split; [|split]].
    + intros t ot. destruct (N.eq_dec t s) as [->|Hne].
      * destruct (oc_write oc) as [[st an]|]. 2:{ rewrite Eo; intros [= <-]; apply (HAP s o Eo). }
        destruct (k_write k); [|rewrite Eo; intros [= <-]; apply (HAP s o Eo)].
        rewrite aget_put_same. intros [= <-]. cbn. apply (HAP s o Eo).
      * rewrite (Hapi t Hne). apply HAP.
    + intros t al. destruct (N.eq_dec t s) as [->|Hne].
      * rewrite Hmem. intros Hg. destruct (converge_attrs rank s _ _ _ _ _ EC al Hg) as (Hpo & _).
        rewrite Hpo. apply (HAP s o Eo).
      * rewrite (HF1 t Hne). apply HMP.
    + intros Hr t Hne Pt ot Hot He Hst. rewrite (Hapi t Hne) in Hot.
      assert (Hext : ext s (c_mem (w_ctl w)) (c_mem (oc_state oc))).
      { eapply set_balancer_ext; try eassumption. intros al Hg. rewrite (HMP s al Hg). symmetry. apply (HAP s o Eo). }
      eapply no_offer_anti; [exact (proj1 Hm)|exact (proj1 (HM (conj (proj1 Hm) (proj2 Hm))))|exact Hext|].
      apply Pt; assumption.
    + intros Hr Hre os Hos He Hst.
      pose proof (set_balancer_spec rank _ _ _ _ _ ES) as (_ & _ & _ & _ & Hmain). specialize (Hmain Hp).
      destruct (oc_write oc) as [[st an]|] eqn:Ew.
      * destruct Hmain as (_ & _ & Hw2). destruct (k_write k) eqn:Ek.
        -- rewrite aget_put_same in Hos. injection Hos as <-. apply no_offer_with_status.
           apply (set_balancer_self rank _ _ _ _ _ ES Hp Hm); [apply eligible_with_status in He; exact He|].
           rewrite Ew. cbn in Hst. exact Hst.
        -- destruct (Hw2 eq_refl); congruence.
      * rewrite Eo in Hos. injection Hos as <-.
        apply (set_balancer_self rank _ _ _ _ _ ES Hp Hm He). rewrite Ew. exact Hst.
  - (* the Service is gone *)
    unfold set_balancer in ES. unfold api_ports, mem_ports, P in *. cbn [w_api w_ctl].
    destruct (get_alloc (c_mem (w_ctl w)) s) as [al|] eqn:Hg; injection ES as <-; cbn [oc_write oc_state oc_sync c_mem].
    + split; [exact HAP|]. split.
      * intros t al'. destruct (N.eq_dec t s) as [->|Hne]; [rewrite get_alloc_unassign_same; discriminate|].
        rewrite (get_alloc_unassign_other _ _ _ Hne). apply HMP.
      * split; [congruence|congruence].
    + split; [exact HAP|]. split; [exact HMP|]. split.
      * intros _ t _ Pt. exact Pt.
      * intros _ _ os Hos. rewrite Eo in Hos. discriminate.
Qed.

Lemma reload_pass_starve order : forall ks w retry acc w' retry' rs (D : svc -> Prop),
  reload_pass rank w order ks retry acc = Some (w', retry', rs) ->
  minv (c_mem (w_ctl w)) -> c_have_pools (w_ctl w) = true -> api_ports w -> mem_ports (c_mem (w_ctl w)) ->
  api_ports w' /\ mem_ports (c_mem (w_ctl w')) /\
  (retry' = false -> (forall t, D t -> P w t) -> forall t, D t \/ In t order -> P w' t).
Proof.
  induction order as [|s order IH]; intros ks w retry acc w' retry' rs D H Hm Hp HAP HMP.
  - cbn in H. injection H as <- <- _. split; [exact HAP|]. split; [exact HMP|].
    intros _ HD t [Ht|Ht]; [apply HD; exact Ht|destruct Ht].
  - cbn [reload_pass] in H. destruct ks as [|k ks]; [discriminate|].
    destruct (apply_handler rank w s k) as [[w1 r]|] eqn:EH; [|discriminate].
    pose proof (apply_handler_inv rank w s k w1 r EH (fun _ => Hp) Hm) as (_ & _ & Hm1 & Hp1 & _).
    specialize (Hp1 Hp).
    pose proof (handler_starve w s k w1 r EH Hm (fun _ => Hp) HAP HMP) as (HAP1 & HMP1 & Hother & Hself).
    pose proof (reload_pass_inv rank _ _ _ _ _ _ _ _ H Hm1 Hp1) as (_ & _ & _ & _ & _ & _ & Rt & _).
    destruct (IH _ _ _ _ _ _ _ (fun t => D t \/ t = s) H Hm1 Hp1 HAP1 HMP1) as (HAP' & HMP' & HP').
    split; [exact HAP'|]. split; [exact HMP'|].
    intros Hr HD t Ht.
    assert (Hrr : r <> ReprocessAll /\ r <> Error).
    { split; intros ->; (assert (retry' = true) by (apply Rt; destruct retry; reflexivity)); congruence. }
    destruct Hrr as [Hr1 Hr2].
    apply HP'; [exact Hr| |].
    + intros u [Hu| ->]; [|apply Hself; assumption].
      destruct (N.eq_dec u s) as [->|Hne]; [apply Hself; assumption|]. apply Hother; auto.
    + destruct Ht as [Ht|[<- |Ht]]; auto.
Qed.

Record SInv (w : world) : Prop := {
  si_api : api_ports w;
  si_mem : mem_ports (c_mem (w_ctl w));
  si_starve : w_reload w = false -> w_gate w = true -> forall t, In t (w_queue w) \/ P w t }.

Lemma SInv_world0 : SInv world0.
Proof.
  constructor; cbn; try discriminate; intros ? ? H; discriminate.
Qed.

Lemma set_pools_ports a ps : Inv a -> mem_ports a -> mem_ports (set_pools a ps).
Proof.
  intros HI H s al Hg.
  apply (get_alloc_In (set_pools a ps) s al (proj1 (Inv_set_pools a ps HI))) in Hg. cbn [set_pools allocated] in Hg.
  apply omap_In in Hg. destruct Hg as ([s0 al0] & Hin & Hre). unfold rehome in Hre. cbn [fst snd] in Hre.
  destruct (pool_for (by_name ps) (a_ips al0)); [|discriminate]. injection Hre as -> <-. cbn.
  apply (H s al0). apply get_alloc_In; [exact (proj1 HI)|exact Hin].
Qed.

Theorem wstep_SInv w e w' : WInv w -> SInv w -> ports_ev e -> wstep rank w e = Some w' -> SInv w'.
Proof.
  intros [HI HS HRP HGP HMP] [SA SM SS] Hpe. unfold wstep.
  destruct (wstep_t rank w e) as [[w2 rs]|] eqn:E; [|discriminate]. intros [= <-].
  destruct e as [s o|s|ps|s k|order ks| |]; cbn [wstep_t] in E.
  - (* UPut *)
    injection E as <- _. constructor; unfold api_ports; cbn [w_api w_ctl w_reload w_gate w_queue].
    + intros t ot. destruct (N.eq_dec t s) as [->|Hne].
      * rewrite aget_put_same. intros [= <-]. destruct (api_get w s); exact Hpe.
      * rewrite (aget_put_other _ _ _ _ Hne). apply SA.
    + exact SM.
    + intros Hr Hg t. destruct (N.eq_dec t s) as [->|Hne]; [left; apply In_enqueue; auto|].
      destruct (SS Hr Hg t) as [H|H]; [left; apply In_enqueue; auto|right].
      unfold P in *. cbn [w_api w_ctl]. rewrite (aget_put_other _ _ _ _ Hne). exact H.
  - (* UDel *)
    injection E as <- _. constructor; unfold api_ports; cbn [w_api w_ctl w_reload w_gate w_queue].
    + intros t ot. destruct (N.eq_dec t s) as [->|Hne].
      * rewrite aget_del_same. discriminate.
      * rewrite (aget_del_other _ _ _ Hne). apply SA.
    + exact SM.
    + intros Hr Hg t. destruct (N.eq_dec t s) as [->|Hne]; [left; apply In_enqueue; auto|].
      destruct (SS Hr Hg t) as [H|H]; [left; apply In_enqueue; auto|right].
      unfold P in *. cbn [w_api w_ctl]. rewrite (aget_del_other _ _ _ Hne). exact H.
  - (* EPools *)
    injection E as <- _. constructor; cbn [w_api w_ctl w_reload w_gate w_queue]; [exact SA| |discriminate].
    cbn. apply set_pools_ports; [exact (proj1 HI)|exact SM].
  - (* ESvc *)
    destruct (negb (memN s (w_queue w))) eqn:Eq; [discriminate|].
    destruct (negb (w_gate w) && match api_get w s with Some _ => true | None => false end) eqn:Eg.
    + injection E as <- _. apply andb_true_iff in Eg. destruct Eg as [Eg1 _]. apply negb_true_iff in Eg1.
      constructor; cbn [w_api w_ctl w_reload w_gate w_queue]; [exact SA|exact SM|discriminate].
    + destruct (apply_handler rank w s k) as [[w1 r]|] eqn:EH; [|discriminate].
      injection E as <- _.
      assert (Hpre : aget (w_api w) s <> None -> c_have_pools (w_ctl w) = true).
      { intros Hn. apply HGP. apply andb_false_iff in Eg. destruct Eg as [Eg|Eg].
        - apply negb_false_iff in Eg. exact Eg.
        - rewrite api_get_aget in Eg. destruct (aget (w_api w) s); [discriminate|congruence]. }
      pose proof (apply_handler_inv rank w s k w1 r EH Hpre HI) as (F1 & _ & _ & _ & _ & G1 & R1 & Q1 & _).
      pose proof (handler_starve w s k w1 r EH HI Hpre SA SM) as (HAP1 & HMP1 & Hother & Hself).
      constructor; cbn [w_api w_ctl w_reload w_gate w_queue]; [exact HAP1|exact HMP1|].
      intros Hr Hg t. apply orb_false_iff in Hr. destruct Hr as [Hr0 Hr1].
      assert (Hnr : r <> ReprocessAll) by (intros ->; discriminate).
      assert (PW : forall u, P w1 u -> P {| w_api := w_api w1; w_ctl := w_ctl w1; w_gate := w_gate w;
                                           w_reload := w_reload w || match r with ReprocessAll => true | _ => false end;
                                           w_queue := match r with Error => w_queue w | _ => dequeue (w_queue w) s end |} u)
        by (intros u Hu; exact Hu).
      destruct (N.eq_dec t s) as [->|Hne].
      * destruct r; try congruence.
        -- right. apply PW, Hself; congruence.
        -- left. apply negb_false_iff, memN_In in Eq. exact Eq.
        -- right. apply PW, Hself; congruence.
      * destruct (SS Hr0 Hg t) as [H|H].
        -- left. destruct r; try (apply In_dequeue; auto). exact H.
        -- right. apply PW, Hother; assumption.
  - (* EReload *)
    destruct (negb (w_reload w)) eqn:Er; [discriminate|]. apply negb_false_iff in Er.
    destruct (negb (same_set order (map fst (w_api w)) && desc_by_status w order)) eqn:Eo; [discriminate|].
    apply negb_false_iff, andb_true_iff in Eo. destruct Eo as [Eo _].
    destruct (reload_pass rank w order ks false []) as [[[w1 retry] rs1]|] eqn:EP; [|discriminate].
    injection E as <- _.
    destruct (reload_pass_starve order _ _ _ _ _ _ _ (fun _ => False) EP HI (HRP Er) SA SM) as (HAP' & HMP' & HP').
    pose proof (reload_pass_inv rank _ _ _ _ _ _ _ _ EP HI (HRP Er)) as (_ & _ & _ & _ & _ & Ex' & _).
    constructor; cbn [w_api w_ctl w_reload w_gate w_queue]; [exact HAP'|exact HMP'|].
    intros Hr _ t. right. intros ot Hot. 
    assert (Hin : In t order).
    { apply (same_set_In _ _ t Eo). apply aget_In. intros Hn. apply Ex' in Hn. cbn [w_api] in Hot. congruence. }
    apply (HP' Hr (fun u (F : False) => match F with end) t (or_intror Hin) ot Hot).
  - (* EKick *)
    destruct (negb (c_have_pools (w_ctl w))); [discriminate|]. injection E as <- _.
    constructor; cbn [w_api w_ctl w_reload w_gate w_queue]; [exact SA|exact SM|discriminate].
  - (* ECrash *)
    injection E as <- _. constructor; cbn [w_api w_ctl w_reload w_gate w_queue]; [exact SA| |discriminate].
    intros s al H. discriminate.
Qed.

Theorem wrun_SInv evs : forall w w', WInv w -> SInv w -> Forall ports_ev evs -> wrun rank evs w = Some w' -> SInv w'.
Proof.
  induction evs as [|e evs IH]; intros w w' HW HS Hp H; cbn in H.
  - injection H as <-. exact HS.
  - inversion Hp as [|? ? Hp1 Hp2]; subst. unfold wrun in IH. destruct (wstep rank w e) as [w1|] eqn:E.
    + eapply IH; [eapply wstep_WInv; eassumption|eapply wstep_SInv; eassumption|exact Hp2|exact H].
    + rewrite wrun_none in H. discriminate.
Qed.

(* C07, the statement itself: in every history in which no Service's ports are
   edited, whenever the reconciler has no pending work (no queued request, no
   pending re-sync, first full pass done), a LoadBalancer Service with valid
   cluster IPs that has no address has no admissible assignment in the
   controller's memory - and that memory equals the recorded statuses
   (quiescent_memory_eq_status) *)
Theorem quiescent_no_starvation evs w s o :
  Forall ports_ev evs -> wrun rank evs world0 = Some w -> quiescent w ->
  aget (w_api w) s = Some o -> eligible o -> o_status o = [] ->
  no_offer (c_mem (w_ctl w)) s o.
Proof.
  intros Hp Hr (Hq1 & Hq2 & Hq3) Ho He Hs.
  pose proof (wrun_SInv evs world0 w WInv_world0 SInv_world0 Hp Hr) as [_ _ SS].
  destruct (SS Hq1 Hq3 s) as [H|H]; [rewrite Hq2 in H; destruct H|]. apply H; assumption.
Qed.
End WorldStarve.
