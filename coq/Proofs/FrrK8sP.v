(* Lemmas about Model/FrrK8s.v (C15). *)
From Coq Require Import String NArith Bool List Permutation Sorted Lia.
From Verif Require Import Model.FrrK8s Proofs.FrrSortP.
Import ListNotations.
Open Scope string_scope.

Lemma k8s_render_selector node S c : k8s_render node S = Some c ->
  kc_node_selector c = [("kubernetes.io/hostname", node)] /\ kc_name c = "metallb-" ++ node.
Proof.
  unfold k8s_render. destruct (all_some _); [|discriminate]. intros H; inversion H; subst; auto.
Qed.

Lemma pfx_set_exact l : exact_pfx_set (pfx_set l) l.
Proof. apply sort_k_exact. Qed.

(* ---- per-neighbor exactness ---- *)
Lemma k_neighbor_allowed s n : k_neighbor s = Some n -> exact_pfx_set (kn_allowed n) (map a_pfx (s_advs s)).
Proof.
  unfold k_neighbor. destruct (_ && _); [discriminate|]. intros H; inversion H; subst; simpl. apply pfx_set_exact.
Qed.

Lemma comm_keys_spec advs k :
  In k (comm_keys advs) <-> exists a c, In a advs /\ In c (a_comms a) /\ comm_key c = k.
Proof.
  unfold comm_keys. rewrite sort_s_in, in_flat_map. split.
  - intros (a & Ha & Hk). apply in_map_iff in Hk as (c & E & Hc). exists a, c; auto.
  - intros (a & c & Ha & Hc & E). exists a; split; [assumption|]. apply in_map_iff. exists c; auto.
Qed.

Lemma has_comm_spec k a : has_comm k a = true <-> exists c, In c (a_comms a) /\ comm_key c = k.
Proof.
  unfold has_comm. rewrite existsb_exists. split; intros (c & Hc & E); exists c; split; try assumption.
  - apply String.eqb_eq; assumption.
  - apply String.eqb_eq; assumption.
Qed.

Lemma k_neighbor_comm s n : k_neighbor s = Some n ->
  map fst (kn_with_comm n) = comm_keys (s_advs s) /\
  StronglySorted slt (map fst (kn_with_comm n)) /\ NoDup (map fst (kn_with_comm n)) /\
  forall k ps, In (k, ps) (kn_with_comm n) ->
    exact_pfx_set ps (map a_pfx (filter (has_comm k) (s_advs s))).
Proof.
  unfold k_neighbor. destruct (_ && _); [discriminate|]. intros H; inversion H; subst; simpl.
  rewrite map_map. simpl. rewrite map_id.
  split; [reflexivity|]. split; [apply sort_s_sorted|]. split; [apply sort_s_nodup|].
  intros k ps Hin. apply in_map_iff in Hin as (k' & E & _). inversion E; subst. apply pfx_set_exact.
Qed.

Lemma lp_keys_spec advs n : In n (lp_keys advs) <-> n <> 0%N /\ exists a, In a advs /\ a_lp a = n.
Proof.
  unfold lp_keys. rewrite sort_n_in, filter_In, in_map_iff, negb_true_iff, N.eqb_neq. split.
  - intros ((a & E & Ha) & Hn). split; [assumption|exists a; auto].
  - intros (Hn & a & Ha & E). split; [exists a; auto|assumption].
Qed.

Lemma k_neighbor_lp s n : k_neighbor s = Some n ->
  map fst (kn_with_lp n) = lp_keys (s_advs s) /\
  StronglySorted N.lt (map fst (kn_with_lp n)) /\ ~ In 0%N (map fst (kn_with_lp n)) /\
  forall l ps, In (l, ps) (kn_with_lp n) ->
    exact_pfx_set ps (map a_pfx (filter (fun a => N.eqb (a_lp a) l) (s_advs s))).
Proof.
  unfold k_neighbor. destruct (_ && _); [discriminate|]. intros H; inversion H; subst; simpl.
  rewrite map_map. simpl. rewrite map_id.
  split; [reflexivity|]. split; [apply sort_n_sorted|]. split.
  - rewrite lp_keys_spec. intros [Hn _]. congruence.
  - intros l ps Hin. apply in_map_iff in Hin as (k' & E & _). inversion E; subst. apply pfx_set_exact.
Qed.

Lemma k_neighbor_params s n : k_neighbor s = Some n ->
  kn_address n = s_addr s /\ kn_interface n = s_iface s /\ kn_asn n = s_peerasn s /\ kn_dynasn n = s_dynasn s /\
  kn_port n = s_port s /\ kn_hold n = s_hold s /\ kn_keep n = s_keep s /\ kn_connect n = s_connect s /\
  kn_bfd n = s_bfd s /\ kn_gr n = s_gr s /\ kn_multihop n = s_multihop s /\ kn_disable_mp n = s_disable_mp s /\
  kn_password n = s_password s /\ kn_secret n = s_secret s.
Proof.
  unfold k_neighbor. destruct (_ && _); [discriminate|]. intros H; inversion H; subst; simpl. repeat split.
Qed.

(* F24: the source address is never carried *)
Lemma k_neighbor_source_dropped s n : k_neighbor s = Some n -> kn_source n = "".
Proof.
  unfold k_neighbor. destruct (_ && _); [discriminate|]. intros H; inversion H; subst; reflexivity.
Qed.

Lemma k_neighbor_password_xor s n : k_neighbor s = Some n ->
  nonempty (kn_password n) && negb (secret_empty (kn_secret n)) = false.
Proof.
  unfold k_neighbor. destruct (negb (secret_empty (s_secret s)) && nonempty (s_password s)) eqn:E; [discriminate|].
  intros H; inversion H; subst; simpl. rewrite andb_comm. exact E.
Qed.

Lemma k_neighbor_refuses_both s :
  nonempty (s_password s) = true -> secret_empty (s_secret s) = false -> k_neighbor s = None.
Proof. unfold k_neighbor. intros -> ->. reflexivity. Qed.

(* passwordForSession *)
Lemma password_for_session_spec p t h pw ref :
  password_for_session p t h = Some (pw, ref) ->
  match t, h with
  | BgpFrrK8s, SecretPassThrough => pw = pw_password p /\ ref = pw_ref p
  | BgpOther, _ => pw = "" /\ ref = ("", "")
  | _, _ => ref = ("", "") /\ pw = (if nonempty (pw_secret_password p) then pw_secret_password p else pw_password p)
  end.
Proof.
  unfold password_for_session. destruct (_ && _); [discriminate|].
  destruct t, h; intros H; inversion H; subst; auto.
Qed.

(* a peer that has a plain password XOR a secret reference (what config validation enforces)
   never yields a session with both *)
Lemma password_for_session_xor p t h pw ref :
  (nonempty (pw_password p) && negb (secret_empty (pw_ref p)) = false) ->
  password_for_session p t h = Some (pw, ref) ->
  nonempty pw && negb (secret_empty ref) = false.
Proof.
  intros Hx H. apply password_for_session_spec in H.
  destruct t, h; destruct H as [H1 H2]; subst; try reflexivity; try assumption;
    try (rewrite andb_comm; reflexivity).
Qed.

(* ---- routers / neighbors of the whole configuration ---- *)
Lemma k_router_spec S k r : k_router S k = Some r ->
  exists first rest, sessions_with rkey k S = first :: rest /\
    kr_asn r = s_myasn first /\ kr_vrf r = s_vrf first /\
    kr_id r = (match s_rid first with Some i => i | None => "" end) /\
    all_some (map k_neighbor (sort_k sname (first :: rest))) = Some (kr_nbrs r) /\
    exact_pfx_set (kr_prefixes r) (map a_pfx (flat_map s_advs (first :: rest))).
Proof.
  unfold k_router. destruct (sessions_with rkey k S) as [|f rest] eqn:E; [discriminate|].
  destruct (all_some _) as [ns|] eqn:E2; [|discriminate]. intros H; inversion H; subst; simpl.
  exists f, rest. repeat split; try reflexivity; try assumption; apply pfx_set_exact.
Qed.

(* every neighbor of the configuration is the image of exactly one session, in
   the router of that session's key: nothing leaks across neighbors *)
Lemma k8s_neighbor_origin node S c r n :
  k8s_render node S = Some c -> In r (kc_routers c) -> In n (kr_nbrs r) ->
  exists s, In s S /\ k_neighbor s = Some n /\ k_router S (rkey s) = Some r.
Proof.
  unfold k8s_render. destruct (all_some _) as [rs|] eqn:E; [|discriminate]. intros H; inversion H; subst; simpl.
  intros Hr Hn. pose proof (all_some_in _ _ _ E Hr) as Hin. apply in_map_iff in Hin as (k & Hk & _).
  destruct (k_router_spec _ _ _ Hk) as (f & rest & Es & _ & _ & _ & Hns & _).
  pose proof (all_some_in _ _ _ Hns Hn) as Hin2. apply in_map_iff in Hin2 as (s & Hs & Hs2).
  apply sort_k_in in Hs2. rewrite <- Es in Hs2. apply sessions_with_in in Hs2 as [HS Hkey].
  exists s. split; [assumption|]. split; [assumption|]. rewrite Hkey. assumption.
Qed.

(* every session has its neighbor (under distinct session names: they are map keys) *)
Lemma k8s_session_has_neighbor node S c s :
  key_inj sname S -> k8s_render node S = Some c -> In s S ->
  exists r n, In r (kc_routers c) /\ In n (kr_nbrs r) /\ k_neighbor s = Some n /\ k_router S (rkey s) = Some r.
Proof.
  intros Hinj. unfold k8s_render. destruct (all_some _) as [rs|] eqn:E; [|discriminate]. intros H; inversion H; subst; simpl.
  intros Hs.
  assert (Hk: In (rkey s) (sort_s (map rkey S))) by (apply sort_s_in, in_map; assumption).
  destruct (k_router S (rkey s)) as [r|] eqn:Er.
  - exists r. assert (Hr: In r rs).
    { eapply all_some_has; [exact E|]. apply in_map_iff. exists (rkey s); auto. }
    destruct (k_router_spec _ _ _ Er) as (f & rest & Es & _ & _ & _ & Hns & _).
    assert (Hsr: In s (f :: rest)) by (rewrite <- Es; apply sessions_with_in; auto).
    destruct (sort_k_has sname _ _ Hsr) as (s' & Hs' & Ks').
    assert (s' = s).
    { apply Hinj; [|assumption|assumption]. apply sort_k_in in Hs'. rewrite <- Es in Hs'. apply sessions_with_in in Hs'. tauto. }
    subst s'.
    destruct (k_neighbor s) as [n|] eqn:En.
    + exists n. split; [assumption|]. split; [|split; reflexivity].
      eapply all_some_has; [exact Hns|]. apply in_map_iff. exists s; auto.
    + exfalso. eapply all_some_none; [exact Hns|]. apply in_map_iff. exists s; auto.
  - exfalso. eapply all_some_none; [exact E|]. apply in_map_iff. exists (rkey s); auto.
Qed.

(* ---- independence of the creation order ---- *)
Definition rkey_fields (S : list session) : Prop :=
  forall s t, In s S -> In t S -> rkey s = rkey t ->
    s_myasn s = s_myasn t /\ s_rid s = s_rid t /\ s_vrf s = s_vrf t.
Definition pfx_texts_inj (S : list session) : Prop := key_inj p_text (map a_pfx (flat_map s_advs S)).

Lemma k_router_perm S S' k :
  key_inj sname S -> rkey_fields S -> pfx_texts_inj S -> Permutation S S' -> k_router S k = k_router S' k.
Proof.
  intros Hinj Hf Hp Hperm. unfold k_router.
  pose proof (filter_perm (fun s => String.eqb (rkey s) k) _ _ Hperm) as Pf. fold (sessions_with rkey k S) (sessions_with rkey k S') in Pf.
  destruct (sessions_with rkey k S) as [|f rest] eqn:E; destruct (sessions_with rkey k S') as [|f' rest'] eqn:E'.
  - reflexivity.
  - apply Permutation_nil in Pf. discriminate.
  - apply Permutation_sym, Permutation_nil in Pf. discriminate.
  - assert (Hsub: forall x, In x (f :: rest) -> In x S /\ rkey x = k) by (intros x Hx; rewrite <- E in Hx; apply sessions_with_in in Hx; assumption).
    assert (Hff': In f' (f :: rest)) by (eapply Permutation_in; [apply Permutation_sym; exact Pf|left; reflexivity]).
    destruct (Hsub f (or_introl eq_refl)) as [HfS Kf]. destruct (Hsub f' Hff') as [Hf'S Kf'].
    destruct (Hf f f' HfS Hf'S (eq_trans Kf (eq_sym Kf'))) as (A1 & A2 & A3).
    assert (Es: sort_k sname (f :: rest) = sort_k sname (f' :: rest')).
    { apply sort_k_perm; [|assumption]. intros x y Hx Hy. apply Hinj; apply Hsub; assumption. }
    rewrite Es.
    assert (Ep: pfx_set (map a_pfx (flat_map s_advs (f :: rest))) = pfx_set (map a_pfx (flat_map s_advs (f' :: rest')))).
    { apply sort_k_perm.
      - intros x y Hx Hy. apply Hp; apply in_map_iff.
        + apply in_map_iff in Hx as (a & <- & Ha). exists a; split; [reflexivity|]. apply in_flat_map in Ha as (u & Hu & Hau).
          apply in_flat_map. exists u; split; [apply Hsub; assumption|assumption].
        + apply in_map_iff in Hy as (a & <- & Ha). exists a; split; [reflexivity|]. apply in_flat_map in Ha as (u & Hu & Hau).
          apply in_flat_map. exists u; split; [apply Hsub; assumption|assumption].
      - apply Permutation_map. apply Permutation_flat_map. assumption. }
    rewrite Ep, A1, A2, A3. reflexivity.
Qed.

Lemma k8s_render_perm node S S' :
  key_inj sname S -> rkey_fields S -> pfx_texts_inj S -> Permutation S S' ->
  k8s_render node S = k8s_render node S'.
Proof.
  intros Hinj Hf Hp Hperm. unfold k8s_render.
  rewrite (sort_s_perm (map rkey S) (map rkey S')) by (apply Permutation_map; assumption).
  rewrite (all_some_ext (k_router S) (k_router S')); [reflexivity|].
  intros k _. apply k_router_perm; assumption.
Qed.
