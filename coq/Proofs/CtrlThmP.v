(* Consequences of the handler / world invariants used by the property files
   C01 C02 C03 C06 C07 (controller level). *)
From Coq Require Import List NArith Bool Lia.
From Verif Require Import Model.Net Model.Alloc Model.Ctrl Proofs.NetP Proofs.AllocP Proofs.AllocPolicyP
                          Proofs.CtrlP Proofs.CtrlWorldP.
Import ListNotations.
Local Open Scope N_scope.

Section Thm.
Variable rank : ip -> N.

(* ---------- C03: frame ---------- *)
(* handling Service s changes nothing recorded for any other Service, neither in
   memory nor in the API *)
Theorem handler_frame w s k w' r t :
  apply_handler rank w s k = Some (w', r) -> t <> s ->
  aget (w_api w') t = aget (w_api w) t /\
  get_alloc (c_mem (w_ctl w')) t = get_alloc (c_mem (w_ctl w)) t.
Proof.
  unfold apply_handler. rewrite !api_get_aget.
  destruct (set_balancer rank (w_ctl w) s (aget (w_api w) s) k) as [oc|] eqn:ES; [|discriminate].
  intros [= <- <-] Hne. cbn [w_api w_ctl].
  pose proof (set_balancer_spec rank _ _ _ _ _ ES) as (HF1 & _).
  split; [|apply HF1; exact Hne].
  destruct (oc_write oc) as [[st an]|]; [|reflexivity].
  destruct (aget (w_api w) s) as [o|]; [|reflexivity].
  destruct (k_write k); [|reflexivity]. apply aget_put_other. exact Hne.
Qed.

(* ---------- C03: configuration changes that keep the addresses inside a pool ---------- *)
Lemma find_omap_rehome ps (l : list (svc * alloc)) s al p :
  NoDup (map fst l) -> In (s, al) l -> pool_for (by_name ps) (a_ips al) = Some p ->
  In (s, {| a_pool := p_name p; a_ips := a_ips al; a_ports := a_ports al; a_key := a_key al |}) (omap (rehome ps) l).
Proof.
  intros _ Hin Hp. apply omap_In. exists (s, al). split; [exact Hin|].
  unfold rehome. cbn. rewrite Hp. reflexivity.
Qed.

(* renaming / re-grouping / editing pools keeps a Service's addresses as long as
   some pool still owns them all; only the recorded pool name follows *)
Theorem setpools_keeps a ps s al p :
  Inv a -> get_alloc a s = Some al -> pool_for (by_name ps) (a_ips al) = Some p ->
  get_alloc (set_pools a ps) s =
    Some {| a_pool := p_name p; a_ips := a_ips al; a_ports := a_ports al; a_key := a_key al |}.
Proof.
  intros HI Hg Hp. pose proof (Inv_set_pools a ps HI) as [Hnd' _]. destruct HI as [Hnd _].
  apply (get_alloc_In (set_pools a ps) s _ Hnd'). cbn.
  apply find_omap_rehome; [exact Hnd| |exact Hp]. apply (get_alloc_In a s al Hnd). exact Hg.
Qed.

(* ... and drops them (only) when no pool owns them any more *)
Theorem setpools_drops a ps s al :
  Inv a -> get_alloc a s = Some al -> pool_for (by_name ps) (a_ips al) = None ->
  get_alloc (set_pools a ps) s = None.
Proof.
  intros [Hnd _] Hg Hp. unfold get_alloc. cbn.
  destruct (find (fun e => fst e =? s) (omap (rehome ps) (allocated a))) as [e'|] eqn:F; [|reflexivity].
  exfalso. apply find_some in F. destruct F as [Hin Hk]. apply omap_In in Hin. destruct Hin as [e [He Hr]].
  cbv beta in Hk. apply N.eqb_eq in Hk.
  pose proof (rehome_fst _ _ _ Hr) as [Ef _].
  assert (e = (s, al)).
  { destruct e as [s0 a0]. cbn in Ef.
    assert (Hs : s0 = s) by (transitivity (fst e'); [symmetry; exact Ef|exact Hk]).
    rewrite Hs in He |- *. f_equal. apply (proj2 (get_alloc_In a s a0 Hnd)) in He. congruence. }
  subst e. unfold rehome in Hr. cbn in Hr. rewrite Hp in Hr. discriminate.
Qed.

(* ---------- C07: releasing an address asks for a full re-sync ---------- *)
Definition releases (a a' : st) (s : svc) (ips : list ip) : Prop :=
  ips <> [] /\ (exists x, In x ips /\ ~ In x (ips_of a' s)) /\ pool_for (by_name (s_pools a')) ips <> None.

Lemma subset_ips_false a b : (exists x, In x a /\ ~ In x b) -> subset_ips a b = false.
Proof.
  intros [x [Hx Hn]]. unfold subset_ips. destruct (forallb (fun x => mem_ip x b) a) eqn:E; [|reflexivity].
  exfalso. apply Hn. apply mem_ip_In. exact (proj1 (forallb_forall _ _) E x Hx).
Qed.

(* when an address the Service held before (in memory, or recorded in its
   status) is no longer held although it still belongs to a pool, SetBalancer
   answers ReprocessAll - whether or not the Service object needed an update, and
   whether or not the status write it attempted succeeded (fix F27: before it, a
   failed write answered Error and the request to reprocess was lost) *)
Theorem release_triggers_reload c s o k oc :
  set_balancer rank c s (Some o) k = Some oc -> c_have_pools c = true ->
  (releases (c_mem c) (c_mem (oc_state oc)) s (ips_of (c_mem c) s) \/
   releases (c_mem c) (c_mem (oc_state oc)) s (o_status o)) ->
  oc_sync oc = ReprocessAll.
Proof.
  unfold set_balancer. intros H Hp. rewrite Hp in H. cbn [negb] in H.
  destruct (converge rank (c_mem c) s o k) as [v ok|]; [|discriminate].
  assert (Hrel' : forall ips, releases (c_mem c) (cv_mem v) s ips ->
     match ips with
     | [] => false
     | _ :: _ => negb (subset_ips ips (ips_of (cv_mem v) s)) &&
                 match pool_for (by_name (s_pools (cv_mem v))) ips with Some _ => true | None => false end
     end = true).
  { intros ips (Hne & Hex & Hpool). destruct ips as [|x l]; [congruence|].
    rewrite (subset_ips_false _ _ Hex). cbn.
    destruct (pool_for (by_name (s_pools (cv_mem v))) (x :: l)); [reflexivity|congruence]. }
  destruct (negb (negb (ips_eqb (cv_status v) (o_status o)) || negb (opt_pool_eqb (cv_annot v) (o_annot o)))).
  - injection H as <-. cbn. intros Hrel.
    destruct Hrel as [Hr|Hr]; apply Hrel' in Hr; rewrite Hr; cbn; rewrite ?orb_true_r; reflexivity.
  - injection H as <-. cbn. intros Hrel.
    destruct Hrel as [Hr|Hr]; apply Hrel' in Hr; rewrite Hr; cbn; rewrite ?orb_true_r; destruct (k_write k); reflexivity.
Qed.

(* a deleted Service that still holds addresses is released and asks for a re-sync *)
Theorem delete_triggers_reload c s k oc al :
  set_balancer rank c s None k = Some oc -> get_alloc (c_mem c) s = Some al ->
  oc_sync oc = ReprocessAll /\ get_alloc (c_mem (oc_state oc)) s = None.
Proof.
  unfold set_balancer. intros H Hg. rewrite Hg in H. injection H as <-. cbn.
  split; [reflexivity|apply get_alloc_unassign_same].
Qed.

(* and a ReprocessAll of a single-service reconcile makes a re-sync pending *)
Theorem reprocess_sets_reload w s k w' :
  wstep_t rank w (ESvc s k) = Some (w', [ReprocessAll]) -> w_reload w' = true.
Proof.
  cbn [wstep_t]. destruct (negb (memN s (w_queue w))); [discriminate|].
  destruct (negb (w_gate w) && _); [discriminate|].
  destruct (apply_handler rank w s k) as [[w2 r]|]; [|discriminate].
  intros H. injection H as Hw Hr. subst r. rewrite <- Hw. cbn. apply orb_true_r.
Qed.

(* ---------- C06 ---------- *)
(* before the first complete pass events of existing Services change nothing *)
Theorem gate_drops_early_events w s k w' rs o :
  wstep_t rank w (ESvc s k) = Some (w', rs) -> w_gate w = false -> api_get w s = Some o ->
  w_api w' = w_api w /\ w_ctl w' = w_ctl w /\ rs = [].
Proof.
  cbn [wstep_t]. destruct (negb (memN s (w_queue w))); [discriminate|].
  intros H Hg Ho. rewrite Hg, Ho in H. cbn in H. injection H as <- <-. auto.
Qed.

(* the order of a full pass: once a Service without recorded address is reached,
   every later Service of the pass has none either *)
Definition nstatus (w : world) (s : svc) : nat :=
  length (match api_get w s with Some o => o_status o | None => [] end).

Lemma desc_by_status_sorted w order :
  desc_by_status w order = true ->
  forall l1 s l2, order = l1 ++ s :: l2 -> forall t, In t l2 -> (nstatus w t <= nstatus w s)%nat.
Proof.
  induction order as [|a order IH]; intros Hd l1 s l2 Heq t Ht.
  - destruct l1; discriminate.
  - destruct order as [|b r].
    + destruct l1 as [|x l1]; [injection Heq as <- <-; destruct Ht|].
      injection Heq as _ Heq. destruct l1; discriminate.
    + cbn [desc_by_status] in Hd. apply andb_true_iff in Hd. destruct Hd as [Hab Hd].
      apply N.leb_le in Hab.
      assert (Hhead : forall t, In t (b :: r) -> (nstatus w t <= nstatus w a)%nat).
      { intros u Hu. destruct Hu as [<-|Hu]; [unfold nstatus; lia|].
        assert (nstatus w u <= nstatus w b)%nat by (apply (IH Hd [] b r eq_refl u Hu)).
        unfold nstatus in *. lia. }
      destruct l1 as [|x l1].
      * injection Heq as <- <-. apply Hhead. exact Ht.
      * injection Heq as _ Heq. apply (IH Hd l1 s l2 Heq t Ht).
Qed.

Theorem first_pass_assigned_first w order l1 s l2 :
  desc_by_status w order = true -> order = l1 ++ s :: l2 -> nstatus w s = O ->
  forall t, In t l2 -> nstatus w t = O.
Proof.
  intros Hd Heq Hs t Ht. pose proof (desc_by_status_sorted w order Hd l1 s l2 Heq t Ht). lia.
Qed.

(* ---------- status halves of C01 / C02 ---------- *)
Theorem quiescent_status_exclusive evs w s1 s2 o1 o2 x :
  wrun rank evs world0 = Some w -> quiescent w -> s1 <> s2 ->
  aget (w_api w) s1 = Some o1 -> aget (w_api w) s2 = Some o2 ->
  In x (o_status o1) -> In x (o_status o2) ->
  exists al1 al2, get_alloc (c_mem (w_ctl w)) s1 = Some al1 /\ get_alloc (c_mem (w_ctl w)) s2 = Some al2 /\
                  shareable al1 al2.
Proof.
  intros Hr Hq Hne H1 H2 Hx1 Hx2.
  pose proof (quiescent_memory_eq_status rank evs w Hr Hq) as HS.
  pose proof (wrun_WInv rank evs world0 w WInv_world0 Hr) as [[[Hnd Hex] _] _ _ _ _].
  pose proof (HS s1) as S1. pose proof (HS s2) as S2. rewrite H1 in S1. rewrite H2 in S2.
  apply S1 in Hx1. apply S2 in Hx2. unfold ips_of in Hx1, Hx2.
  destruct (get_alloc (c_mem (w_ctl w)) s1) as [al1|] eqn:G1; [|destruct Hx1].
  destruct (get_alloc (c_mem (w_ctl w)) s2) as [al2|] eqn:G2; [|destruct Hx2].
  exists al1, al2. split; [reflexivity|]. split; [reflexivity|].
  apply (get_alloc_In _ _ _ Hnd) in G1. apply (get_alloc_In _ _ _ Hnd) in G2.
  exact (Hex (s1, al1) (s2, al2) x G1 G2 Hne Hx1 Hx2).
Qed.

Theorem quiescent_status_in_pool evs w s o x :
  wrun rank evs world0 = Some w -> quiescent w ->
  aget (w_api w) s = Some o -> In x (o_status o) ->
  exists al p, get_alloc (c_mem (w_ctl w)) s = Some al /\
               In p (by_name (s_pools (c_mem (w_ctl w)))) /\ p_name p = a_pool al /\ in_pool p x = true /\
               (p_avoid p = true -> buggy x = false).
Proof.
  intros Hr Hq H1 Hx.
  pose proof (quiescent_memory_eq_status rank evs w Hr Hq s) as S1. rewrite H1 in S1.
  pose proof (wrun_WInv rank evs world0 w WInv_world0 Hr) as [[[Hnd _] HC] _ _ _ _].
  apply S1 in Hx. unfold ips_of in Hx.
  destruct (get_alloc (c_mem (w_ctl w)) s) as [al|] eqn:G1; [|destruct Hx].
  apply (get_alloc_In _ _ _ Hnd) in G1.
  destruct (HC (s, al) G1) as [p [Hp Hn]]. cbn in Hp, Hn.
  apply pool_for_spec in Hp. destruct Hp as [Hin Hall].
  exists al, p. split; [reflexivity|]. repeat split; auto.
  specialize (Hall x Hx). apply in_pool_spec in Hall. tauto.
Qed.


(* ---------- C03: a Service whose recorded addresses are admissible keeps them ---------- *)
Definition admissible_now (a : st) (s : svc) (o : svcobj) : Prop :=
  let r := o_req o in
  o_lb o = true /\ by_name (s_pools a) <> [] /\ o_cluster_ok o = true /\
  (is_require (r_pol r) && negb (is_dual (r_fam r))) = false /\
  o_status o <> [] /\ family_changed (alloc_fam (o_status o)) (r_fam r) (r_pol r) = false /\
  exists a', assign a s r (o_status o) = (a', ROk (o_status o)) /\
    (forall p, o_want_pool o = Some p -> pool_of a' s = Some p) /\
    (o_want o = WNone \/ exists d, o_want o = WIps d /\ equal_ips rank (o_status o) d = true).

Lemma find_pool_exists ps p : In p (by_name ps) -> exists q, find_pool ps (p_name p) = Some q.
Proof.
  intros Hin. unfold find_pool. destruct (find (fun q => p_name q =? p_name p) (by_name ps)) as [q|] eqn:F; [eauto|].
  exfalso. pose proof (find_none _ _ F p Hin) as Hn. cbv beta in Hn. rewrite N.eqb_refl in Hn. discriminate.
Qed.

Lemma assigned_pool_exists a s r ips a' out :
  assign a s r ips = (a', ROk out) ->
  exists pn q, pool_of a' s = Some pn /\ find_pool (s_pools a') pn = Some q.
Proof.
  intros H. apply assign_ok_holds in H. destruct H as (_ & _ & Hpools & p & Hp & Hpo).
  apply pool_for_spec in Hp. destruct Hp as [Hin _].
  destruct (find_pool_exists (s_pools a) p Hin) as [q Hq].
  exists (p_name p), q. rewrite Hpools. auto.
Qed.

Theorem handler_keeps a s o k v ok :
  admissible_now a s o -> converge rank a s o k = CR v ok ->
  ok = true /\ (forall x, In x (o_status o) -> In x (cv_status v)) /\
  (same_ips (cv_status v) (o_status o) \/
   (r_pol (o_req o) = Prefer /\ exists have x, o_status o = [have] /\ cv_status v = [have; x])).
Proof.
  intros (Hlb & Hpools & Hcl & Hreq & Hst & Hfam & a' & Has & Hwp & Hwant).
  unfold converge. rewrite Hlb, Hcl, Hreq. cbn [negb].
  destruct (by_name (s_pools a)) as [|p0 ps0] eqn:Ebn; [congruence|].
  set (c0 := {| cv_mem := a; cv_status := o_status o; cv_annot := o_annot o |}).
  (* stage A keeps the recorded addresses *)
  assert (EA : stageA c0 s o = (c0, o_status o)).
  { unfold stageA. destruct (o_status o) as [|x l] eqn:Es; [congruence|]. rewrite Hfam. reflexivity. }
  rewrite EA.
  (* stage B: the re-assignment succeeds, pool and requested addresses agree *)
  set (c2 := {| cv_mem := a'; cv_status := o_status o; cv_annot := o_annot o |}).
  assert (EB : exists lb3, stageB rank c0 (o_status o) s o = inl (c2, lb3) /\ same_ips lb3 (o_status o) /\
                           (lb3 = o_status o \/ lb3 = sort2 rank (o_status o))).
  { unfold stageB. destruct (o_status o) as [|x l] eqn:Es; [congruence|]. cbn [cv_mem c0]. rewrite Has.
    cbv beta iota zeta.
    assert (Hfin : exists lb3,
              match o_want o with
              | WNone => inl (c2, x :: l)
              | WIps d => if equal_ips rank (x :: l) d then inl (c2, sort2 rank (x :: l)) else inl (clear c2 s, [])
              | WInvalid => inr c2
              end = inl (c2, lb3) /\ same_ips lb3 (x :: l) /\ (lb3 = x :: l \/ lb3 = sort2 rank (x :: l))).
    { destruct Hwant as [->|[d [-> Heq]]].
      - exists (x :: l). split; [reflexivity|]. split; [apply same_ips_refl|left; reflexivity].
      - rewrite Heq. exists (sort2 rank (x :: l)). split; [reflexivity|]. split; [apply sort2_same|right; reflexivity]. }
    destruct (o_want_pool o) as [p|] eqn:Ep.
    - cbn [cv_mem]. rewrite (Hwp p eq_refl). cbn [opt_pool_eqb]. rewrite N.eqb_refl. exact Hfin.
    - exact Hfin. }
  destruct EB as (lb3 & EB & Hsame3 & Hlb3). rewrite EB.
  assert (Hne3 : lb3 <> []).
  { intros ->. destruct (o_status o) as [|x l]; [congruence|]. specialize (Hsame3 x). cbn in Hsame3. tauto. }
  (* stage C: unchanged, or one more address *)
  destruct (stageC c2 lb3 s (o_req o) k) as [[c4 lb4]|] eqn:EC; [|discriminate].
  assert (HC : (lb4 = lb3 /\ cv_mem c4 = a') \/
               (exists have x, lb3 = [have] /\ lb4 = [have; x] /\ r_pol (o_req o) = Prefer /\
                               exists ax, assign a' s (o_req o) [have; x] = (cv_mem c4, ROk ax))).
  { unfold stageC in EC. destruct lb3 as [|have [|y l]]; try (injection EC as <- <-; left; auto).
    destruct (additional_applies (o_req o) [have]) eqn:Eap; [|injection EC as <- <-; left; auto].
    destruct (pool_of (cv_mem c2) s) as [pn|]; [|injection EC as <- <-; left; auto].
    destruct (alloc_op (cv_mem c2) (OAdditional s (o_req o) have pn (the_additional have k))) as [[a2 res]|] eqn:E; [|discriminate].
    apply alloc_op_some in E. destruct E as [E Hnm].
    destruct res as [out|e|].
    - assert (Hpol : r_pol (o_req o) = Prefer).
      { unfold additional_applies in Eap. apply andb_true_iff in Eap. destruct Eap as [Ep _].
        destruct (r_pol (o_req o)); try discriminate. reflexivity. }
      cbn [step] in E. destruct (additional_spec _ _ _ _ _ _); [|discriminate].
      destruct (the_additional have k) as [x|]; [|discriminate].
      destruct (assign (cv_mem c2) s (o_req o) [have; x]) as [a3 [i|e|]] eqn:EAs; try discriminate.
      injection E as <- <-. injection EC as <- <-. right. exists have, x. cbn. repeat split; auto. eauto.
    - apply failed_op_no_change in E. subst a2. injection EC as <- <-. left. auto.
    - exfalso. apply Hnm. reflexivity. }
  assert (Hne4 : lb4 <> []) by (destruct HC as [[-> _]|(h & x & _ & -> & _)]; [exact Hne3|discriminate]).
  (* stage D is skipped, stage E records the result *)
  assert (ED : stageD c4 lb4 s o k = Some (inl (c4, lb4))).
  { unfold stageD. destruct lb4; [congruence|reflexivity]. }
  rewrite ED. unfold stageE. destruct lb4 as [|y4 l4] eqn:E4; [congruence|].
  assert (Hpool4 : exists pn q, pool_of (cv_mem c4) s = Some pn /\ find_pool (s_pools (cv_mem c4)) pn = Some q).
  { destruct HC as [[_ Hm]|(h & x & _ & _ & _ & ax & Hax)].
    - rewrite Hm. eapply assigned_pool_exists. exact Has.
    - eapply assigned_pool_exists. exact Hax. }
  destruct Hpool4 as (pn & q & Hpo & Hfp). rewrite Hpo, Hfp. intros [= <- <-]. cbn [cv_status].
  split; [reflexivity|].
  destruct HC as [[HC1 _]|(h & x & H3 & H4 & Hpol & _)].
  - rewrite HC1. split; [intros w Hw; apply Hsame3; exact Hw|left; exact Hsame3].
  - rewrite H4. assert (Hs1 : o_status o = [h]).
    { destruct Hlb3 as [Hl|Hl]; [congruence|]. rewrite H3 in Hl.
      destruct (o_status o) as [|z [|z2 [|z3 t]]]; cbn in Hl; try congruence.
      destruct (rank z2 <? rank z); discriminate. }
    split; [intros w Hw; rewrite Hs1 in Hw; destruct Hw as [<-|[]]; left; reflexivity|].
    right. split; [exact Hpol|]. exists h, x. auto.
Qed.

(* ---------- C03: a converged Service is a fixpoint of the handler ---------- *)
(* recorded addresses admissible, no PreferDualStack gain possible (two addresses,
   or not PreferDualStack on dual-stack cluster IPs), status already in the
   normalised order, annotation naming the owning pool: convergeBalancer returns
   exactly the same status and annotation - nothing to write *)
Theorem converged_fixpoint_gen a s o k v ok a' :
  o_lb o = true -> by_name (s_pools a) <> [] -> o_cluster_ok o = true ->
  (is_require (r_pol (o_req o)) && negb (is_dual (r_fam (o_req o)))) = false ->
  o_status o <> [] ->
  family_changed (alloc_fam (o_status o)) (r_fam (o_req o)) (r_pol (o_req o)) = false ->
  assign a s (o_req o) (o_status o) = (a', ROk (o_status o)) ->
  (forall p, o_want_pool o = Some p -> pool_of a' s = Some p) ->
  (o_want o = WNone \/ exists d, o_want o = WIps d /\ equal_ips rank (o_status o) d = true) ->
  additional_applies (o_req o) (o_status o) = false ->
  (o_want o = WNone \/ sort2 rank (o_status o) = o_status o) ->
  o_annot o = pool_of a' s ->
  converge rank a s o k = CR v ok ->
  ok = true /\ cv_status v = o_status o /\ cv_annot v = o_annot o /\ cv_mem v = a'.
Proof.
  intros Hlb Hpools Hcl Hreq Hst Hfam Has Hwp Hwant Hnogain Hsorted Hannot.
  unfold converge. rewrite Hlb, Hcl, Hreq. cbn [negb].
  destruct (by_name (s_pools a)) as [|p0 ps0] eqn:Ebn; [congruence|].
  set (c0 := {| cv_mem := a; cv_status := o_status o; cv_annot := o_annot o |}).
  assert (EA : stageA c0 s o = (c0, o_status o)).
  { unfold stageA. destruct (o_status o) as [|x l] eqn:Es; [congruence|]. rewrite Hfam. reflexivity. }
  rewrite EA.
  set (c2 := {| cv_mem := a'; cv_status := o_status o; cv_annot := o_annot o |}).
  assert (EB : stageB rank c0 (o_status o) s o = inl (c2, o_status o)).
  { unfold stageB. destruct (o_status o) as [|x l] eqn:Es; [congruence|]. cbn [cv_mem c0]. rewrite Has.
    cbv beta iota zeta.
    assert (Hfin : match o_want o with
              | WNone => inl (c2, x :: l)
              | WIps d => if equal_ips rank (x :: l) d then inl (c2, sort2 rank (x :: l)) else inl (clear c2 s, [])
              | WInvalid => inr c2
              end = inl (c2, x :: l)).
    { destruct Hwant as [->|[d [Hd Heq]]]; [reflexivity|]. rewrite Hd.
      destruct Hsorted as [Hn|Hsorted]; [congruence|]. rewrite Heq, Hsorted. reflexivity. }
    destruct (o_want_pool o) as [p|] eqn:Ep.
    - cbn [cv_mem]. rewrite (Hwp p eq_refl). cbn [opt_pool_eqb]. rewrite N.eqb_refl. exact Hfin.
    - exact Hfin. }
  rewrite EB.
  assert (EC : stageC c2 (o_status o) s (o_req o) k = Some (c2, o_status o)).
  { unfold stageC. destruct (o_status o) as [|h [|y l]]; try reflexivity. rewrite Hnogain. reflexivity. }
  rewrite EC.
  assert (ED : stageD c2 (o_status o) s o k = Some (inl (c2, o_status o))).
  { unfold stageD. destruct (o_status o); [congruence|reflexivity]. }
  rewrite ED. unfold stageE. destruct (o_status o) as [|y l] eqn:Es; [congruence|].
  destruct (assigned_pool_exists _ _ _ _ _ _ Has) as (pn & q & Hpo & Hfp).
  cbn [cv_mem c2]. rewrite Hpo, Hfp. intros [= <- <-]. cbn. repeat split; congruence.
Qed.

Theorem converged_fixpoint a s o k v ok a' :
  o_lb o = true -> by_name (s_pools a) <> [] -> o_cluster_ok o = true ->
  (is_require (r_pol (o_req o)) && negb (is_dual (r_fam (o_req o)))) = false ->
  o_status o <> [] ->
  family_changed (alloc_fam (o_status o)) (r_fam (o_req o)) (r_pol (o_req o)) = false ->
  assign a s (o_req o) (o_status o) = (a', ROk (o_status o)) ->
  (forall p, o_want_pool o = Some p -> pool_of a' s = Some p) ->
  (o_want o = WNone \/ exists d, o_want o = WIps d /\ equal_ips rank (o_status o) d = true) ->
  additional_applies (o_req o) (o_status o) = false ->
  sort2 rank (o_status o) = o_status o ->
  o_annot o = pool_of a' s ->
  converge rank a s o k = CR v ok ->
  ok = true /\ cv_status v = o_status o /\ cv_annot v = o_annot o /\ cv_mem v = a'.
Proof.
  intros Hlb Hpools Hcl Hreq Hst Hfam Has Hwp Hwant Hnogain Hsorted Hannot.
  apply converged_fixpoint_gen; try assumption. right. exact Hsorted.
Qed.

(* so SetBalancer on such a Service attempts no status write and leaves the
   recorded allocation as the re-assignment made it *)
Theorem converged_no_write c s o k oc a' :
  c_have_pools c = true ->
  o_lb o = true -> by_name (s_pools (c_mem c)) <> [] -> o_cluster_ok o = true ->
  (is_require (r_pol (o_req o)) && negb (is_dual (r_fam (o_req o)))) = false ->
  o_status o <> [] ->
  family_changed (alloc_fam (o_status o)) (r_fam (o_req o)) (r_pol (o_req o)) = false ->
  assign (c_mem c) s (o_req o) (o_status o) = (a', ROk (o_status o)) ->
  (forall p, o_want_pool o = Some p -> pool_of a' s = Some p) ->
  (o_want o = WNone \/ exists d, o_want o = WIps d /\ equal_ips rank (o_status o) d = true) ->
  additional_applies (o_req o) (o_status o) = false ->
  sort2 rank (o_status o) = o_status o ->
  o_annot o = pool_of a' s ->
  set_balancer rank c s (Some o) k = Some oc ->
  oc_write oc = None /\ c_mem (oc_state oc) = a'.
Proof.
  intros Hp Hlb Hpools Hcl Hreq Hst Hfam Has Hwp Hwant Hng Hs Han.
  unfold set_balancer. rewrite Hp. cbn [negb].
  destruct (converge rank (c_mem c) s o k) as [v ok|] eqn:EC; [|discriminate].
  destruct (converged_fixpoint _ _ _ _ _ _ _ Hlb Hpools Hcl Hreq Hst Hfam Has Hwp Hwant Hng Hs Han EC) as (_ & Hst' & Han' & Hm).
  rewrite Hst', Han'.
  assert (E1 : ips_eqb (o_status o) (o_status o) = true) by (apply ips_eqb_eq; reflexivity).
  assert (E2 : opt_pool_eqb (o_annot o) (o_annot o) = true) by (destruct (o_annot o); cbn; [apply N.eqb_refl|reflexivity]).
  rewrite E1, E2. cbn [negb orb]. intros [= <-]. cbn. auto.
Qed.

(* ---------- C02: explicitly requested addresses ---------- *)
Lemma equal_ips_same a b : equal_ips rank a b = true -> same_ips a b.
Proof.
  unfold equal_ips. intros H. apply ips_eqb_eq in H. intros x.
  rewrite <- (sort2_same rank a x), <- (sort2_same rank b x), H. tauto.
Qed.

(* a LoadBalancer Service that requests specific addresses and converges holds
   exactly those (as a set); the only other outcome is the PreferDualStack gain on
   top of a single requested address (finding F22) *)
Theorem explicit_ips_exact a s o k v d :
  converge rank a s o k = CR v true -> o_lb o = true -> o_want o = WIps d ->
  same_ips (cv_status v) d \/
  (exists have x, same_ips d [have] /\ cv_status v = [have; x] /\ additional_applies (o_req o) [have] = true).
Proof.
  unfold converge. intros H Hlb Hw. rewrite Hlb in H. cbn [negb] in H.
  destruct (match by_name (s_pools a) with [] => true | _ => false end); [discriminate|].
  destruct (negb (o_cluster_ok o)); [discriminate|].
  destruct (is_require _ && _); [discriminate|].
  destruct (stageA _ s o) as [c1 lb1].
  (* stage B: what survives is (as a set) the requested list, or nothing *)
  assert (HB : match stageB rank c1 lb1 s o with
               | inl (_, lb3) => lb3 = [] \/ same_ips lb3 d
               | inr _ => True
               end).
  { unfold stageB. destruct lb1 as [|x l]; [left; reflexivity|].
    destruct (assign (cv_mem c1) s (o_req o) (x :: l)) as [a1 [i|e|]];
      destruct (o_want_pool o) as [p|];
      try match goal with |- context [if ?b then _ else _] => destruct b end;
      rewrite Hw;
      match goal with |- context [equal_ips rank ?lb d] =>
        destruct (equal_ips rank lb d) eqn:Eq;
        [right; intros w; rewrite (sort2_same rank lb w); apply (equal_ips_same _ _ Eq)|left; reflexivity]
      end. }
  destruct (stageB rank c1 lb1 s o) as [[c3 lb3]|c3]; [|discriminate].
  (* stage C: unchanged, or one more address on top of a single one *)
  destruct (stageC c3 lb3 s (o_req o) k) as [[c4 lb4]|] eqn:EC; [|discriminate].
  assert (HC : lb4 = lb3 \/ exists have x, lb3 = [have] /\ lb4 = [have; x] /\ additional_applies (o_req o) [have] = true).
  { unfold stageC in EC. destruct lb3 as [|have [|y l]]; try (injection EC as _ <-; left; reflexivity).
    destruct (additional_applies (o_req o) [have]) eqn:Eap; [|injection EC as _ <-; left; reflexivity].
    destruct (pool_of (cv_mem c3) s) as [pn|]; [|injection EC as _ <-; left; reflexivity].
    destruct (alloc_op _ _) as [[a2 [[|x [|y l]]|e|]]|]; try discriminate; injection EC as _ <-; try (left; reflexivity).
    right. exists have, x. auto. }
  (* stage D: allocation only when nothing is left; then exactly the requested list *)
  destruct (stageD c4 lb4 s o k) as [[[c5 lb5]|c5]|] eqn:ED; try discriminate.
  assert (HD : lb5 = lb4 /\ lb4 <> [] \/ lb4 = [] /\ lb5 = d).
  { unfold stageD in ED. destruct lb4 as [|y4 l4].
    - right. split; [reflexivity|]. rewrite Hw in ED.
      destruct (negb _); [discriminate|].
      destruct (assign (cv_mem c4) s (o_req o) d) as [a2 [i|e|]]; try discriminate.
      destruct (o_want_pool o) as [p|]; [|injection ED as _ <-; reflexivity].
      destruct (opt_pool_eqb _ _); [injection ED as _ <-; reflexivity|discriminate].
    - left. injection ED as _ <-. split; [reflexivity|discriminate]. }
  (* stage E records lb5 *)
  assert (HE : cv_status v = lb5).
  { unfold stageE in H. destruct lb5 as [|y5 l5]; [discriminate|].
    destruct (pool_of (cv_mem c5) s); [|discriminate]. destruct (find_pool _ _); [|discriminate].
    injection H as <-. reflexivity. }
  rewrite HE.
  destruct HD as [[-> Hne]|[-> ->]]; [|left; apply same_ips_refl].
  destruct HC as [->|(have & x & -> & -> & Hap)].
  - destruct HB as [->|HB]; [congruence|left; exact HB].
  - destruct HB as [HB|HB]; [discriminate|]. right. exists have, x. split; [|auto].
    intros w. rewrite <- (HB w). tauto.
Qed.
End Thm.
