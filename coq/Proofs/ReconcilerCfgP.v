(* Composition of the reconciler state machine (Model/Reconciler.v) with config.For
   (Model/CfgFull.v): what the handler holds at quiescence is For of the current cluster state,
   so every theorem about accepted configurations applies to it. *)
From Coq Require Import List Bool NArith.
From Verif Require Import Model.Reconciler Proofs.ReconcilerP Model.CfgFull Proofs.CfgP Proofs.CfgFullP.

Theorem handler_holds_for_of_current_state (ceq : fconfig -> fconfig -> bool) :
  (forall x y, ceq x y = true <-> x = y) ->
  forall srt iter m evs snap h c,
    full_to_config srt iter m snap = Some c ->
    o_requeue (snd (hstep ceq false (hrun ceq false evs hinit) (Some c, h))) = false ->
    h_given (hrun ceq false (evs ++ [(full_to_config srt iter m snap, h)]) hinit) = Some c /\
    ForallOrdPairs disjoint (flat_map p_cidrs (po_pools (fc_pools c))).
Proof.
  intros E srt iter m evs snap h c F R. split.
  - rewrite F. apply (config_history_independent ceq E). exact R.
  - unfold full_to_config in F. destruct (full_pools_are_pools_for _ _ _ _ F) as (tbl & bgp & _ & _ & P).
    exact (accepted_disjoint _ _ _ P).
Qed.

(* the PoolReconciler: what the allocator last ACCEPTED is the pools part of For of the current state *)
Theorem pool_handler_accepted_for_of_current_state (ceq : fconfig -> fconfig -> bool) :
  (forall x y, ceq x y = true <-> x = y) ->
  forall srt iter m evs snap h c,
    full_to_config srt iter m snap = Some c -> h <> HErrorNoRetry ->
    o_requeue (snd (hstep ceq true (hrun ceq true evs hinit) (Some c, h))) = false ->
    h_accepted (hrun ceq true (evs ++ [(full_to_config srt iter m snap, h)]) hinit) = Some c.
Proof.
  intros E srt iter m evs snap h c F N R. rewrite F. apply (pool_history_independent ceq E); assumption.
Qed.
