(* Completeness of the "nothing admissible" reading (C07): if some list of
   addresses of a candidate pool is admissible for the request in the declarative
   sense - every address in the pool, not an avoided buggy address, free or
   shareable for the requester, families as the request wants them - then the pool
   is not classified [Nothing]; so a failing Allocate (every candidate pool
   [Nothing]) really means that no admissible assignment exists. *)
From Coq Require Import List NArith Bool Lia.
From Verif Require Import Model.Net Model.Alloc Proofs.NetP Proofs.AllocP Proofs.AllocPolicyP.
Import ListNotations.
Local Open Scope N_scope.

Definition admissible_offer (a : st) (s : svc) (r : req) (p : pool) (ips : list ip) : Prop :=
  (forall x, In x ips -> in_pool p x = true /\ (p_avoid p && buggy x) = false /\
                          check_sharing a s x (r_ports r) (r_key r) = true) /\
  families_ok r ips /\ (r_fam r = SDual -> r_pol r <> Single).

Lemma admissible_has_free a s r p x :
  in_pool p x = true -> (p_avoid p && buggy x) = false -> check_sharing a s x (r_ports r) (r_key r) = true ->
  has_free a s r p (ip_fam x) = true.
Proof.
  intros Hin Hb Hc. destruct (has_free a s r p (ip_fam x)) eqn:E; [reflexivity|].
  pose proof (has_free_false a s r p (ip_fam x) E x eq_refl Hin) as H.
  unfold addr_free in H. rewrite Hb, Hc in H. discriminate.
Qed.

Theorem admissible_offer_classified a s r p ips :
  admissible_offer a s r p ips -> classify a s r p <> Nothing.
Proof.
  intros (Hall & Hfam & Hpol). unfold classify. unfold families_ok in Hfam.
  destruct (r_fam r) eqn:Ef.
  - destruct Hfam as (x & -> & Hx). destruct (Hall x (or_introl eq_refl)) as (H1 & H2 & H3).
    pose proof (admissible_has_free a s r p x H1 H2 H3) as H. rewrite Hx in H. rewrite H. discriminate.
  - destruct Hfam as (x & -> & Hx). destruct (Hall x (or_introl eq_refl)) as (H1 & H2 & H3).
    pose proof (admissible_has_free a s r p x H1 H2 H3) as H. rewrite Hx in H. rewrite H. discriminate.
  - specialize (Hpol eq_refl). destruct Hfam as [(x & y & -> & Hx & Hy)|(Hp & x & ->)].
    + destruct (Hall x (or_introl eq_refl)) as (H1 & H2 & H3).
      destruct (Hall y (or_intror (or_introl eq_refl))) as (G1 & G2 & G3).
      pose proof (admissible_has_free a s r p x H1 H2 H3) as Hf4. rewrite Hx in Hf4.
      pose proof (admissible_has_free a s r p y G1 G2 G3) as Hf6. rewrite Hy in Hf6.
      rewrite Hf4, Hf6. destruct (r_pol r); [congruence|discriminate|discriminate].
    + destruct (Hall x (or_introl eq_refl)) as (H1 & H2 & H3).
      pose proof (admissible_has_free a s r p x H1 H2 H3) as Hf.
      rewrite Hp. unfold primary, secondary.
      destruct (ip_fam x); rewrite Hf; destruct (r_first6 r);
        destruct (has_free a s r p F4), (has_free a s r p F6); cbn; discriminate.
Qed.

(* C07: Allocate reports failure only if NO candidate pool has an admissible list of addresses *)
Theorem allocate_fails_iff_nothing_admissible a s r :
  allocate_spec a s r None = true ->
  forall p ips, In p (pinned_pools (s_pools a) r ++ unpinned_pools (s_pools a)) -> ~ admissible_offer a s r p ips.
Proof.
  unfold allocate_spec. intros H p ips Hp Hadm. apply andb_true_iff in H. destruct H as [H1 H2].
  apply class_eqb_eq in H1. apply class_eqb_eq in H2.
  apply (admissible_offer_classified _ _ _ _ _ Hadm).
  apply in_app_or in Hp. destruct Hp as [Hp|Hp].
  - exact (best_class_nothing a s r _ H1 p Hp).
  - exact (best_class_nothing a s r _ H2 p Hp).
Qed.

(* the same for a requested pool: AllocateFromPool fails only if the pool does not
   exist, does not admit the Service, or has no admissible list of addresses *)
Theorem frompool_fails_iff_nothing_admissible a s r pn :
  from_pool_spec a s r pn None = true ->
  forall p, find_pool (s_pools a) pn = Some p -> compatible p r = true ->
  forall ips, ~ admissible_offer a s r p ips.
Proof.
  unfold from_pool_spec. intros H p Hf Hc ips Hadm. rewrite Hf in H.
  pose proof (admissible_offer_classified _ _ _ _ _ Hadm) as Hcl.
  destruct (pool_offer a s r p) eqn:Eo; [rewrite Hc in H; discriminate|].
  (* pool_offer = None means classify = Nothing *)
  apply Hcl. unfold pool_offer, select_ips in Eo. unfold classify, has_free, primary, secondary.
  destruct (r_fam r), (r_pol r), (r_first6 r);
    destruct (first_free a s r p F4), (first_free a s r p F6); cbn in *; try discriminate; reflexivity.
Qed.
