From Coq Require Import NArith Bool List Lia ZifyN ZifyBool.
From Verif Require Import Model.Net.
Local Open Scope N_scope.

Lemma fam_eqb_eq a b : fam_eqb a b = true <-> a = b.
Proof. destruct a, b; cbn; split; congruence. Qed.

Lemma fam_eqb_refl a : fam_eqb a a = true.
Proof. destruct a; reflexivity. Qed.

Lemma ip_eqb_eq a b : ip_eqb a b = true <-> a = b.
Proof.
  unfold ip_eqb. rewrite andb_true_iff, fam_eqb_eq, N.eqb_eq.
  destruct a, b; cbn; split; intros H; try (destruct H; congruence); try (inversion H; auto); discriminate.
Qed.

Lemma pow2_pos n : 0 < 2 ^ n.
Proof. apply N.neq_0_lt_0. apply N.pow_nonzero. discriminate. Qed.

Lemma block_pos p : 0 < block p.
Proof. apply pow2_pos. Qed.

(* x/b = base/b  <->  first <= x <= last *)
Lemma div_eq_range x base b : 0 < b ->
  (x / b = base / b <-> (base / b) * b <= x /\ x <= (base / b) * b + b - 1).
Proof.
  intros Hb. pose proof (N.div_mod x b ltac:(lia)). pose proof (N.mod_lt x b ltac:(lia)).
  split.
  - intros E. rewrite <- E. nia.
  - intros [H1 H2]. symmetry. apply (N.div_unique x b (base / b) (x - base / b * b)); nia.
Qed.

Lemma contains_in_range p x :
  contains p x = true <-> pfam p = ip_fam x /\ in_range p (ip_val x) = true.
Proof.
  unfold contains, in_range, pfirst, plast. rewrite !andb_true_iff, fam_eqb_eq, N.eqb_eq, !N.leb_le.
  pose proof (block_pos p). rewrite (div_eq_range (ip_val x) (pbase p) (block p)) by assumption.
  unfold pfirst. tauto.
Qed.

Lemma pow2_split a b : b <= a -> 2 ^ a = 2 ^ (a - b) * 2 ^ b.
Proof. intros H. rewrite <- N.pow_add_r. f_equal. lia. Qed.

(* masking to a shorter length gives a block that contains the block of a longer one *)
Lemma div_div_pow x a b : b <= a -> x / 2 ^ a = (x / 2 ^ b) / 2 ^ (a - b).
Proof.
  intros H. rewrite N.div_div by (apply N.pow_nonzero; discriminate).
  rewrite <- N.pow_add_r. do 2 f_equal. lia.
Qed.

Lemma mask_to_contains_self len x : contains (mask_to len x) x = true.
Proof.
  unfold contains, mask_to, block. cbn [pfam pbase plen]. rewrite fam_eqb_refl. cbn [andb].
  apply N.eqb_eq. set (b := 2 ^ (width (ip_fam x) - len)).
  rewrite N.div_mul by (apply N.pow_nonzero; discriminate). reflexivity.
Qed.

(* aggregate containment: if x lies in prefix c and the aggregation length is
   at least c's length, everything in the aggregate of x lies in c *)
Lemma aggregate_contained c x len y :
  plen c <= len -> len <= width (pfam c) ->
  contains c x = true -> contains (mask_to len x) y = true -> contains c y = true.
Proof.
  unfold contains, mask_to, block. cbn [pfam pbase plen].
  rewrite !andb_true_iff, !fam_eqb_eq, !N.eqb_eq.
  intros Hl Hw [Hf Hx] [Hf' Hy]. split; [congruence|].
  rewrite <- Hf in *. set (w := width (pfam c)) in *.
  rewrite N.div_mul in Hy by (apply N.pow_nonzero; discriminate).
  rewrite <- Hx.
  rewrite (div_div_pow (ip_val y) (w - plen c) (w - len)) by lia.
  rewrite (div_div_pow (ip_val x) (w - plen c) (w - len)) by lia.
  rewrite Hy. reflexivity.
Qed.
