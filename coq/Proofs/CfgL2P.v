(* setL2AdvertisementsToPools: an L2 advertisement is attached (as a set, because of
   containsAdvertisement: equal up to [l2adv_eqb]) to exactly the pools it names or selects. *)
From Coq Require Import NArith Bool List Lia ZifyN ZifyBool Permutation.
From Verif Require Import Model.Cfg Proofs.NetP Proofs.CfgSortP Proofs.CfgP.
Local Open Scope N_scope.

Lemma lN_eqb_eq a b : list_eqb N.eqb a b = true <-> a = b.
Proof.
  revert b. induction a as [|x r IH]; intros [|y s]; cbn; try (split; [discriminate|discriminate]); [tauto|].
  rewrite andb_true_iff, N.eqb_eq, IH. split; [intros [-> ->]; reflexivity|intros [= -> ->]; auto].
Qed.

Lemma l2adv_eqb_spec a b : l2adv_eqb a b = true <->
  la_all a = la_all b /\ la_nodes a = la_nodes b /\ setN (la_ifaces a) = setN (la_ifaces b).
Proof.
  unfold l2adv_eqb. rewrite !andb_true_iff, !lN_eqb_eq, Bool.eqb_true_iff. tauto.
Qed.
Lemma l2adv_eqb_refl a : l2adv_eqb a a = true.
Proof. apply l2adv_eqb_spec. auto. Qed.
Lemma l2adv_eqb_trans a b c : l2adv_eqb a b = true -> l2adv_eqb b c = true -> l2adv_eqb a c = true.
Proof. rewrite !l2adv_eqb_spec. intros (A & B & C) (D & E & F). repeat split; congruence. Qed.

Definition l2_grows (Q : N -> l2adv -> Prop) (p p' : pool) : Prop :=
  core p = core p' /\ p_bgp p = p_bgp p' /\
  (forall a', In a' (p_l2 p') -> In a' (p_l2 p) \/ Q (p_name p) a') /\
  (forall a, In a (p_l2 p) \/ Q (p_name p) a -> exists a', In a' (p_l2 p') /\ l2adv_eqb a a' = true).

Lemma l2_grows_refl ps : Forall2 (l2_grows (fun _ _ => False)) ps ps.
Proof.
  apply Forall2_refl_on. intros p _. repeat split; auto.
  intros a [H|[]]. exists a. split; [assumption|apply l2adv_eqb_refl].
Qed.

Lemma l2_grows_names Q ps ps' : Forall2 (l2_grows Q) ps ps' -> map p_name ps = map p_name ps'.
Proof. induction 1 as [|p p' l l' [H _] F IH]; cbn; [reflexivity|]. rewrite IH, (core_name _ _ H). reflexivity. Qed.

Lemma l2_grows_trans Q1 Q2 ps1 ps2 ps3 :
  Forall2 (l2_grows Q1) ps1 ps2 -> Forall2 (l2_grows Q2) ps2 ps3 ->
  Forall2 (l2_grows (fun n b => Q1 n b \/ Q2 n b)) ps1 ps3.
Proof.
  apply Forall2_trans'. intros a b c _ (C1 & B1 & I1 & E1) (C2 & B2 & I2 & E2).
  pose proof (core_name _ _ C1) as Nm. repeat split; try congruence.
  - intros x Hx. apply I2 in Hx. rewrite <- Nm in Hx. destruct Hx as [Hx|Hx]; [|auto].
    apply I1 in Hx. tauto.
  - intros x [Hx|[Hx|Hx]].
    + destruct (E1 x (or_introl Hx)) as [y [Hy Exy]]. destruct (E2 y (or_introl Hy)) as [z [Hz Eyz]].
      exists z. split; [assumption|eapply l2adv_eqb_trans; eassumption].
    + destruct (E1 x (or_intror Hx)) as [y [Hy Exy]]. destruct (E2 y (or_introl Hy)) as [z [Hz Eyz]].
      exists z. split; [assumption|eapply l2adv_eqb_trans; eassumption].
    + apply E2. right. rewrite <- Nm. assumption.
Qed.

Lemma l2_grows_weaken Q Q' ps ps' :
  (forall n b, In n (map p_name ps) -> (Q n b <-> Q' n b)) -> Forall2 (l2_grows Q) ps ps' -> Forall2 (l2_grows Q') ps ps'.
Proof.
  intros H. apply Forall2_impl_in. intros p p' Hp (C & B & I & E).
  assert (Hn : In (p_name p) (map p_name ps)) by (apply in_map; assumption).
  repeat split; auto.
  - intros x Hx. apply I in Hx. rewrite <- H by assumption. assumption.
  - intros x Hx. apply E. rewrite H by assumption. assumption.
Qed.

Lemma upd_l2_grows n a ps :
  Forall2 (l2_grows (fun n' b => b = a /\ n' = n)) ps (upd_pool n (add_l2 a) ps).
Proof.
  unfold upd_pool. apply Forall2_map_r. intros p _. destruct (p_name p =? n) eqn:E.
  - apply N.eqb_eq in E. destruct (add_l2_keeps a p) as [C B]. unfold add_l2 in *.
    destruct (existsb (l2adv_eqb a) (p_l2 p)) eqn:X.
    + repeat split; auto. intros x [Hx|[-> _]].
      * exists x. split; [assumption|apply l2adv_eqb_refl].
      * apply existsb_exists in X. exact X.
    + cbn [p_l2]. repeat split; auto.
      * intros x Hx. apply in_app_iff in Hx. cbn in Hx. destruct Hx as [Hx|[<-|[]]]; auto.
      * intros x [Hx|[-> _]]; (exists x || exists a); (split; [apply in_app_iff; cbn; auto|apply l2adv_eqb_refl]).
  - apply N.eqb_neq in E. repeat split; auto.
    + intros x [Hx|[_ Hx]]; [|contradiction]. exists x. split; [assumption|apply l2adv_eqb_refl].
Qed.

Lemma fold_l2_grows a ts : forall ps,
  Forall2 (l2_grows (fun n b => b = a /\ In n ts)) ps (fold_left (fun ps n => upd_pool n (add_l2 a) ps) ts ps).
Proof.
  induction ts as [|n r IH]; intros ps; cbn [fold_left].
  - eapply l2_grows_weaken; [|apply l2_grows_refl]. cbn. tauto.
  - eapply l2_grows_weaken; [|eapply l2_grows_trans; [apply upd_l2_grows|apply IH]].
    cbn. intros n' b _. split.
    + intros [[-> ->]|[-> H]]; auto.
    + intros [-> [<-|H]]; auto.
Qed.

Definition l2_wanted (crs : list pool_cr) (nodes : list node_cr) (advs : list l2_cr) (ps : list pool)
           (n : N) (b : l2adv) : Prop :=
  exists c, In c advs /\ parse_l2 nodes c = Some b /\ In n (targets crs (l2_pools c) (l2_psels c) ps).

Lemma set_l2_grows crs nodes advs : forall ps ps', set_l2 crs nodes advs ps = Some ps' ->
  Forall2 (l2_grows (l2_wanted crs nodes advs ps)) ps ps'.
Proof.
  induction advs as [|c r IH]; intros ps ps'; cbn [set_l2].
  - intros [= <-]. eapply l2_grows_weaken; [|apply l2_grows_refl]. intros n b _. split; [tauto|].
    intros [c [[] _]].
  - destruct (parse_l2 nodes c) as [a|] eqn:P; [|discriminate]. intros H. apply IH in H.
    pose proof (fold_l2_grows a (targets crs (l2_pools c) (l2_psels c) ps) ps) as A.
    pose proof (l2_grows_names _ _ _ A) as Nm.
    eapply l2_grows_weaken; [|eapply l2_grows_trans; [exact A|exact H]].
    intros n b _. unfold l2_wanted. split.
    + intros [[-> Ht]|[c' [Hc [Hp Ht]]]].
      * exists c. split; [left; reflexivity|]. split; assumption.
      * exists c'. split; [right; assumption|]. split; [assumption|].
        rewrite (targets_names crs _ _ _ _ Nm). assumption.
    + intros [c' [[<-|Hc] [Hp Ht]]].
      * left. split; [congruence|assumption].
      * right. exists c'. split; [assumption|]. split; [assumption|].
        rewrite <- (targets_names crs _ _ _ _ Nm). assumption.
Qed.

Theorem l2_attach_exact iter r out p : pools_for iter r = Some out -> In p (po_pools out) ->
  (forall a', In a' (p_l2 p) -> exists c, In c (r_l2 r) /\ parse_l2 (r_nodes r) c = Some a' /\
                                          wants (r_pools r) (l2_pools c) (l2_psels c) (p_name p)) /\
  (forall c a, In c (r_l2 r) -> parse_l2 (r_nodes r) c = Some a ->
               wants (r_pools r) (l2_pools c) (l2_psels c) (p_name p) ->
               exists a', In a' (p_l2 p) /\ l2adv_eqb a a' = true).
Proof.
  unfold pools_for.
  destruct (pools_loop _ _ _ _ _) as [ps0|] eqn:L; [|discriminate].
  destruct (set_l2 _ _ _ _) as [ps1|] eqn:S1; [|discriminate].
  destruct (set_bgp _ _ _ _) as [ps2|] eqn:S2; [|discriminate].
  intros [= <-] Hp. cbn [po_pools] in Hp.
  apply (Permutation_in _ (ksort_perm p_name ps2)) in Hp.
  pose proof (set_l2_grows _ _ _ _ _ S1) as G1. pose proof (set_bgp_grows _ _ _ _ _ S2) as G2.
  destruct (Forall2_in_r _ _ _ _ G2 Hp) as [p1 [Hp1 (C2 & L2 & _)]].
  destruct (Forall2_in_r _ _ _ _ G1 Hp1) as [p0 [Hp0 (C1 & _ & I & E)]].
  destruct (pools_loop_inv _ _ _ _ _ _ L eq_refl) as (news & En & F & _).
  { split; [constructor|split; constructor]. }
  { constructor. }
  cbn [app] in En. subst news.
  assert (B0 : p_l2 p0 = []).
  { destruct (Forall2_in_r _ _ _ _ F Hp0) as [c [_ P]]. apply parse_pool_spec in P. tauto. }
  assert (Hn : In (p_name p0) (map p_name ps0)) by (apply in_map; assumption).
  assert (Nm : p_name p = p_name p0) by (rewrite <- (core_name _ _ C2), <- (core_name _ _ C1); reflexivity).
  rewrite <- L2, Nm. split.
  - intros a' Ha. apply I in Ha. rewrite B0 in Ha. destruct Ha as [[]|[c [Hc [P T]]]].
    exists c. repeat split; auto. apply (targets_spec _ _ _ ps0); assumption.
  - intros c a Hc P W. apply E. right. exists c. repeat split; auto. apply (targets_spec _ _ _ ps0); assumption.
Qed.

(* ------------------------------------------------------------------ no duplicates *)
(* containsAdvertisement keeps at most one advertisement of every class: the L2 advertisements
   of an accepted pool are pairwise different (up to l2adv_eqb), i.e. p_l2 is a set *)
Lemma l2adv_eqb_sym a b : l2adv_eqb a b = l2adv_eqb b a.
Proof.
  destruct (l2adv_eqb a b) eqn:E, (l2adv_eqb b a) eqn:E'; try reflexivity.
  - apply l2adv_eqb_spec in E. assert (l2adv_eqb b a = true) by (apply l2adv_eqb_spec; intuition congruence). congruence.
  - apply l2adv_eqb_spec in E'. assert (l2adv_eqb a b = true) by (apply l2adv_eqb_spec; intuition congruence). congruence.
Qed.

Definition l2_distinct (p : pool) : Prop := ForallOrdPairs (fun a b => l2adv_eqb a b = false) (p_l2 p).

Lemma add_l2_distinct a p : l2_distinct p -> l2_distinct (add_l2 a p).
Proof.
  unfold l2_distinct, add_l2. intros H. destruct (existsb (l2adv_eqb a) (p_l2 p)) eqn:X; [assumption|].
  cbn [p_l2]. apply FOP_snoc. split; [assumption|]. apply Forall_forall. intros y Hy.
  rewrite l2adv_eqb_sym. apply (proj1 (existsb_false _ _) X). assumption.
Qed.

Lemma upd_l2_distinct n a ps : Forall l2_distinct ps -> Forall l2_distinct (upd_pool n (add_l2 a) ps).
Proof.
  intros H. unfold upd_pool. apply Forall_forall. intros q Hq. apply in_map_iff in Hq.
  destruct Hq as [p [<- Hp]]. rewrite Forall_forall in H. destruct (p_name p =? n); [apply add_l2_distinct|]; auto.
Qed.

Lemma set_l2_distinct crs nodes advs : forall ps ps', set_l2 crs nodes advs ps = Some ps' ->
  Forall l2_distinct ps -> Forall l2_distinct ps'.
Proof.
  induction advs as [|c r IH]; intros ps ps'; cbn [set_l2]; [intros [= <-]; auto|].
  destruct (parse_l2 nodes c) as [a|]; [|discriminate]. intros H D. apply (IH _ _ H). clear H IH.
  generalize (targets crs (l2_pools c) (l2_psels c) ps). intros ts. revert ps D.
  induction ts as [|n ts IHt]; intros ps D; cbn [fold_left]; [assumption|].
  apply IHt. apply upd_l2_distinct. assumption.
Qed.

Theorem l2_no_duplicates iter r out p : pools_for iter r = Some out -> In p (po_pools out) -> l2_distinct p.
Proof.
  unfold pools_for.
  destruct (pools_loop _ _ _ _ _) as [ps0|] eqn:L; [|discriminate].
  destruct (set_l2 _ _ _ _) as [ps1|] eqn:S1; [|discriminate].
  destruct (set_bgp _ _ _ _) as [ps2|] eqn:S2; [|discriminate].
  intros [= <-] Hp. cbn [po_pools] in Hp. apply (Permutation_in _ (ksort_perm p_name ps2)) in Hp.
  pose proof (set_bgp_grows _ _ _ _ _ S2) as G2.
  destruct (Forall2_in_r _ _ _ _ G2 Hp) as [p1 [Hp1 (_ & L2 & _)]].
  unfold l2_distinct. rewrite <- L2.
  assert (D1 : Forall l2_distinct ps1).
  { apply (set_l2_distinct _ _ _ _ _ S1).
    destruct (pools_loop_inv _ _ _ _ _ _ L eq_refl) as (news & En & F & _).
    { split; [constructor|split; constructor]. }
    { constructor. }
    cbn [app] in En. subst news. apply Forall_forall. intros q Hq.
    destruct (Forall2_in_r _ _ _ _ F Hq) as [c [_ P]]. apply parse_pool_spec in P.
    unfold l2_distinct. destruct P as (_ & _ & _ & _ & -> & _). constructor. }
  rewrite Forall_forall in D1. apply D1. assumption.
Qed.
