(* The session-manager state machine (Model/FrrMgr.v): the configuration handed
   on after any history is the configuration of the final state; a refused Set
   leaves the state unchanged; the configuration of a state does not depend on
   the order of its sessions (C14 / C15 "deterministic function of the set of
   sessions"). *)
From Coq Require Import String NArith Bool List Sorted Permutation Lia.
From Verif Require Import Model.FrrMgr Proofs.FrrSortP Proofs.FrrListsP Proofs.FrrShapeP Proofs.FrrP Proofs.FrrSemP
     Proofs.FrrOutP Proofs.FrrExactP Proofs.FrrK8sP Proofs.FrrWfP.
Import ListNotations.
Open Scope string_scope.

(* ---------- the association list ---------- *)
Definition kinv (l : list (string * session)) : Prop :=
  NoDup (map fst l) /\ forall k v, In (k, v) l -> k = sname v.

Lemma aget_in k l v : aget k l = Some v -> In (k, v) l.
Proof.
  induction l as [|[k' v'] r IH]; simpl; [discriminate|].
  destruct (String.eqb k' k) eqn:E; [apply String.eqb_eq in E; intros H; inversion H; subst; auto|auto].
Qed.

Lemma aget_none k l : aget k l = None -> ~ In k (map fst l).
Proof.
  induction l as [|[k' v'] r IH]; simpl; [tauto|].
  destruct (String.eqb k' k) eqn:E; [discriminate|]. apply String.eqb_neq in E. intros H [X|X]; [congruence|exact (IH H X)].
Qed.

Lemma aput_keys k v l x : In x (map fst (aput k v l)) <-> x = k \/ In x (map fst l).
Proof.
  induction l as [|[k' v'] r IH]; simpl; [intuition congruence|].
  destruct (String.eqb k' k) eqn:E; simpl.
  - apply String.eqb_eq in E. subst. intuition congruence.
  - rewrite IH. tauto.
Qed.

Lemma aput_in k v l x : In x (aput k v l) -> x = (k, v) \/ In x l.
Proof.
  induction l as [|[k' v'] r IH]; simpl.
  - intros [<-|[]]; auto.
  - destruct (String.eqb k' k); simpl; intros [<-|H]; auto. destruct (IH H); auto.
Qed.

Lemma aput_nodup k v l : NoDup (map fst l) -> NoDup (map fst (aput k v l)).
Proof.
  induction l as [|[k' v'] r IH]; simpl; intros H.
  - constructor; [tauto|constructor].
  - inversion H as [|? ? Hn Hr]; subst. destruct (String.eqb k' k) eqn:E; simpl.
    + apply String.eqb_eq in E. subst. constructor; assumption.
    + apply String.eqb_neq in E. constructor; [|apply IH; assumption]. rewrite aput_keys. intros [X|X]; [congruence|contradiction].
Qed.

Lemma adel_in k l x : In x (adel k l) <-> In x l /\ fst x <> k.
Proof. unfold adel. rewrite filter_In, negb_true_iff, String.eqb_neq. tauto. Qed.

Lemma adel_nodup k l : NoDup (map fst l) -> NoDup (map fst (adel k l)).
Proof.
  induction l as [|[k' v'] r IH]; simpl; intros H; [constructor|]. inversion H as [|? ? Hn Hr]; subst.
  destruct (negb (String.eqb k' k)); simpl; [|apply IH; assumption]. constructor; [|apply IH; assumption].
  intros X. apply Hn. apply in_map_iff in X as (y & E & Hy). apply adel_in in Hy as [Hy _]. apply in_map_iff. eauto.
Qed.

Lemma adel_fresh k l : ~ In k (map fst l) -> adel k l = l.
Proof.
  induction l as [|[k' v'] r IH]; simpl; intros H; [reflexivity|].
  destruct (String.eqb k' k) eqn:E; simpl.
  - apply String.eqb_eq in E. exfalso. apply H. auto.
  - rewrite IH; [reflexivity|tauto].
Qed.

Lemma adel_aput_fresh k v l : ~ In k (map fst l) -> adel k (aput k v l) = l.
Proof.
  induction l as [|[k' v'] r IH]; simpl; intros H.
  - rewrite String.eqb_refl. reflexivity.
  - destruct (String.eqb k' k) eqn:E; [apply String.eqb_eq in E; exfalso; apply H; auto|].
    simpl. rewrite E. simpl. rewrite IH; [reflexivity|tauto].
Qed.

Lemma sname_set_advs s l : sname (set_advs s l) = sname s.
Proof. destruct s; reflexivity. Qed.

Lemma kinv_aput k v l : kinv l -> k = sname v -> kinv (aput k v l).
Proof.
  intros [Hn Hk] E. split; [apply aput_nodup; assumption|].
  intros k' v' H. apply aput_in in H as [X|X]; [inversion X; subst; reflexivity|apply Hk; assumption].
Qed.

Lemma kinv_adel k l : kinv l -> kinv (adel k l).
Proof.
  intros [Hn Hk]. split; [apply adel_nodup; assumption|]. intros k' v' H. apply adel_in in H as [H _]. apply Hk; assumption.
Qed.

Lemma nodup_keys_fun (l : list (string * session)) k v1 v2 :
  NoDup (map fst l) -> In (k, v1) l -> In (k, v2) l -> v1 = v2.
Proof.
  induction l as [|[k' v'] r IH]; simpl; [tauto|]. intros Hn H1 H2. inversion Hn as [|? ? Hnot Hr]; subst.
  destruct H1 as [X|X], H2 as [Y|Y].
  - congruence.
  - inversion X; subst. exfalso. apply Hnot. apply in_map_iff. exists (k, v2); auto.
  - inversion Y; subst. exfalso. apply Hnot. apply in_map_iff. exists (k, v1); auto.
  - apply IH; assumption.
Qed.

Lemma kinv_sname_inj l : kinv l -> key_inj sname (map snd l).
Proof.
  intros [Hn Hk] x y Hx Hy E. apply in_map_iff in Hx as ([kx vx] & <- & Hx). apply in_map_iff in Hy as ([ky vy] & <- & Hy).
  simpl in *. pose proof (Hk _ _ Hx) as A. pose proof (Hk _ _ Hy) as B.
  assert (Ek: kx = ky) by congruence. rewrite <- Ek in Hy. exact (nodup_keys_fun l kx vx vy Hn Hx Hy).
Qed.

Lemma kinv_values_nodup l : kinv l -> NoDup (map snd l).
Proof.
  intros [Hn Hk]. induction l as [|[k v] r IH]; simpl; [constructor|]. inversion Hn as [|? ? Hnot Hr]; subst.
  constructor; [|apply IH; [assumption|intros k' v' H; apply Hk; right; assumption]].
  intros X. apply in_map_iff in X as ([k' v'] & E & H). simpl in E. subst v'.
  apply Hnot. apply in_map_iff. exists (k', v). split; [|assumption]. simpl.
  rewrite (Hk k v (or_introl eq_refl)), (Hk k' v (or_intror H)). reflexivity.
Qed.

(* ---------- the machine, any back end ---------- *)
Section Generic.
  Context {C : Type}.
  Variable gen : list session -> list bfdprof -> string -> option C.
  Variable xr : bool.
  (* a predicate on the session table the history keeps (back-end specific) *)
  Variable good : list (string * session) -> Prop.
  (* renderability does not depend on BFD profiles / extra configuration ... *)
  Hypothesis gen_indep : forall S b e b' e', gen S b e = None -> gen S b' e' = None.
  (* ... and survives the removal of a session *)
  Hypothesis gen_del : forall l b e k, kinv l -> good l -> gen (map snd l) b e <> None -> gen (map snd (adel k l)) b e <> None.

  Notation cfg := (cfg_of gen).
  Notation step := (mstep gen xr).

  (* histories of the kind the speaker produces: NewSession only for a name that is
     not in the table, and the table stays [good] *)
  Fixpoint hist_ok (st : mstate) (ops : list mop) : Prop :=
    match ops with
    | [] => True
    | o :: r =>
        good (ms_sessions st) /\
        (match o with MNew p => aget (sname p) (ms_sessions st) = None | _ => True end) /\
        hist_ok (fst (fst (step st o))) r
    end.

  (* a refused Set leaves everything unchanged and hands nothing on *)
  Lemma set_refused st p advs st' c : step st (MSet p advs) = (st', false, c) -> st' = st /\ c = None.
  Proof.
    simpl. destruct (aget (sname p) (ms_sessions st)); [|intros H; inversion H; auto].
    destruct (forallb valid_adv advs); [|intros H; inversion H; auto].
    destruct (cfg _); intros H; inversion H; auto.
  Qed.

  Lemma set_invalid_refused st p advs : forallb valid_adv advs = false -> step st (MSet p advs) = (st, false, None).
  Proof. intros H. simpl. destruct (aget (sname p) (ms_sessions st)); [|reflexivity]. rewrite H. reflexivity. Qed.

  Lemma set_unknown_refused st p advs : aget (sname p) (ms_sessions st) = None -> step st (MSet p advs) = (st, false, None).
  Proof. intros H. simpl. rewrite H. reflexivity. Qed.

  (* an accepted operation hands on exactly the configuration of the new state *)
  Lemma step_ok_cfg st o st' c : step st o = (st', true, c) ->
    (c = cfg st' /\ c <> None) \/ (xr = false /\ exists e, o = MExtra e /\ st' = st /\ c = None).
  Proof.
    destruct o as [p|p advs|p|l|e]; simpl.
    - destruct (cfg _) eqn:E; intros H; inversion H; subst. left. split; [symmetry; exact E|discriminate].
    - destruct (aget _ _); [|discriminate]. destruct (forallb _ _); [|discriminate].
      destruct (cfg _) eqn:E; intros H; inversion H; subst. left. split; [symmetry; exact E|discriminate].
    - destruct (cfg _) eqn:E; intros H; inversion H; subst. left. split; [symmetry; exact E|discriminate].
    - destruct (cfg _) eqn:E; intros H; inversion H; subst. left. split; [symmetry; exact E|discriminate].
    - destruct xr.
      + destruct (cfg _) eqn:E; intros H; inversion H; subst. left. split; [symmetry; exact E|discriminate].
      + intros H; inversion H; subst. right. split; [reflexivity|]. exists e. auto.
  Qed.

  Definition minv (st : mstate) (last : option C) : Prop :=
    kinv (ms_sessions st) /\ cfg st <> None /\ ((last = None /\ st = minit) \/ last = cfg st).

  Lemma cfg_indep st b e : cfg st <> None -> cfg (mk_mstate (ms_sessions st) b e) <> None.
  Proof. unfold cfg_of, sessions_of; simpl. intros H X. apply H. eapply gen_indep; exact X. Qed.

  Lemma minv_step st last o st' ok c :
    minv st last -> good (ms_sessions st) ->
    (match o with MNew p => aget (sname p) (ms_sessions st) = None | _ => True end) ->
    step st o = (st', ok, c) ->
    minv st' (match c with Some _ => c | None => last end).
  Proof.
    intros (Hk & Hr & Hl) Hg Hnew H. destruct o as [p|p advs|p|l|e]; simpl in H.
    - (* NewSession *)
      set (s := set_advs p []) in *.
      assert (Ek: sname s = sname p) by apply sname_set_advs.
      destruct (cfg (with_sessions st (aput (sname s) s (ms_sessions st)))) as [c0|] eqn:E; inversion H; subst; clear H.
      + split; [simpl; apply kinv_aput; [assumption|reflexivity]|]. split; [rewrite E; discriminate|right; symmetry; exact E].
      + (* failed: deleteSession restores the table because the name was fresh *)
        simpl. rewrite Ek, adel_aput_fresh by (apply aget_none; assumption).
        assert (with_sessions st (ms_sessions st) = st) as -> by (destruct st; reflexivity).
        split; [assumption|]. split; assumption.
    - (* Set *)
      destruct (aget (sname p) (ms_sessions st)) as [s0|] eqn:G; [|inversion H; subst; split; [assumption|split; assumption]].
      destruct (forallb valid_adv advs); [|inversion H; subst; split; [assumption|split; assumption]].
      match type of H with context [match ?X with _ => _ end] => destruct X as [c0|] eqn:E end; inversion H; subst; clear H; [|split; [assumption|split; assumption]].
      split.
      + simpl. apply kinv_aput; [assumption|]. rewrite sname_set_advs. destruct Hk as [_ Hk]. apply Hk. apply aget_in. exact G.
      + split; [rewrite E; discriminate|right; symmetry; exact E].
    - (* Close: cannot fail *)
      assert (Hd: cfg (with_sessions st (adel (sname p) (ms_sessions st))) <> None).
      { unfold cfg_of, sessions_of; simpl. apply gen_del; assumption. }
      match type of H with context [match ?X with _ => _ end] => destruct X as [c0|] eqn:E end; [|congruence]. inversion H; subst; clear H.
      split; [simpl; apply kinv_adel; assumption|]. split; [rewrite E; discriminate|right; symmetry; exact E].
    - (* SyncBFDProfiles: cannot fail *)
      pose proof (cfg_indep st (sort_k fst l) (ms_extra st) Hr) as Hd.
      match type of H with context [match ?X with _ => _ end] => destruct X as [c0|] eqn:E end; [|congruence]. inversion H; subst; clear H.
      split; [assumption|]. split; [rewrite E; discriminate|right; symmetry; exact E].
    - destruct xr.
      + pose proof (cfg_indep st (ms_bfd st) e Hr) as Hd.
        match type of H with context [match ?X with _ => _ end] => destruct X as [c0|] eqn:E end; [|congruence]. inversion H; subst; clear H.
        split; [assumption|]. split; [rewrite E; discriminate|right; symmetry; exact E].
      + inversion H; subst. split; [assumption|split; assumption].
  Qed.

  Lemma minv_run ops : forall st last st' oks last',
    minv st last -> hist_ok st ops -> mrun gen xr st last ops = (st', oks, last') -> minv st' last'.
  Proof.
    induction ops as [|o r IH]; intros st last st' oks last' Hi Hh H; simpl in H.
    - inversion H; subst; assumption.
    - destruct (step st o) as [[st1 ok] c] eqn:E. simpl in Hh. rewrite E in Hh. simpl in Hh. destruct Hh as (Hg & Hn & Hh).
      destruct (mrun gen xr st1 (match c with Some _ => c | None => last end) r) as [[st2 oks2] last2] eqn:E2.
      inversion H; subst. eapply IH; [|exact Hh|exact E2]. eapply minv_step; eauto.
  Qed.

  (* history independence: whatever the history, what was last handed on is the
     configuration generated from the final state (or nothing was ever handed on
     and the state is the initial one); the final state is renderable *)
  Theorem history_in_sync ops st oks last :
    gen [] [] "" <> None -> hist_ok minit ops -> mrun gen xr minit None ops = (st, oks, last) ->
    cfg st <> None /\ ((last = None /\ st = minit) \/ last = cfg st).
  Proof.
    intros H0 Hh H. assert (Hi: minv minit None).
    { split; [split; [constructor|intros k v []]|]. split; [exact H0|left; auto]. }
    destruct (minv_run ops _ _ _ _ _ Hi Hh H) as (_ & A & B). auto.
  Qed.

  (* Close, SyncBFDProfiles and (FRR) SyncExtraInfo never fail in such a history *)
  Theorem no_partial_failure st last o st' c :
    minv st last -> good (ms_sessions st) ->
    (match o with MClose _ | MBfd _ => True | MExtra _ => xr = true | _ => False end) ->
    step st o = (st', false, c) -> False.
  Proof.
    intros (Hk & Hr & _) Hg Ho H. destruct o as [p|p advs|p|l|e]; try contradiction; simpl in H.
    - assert (Hd: cfg (with_sessions st (adel (sname p) (ms_sessions st))) <> None)
        by (unfold cfg_of, sessions_of; simpl; apply gen_del; assumption).
      match type of H with context [match ?X with _ => _ end] => destruct X end; [discriminate|congruence].
    - pose proof (cfg_indep st (sort_k fst l) (ms_extra st) Hr). match type of H with context [match ?X with _ => _ end] => destruct X end; [discriminate|congruence].
    - subst xr. pose proof (cfg_indep st (ms_bfd st) e Hr). match type of H with context [match ?X with _ => _ end] => destruct X end; [discriminate|congruence].
  Qed.
End Generic.

(* ---------- all_some ---------- *)
Lemma all_some_some {A B} (f : A -> option B) l : (forall x, In x l -> f x <> None) -> all_some (map f l) <> None.
Proof.
  induction l as [|x l IH]; simpl; intros H; [discriminate|].
  destruct (f x) eqn:E; [|exfalso; exact (H x (or_introl eq_refl) E)].
  destruct (all_some (map f l)) eqn:E2; [discriminate|]. exfalso. apply IH; [|reflexivity]. intros y Hy; apply H; right; assumption.
Qed.

Lemma map_snd_adel_in k l s : In s (map snd (adel k l)) -> In s (map snd l).
Proof. intros H. apply in_map_iff in H as (x & <- & Hx). apply adel_in in Hx as [Hx _]. apply in_map; assumption. Qed.

(* ---------- frr-k8s back end ---------- *)
Lemma k8s_render_some node S : (forall s, In s S -> k_neighbor s <> None) -> k8s_render node S <> None.
Proof.
  intros H. unfold k8s_render.
  assert (A: all_some (map (k_router S) (sort_s (map rkey S))) <> None).
  { apply all_some_some. intros k Hk. apply sort_s_in, in_map_iff in Hk as (s0 & <- & Hs0).
    unfold k_router. destruct (sessions_with rkey (rkey s0) S) as [|f rest] eqn:E.
    - assert (In s0 (sessions_with rkey (rkey s0) S)) by (apply sessions_with_in; auto). rewrite E in H0. contradiction.
    - assert (B: all_some (map k_neighbor (sort_k sname (f :: rest))) <> None).
      { apply all_some_some. intros t Ht. apply sort_k_in in Ht. rewrite <- E in Ht. apply sessions_with_in in Ht as [Ht _]. apply H; assumption. }
      destruct (all_some (map k_neighbor (sort_k sname (f :: rest)))); [discriminate|congruence]. }
  destruct (all_some _); [discriminate|congruence].
Qed.

Lemma k8s_render_all node S : key_inj sname S -> k8s_render node S <> None -> forall s, In s S -> k_neighbor s <> None.
Proof.
  intros Hi H s Hs. destruct (k8s_render node S) as [c|] eqn:E; [|congruence].
  destruct (k8s_session_has_neighbor _ _ _ _ Hi E Hs) as (r & n & _ & _ & Hn & _). congruence.
Qed.

Lemma gen_k8s_indep node S b e b' e' : gen_k8s node S b e = None -> gen_k8s node S b' e' = None.
Proof. unfold gen_k8s. destruct (k8s_render node S); [discriminate|reflexivity]. Qed.

Lemma gen_k8s_del node l b e k : kinv l -> True -> gen_k8s node (map snd l) b e <> None -> gen_k8s node (map snd (adel k l)) b e <> None.
Proof.
  intros Hk _ H. unfold gen_k8s in *.
  assert (R: k8s_render node (map snd l) <> None) by (destruct (k8s_render node (map snd l)); [discriminate|congruence]).
  pose proof (k8s_render_all node _ (kinv_sname_inj l Hk) R) as A.
  assert (R': k8s_render node (map snd (adel k l)) <> None).
  { apply k8s_render_some. intros s Hs. apply A. eapply map_snd_adel_in; eassumption. }
  destruct (k8s_render node (map snd (adel k l))); [discriminate|congruence].
Qed.

Theorem k8s_history_in_sync node ops st oks last :
  hist_ok (gen_k8s node) false (fun _ => True) minit ops -> mrun (gen_k8s node) false minit None ops = (st, oks, last) ->
  cfg_of (gen_k8s node) st <> None /\ ((last = None /\ st = minit) \/ last = cfg_of (gen_k8s node) st).
Proof.
  apply (history_in_sync (gen_k8s node) false (fun _ => True) (gen_k8s_indep node) (gen_k8s_del node)).
  vm_compute. discriminate.
Qed.

Theorem k8s_order_independent node l l' b e :
  Permutation l l' -> rkey_fields (map snd l) -> pfx_texts_inj (map snd l) -> kinv l ->
  gen_k8s node (map snd l) b e = gen_k8s node (map snd l') b e.
Proof.
  intros P Hf Hp Hk. unfold gen_k8s.
  rewrite (k8s_render_perm node (map snd l) (map snd l') (kinv_sname_inj l Hk) Hf Hp (Permutation_map (@snd string session) P)). reflexivity.
Qed.

(* ---------- FRR back end ---------- *)
Definition good_frr (l : list (string * session)) : Prop :=
  forall s t, In s (map snd l) -> In t (map snd l) -> rkey s = rkey t -> nname s = nname t -> s = t.

Lemma render_all S : wf_lite S -> render S <> None -> forall s, In s S -> mk_neighbor s (s_advs s) <> None.
Proof.
  intros W H s Hs. destruct (render S) as [c|] eqn:E; [|congruence]. destruct (render_routers _ _ E) as (rs & Hc & _).
  destruct (session_nbr_lite _ _ _ W Hc Hs) as (r & n & _ & _ & _ & _ & Hmk). congruence.
Qed.

Lemma render_some S : wf_lite S -> (forall s, In s S -> mk_neighbor s (s_advs s) <> None) -> render S <> None.
Proof.
  intros W H. unfold render.
  assert (A: create_config S <> None).
  { unfold create_config. apply all_some_some. intros k Hk. apply sort_s_in, in_map_iff in Hk as (s0 & <- & Hs0).
    unfold mk_router. destruct (sessions_with rkey (rkey s0) S) as [|f rest] eqn:E.
    - assert (In s0 (sessions_with rkey (rkey s0) S)) by (apply sessions_with_in; auto). rewrite E in H0. contradiction.
    - assert (B: all_some (map (fun nn => match sessions_with nname nn (f :: rest) with
                                            | [] => None
                                            | f0 :: _ => mk_neighbor f0 (flat_map s_advs (sessions_with nname nn (f :: rest)))
                                            end) (sort_s (map nname (f :: rest)))) <> None).
      { apply all_some_some. intros nn Hnn. apply sort_s_in, in_map_iff in Hnn as (t & <- & Ht).
        rewrite <- E in Ht. apply sessions_with_in in Ht as [HtS Kt].
        rewrite <- E, <- Kt, (singleton_group_lite S t W HtS). simpl. rewrite app_nil_r. apply H; assumption. }
      destruct (all_some _); [discriminate|congruence]. }
  destruct (create_config S); [discriminate|congruence].
Qed.

Lemma kinv_good_lite l : kinv l -> good_frr l -> wf_lite (map snd l).
Proof. intros Hk Hg. split; [apply kinv_values_nodup; assumption|exact Hg]. Qed.

Lemma gen_frr_indep S b e b' e' : gen_frr S b e = None -> gen_frr S b' e' = None.
Proof. unfold gen_frr. destruct (render S); [discriminate|reflexivity]. Qed.

Lemma gen_frr_del l b e k : kinv l -> good_frr l -> gen_frr (map snd l) b e <> None -> gen_frr (map snd (adel k l)) b e <> None.
Proof.
  intros Hk Hg H. unfold gen_frr in *.
  assert (R: render (map snd l) <> None) by (destruct (render (map snd l)); [discriminate|congruence]).
  pose proof (render_all _ (kinv_good_lite l Hk Hg) R) as A.
  assert (W': wf_lite (map snd (adel k l))).
  { apply kinv_good_lite; [apply kinv_adel; assumption|]. intros s t Hs Ht. apply Hg; eapply map_snd_adel_in; eassumption. }
  assert (R': render (map snd (adel k l)) <> None).
  { apply render_some; [exact W'|]. intros s Hs. apply A. eapply map_snd_adel_in; eassumption. }
  destruct (render (map snd (adel k l))); [discriminate|congruence].
Qed.

Theorem frr_history_in_sync ops st oks last :
  hist_ok gen_frr true good_frr minit ops -> mrun gen_frr true minit None ops = (st, oks, last) ->
  cfg_of gen_frr st <> None /\ ((last = None /\ st = minit) \/ last = cfg_of gen_frr st).
Proof.
  apply (history_in_sync gen_frr true good_frr gen_frr_indep gen_frr_del). vm_compute. discriminate.
Qed.

Theorem frr_order_independent (l l' : list (string * session)) b e :
  Permutation l l' -> wf_perm (map snd l) -> gen_frr (map snd l) b e = gen_frr (map snd l') b e.
Proof.
  intros P W. unfold gen_frr. rewrite (render_perm (map snd l) (map snd l') W (Permutation_map (@snd string session) P)). reflexivity.
Qed.

(* two histories that end with the same session table (in any order), BFD profiles
   and extra configuration hand on the same configuration: the configuration is a
   function of the final requested state, e.g. that of a fresh manager given only it *)
Theorem frr_history_independent ops1 ops2 st1 st2 oks1 oks2 last1 last2 :
  hist_ok gen_frr true good_frr minit ops1 -> hist_ok gen_frr true good_frr minit ops2 ->
  mrun gen_frr true minit None ops1 = (st1, oks1, last1) -> mrun gen_frr true minit None ops2 = (st2, oks2, last2) ->
  Permutation (ms_sessions st1) (ms_sessions st2) -> ms_bfd st1 = ms_bfd st2 -> ms_extra st1 = ms_extra st2 ->
  wf_perm (sessions_of st1) -> last1 <> None -> last2 <> None -> last1 = last2.
Proof.
  intros H1 H2 R1 R2 P Eb Ee W N1 N2.
  destruct (frr_history_in_sync _ _ _ _ H1 R1) as [_ [[X _]|A]]; [congruence|].
  destruct (frr_history_in_sync _ _ _ _ H2 R2) as [_ [[X _]|B]]; [congruence|].
  rewrite A, B. unfold cfg_of, sessions_of. rewrite <- Eb, <- Ee. apply frr_order_independent; assumption.
Qed.

Theorem k8s_history_independent node ops1 ops2 st1 st2 oks1 oks2 last1 last2 :
  hist_ok (gen_k8s node) false (fun _ => True) minit ops1 -> hist_ok (gen_k8s node) false (fun _ => True) minit ops2 ->
  mrun (gen_k8s node) false minit None ops1 = (st1, oks1, last1) -> mrun (gen_k8s node) false minit None ops2 = (st2, oks2, last2) ->
  Permutation (ms_sessions st1) (ms_sessions st2) -> ms_bfd st1 = ms_bfd st2 -> ms_extra st1 = ms_extra st2 ->
  rkey_fields (sessions_of st1) -> pfx_texts_inj (sessions_of st1) -> kinv (ms_sessions st1) ->
  last1 <> None -> last2 <> None -> last1 = last2.
Proof.
  intros H1 H2 R1 R2 P Eb Ee Wf Wp Wk N1 N2.
  destruct (k8s_history_in_sync _ _ _ _ _ H1 R1) as [_ [[X _]|A]]; [congruence|].
  destruct (k8s_history_in_sync _ _ _ _ _ H2 R2) as [_ [[X _]|B]]; [congruence|].
  rewrite A, B. unfold cfg_of, sessions_of. rewrite <- Eb, <- Ee. apply k8s_order_independent; assumption.
Qed.

(* the session table always has distinct names and every entry sits under its own name *)
Theorem table_invariant {C} (gen : list session -> list bfdprof -> string -> option C) xr ops : forall st last st' oks last',
  kinv (ms_sessions st) -> mrun gen xr st last ops = (st', oks, last') -> kinv (ms_sessions st').
Proof.
  induction ops as [|o r IH]; intros st last st' oks last' Hk H; simpl in H.
  - inversion H; subst; assumption.
  - destruct (mstep gen xr st o) as [[st1 ok] c] eqn:E.
    destruct (mrun gen xr st1 _ r) as [[st2 oks2] last2] eqn:E2. inversion H; subst.
    eapply IH; [|exact E2]. clear IH E2 H.
    destruct o as [p|p advs|p|l|e]; simpl in E.
    + match type of E with context [match ?X with _ => _ end] => destruct X end; inversion E; subst; simpl.
      * apply kinv_aput; [assumption|reflexivity].
      * apply kinv_adel, kinv_aput; [assumption|reflexivity].
    + destruct (aget (sname p) (ms_sessions st)) as [s0|] eqn:G; [|inversion E; subst; assumption].
      destruct (forallb valid_adv advs); [|inversion E; subst; assumption].
      match type of E with context [match ?X with _ => _ end] => destruct X end; inversion E; subst; simpl; [|assumption].
      apply kinv_aput; [assumption|]. rewrite sname_set_advs. destruct Hk as [_ Hk]. apply Hk, aget_in, G.
    + match type of E with context [match ?X with _ => _ end] => destruct X end; inversion E; subst; simpl; apply kinv_adel; assumption.
    + match type of E with context [match ?X with _ => _ end] => destruct X end; inversion E; subst; simpl; assumption.
    + destruct xr; [|inversion E; subst; assumption].
      match type of E with context [match ?X with _ => _ end] => destruct X end; inversion E; subst; simpl; assumption.
Qed.

(* ---------- hist_ok decided (for examples) ---------- *)
Definition good_frr_b (l : list (string * session)) : bool :=
  all2 (map snd l) (fun s t => imp (String.eqb (rkey s) (rkey t) && String.eqb (nname s) (nname t)) (session_eqb s t)).

Lemma good_frr_b_sound l : good_frr_b l = true -> good_frr l.
Proof.
  intros H s t Hs Ht E1 E2. apply session_eqb_sound. apply (imp_sound _ _ (all2_sound _ _ H s t Hs Ht)).
  rewrite E1, E2, !String.eqb_refl. reflexivity.
Qed.

Fixpoint hist_ok_frr_b (st : mstate) (ops : list mop) : bool :=
  match ops with
  | [] => true
  | o :: r =>
      good_frr_b (ms_sessions st) &&
      (match o with MNew p => match aget (sname p) (ms_sessions st) with None => true | Some _ => false end | _ => true end) &&
      hist_ok_frr_b (fst (fst (mstep gen_frr true st o))) r
  end.

Lemma hist_ok_frr_b_sound ops : forall st, hist_ok_frr_b st ops = true -> hist_ok gen_frr true good_frr st ops.
Proof.
  induction ops as [|o r IH]; intros st H; simpl in *; [exact I|].
  apply andb_true_iff in H as [H H3]. apply andb_true_iff in H as [H1 H2].
  split; [apply good_frr_b_sound; assumption|]. split; [|apply IH; assumption].
  destruct o; try exact I. destruct (aget (sname p) (ms_sessions st)); [discriminate|reflexivity].
Qed.

Fixpoint hist_ok_k8s_b (node : string) (st : mstate) (ops : list mop) : bool :=
  match ops with
  | [] => true
  | o :: r =>
      (match o with MNew p => match aget (sname p) (ms_sessions st) with None => true | Some _ => false end | _ => true end) &&
      hist_ok_k8s_b node (fst (fst (mstep (gen_k8s node) false st o))) r
  end.

Lemma hist_ok_k8s_b_sound node ops : forall st, hist_ok_k8s_b node st ops = true -> hist_ok (gen_k8s node) false (fun _ => True) st ops.
Proof.
  induction ops as [|o r IH]; intros st H; simpl in *; [exact I|].
  apply andb_true_iff in H as [H1 H2]. split; [exact I|]. split; [|apply IH; assumption].
  destruct o; try exact I. destruct (aget (sname p) (ms_sessions st)); [discriminate|reflexivity].
Qed.
