(* C05: invariants of the bgpController model over every event list. *)
From Coq Require Import List NArith Bool Lia.
From Verif Require Import Model.BgpAds Proofs.NetP Proofs.ElectP.
Local Open Scope N_scope.

(* ---------------------------------------------------------------- basics *)
Lemma upd_eq {A} (f : N -> A) k v : upd f k v k = v.
Proof. unfold upd. rewrite N.eqb_refl. reflexivity. Qed.
Lemma upd_neq {A} (f : N -> A) k v k' : k' <> k -> upd f k v k' = f k'.
Proof. unfold upd. intros H. destruct (N.eqb_spec k' k); congruence. Qed.

Lemma pair_eqb_eq a b : pair_eqb a b = true <-> a = b.
Proof.
  unfold pair_eqb. rewrite andb_true_iff, !N.eqb_eq. destruct a, b; cbn. split; [intros [-> ->]; reflexivity|intros [= -> ->]; auto].
Qed.
Lemma lbl_eqb_eq a : forall b, lbl_eqb a b = true <-> a = b.
Proof.
  induction a as [|x a IH]; intros [|y b]; cbn; try (split; congruence).
  rewrite andb_true_iff, pair_eqb_eq, IH. split; [intros [-> ->]; reflexivity|intros [= -> ->]; auto].
Qed.
Lemma sels_eqb_eq a : forall b, sels_eqb a b = true <-> a = b.
Proof.
  induction a as [|x a IH]; intros [|y b]; cbn; try (split; congruence).
  rewrite andb_true_iff, lbl_eqb_eq, IH. split; [intros [-> ->]; reflexivity|intros [= -> ->]; auto].
Qed.
Lemma pcfg_eqb_eq a b : pcfg_eqb a b = true <-> a = b.
Proof.
  unfold pcfg_eqb. rewrite !andb_true_iff, !N.eqb_eq, sels_eqb_eq. destruct a, b; cbn.
  split; [intros [[[-> ->] ->] ->]; reflexivity|intros [= -> -> -> ->]; auto].
Qed.
Lemma prefix_eqb_eq a b : prefix_eqb a b = true <-> a = b.
Proof.
  unfold prefix_eqb. rewrite !andb_true_iff, !N.eqb_eq, fam_eqb_eq. destruct a, b; cbn.
  split; [intros [[-> ->] ->]; reflexivity|intros [= -> -> ->]; auto].
Qed.

Lemma in_all_ads st ad : In ad (all_ads st) <-> exists k, In k (bs_keys st) /\ In ad (svc_ads st k).
Proof. unfold all_ads. apply in_flat_map. Qed.

Lemma in_make_ads me ips advs ad :
  In ad (make_ads me ips advs) <-> exists x a, In x ips /\ In a advs /\ In me (ba_nodes a) /\ ad = mk_adv x a.
Proof.
  unfold make_ads. rewrite in_flat_map. split.
  - intros [x [Hx H]]. apply in_flat_map in H. destruct H as [a [Ha H]].
    destruct (mem me (ba_nodes a)) eqn:E; [|destruct H]. destruct H as [<-|[]].
    exists x, a. repeat split; auto. apply mem_In. exact E.
  - intros [x [a [Hx [Ha [Hm ->]]]]]. exists x. split; [exact Hx|]. apply in_flat_map. exists a. split; [exact Ha|].
    apply mem_In in Hm. rewrite Hm. left. reflexivity.
Qed.

Lemma matches_peer_spec p a : matches_peer p a = true <-> ad_peers a = [] \/ In p (ad_peers a).
Proof.
  unfold matches_peer. destruct (ad_peers a) as [|y l] eqn:E.
  - split; [left; reflexivity|reflexivity].
  - rewrite mem_In. split; [right; exact H|intros [H|H]; [discriminate|exact H]].
Qed.

Lemma pfx_in_spec pf ads : pfx_in pf ads = true <-> exists a, In a ads /\ ad_pfx a = pf.
Proof.
  unfold pfx_in. rewrite existsb_exists. split; intros [a [Ha H]]; exists a; (split; [exact Ha|]).
  - apply prefix_eqb_eq in H. congruence.
  - apply prefix_eqb_eq. congruence.
Qed.

Lemma offered_pfx_spec ads q :
  offered_pfx ads q = true <->
  exists l, ps_sess q = Some l /\ exists a, In a l /\ exists a', In a' ads /\ ad_pfx a' = ad_pfx a.
Proof.
  unfold offered_pfx. destruct (ps_sess q) as [l|].
  - rewrite existsb_exists. split.
    + intros [a [Ha H]]. exists l. split; [reflexivity|]. exists a. split; [exact Ha|]. apply pfx_in_spec. exact H.
    + intros [l' [[= <-] [a [Ha H]]]]. exists a. split; [exact Ha|]. apply pfx_in_spec. exact H.
  - split; [discriminate|]. intros [l [H _]]. discriminate.
Qed.

(* ---------------------------------------------------------------- the invariant *)
Definition live (q : peerst) : Prop := ps_sess q <> None.

Record binv (me : N) (evs : list bev) (st : bstate) : Prop := {
  i_ads : forall n, bs_ads st n = match announced_as evs n with
                                  | Some (ips, advs) => Some (make_ads me ips advs)
                                  | None => None
                                  end;
  i_keys : forall n, bs_ads st n <> None -> In n (bs_keys st);
  i_fresh : forall q l, In q (bs_peers st) -> ps_sess q = Some l ->
              l = ads_for_peer (pc_name (ps_cfg q)) (all_ads st);
  i_labels : bs_labels st = last_labels me evs;
  i_cfg : map ps_cfg (bs_peers st) = last_cfg evs;
  i_live : forall q, In q (bs_peers st) -> (live q <-> should_run (bs_labels st) (ps_cfg q) = true);
  i_active : forall svc p, In p (bs_active st svc) <->
               exists q, In q (bs_peers st) /\ pc_name (ps_cfg q) = p /\ offered_pfx (svc_ads st svc) q = true
}.

(* ---------------------------------------------------------------- update_ads *)
Lemma update_ads_fields st :
  bs_labels (update_ads st) = bs_labels st /\ bs_keys (update_ads st) = bs_keys st /\
  bs_ads (update_ads st) = bs_ads st /\ bs_peers (update_ads st) = publish st.
Proof. unfold update_ads. cbn. auto. Qed.

Lemma all_ads_update st : all_ads (update_ads st) = all_ads st.
Proof. reflexivity. Qed.

Lemma in_publish st q' :
  In q' (publish st) <->
  exists q, In q (bs_peers st) /\
    q' = match ps_sess q with
         | Some _ => {| ps_cfg := ps_cfg q; ps_sess := Some (ads_for_peer (pc_name (ps_cfg q)) (all_ads st)); ps_made := ps_made q |}
         | None => q
         end.
Proof.
  unfold publish. rewrite in_map_iff. split; intros [q [H1 H2]]; exists q; auto.
Qed.

Lemma publish_cfg st : map ps_cfg (publish st) = map ps_cfg (bs_peers st).
Proof.
  unfold publish. rewrite map_map. apply map_ext. intros q. destruct (ps_sess q); reflexivity.
Qed.

Lemma update_fresh st q l :
  In q (bs_peers (update_ads st)) -> ps_sess q = Some l ->
  l = ads_for_peer (pc_name (ps_cfg q)) (all_ads (update_ads st)).
Proof.
  rewrite all_ads_update. cbn [update_ads bs_peers]. intros Hq Hl. apply in_publish in Hq.
  destruct Hq as [q0 [_ ->]]. destruct (ps_sess q0) eqn:E; cbn in *; congruence.
Qed.

Lemma update_live st :
  (forall q, In q (bs_peers st) -> (live q <-> should_run (bs_labels st) (ps_cfg q) = true)) ->
  forall q, In q (bs_peers (update_ads st)) -> (live q <-> should_run (bs_labels (update_ads st)) (ps_cfg q) = true).
Proof.
  intros H q Hq. cbn [update_ads bs_peers bs_labels] in *. apply in_publish in Hq. destruct Hq as [q0 [Hq0 ->]].
  specialize (H q0 Hq0). unfold live in *. destruct (ps_sess q0) eqn:E; cbn; [|rewrite E; exact H].
  split; [intros _; apply H; discriminate|discriminate].
Qed.

Lemma update_active st svc p :
  In p (bs_active (update_ads st) svc) <->
  exists q, In q (bs_peers (update_ads st)) /\ pc_name (ps_cfg q) = p /\ offered_pfx (svc_ads (update_ads st) svc) q = true.
Proof.
  cbn [update_ads bs_active bs_peers]. unfold svc_ads. cbn [bs_ads]. rewrite in_map_iff. split.
  - intros [q [Hn Hq]]. apply filter_In in Hq. exists q. tauto.
  - intros [q [Hq [Hn Ho]]]. exists q. split; [exact Hn|]. apply filter_In. tauto.
Qed.

(* update_ads re-establishes everything that mentions sessions *)
Lemma binv_update me evs st :
  (forall n, bs_ads st n = match announced_as evs n with Some (ips, advs) => Some (make_ads me ips advs) | None => None end) ->
  (forall n, bs_ads st n <> None -> In n (bs_keys st)) ->
  bs_labels st = last_labels me evs ->
  map ps_cfg (bs_peers st) = last_cfg evs ->
  (forall q, In q (bs_peers st) -> (live q <-> should_run (bs_labels st) (ps_cfg q) = true)) ->
  binv me evs (update_ads st).
Proof.
  intros H1 H2 H4 H5 H6. constructor.
  - exact H1.
  - exact H2.
  - intros q l. apply update_fresh.
  - exact H4.
  - cbn [update_ads bs_peers]. rewrite publish_cfg. exact H5.
  - apply update_live. exact H6.
  - apply update_active.
Qed.

(* ---------------------------------------------------------------- syncPeers *)
Lemma sync_one_cfg labels p : ps_cfg (fst (fst (sync_one labels p))) = ps_cfg p.
Proof. unfold sync_one. destruct (ps_sess p), (should_run labels (ps_cfg p)); reflexivity. Qed.

Lemma sync_one_live labels p :
  live (fst (fst (sync_one labels p))) <-> should_run labels (ps_cfg p) = true.
Proof.
  unfold sync_one, live. destruct (ps_sess p) eqn:E, (should_run labels (ps_cfg p)) eqn:R; cbn; rewrite ?E;
    split; congruence.
Qed.

Lemma sync_one_same labels p :
  snd (fst (sync_one labels p)) = false -> snd (sync_one labels p) = false -> fst (fst (sync_one labels p)) = p.
Proof. unfold sync_one. destruct (ps_sess p), (should_run labels (ps_cfg p)); cbn; congruence. Qed.

Lemma existsb_false_all {A} (f : A -> bool) l : existsb f l = false -> forall x, In x l -> f x = false.
Proof.
  intros H x Hx. destruct (f x) eqn:E; [|reflexivity].
  assert (existsb f l = true) by (apply existsb_exists; exists x; auto). congruence.
Qed.

Definition with_peers (st : bstate) (ps : list peerst) : bstate :=
  {| bs_labels := bs_labels st; bs_peers := ps; bs_keys := bs_keys st; bs_ads := bs_ads st; bs_active := bs_active st |}.

Lemma sync_unfold cr force st :
  sync_peers_gen cr force st =
  let r := map (sync_one (bs_labels st)) (bs_peers st) in
  let st1 := with_peers st (map (fun x => fst (fst x)) r) in
  if existsb (fun x => snd (fst x)) r || (cr && (existsb (fun x => snd x) r || force)) then update_ads st1 else st1.
Proof. reflexivity. Qed.

Lemma with_peers_same st : with_peers st (bs_peers st) = st.
Proof. destruct st; reflexivity. Qed.

(* what syncPeers guarantees given the session-independent part of the invariant *)
Lemma binv_sync me evs st force :
  (forall n, bs_ads st n = match announced_as evs n with Some (ips, advs) => Some (make_ads me ips advs) | None => None end) ->
  (forall n, bs_ads st n <> None -> In n (bs_keys st)) ->
  bs_labels st = last_labels me evs ->
  map ps_cfg (bs_peers st) = last_cfg evs ->
  (forall q l, In q (bs_peers st) -> ps_sess q = Some l -> l = ads_for_peer (pc_name (ps_cfg q)) (all_ads st)) ->
  (force = false ->
     forall svc p, In p (bs_active st svc) <->
       exists q, In q (bs_peers st) /\ pc_name (ps_cfg q) = p /\ offered_pfx (svc_ads st svc) q = true) ->
  binv me evs (sync_peers_gen true force st).
Proof.
  intros H1 H2 H4 H5 H3 H7. rewrite sync_unfold. cbv zeta.
  set (r := map (sync_one (bs_labels st)) (bs_peers st)).
  set (ps := map (fun x => fst (fst x)) r).
  assert (Hcfg : map ps_cfg ps = map ps_cfg (bs_peers st)).
  { unfold ps, r. rewrite !map_map. apply map_ext. intros q. apply sync_one_cfg. }
  assert (Hlive : forall q, In q ps -> (live q <-> should_run (bs_labels st) (ps_cfg q) = true)).
  { intros q Hq. unfold ps, r in Hq. rewrite map_map in Hq. apply in_map_iff in Hq. destruct Hq as [q0 [<- _]].
    rewrite sync_one_cfg. apply sync_one_live. }
  destruct (existsb (fun x => snd (fst x)) r || (true && (existsb (fun x => snd x) r || force))) eqn:E.
  - apply binv_update; cbn [with_peers bs_ads bs_keys bs_labels bs_peers]; try assumption. congruence.
  - apply orb_false_iff in E. destruct E as [E1 E2]. cbn [andb] in E2. apply orb_false_iff in E2. destruct E2 as [E2 E3].
    assert (Hid : ps = bs_peers st).
    { unfold ps, r. rewrite map_map. rewrite <- (map_id (bs_peers st)) at 2. apply map_ext_in. intros q Hq.
      apply sync_one_same.
      - apply (existsb_false_all _ _ E1 (sync_one (bs_labels st) q)). apply in_map. exact Hq.
      - apply (existsb_false_all _ _ E2 (sync_one (bs_labels st) q)). apply in_map. exact Hq. }
    rewrite Hid, with_peers_same. rewrite Hid in Hlive. constructor; auto.
Qed.

(* ---------------------------------------------------------------- SetConfig *)
Lemma take_peer_spec c old p r :
  take_peer c old = Some (p, r) ->
  ps_cfg p = c /\ (forall q, In q old <-> q = p \/ In q r).
Proof.
  revert p r. induction old as [|x old IH]; intros p r; cbn [take_peer]; [discriminate|].
  destruct (pcfg_eqb c (ps_cfg x)) eqn:E.
  - intros [= <- <-]. apply pcfg_eqb_eq in E. split; [congruence|]. intros q. cbn. split; intros [H|H]; auto.
  - destruct (take_peer c old) as [[q0 r0]|] eqn:T; [|discriminate]. intros [= <- <-].
    destruct (IH q0 r0 eq_refl) as [Hc Hin]. split; [exact Hc|]. intros q. cbn. rewrite Hin. tauto.
Qed.

Lemma diff_peers_spec cfgs : forall old n o,
  diff_peers cfgs old = (n, o) ->
  map ps_cfg n = cfgs /\
  (forall q, In q old -> In q n \/ In q o) /\
  (forall q, In q n -> In q old \/ ps_sess q = None) /\
  (forall q, In q o -> In q old).
Proof.
  induction cfgs as [|c cs IH]; intros old n o; cbn [diff_peers].
  - intros [= <- <-]. repeat split; auto. intros q [].
  - destruct (take_peer c old) as [[p old']|] eqn:T.
    + destruct (diff_peers cs old') as [n' o'] eqn:D. intros [= <- <-].
      destruct (take_peer_spec _ _ _ _ T) as [Hc Hin]. destruct (IH _ _ _ D) as [I1 [I2 [I3 I4]]].
      repeat split.
      * cbn. congruence.
      * intros q Hq. apply Hin in Hq. destruct Hq as [->|Hq]; [left; left; reflexivity|].
        destruct (I2 q Hq); [left; right; assumption|right; assumption].
      * intros q [<-|Hq]; [left; apply Hin; left; reflexivity|].
        destruct (I3 q Hq) as [H|H]; [left; apply Hin; right; exact H|right; exact H].
      * intros q Hq. apply Hin. right. apply I4. exact Hq.
    + destruct (diff_peers cs old) as [n' o'] eqn:D. intros [= <- <-].
      destruct (IH _ _ _ D) as [I1 [I2 [I3 I4]]]. repeat split.
      * cbn. congruence.
      * intros q Hq. destruct (I2 q Hq); [left; right; assumption|right; assumption].
      * intros q [<-|Hq]; [right; reflexivity|apply I3; exact Hq].
      * exact I4.
Qed.

(* ---------------------------------------------------------------- vocabulary on snoc *)
Lemma announced_snoc evs e n :
  announced_as (evs ++ [e]) n =
  match e with
  | BSet m ips advs => if n =? m then Some (ips, advs) else announced_as evs n
  | BDel m => if n =? m then None else announced_as evs n
  | _ => announced_as evs n
  end.
Proof. unfold announced_as. rewrite fold_left_app. cbn. destruct e; reflexivity. Qed.
Lemma last_cfg_snoc evs e :
  last_cfg (evs ++ [e]) = match e with BCfg ps => ps | _ => last_cfg evs end.
Proof. unfold last_cfg. rewrite fold_left_app. cbn. destruct e; reflexivity. Qed.
Lemma last_labels_snoc me evs e :
  last_labels me (evs ++ [e]) = match e with BNode n l => if n =? me then Some l else last_labels me evs | _ => last_labels me evs end.
Proof. unfold last_labels. rewrite fold_left_app. cbn. destruct e; reflexivity. Qed.

(* ---------------------------------------------------------------- one step *)
Lemma binv_step me evs st e : binv me evs st -> binv me (evs ++ [e]) (bstep me st e).
Proof.
  intros [I1 I2 I3 I4 I5 I6 I7]. destruct e as [name ips advs|name|cfgs|n labels]; unfold bstep, bstep_gen.
  - (* SetBalancer *)
    unfold bset_balancer. apply binv_update; cbn [bs_ads bs_keys bs_labels bs_peers].
    + intros m. rewrite announced_snoc. unfold upd. destruct (m =? name); [reflexivity|apply I1].
    + intros m. unfold upd. destruct (N.eqb_spec m name) as [->|Hne]; [left; reflexivity|]. intros H. right. apply I2. exact H.
    + rewrite last_labels_snoc. exact I4.
    + rewrite last_cfg_snoc. exact I5.
    + exact I6.
  - (* DeleteBalancer *)
    unfold bdelete. destruct (bs_ads st name) eqn:E.
    + apply binv_update; cbn [bs_ads bs_keys bs_labels bs_peers].
      * intros m. rewrite announced_snoc. unfold upd. destruct (m =? name); [reflexivity|apply I1].
      * intros m. unfold upd. destruct (N.eqb_spec m name) as [->|Hne]; [congruence|apply I2].
      * rewrite last_labels_snoc. exact I4.
      * rewrite last_cfg_snoc. exact I5.
      * exact I6.
    + constructor; auto.
      * intros m. rewrite announced_snoc. destruct (N.eqb_spec m name) as [->|Hne]; [exact E|apply I1].
      * rewrite last_labels_snoc. exact I4.
      * rewrite last_cfg_snoc. exact I5.
  - (* SetConfig *)
    unfold bset_config_gen. destruct (diff_peers cfgs (bs_peers st)) as [nw o] eqn:D.
    destruct (diff_peers_spec _ _ _ _ D) as [D1 [D2 [D3 D4]]].
    set (closed := existsb (fun p => match ps_sess p with Some _ => true | None => false end) o).
    apply binv_sync; cbn [bs_ads bs_keys bs_labels bs_peers bs_active].
    + intros m. rewrite announced_snoc. apply I1.
    + exact I2.
    + rewrite last_labels_snoc. exact I4.
    + rewrite last_cfg_snoc. exact D1.
    + intros q l Hq Hl. destruct (D3 q Hq) as [H|H]; [|congruence]. apply (I3 q l H Hl).
    + intros Hc svc p. rewrite I7. unfold svc_ads. cbn [bs_ads]. split.
      * intros [q [Hq [Hn Ho]]]. exists q. split; [|tauto]. destruct (D2 q Hq) as [H|H]; [exact H|exfalso].
        pose proof (existsb_false_all _ _ Hc q H) as Hf. cbv beta in Hf. apply offered_pfx_spec in Ho. destruct Ho as [l [Hl _]].
        rewrite Hl in Hf. discriminate.
      * intros [q [Hq [Hn Ho]]]. exists q. split; [|tauto]. destruct (D3 q Hq) as [H|H]; [exact H|exfalso].
        apply offered_pfx_spec in Ho. destruct Ho as [l [Hl _]]. congruence.
  - (* SetNode *)
    unfold bset_node_gen. destruct (N.eqb_spec n me) as [->|Hne]; cbn [negb].
    2:{ constructor; auto.
        - intros m. rewrite announced_snoc. apply I1.
        - rewrite last_labels_snoc. destruct (N.eqb_spec n me); [congruence|exact I4].
        - rewrite last_cfg_snoc. exact I5. }
    assert (Hsync : binv me (evs ++ [BNode me labels])
              (sync_peers_gen true false {| bs_labels := Some labels; bs_peers := bs_peers st; bs_keys := bs_keys st;
                                            bs_ads := bs_ads st; bs_active := bs_active st |})).
    { apply binv_sync; cbn [bs_ads bs_keys bs_labels bs_peers bs_active].
      - intros m. rewrite announced_snoc. apply I1.
      - exact I2.
      - rewrite last_labels_snoc, N.eqb_refl. reflexivity.
      - rewrite last_cfg_snoc. exact I5.
      - exact I3.
      - intros _. exact I7. }
    destruct (bs_labels st) as [l0|] eqn:El; [|exact Hsync].
    destruct (lbl_eqb l0 labels) eqn:Eq; [|exact Hsync].
    apply lbl_eqb_eq in Eq. subst l0. constructor; auto.
    + intros m. rewrite announced_snoc. apply I1.
    + rewrite last_labels_snoc, N.eqb_refl. exact El.
    + rewrite last_cfg_snoc. exact I5.
    + rewrite El. exact I6.
Qed.

Lemma binv_init me : binv me [] binit.
Proof.
  constructor.
  - reflexivity.
  - intros n H. exfalso. apply H. reflexivity.
  - intros q l [].
  - reflexivity.
  - reflexivity.
  - intros q [].
  - intros svc p. split; [intros []|]. intros [q [[] _]].
Qed.

Lemma brun_snoc me evs e : brun me (evs ++ [e]) = bstep me (brun me evs) e.
Proof. unfold brun. rewrite fold_left_app. reflexivity. Qed.

Lemma binv_run me evs : binv me evs (brun me evs).
Proof.
  induction evs as [|e evs IH] using rev_ind; [apply binv_init|].
  rewrite brun_snoc. apply binv_step. exact IH.
Qed.

(* ---------------------------------------------------------------- the theorems *)
Lemma in_all_ads_announced me evs st ad :
  binv me evs st ->
  (In ad (all_ads st) <-> exists name ips advs, announced_as evs name = Some (ips, advs) /\ In ad (make_ads me ips advs)).
Proof.
  intros I. rewrite in_all_ads. unfold svc_ads. split.
  - intros [k [_ Hin]]. rewrite (i_ads _ _ _ I) in Hin. destruct (announced_as evs k) as [[ips advs]|] eqn:E; [|destruct Hin].
    exists k, ips, advs. auto.
  - intros [k [ips [advs [E Hin]]]]. exists k. split.
    + apply (i_keys _ _ _ I). rewrite (i_ads _ _ _ I), E. discriminate.
    + rewrite (i_ads _ _ _ I), E. exact Hin.
Qed.

(* every live session's last Set is exactly the intended route set of its peer *)
Lemma offered_exact me evs q l :
  In q (bs_peers (brun me evs)) -> ps_sess q = Some l ->
  forall ad, In ad l <-> intended me evs (pc_name (ps_cfg q)) ad.
Proof.
  intros Hq Hl ad. pose proof (binv_run me evs) as I.
  rewrite (i_fresh _ _ _ I q l Hq Hl). unfold ads_for_peer. rewrite filter_In, (in_all_ads_announced me evs _ ad I), matches_peer_spec.
  unfold intended. split.
  - intros [[name [ips [advs [E Hin]]]] Hm]. apply in_make_ads in Hin. destruct Hin as [x [a [Hx [Ha [Hn ->]]]]].
    exists name, ips, advs, x, a. cbn in Hm. auto 10.
  - intros [name [ips [advs [x [a [E [Hx [Ha [Hn [Hp ->]]]]]]]]]]. split.
    + exists name, ips, advs. split; [exact E|]. apply in_make_ads. exists x, a. auto.
    + cbn. exact Hp.
Qed.

Lemma sess_of_in st p l : sess_of st p = Some l -> exists q, In q (bs_peers st) /\ pc_name (ps_cfg q) = p /\ ps_sess q = Some l.
Proof.
  unfold sess_of. destruct (find _ (bs_peers st)) as [q|] eqn:F; [|discriminate].
  apply find_some in F. destruct F as [Hin Hn]. apply N.eqb_eq in Hn. intros H. exists q. auto.
Qed.

Lemma offered_exact_by_name me evs p l :
  sess_of (brun me evs) p = Some l -> forall ad, In ad l <-> intended me evs p ad.
Proof.
  intros H. apply sess_of_in in H. destruct H as [q [Hq [<- Hl]]]. apply offered_exact; assumption.
Qed.

(* sessions exist exactly for the configured peers whose node selectors admit this node *)
Lemma sessions_exact me evs :
  map ps_cfg (bs_peers (brun me evs)) = last_cfg evs /\
  forall q, In q (bs_peers (brun me evs)) -> (ps_sess q <> None <-> should_run (last_labels me evs) (ps_cfg q) = true).
Proof.
  pose proof (binv_run me evs) as I. split; [apply (i_cfg _ _ _ I)|].
  intros q Hq. rewrite <- (i_labels _ _ _ I). apply (i_live _ _ _ I q Hq).
Qed.

Lemma svc_ads_prefix me evs st svc pf :
  binv me evs st -> ((exists a', In a' (svc_ads st svc) /\ ad_pfx a' = pf) <-> svc_prefix me evs svc pf).
Proof.
  intros I. unfold svc_ads, svc_prefix. rewrite (i_ads _ _ _ I). split.
  - intros [a' [Hin Hp]]. destruct (announced_as evs svc) as [[ips advs]|]; [|destruct Hin].
    apply in_make_ads in Hin. destruct Hin as [x [a [Hx [Ha [Hn ->]]]]]. exists ips, advs, x, a. auto 10.
  - intros [ips [advs [x [a [E [Hx [Ha [Hn ->]]]]]]]]. rewrite E. exists (mk_adv x a). split; [|reflexivity].
    apply in_make_ads. exists x, a. auto.
Qed.

(* PeersForService(svc) = the peers with a live session that are offered one of svc's prefixes *)
Lemma peers_for_service_exact me evs svc p :
  In p (bs_active (brun me evs) svc) <->
  exists q l, In q (bs_peers (brun me evs)) /\ pc_name (ps_cfg q) = p /\ ps_sess q = Some l /\
              exists ad, In ad l /\ svc_prefix me evs svc (ad_pfx ad).
Proof.
  pose proof (binv_run me evs) as I. rewrite (i_active _ _ _ I). split.
  - intros [q [Hq [Hn Ho]]]. apply offered_pfx_spec in Ho. destruct Ho as [l [Hl [a [Ha H]]]].
    exists q, l. repeat split; auto. exists a. split; [exact Ha|]. apply (svc_ads_prefix me evs _ svc _ I). exact H.
  - intros [q [l [Hq [Hn [Hl [a [Ha H]]]]]]]. exists q. repeat split; auto. apply offered_pfx_spec.
    exists l. split; [exact Hl|]. exists a. split; [exact Ha|]. apply (svc_ads_prefix me evs _ svc _ I). exact H.
Qed.

(* corollaries *)
Lemma nothing_to_unnamed_peer me evs q l ad :
  In q (bs_peers (brun me evs)) -> ps_sess q = Some l -> In ad l ->
  ad_peers ad = [] \/ In (pc_name (ps_cfg q)) (ad_peers ad).
Proof.
  intros Hq Hl Hin. apply (offered_exact me evs q l Hq Hl) in Hin.
  destruct Hin as [name [ips [advs [x [a [_ [_ [_ [_ [Hp ->]]]]]]]]]]. exact Hp.
Qed.

(* after withdrawing [name], a route stays offered iff another announced service produces it *)
Lemma withdrawn_when_last_producer_leaves me evs name q l :
  In q (bs_peers (brun me (evs ++ [BDel name]))) -> ps_sess q = Some l ->
  forall ad, In ad l <->
    exists name' ips advs x a, name' <> name /\ announced_as evs name' = Some (ips, advs) /\ In x ips /\ In a advs /\
      In me (ba_nodes a) /\ (ba_peers a = [] \/ In (pc_name (ps_cfg q)) (ba_peers a)) /\ ad = mk_adv x a.
Proof.
  intros Hq Hl ad. rewrite (offered_exact me _ q l Hq Hl). unfold intended. split.
  - intros [n [ips [advs [x [a [E H]]]]]]. rewrite announced_snoc in E.
    destruct (N.eqb_spec n name) as [->|Hne]; [discriminate|]. exists n, ips, advs, x, a. tauto.
  - intros [n [ips [advs [x [a [Hne [E H]]]]]]]. exists n, ips, advs, x, a. rewrite announced_snoc.
    destruct (N.eqb_spec n name) as [->|_]; [congruence|]. tauto.
Qed.

(* ---------------------------------------------------------------- session (re)creation rule *)
(* every live session was created from the peer's CURRENT configuration: SetConfig keeps a session only
   for a peer whose whole configuration is unchanged (reflect.DeepEqual), otherwise closes it and opens a
   new one from the new configuration *)
Definition made_ok (st : bstate) : Prop :=
  forall q, In q (bs_peers st) -> ps_sess q <> None -> ps_made q = Some (ps_cfg q).

Lemma made_update st : made_ok st -> made_ok (update_ads st).
Proof.
  intros H q Hq Hl. cbn [update_ads bs_peers] in Hq. apply in_publish in Hq. destruct Hq as [q0 [Hq0 ->]].
  destruct (ps_sess q0) eqn:E; cbn in *; [apply (H q0 Hq0); congruence|apply (H q0 Hq0); exact Hl].
Qed.

Lemma made_sync cr force st : made_ok st -> made_ok (sync_peers_gen cr force st).
Proof.
  intros H. rewrite sync_unfold. cbv zeta.
  assert (H1 : made_ok (with_peers st (map (fun x => fst (fst x)) (map (sync_one (bs_labels st)) (bs_peers st))))).
  { intros q Hq Hl. cbn [with_peers bs_peers] in Hq. rewrite map_map in Hq. apply in_map_iff in Hq. destruct Hq as [q0 [<- Hq0]].
    revert Hl. unfold sync_one. destruct (ps_sess q0) eqn:E, (should_run (bs_labels st) (ps_cfg q0)); cbn; intros Hl; try congruence.
    apply (H q0 Hq0). congruence. }
  destruct (_ || _); [apply made_update; exact H1|exact H1].
Qed.

Lemma made_step me st e : made_ok st -> made_ok (bstep me st e).
Proof.
  intros H. destruct e as [name ips advs|name|cfgs|n labels]; unfold bstep, bstep_gen.
  - unfold bset_balancer. apply made_update. exact H.
  - unfold bdelete. destruct (bs_ads st name); [apply made_update|]; exact H.
  - unfold bset_config_gen. destruct (diff_peers cfgs (bs_peers st)) as [nw o] eqn:D.
    destruct (diff_peers_spec _ _ _ _ D) as [_ [_ [D3 _]]]. apply made_sync.
    intros q Hq Hl. cbn [bs_peers] in Hq. destruct (D3 q Hq) as [Ho|Hn]; [apply (H q Ho Hl)|congruence].
  - unfold bset_node_gen. destruct (negb (n =? me)); [exact H|].
    destruct (bs_labels st); [destruct (lbl_eqb _ _); [exact H|]|]; apply made_sync; exact H.
Qed.

Lemma made_run me evs : made_ok (brun me evs).
Proof.
  induction evs as [|e evs IH] using rev_ind; [intros q []|]. rewrite brun_snoc. apply made_step. exact IH.
Qed.

Lemma NoDup_map_eq {A B} (f : A -> B) l x y : NoDup (map f l) -> In x l -> In y l -> f x = f y -> x = y.
Proof.
  induction l as [|a l IH]; cbn; intros Hnd Hx Hy Hf; [destruct Hx|]. inversion Hnd as [|? ? Ha Hl]; subst.
  destruct Hx as [->|Hx], Hy as [->|Hy]; auto.
  - exfalso. apply Ha. rewrite Hf. apply in_map. exact Hy.
  - exfalso. apply Ha. rewrite <- Hf. apply in_map. exact Hx.
Qed.

(* after any event list: every configured peer selected for this node has exactly one session, and it
   was created from the peer's current configuration; a peer not selected has none *)
Lemma selected_peer_has_one_current_session me evs c :
  NoDup (map pc_name (last_cfg evs)) -> In c (last_cfg evs) ->
  exists q, In q (bs_peers (brun me evs)) /\ ps_cfg q = c /\
            (forall q', In q' (bs_peers (brun me evs)) -> pc_name (ps_cfg q') = pc_name c -> q' = q) /\
            (should_run (last_labels me evs) c = true -> ps_sess q <> None /\ ps_made q = Some c) /\
            (should_run (last_labels me evs) c = false -> ps_sess q = None).
Proof.
  intros Hnd Hc. destruct (sessions_exact me evs) as [Hcfg Hlive].
  rewrite <- Hcfg in Hc, Hnd. apply in_map_iff in Hc. destruct Hc as [q [Hqc Hq]]. exists q.
  split; [exact Hq|]. split; [exact Hqc|]. split.
  - intros q' Hq' Hn. rewrite map_map in Hnd. apply (NoDup_map_eq (fun x => pc_name (ps_cfg x)) _ q' q Hnd Hq' Hq). congruence.
  - rewrite <- Hqc. split.
    + intros Hr. assert (Hl : ps_sess q <> None) by (apply (Hlive q Hq); exact Hr).
      split; [exact Hl|apply (made_run me evs q Hq Hl)].
    + intros Hr. destruct (ps_sess q) eqn:E; [|reflexivity]. exfalso.
      assert (Hl : ps_sess q <> None) by congruence. apply (Hlive q Hq) in Hl. congruence.
Qed.

(* the aggregate contains the address; aggregation never leaves a pool CIDR that is at most as long *)
Lemma mask_inside x a : contains (ad_pfx (mk_adv x a)) x = true.
Proof. cbn [mk_adv ad_pfx]. apply mask_to_contains_self. Qed.

Lemma aggregate_inside_cidr c x a y :
  let len := match x with V4 _ => ba_agg4 a | V6 _ => ba_agg6 a end in
  plen c <= len -> len <= width (pfam c) ->
  contains c x = true -> contains (ad_pfx (mk_adv x a)) y = true -> contains c y = true.
Proof. cbv zeta. cbn [mk_adv ad_pfx]. apply aggregate_contained. Qed.

(* ---------------------------------------------------------------- "one route": what really holds *)
(* The argument list of Session.Set is the concatenation over the Services: an aggregate produced by two
   Services (same attributes) occurs twice in the LIST - it is one route only as an element of the set;
   the same prefix with different attributes (two advertisements / pools) stays two distinct routes. *)
Definition one_route_adv (lp : N) : badv :=
  {| ba_agg4 := 24; ba_agg6 := 128; ba_lp := lp; ba_comms := []; ba_nodes := [0]; ba_peers := [] |}.
Definition one_route_hist (lp1 lp2 : N) : list bev :=
  [ BCfg [ {| pc_name := 1; pc_sels := []; pc_attr := 0; pc_ref := 0 |} ];
    BSet 0 [V4 169090561] [one_route_adv lp1]; BSet 1 [V4 169090562] [one_route_adv lp2] ].

Lemma equal_aggregates_repeat_in_the_list :
  exists ad, sess_of (brun 0 (one_route_hist 100 100)) 1 = Some [ad; ad].
Proof. eexists. vm_compute. reflexivity. Qed.

Lemma same_prefix_different_attributes_two_routes :
  exists a1 a2, sess_of (brun 0 (one_route_hist 100 200)) 1 = Some [a1; a2] /\
                ad_pfx a1 = ad_pfx a2 /\ ad_lp a1 <> ad_lp a2.
Proof. eexists. eexists. vm_compute. split; [reflexivity|]. split; [reflexivity|discriminate]. Qed.

(* what is reported (ServiceBGPStatus) = the peers with a live session offered one of the service's prefixes *)
Lemma reported_status_exact me evs svc :
  let offered p := exists q l, In q (bs_peers (brun me evs)) /\ pc_name (ps_cfg q) = p /\ ps_sess q = Some l /\
                               exists ad, In ad l /\ svc_prefix me evs svc (ad_pfx ad) in
  match published_status (bs_active (brun me evs) svc) with
  | None => forall p, ~ offered p
  | Some l => forall p, In p l <-> offered p
  end.
Proof.
  cbv zeta. unfold published_status. destruct (bs_active (brun me evs) svc) as [|x r] eqn:E.
  - intros p H. apply (peers_for_service_exact me evs svc p) in H. rewrite E in H. exact H.
  - intros p. rewrite <- E. apply peers_for_service_exact.
Qed.
