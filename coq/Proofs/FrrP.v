(* Lemmas about Model/FrrRender.v and Model/FrrSem.v (C14). *)
From Coq Require Import String NArith Bool List Permutation Lia.
From Verif Require Import Model.FrrRender Model.FrrSem Proofs.FrrSortP.
Import ListNotations.
Open Scope string_scope.

Lemma render_nil : render [] = Some (mk_frr [] []).
Proof. reflexivity. Qed.
